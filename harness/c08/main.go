// C08: seeking to a row then reading equals skipping to that row sequentially.
//
// Files with a unique row id in every row (required int64, optional int64,
// list of int64, dictionary encoded string) are written with small pages, one
// or several row groups (also of uneven sizes) and data pages v1 or v2,
// unencrypted and encrypted (both footer modes, footer key and column keys),
// and opened with or without the page index, in sync or async read mode, with
// several read buffer sizes.  Histories of operations
// (ReadPage/ReadRows, SeekToRow, loading the offset index, Reset) are run on
// ColumnChunk.Pages(), RowGroup.Rows(), parquet.NewReader and
// parquet.NewGenericReader, on Column.Pages()/PagesFrom of the leaf columns
// of the file (one page reader over all the row groups), and on the column
// pages and the rows of parquet.MultiRowGroup over all the row groups, flat and
// nested in fixed and random shapes.  Histories of page readers are also
// followed by a sequential read to the end, which observes whatever state the
// history left behind in any row group.  The property predicate is evaluated directly on
// what the implementation returns (it tracks one row position: after
// SeekToRow(k) the rows returned must be k, k+1, ... and errors only happen
// where a fresh sequential reader is at the end), and the per-operation
// outputs (exact first row and count of every page / batch, io.EOF flags) are
// compared with the extracted Coq models: the page cursor (Cursor/Model.v), and
// on top of it the multi-column rowGroupRows over the page layouts of all five
// columns, multiPages, reader/Reader/GenericReader (Cursor/Multi.v),
// columnPages (Cursor/ColumnPages.v), the
// flattening of nested multi row groups (Cursor/Nested.v) and, in
// async read mode, asyncPages under schedules drawn by the model
// (Cursor/AsyncPages.v).
//
// The other public types with a SeekToRow method are in derived.go (merged and
// converted row groups and row readers, buffers; forward-only seekers against
// Cursor/Forward.v) and variant.go (the columnar variant reader, against
// Cursor/VariantLeaves.v); derived_run.go generates their histories.
package main

import (
	"bytes"
	"encoding/json"
	"errors"
	"fmt"
	"io"
	"strconv"
	"strings"
	"time"

	"github.com/parquet-go/parquet-go"

	"verif/harness/core"
)

func main() { core.Main("C08", runC08, replayC08) }

type c08Row struct {
	ID   int64   `parquet:"id"`
	Opt  *int64  `parquet:"opt,optional"`
	List []int64 `parquet:"list,list"`
	S    string  `parquet:"s,dict"`
	// an optional leaf inside an optional group (maximum definition level 2):
	// the group can be present while the leaf is null
	G *c08Grp `parquet:"zg,optional"`
}

type c08Grp struct {
	V *int64 `parquet:"v,optional"`
}

const c08NumCols = 5

var c08ColNames = [c08NumCols]string{"id", "opt", "list", "s", "zg.v"}

func c08MakeRow(r int64) c08Row {
	row := c08Row{ID: r, S: fmt.Sprintf("s%05d", r)}
	if r%4 != 1 {
		v := r * 3
		row.Opt = &v
	}
	for j := int64(0); j < r%4; j++ {
		row.List = append(row.List, r*10+j)
	}
	if r%5 != 0 {
		row.G = &c08Grp{}
		if r%3 != 1 {
			v := r * 7
			row.G.V = &v
		}
	}
	return row
}

// c08Cell is one expected leaf value of a row.
type c08Cell struct {
	null bool
	i    int64
	s    string
	str  bool
}

func c08Expect(col int, r int64) []c08Cell {
	switch col {
	case 0:
		return []c08Cell{{i: r}}
	case 1:
		if r%4 == 1 {
			return []c08Cell{{null: true}}
		}
		return []c08Cell{{i: r * 3}}
	case 2:
		if r%4 == 0 {
			return []c08Cell{{null: true}}
		}
		var out []c08Cell
		for j := int64(0); j < r%4; j++ {
			out = append(out, c08Cell{i: r*10 + j})
		}
		return out
	case 3:
		return []c08Cell{{s: fmt.Sprintf("s%05d", r), str: true}}
	default:
		if r%5 == 0 || r%3 == 1 {
			return []c08Cell{{null: true}}
		}
		return []c08Cell{{i: r * 7}}
	}
}

func c08CellEq(c c08Cell, v parquet.Value) bool {
	if c.null {
		return v.IsNull()
	}
	if v.IsNull() {
		return false
	}
	if c.str {
		return string(v.ByteArray()) == c.s
	}
	return v.Int64() == c.i
}

// c08RowOf guesses which row a group of leaf values belongs to (for messages).
func c08RowOf(col int, vals []parquet.Value) int64 {
	if len(vals) == 0 || vals[0].IsNull() {
		return -1
	}
	switch col {
	case 0:
		return vals[0].Int64()
	case 1:
		return vals[0].Int64() / 3
	case 2:
		return vals[0].Int64() / 10
	case 4:
		return vals[0].Int64() / 7
	default:
		n, err := strconv.ParseInt(strings.TrimPrefix(string(vals[0].ByteArray()), "s"), 10, 64)
		if err != nil {
			return -1
		}
		return n
	}
}

type c08FileParams struct {
	Rows    int   `json:"rows"`
	PageBuf int   `json:"page_buffer_size"`
	RGRows  int64 `json:"max_rows_per_row_group"` // 0: one row group
	Version int   `json:"data_page_version"`
	Batch   int   `json:"write_batch"`
	// rows of each row group, comma separated (Flush after each; the rest of
	// the rows goes to a last row group): row groups of uneven sizes
	Flush string `json:"flush_after_rows,omitempty"`
	// "" | footer | plaintext-footer, optionally followed by "+column-keys"
	// (columns opt and s under their own key): modular encryption, every page
	// is authenticated under its ordinal in the chunk
	Enc string `json:"encryption,omitempty"`
}

type c08Open struct {
	SkipIndex bool `json:"skip_page_index"`
	Async     bool `json:"async"`
	ReadBuf   int  `json:"read_buffer_size,omitempty"` // 0: the default (4 KiB)
}

var (
	c08FooterKey = []byte("c08-footer-key-0")
	c08ColumnKey = []byte("c08-column-key-1")
)

type c08Keys struct{}

func (c08Keys) FooterKey([]byte) ([]byte, error) { return c08FooterKey, nil }
func (c08Keys) ColumnKey(path []string, _ []byte) ([]byte, error) {
	if len(path) == 1 && (path[0] == "opt" || path[0] == "s") {
		return c08ColumnKey, nil
	}
	return c08FooterKey, nil
}

func c08EncOptions(enc string) ([]parquet.WriterOption, error) {
	if enc == "" {
		return nil, nil
	}
	mode, colKeys := strings.CutSuffix(enc, "+column-keys")
	cfg := &parquet.EncryptionConfig{FooterKey: c08FooterKey, FileIdentifier: []byte("c08file!")}
	switch mode {
	case "footer":
		cfg.EncryptedFooter = true
	case "plaintext-footer":
	default:
		return nil, fmt.Errorf("unknown encryption mode %q", enc)
	}
	if colKeys {
		cfg.ColumnKeys = map[string][]byte{"opt": c08ColumnKey, "s": c08ColumnKey}
	}
	return []parquet.WriterOption{parquet.WithEncryption(cfg)}, nil
}

// c08FlushSizes parses the Flush parameter.
func c08FlushSizes(s string) ([]int, error) {
	if s == "" {
		return nil, nil
	}
	var out []int
	for _, t := range strings.Split(s, ",") {
		n, err := strconv.Atoi(t)
		if err != nil || n <= 0 {
			return nil, fmt.Errorf("bad flush_after_rows %q", s)
		}
		out = append(out, n)
	}
	return out, nil
}

// c08Case is a replayable case: how the file is made and opened, which reader
// is exercised and the history.  Ops: "r" ReadPage, "r<n>" ReadRows/Read of n
// rows, "g" Reader.Read of one row, "s<k>" SeekToRow(k), "l" load the offset
// index (ColumnChunk.OffsetIndex), "x" Reset.
type c08Case struct {
	File   c08FileParams `json:"file,omitzero"`
	Open   c08Open       `json:"open,omitzero"`
	Target string        `json:"target"` // pages | rows | reader | generic | multipages | multirows | columnpages
	RG     int           `json:"row_group"`
	Col    int           `json:"column"`
	// multipages / multirows: how the row groups of the file are combined with
	// parquet.MultiRowGroup, e.g. "(((0,1),2),3)" = MultiRowGroup(MultiRowGroup(
	// MultiRowGroup(rg0, rg1), rg2), rg3); "" = MultiRowGroup(all row groups).
	// The leaves are all the row groups in file order, so that whatever the
	// nesting the rows are those of the file.
	Nest string   `json:"nest,omitempty"`
	Ops  []string `json:"ops"`
	// page readers: after the history the reader is read sequentially to its
	// end (ReadPage until io.EOF), so that whatever state the history left
	// behind in any row group is observed: what follows must be the rows of a
	// fresh sequential read from the current position
	Drain bool `json:"drain,omitempty"`
	// columnpages: Column.PagesFrom(a reader over the bytes of the file)
	// instead of Column.Pages()
	From bool `json:"pages_from,omitempty"`
	// readers that are not read straight from the file of the case (derived.go,
	// variant.go): merged / converted row groups and row readers, buffers, the
	// columnar variant reader
	Der *c08Der `json:"derived,omitempty"`
}

// c08BuildNest combines the row groups as the nest expression says.
func c08BuildNest(nest string, rgs []parquet.RowGroup) (parquet.RowGroup, error) {
	if nest == "" {
		return parquet.MultiRowGroup(rgs...), nil
	}
	pos, next := 0, 0
	var parse func(depth int) (parquet.RowGroup, error)
	parse = func(depth int) (parquet.RowGroup, error) {
		if pos >= len(nest) || depth > 16 {
			return nil, fmt.Errorf("bad nest %q", nest)
		}
		if nest[pos] != '(' {
			start := pos
			for pos < len(nest) && nest[pos] >= '0' && nest[pos] <= '9' {
				pos++
			}
			i, err := strconv.Atoi(nest[start:pos])
			if err != nil || i != next || i >= len(rgs) {
				return nil, fmt.Errorf("bad nest %q: the leaves must be the row groups 0..%d in order", nest, len(rgs)-1)
			}
			next++
			return rgs[i], nil
		}
		pos++
		var children []parquet.RowGroup
		for {
			child, err := parse(depth + 1)
			if err != nil {
				return nil, err
			}
			children = append(children, child)
			if pos < len(nest) && nest[pos] == ',' {
				pos++
				continue
			}
			if pos < len(nest) && nest[pos] == ')' {
				pos++
				return parquet.MultiRowGroup(children...), nil
			}
			return nil, fmt.Errorf("bad nest %q", nest)
		}
	}
	rg, err := parse(0)
	if err != nil {
		return nil, err
	}
	if pos != len(nest) || next != len(rgs) {
		return nil, fmt.Errorf("bad nest %q: the leaves must be the row groups 0..%d in order", nest, len(rgs)-1)
	}
	return rg, nil
}

// c08NestShapes: the shapes of depth 1..3 (and one of depth 4) over n >= 4
// row groups: flat, left-deep, right-deep, pairs, a deep group in the middle,
// a group wrapped in one-element groups, a flat group inside a deep one.
func c08NestShapes(n int) []string {
	if n < 4 {
		return []string{""}
	}
	seq := func(from, to int) string { // "from,...,to-1"
		var parts []string
		for i := from; i < to; i++ {
			parts = append(parts, strconv.Itoa(i))
		}
		return strings.Join(parts, ",")
	}
	rest := ""
	if n > 4 {
		rest = "," + seq(4, n)
	}
	return []string{
		"",
		"((0,1),(" + seq(2, n) + "))",
		"(((0,1),2),3" + rest + ")",
		"(0,(1,(" + seq(2, n) + ")))",
		"(0,((1,2),3)" + rest + ")",
		"((((0),1)),2,3" + rest + ")",
		"((((0,1),2),3)" + rest + ")",
		"((0,1,2),3" + rest + ")",
	}
}

// c08RandomNest: a random bracketing of the row groups 0..n-1, at most depth
// levels of MultiRowGroup.
func c08RandomNest(rng interface{ Intn(int) int }, n, depth int) string {
	var gen func(lo, hi, d int) string
	gen = func(lo, hi, d int) string {
		if hi-lo == 1 && (d == 0 || rng.Intn(4) != 0) {
			return strconv.Itoa(lo)
		}
		if d == 0 {
			var parts []string
			for i := lo; i < hi; i++ {
				parts = append(parts, strconv.Itoa(i))
			}
			return strings.Join(parts, ",")
		}
		// cut [lo, hi) into 1..3 runs, each a leaf, a flat run or a nested group
		var parts []string
		for lo < hi {
			k := 1 + rng.Intn(hi-lo)
			if k == 1 && rng.Intn(3) != 0 {
				parts = append(parts, strconv.Itoa(lo))
			} else {
				parts = append(parts, "("+gen(lo, lo+k, d-1)+")")
			}
			lo += k
		}
		return strings.Join(parts, ",")
	}
	return "(" + gen(0, n, depth-1) + ")"
}

type c08Built struct {
	data   []byte
	rgRows []int64     // rows per row group
	rgOff  []int64     // global number of the first row of each row group
	layout [][][]int64 // [rg][col] -> rows per page (from a sequential read)
	dict   [][]bool    // [rg][col] -> the chunk has a dictionary page
	total  int64
	plain  *parquet.File // opened with the default options (page index loaded)
}

var c08Files = map[c08FileParams]*c08Built{}

func c08Build(p c08FileParams) (*c08Built, error) {
	if b, ok := c08Files[p]; ok {
		return b, nil
	}
	var buf bytes.Buffer
	opts := []parquet.WriterOption{parquet.PageBufferSize(p.PageBuf), parquet.DataPageVersion(p.Version)}
	if p.RGRows > 0 {
		opts = append(opts, parquet.MaxRowsPerRowGroup(p.RGRows))
	}
	encOpts, err := c08EncOptions(p.Enc)
	if err != nil {
		return nil, err
	}
	opts = append(opts, encOpts...)
	flush, err := c08FlushSizes(p.Flush)
	if err != nil {
		return nil, err
	}
	w := parquet.NewGenericWriter[c08Row](&buf, opts...)
	batch := p.Batch
	if batch <= 0 {
		batch = 7
	}
	// the rows are written in batches; a batch ends where a row group is flushed
	ends := []int{}
	for at, g := 0, 0; g < len(flush) && at+flush[g] < p.Rows; g++ {
		at += flush[g]
		ends = append(ends, at)
	}
	ends = append(ends, p.Rows)
	i := 0
	for g, end := range ends {
		for i < end {
			k := batch
			if i+k > end {
				k = end - i
			}
			rows := make([]c08Row, k)
			for j := range rows {
				rows[j] = c08MakeRow(int64(i + j))
			}
			if _, err := w.Write(rows); err != nil {
				return nil, err
			}
			i += k
		}
		if g < len(ends)-1 {
			if err := w.Flush(); err != nil {
				return nil, err
			}
		}
	}
	if err := w.Close(); err != nil {
		return nil, err
	}
	b := &c08Built{data: buf.Bytes()}
	f, err := parquet.OpenFile(bytes.NewReader(b.data), int64(len(b.data)), c08DecOptions(p)...)
	if err != nil {
		return nil, err
	}
	b.plain = f
	b.total = f.NumRows()
	if len(f.Schema().Columns()) != c08NumCols {
		return nil, fmt.Errorf("unexpected leaf columns %v", f.Schema().Columns())
	}
	off := int64(0)
	for g, rg := range f.RowGroups() {
		b.rgRows = append(b.rgRows, rg.NumRows())
		b.rgOff = append(b.rgOff, off)
		off += rg.NumRows()
		var lay [][]int64
		var dict []bool
		for ci, cc := range rg.ColumnChunks() {
			var counts []int64
			pages := cc.Pages()
			for {
				pg, err := pages.ReadPage()
				if err != nil {
					if err != io.EOF {
						return nil, fmt.Errorf("sequential read of row group %d column %d: %w", g, ci, err)
					}
					break
				}
				counts = append(counts, pg.NumRows())
				parquet.Release(pg)
			}
			pages.Close()
			// the offset index must describe the same layout
			oi, err := cc.OffsetIndex()
			if err != nil {
				return nil, fmt.Errorf("offset index of row group %d column %d: %w", g, ci, err)
			}
			if oi.NumPages() != len(counts) {
				return nil, fmt.Errorf("row group %d column %d: offset index has %d pages, sequential read %d", g, ci, oi.NumPages(), len(counts))
			}
			first := int64(0)
			for i, n := range counts {
				if oi.FirstRowIndex(i) != first {
					return nil, fmt.Errorf("row group %d column %d page %d: FirstRowIndex %d, sequential read says %d", g, ci, i, oi.FirstRowIndex(i), first)
				}
				first += n
			}
			lay = append(lay, counts)
			dict = append(dict, f.Metadata().RowGroups[g].Columns[ci].MetaData.DictionaryPageOffset != 0)
		}
		b.layout = append(b.layout, lay)
		b.dict = append(b.dict, dict)
	}
	c08Files[p] = b
	return b, nil
}

func c08DecOptions(p c08FileParams) []parquet.FileOption {
	if p.Enc == "" {
		return nil
	}
	return []parquet.FileOption{parquet.WithDecryption(c08Keys{})}
}

type c08OpenKey struct {
	p c08FileParams
	o c08Open
}

var c08Opened = map[c08OpenKey]*parquet.File{}

// c08OpenFile opens the file with the options of the case.  A file opened with
// SkipPageIndex remembers a lazily loaded offset index, so such files are
// opened afresh for every history.
func c08OpenFile(b *c08Built, p c08FileParams, o c08Open) (*parquet.File, error) {
	if !o.SkipIndex && !o.Async && o.ReadBuf == 0 {
		return b.plain, nil
	}
	key := c08OpenKey{p, o}
	if !o.SkipIndex {
		if f, ok := c08Opened[key]; ok {
			return f, nil
		}
	}
	opts := c08DecOptions(p)
	if o.SkipIndex {
		opts = append(opts, parquet.SkipPageIndex(true))
	}
	if o.ReadBuf > 0 {
		opts = append(opts, parquet.ReadBufferSize(o.ReadBuf))
	}
	if o.Async {
		opts = append(opts, parquet.FileReadMode(parquet.ReadModeAsync))
	}
	f, err := parquet.OpenFile(bytes.NewReader(b.data), int64(len(b.data)), opts...)
	if err != nil {
		return nil, err
	}
	if !o.SkipIndex {
		c08Opened[key] = f
	}
	return f, nil
}

func c08Err(err error) string {
	switch {
	case err == nil:
		return "k"
	case err == io.EOF:
		return "e"
	case errors.Is(err, parquet.ErrSeekOutOfRange):
		return "o"
	default:
		return "E"
	}
}

// c08Result of running one history on the implementation.
type c08Result struct {
	outs []string // canonical per-op outputs, in the syntax of the oracle
	kind string   // "" when the property predicate held, otherwise the kind of failure
	what string
}

func (r *c08Result) fail(kind, format string, a ...any) {
	if r.kind == "" {
		r.kind = kind
		r.what = fmt.Sprintf(format, a...)
	}
}

func c08ParseOp(op string) (byte, int64) {
	if len(op) == 1 {
		return op[0], -1
	}
	n, err := strconv.ParseInt(op[1:], 10, 64)
	if err != nil {
		return '?', -1
	}
	return op[0], n
}

// c08SplitRows groups the values of a page into rows.
func c08SplitRows(vals []parquet.Value) [][]parquet.Value {
	var rows [][]parquet.Value
	for i, v := range vals {
		if v.RepetitionLevel() == 0 || i == 0 {
			rows = append(rows, nil)
		}
		rows[len(rows)-1] = append(rows[len(rows)-1], v)
	}
	return rows
}

func c08PageValues(pg parquet.Page) ([]parquet.Value, error) {
	// to the end of the value reader (the NumValues of the page of a RowBuffer
	// leaves the nulls out)
	vals := make([]parquet.Value, pg.NumValues()+1)
	vr := pg.Values()
	n := 0
	for n < 1<<22 {
		if n == len(vals) {
			vals = append(vals, make([]parquet.Value, len(vals))...)
		}
		k, err := vr.ReadValues(vals[n:])
		n += k
		if err != nil {
			if err == io.EOF {
				break
			}
			return nil, err
		}
		if k == 0 {
			break
		}
	}
	return vals[:n], nil
}

// c08RunPages runs a history on the pages of a column chunk: a chunk of a row
// group of the file (N rows, the first one is row off of the file) or the
// column of the MultiRowGroup over all row groups.
func c08RunPages(cc parquet.ColumnChunk, N, off int64, cs *c08Case, res *c08Result) {
	c08RunPagesOn(cc.Pages(), func() error { _, err := cc.OffsetIndex(); return err }, N, off, cs, res)
}

// c08RunPagesOn runs a history on a page reader over N rows; loadIndex (nil:
// not available) loads the offset index of the chunk underneath.
func c08RunPagesOn(pages parquet.Pages, loadIndex func() error, N, off int64, cs *c08Case, res *c08Result) {
	c08RunPagesExp(pages, loadIndex, N, off, cs, res, nil)
}

// c08PageExp: what the pages of a derived column hold: the id of the row at
// every position and the column of c08Row whose values they are (-1: a column
// that the source lacks: one null per row).
type c08PageExp struct {
	ids []int64
	col int
}

func c08RunPagesExp(pages parquet.Pages, loadIndex func() error, N, off int64, cs *c08Case, res *c08Result, px *c08PageExp) {
	defer pages.Close()
	pos := int64(0)
	expCol := cs.Col
	idAt := func(p int64) int64 { return off + p }
	posOf := func(id int64) int64 { return id - off }
	if px != nil {
		expCol = px.col
		idAt = func(p int64) int64 {
			if p < 0 || p >= int64(len(px.ids)) {
				return -1
			}
			return px.ids[p]
		}
		posOf = func(id int64) int64 {
			for p, x := range px.ids {
				if x == id {
					return int64(p)
				}
			}
			return -1
		}
	}
	expect := func(p int64) []c08Cell {
		if expCol < 0 {
			return []c08Cell{{null: true}}
		}
		return c08Expect(expCol, idAt(p))
	}
	rowOf := func(vals []parquet.Value) int64 {
		if expCol < 0 {
			return -1
		}
		if id := c08RowOf(expCol, vals); id >= 0 {
			return posOf(id)
		}
		return -1
	}
	// readPage: one ReadPage; false when it returned an error
	readPage := func(what string) bool {
		pg, err := pages.ReadPage()
		if err != nil {
			e := c08Err(err)
			res.outs = append(res.outs, e)
			if e != "e" {
				res.fail("error", "%s ReadPage at row %d of %d: unexpected error %v", what, pos, N, err)
			} else if pos < N {
				res.fail("early-eof", "%s ReadPage at row %d of %d returned io.EOF", what, pos, N)
			}
			return false
		}
		n := pg.NumRows()
		vals, verr := c08PageValues(pg)
		rows := c08SplitRows(vals)
		first := int64(-1)
		if len(rows) > 0 {
			first = rowOf(rows[0])
		}
		good := verr == nil && int64(len(rows)) == n && n > 0 && pos+n <= N
		if good {
			for j, rv := range rows {
				exp := expect(pos + int64(j))
				if len(exp) != len(rv) {
					good = false
					break
				}
				for x := range exp {
					if !c08CellEq(exp[x], rv[x]) {
						good = false
					}
				}
				if !good {
					if r := rowOf(rv); r >= 0 && first < 0 {
						first = r - int64(j)
					}
					break
				}
			}
		}
		parquet.Release(pg)
		if good {
			res.outs = append(res.outs, fmt.Sprintf("p%x.%x", pos, n))
		} else {
			res.outs = append(res.outs, fmt.Sprintf("p?%d.%d", first, n))
			res.fail("wrong-rows", "%s ReadPage: expected rows starting at %d, got a page of %d rows (%d row value groups) that starts at row %d (column %s)", what, pos, n, len(rows), first, c08ColName(expCol))
		}
		pos += n
		return true
	}
	for i, op := range cs.Ops {
		code, arg := c08ParseOp(op)
		switch {
		case code == 'r' && arg < 0:
			readPage(fmt.Sprintf("op %d", i))
		case code == 's':
			err := pages.SeekToRow(arg)
			e := c08Err(err)
			res.outs = append(res.outs, e)
			if err != nil {
				res.fail("error", "op %d SeekToRow(%d) on a chunk of %d rows: unexpected error %v", i, arg, N, err)
			} else {
				pos = arg
			}
		case code == 'l' && loadIndex != nil:
			if err := loadIndex(); err != nil {
				res.fail("error", "op %d OffsetIndex(): %v", i, err)
			}
			res.outs = append(res.outs, "d")
		default:
			res.outs = append(res.outs, "?")
			res.fail("bad-op", "op %q does not apply to this page reader", op)
		}
	}
	if cs.Drain {
		// every page holds at least one row: at most N pages, then io.EOF
		ended := false
		for n := int64(0); n < N+2 && !ended; n++ {
			ended = !readPage(fmt.Sprintf("sequential read %d after the history:", n))
		}
		if !ended {
			res.fail("no-eof", "the sequential read after the history returned %d pages on %d rows and no io.EOF", N+2, N)
		}
	}
}

// c08LeafColumn walks from the root of the file to leaf col by name:
// f.Root().Column(...)...
func c08LeafColumn(f *parquet.File, col int) *parquet.Column {
	paths := f.Schema().Columns()
	if col < 0 || col >= len(paths) {
		return nil
	}
	c := f.Root()
	for _, name := range paths[col] {
		if c = c.Column(name); c == nil {
			return nil
		}
	}
	if !c.Leaf() {
		return nil
	}
	return c
}

// c08RowsTarget abstracts RowGroup.Rows(), Reader and GenericReader.
type c08RowsTarget interface {
	read(n int, first int64) (cnt int, err error, bad string)
	read1(first int64) (cnt int, err error, bad string, ok bool)
	// parquet.CopyRows from the reader into a destination of the kind (copy.go)
	copy(kind int64, first int64) (cnt int, err error, bad string, ok bool)
	seek(k int64) error
	reset() bool
	close()
}

type c08RowReader struct {
	r   c08Rows
	off int64
	buf []parquet.Row
	// derived readers: the id of the row expected at every position (nil: the
	// position itself, plus off) and how a row is compared with the row of an
	// id (nil: c08CheckRow)
	ids   []int64
	check func(row parquet.Row, id int64) string
}

// c08Rows is what a row reader under test offers (parquet.Rows, or the
// RowReader + RowSeeker of ConvertRowReader).
type c08Rows interface {
	parquet.RowReader
	parquet.RowSeeker
}

func (t *c08RowReader) idAt(p int64) int64 {
	if t.ids == nil {
		return t.off + p
	}
	if p < 0 || p >= int64(len(t.ids)) {
		return -1
	}
	return t.ids[p]
}

func c08CheckRow(row parquet.Row, r int64) string {
	var byCol [c08NumCols][]parquet.Value
	for _, v := range row {
		c := v.Column()
		if c < 0 || c >= c08NumCols {
			return fmt.Sprintf("value with column index %d", c)
		}
		byCol[c] = append(byCol[c], v)
	}
	for c := 0; c < c08NumCols; c++ {
		exp := c08Expect(c, r)
		if len(exp) != len(byCol[c]) {
			return fmt.Sprintf("expected row %d, column %s has %d values (row %d?)", r, c08ColNames[c], len(byCol[c]), c08RowOf(c, byCol[c]))
		}
		for x := range exp {
			if !c08CellEq(exp[x], byCol[c][x]) {
				return fmt.Sprintf("expected row %d, column %s holds row %d", r, c08ColNames[c], c08RowOf(c, byCol[c]))
			}
		}
	}
	return ""
}

func (t *c08RowReader) read(n int, first int64) (int, error, string) {
	if cap(t.buf) < n {
		t.buf = make([]parquet.Row, n)
	}
	rows := t.buf[:n]
	cnt, err := t.r.ReadRows(rows)
	if cnt < 0 || cnt > n {
		return cnt, err, fmt.Sprintf("ReadRows returned %d for %d rows", cnt, n)
	}
	check := t.check
	if check == nil {
		check = c08CheckRow
	}
	for j := 0; j < cnt; j++ {
		id := t.idAt(first + int64(j))
		if id < 0 {
			return cnt, err, fmt.Sprintf("row %d of the batch: a row at position %d, beyond the last row", j, first+int64(j))
		}
		if bad := check(rows[j], id); bad != "" {
			return cnt, err, fmt.Sprintf("row %d of the batch: %s", j, bad)
		}
	}
	return cnt, err, ""
}

// read1 is Reader.Read: one row into a Go value.
func (t *c08RowReader) read1(first int64) (int, error, string, bool) {
	r, ok := t.r.(*parquet.Reader)
	if !ok {
		return 0, nil, "", false
	}
	var row c08Row
	if err := r.Read(&row); err != nil {
		return 0, err, "", true
	}
	if bad := c08CheckGoRow(&row, t.off+first); bad != "" {
		return 1, nil, bad, true
	}
	return 1, nil, "", true
}
func (t *c08RowReader) seek(k int64) error { return t.r.SeekToRow(k) }
func (t *c08RowReader) reset() bool {
	if r, ok := t.r.(interface{ Reset() }); ok {
		r.Reset()
		return true
	}
	return false
}
func (t *c08RowReader) close() {
	// (the reader of ConvertRowReader is an io.Closer too: its Close used to
	// dereference an embedded interface that is nil, repaired in 0ed8efd)
	if cl, ok := t.r.(io.Closer); ok {
		cl.Close()
	}
}

type c08GenericReader struct {
	r   *parquet.GenericReader[c08Row]
	buf []c08Row
}

func (t *c08GenericReader) read(n int, first int64) (int, error, string) {
	if cap(t.buf) < n {
		t.buf = make([]c08Row, n)
	}
	rows := t.buf[:n]
	for i := range rows {
		rows[i] = c08Row{}
	}
	cnt, err := t.r.Read(rows)
	if cnt < 0 || cnt > n {
		return cnt, err, fmt.Sprintf("Read returned %d for %d rows", cnt, n)
	}
	for j := 0; j < cnt; j++ {
		if bad := c08CheckGoRow(&rows[j], first+int64(j)); bad != "" {
			return cnt, err, fmt.Sprintf("row %d of the batch: %s", j, bad)
		}
	}
	return cnt, err, ""
}
func (t *c08GenericReader) read1(int64) (int, error, string, bool) { return 0, nil, "", false }

// c08CheckGoRow compares a reconstructed row with row r of the file, every
// column included.
func c08CheckGoRow(got *c08Row, r int64) string {
	want := c08MakeRow(r)
	ok := got.ID == want.ID && got.S == want.S && (got.Opt == nil) == (want.Opt == nil) && len(got.List) == len(want.List)
	if ok && got.Opt != nil && *got.Opt != *want.Opt {
		ok = false
	}
	if ok {
		for x := range want.List {
			if got.List[x] != want.List[x] {
				ok = false
			}
		}
	}
	if ok && (got.G == nil) != (want.G == nil) {
		ok = false
	}
	if ok && got.G != nil {
		if (got.G.V == nil) != (want.G.V == nil) || (got.G.V != nil && *got.G.V != *want.G.V) {
			ok = false
		}
	}
	if !ok {
		g := "nil"
		if got.G != nil {
			g = "{nil}"
			if got.G.V != nil {
				g = fmt.Sprintf("{%d}", *got.G.V)
			}
		}
		return fmt.Sprintf("expected row %d, got id=%d s=%q list=%v zg=%s", want.ID, got.ID, got.S, got.List, g)
	}
	return ""
}
func (t *c08GenericReader) seek(k int64) error { return t.r.SeekToRow(k) }
func (t *c08GenericReader) reset() bool        { t.r.Reset(); return true }
func (t *c08GenericReader) close()             { t.r.Close() }

func c08RunRows(t c08RowsTarget, N int64, cs *c08Case, res *c08Result) {
	defer t.close()
	pos := int64(0)
	fwd := c08ForwardOnly(cs.Target)
	for i, op := range cs.Ops {
		code, arg := c08ParseOp(op)
		switch {
		case code == 'r' && arg >= 0:
			cnt, err, bad := t.read(int(arg), pos)
			e := c08Err(err)
			eof := "0"
			if e == "e" {
				eof = "1"
			}
			if bad != "" {
				res.outs = append(res.outs, fmt.Sprintf("i?%d/%s", cnt, eof))
				res.fail("wrong-rows", "op %d read of %d rows at row %d: %s", i, arg, pos, bad)
				pos += int64(cnt)
				continue
			}
			if cnt > 0 {
				res.outs = append(res.outs, fmt.Sprintf("i%x.%x/%s", pos, cnt, eof))
			} else {
				res.outs = append(res.outs, "i/"+eof)
			}
			switch {
			case e != "k" && e != "e":
				res.fail("error", "op %d read of %d rows at row %d of %d: unexpected error %v", i, arg, pos, N, err)
			case e == "e" && pos+int64(cnt) < N:
				res.fail("early-eof", "op %d read of %d rows at row %d of %d returned %d rows and io.EOF", i, arg, pos, N, cnt)
			case cnt == 0 && arg > 0 && e != "e":
				res.fail("no-progress", "op %d read of %d rows at row %d of %d returned 0 rows and no error", i, arg, pos, N)
			case cnt > 0 && pos+int64(cnt) > N:
				res.fail("wrong-rows", "op %d read of %d rows at row %d of %d returned %d rows", i, arg, pos, N, cnt)
			}
			pos += int64(cnt)
		case code == 'g':
			cnt, err, bad, ok := t.read1(pos)
			if !ok {
				res.outs = append(res.outs, "?")
				res.fail("bad-op", "the reader has no Read(row) method")
				continue
			}
			e := c08Err(err)
			switch {
			case bad != "":
				res.outs = append(res.outs, "i?1/0")
				res.fail("wrong-rows", "op %d Read at row %d: %s", i, pos, bad)
			case cnt == 1:
				res.outs = append(res.outs, fmt.Sprintf("i%x.1/0", pos))
				if pos >= N {
					res.fail("wrong-rows", "op %d Read at row %d of %d returned a row", i, pos, N)
				}
			case e == "e":
				res.outs = append(res.outs, "i/1")
				if pos < N {
					res.fail("early-eof", "op %d Read at row %d of %d returned io.EOF", i, pos, N)
				}
			default:
				res.outs = append(res.outs, "i/"+e)
				res.fail("error", "op %d Read at row %d of %d: unexpected error %v", i, pos, N, err)
			}
			pos += int64(cnt)
		case code == 'c' && arg >= 0:
			// parquet.CopyRows of the rest of the reader: the batch of a read to the end
			cnt, err, bad, ok := t.copy(arg, pos)
			if !ok {
				res.outs = append(res.outs, "?")
				res.fail("bad-op", "no destination of kind %d", arg)
				continue
			}
			if bad != "" {
				res.outs = append(res.outs, fmt.Sprintf("i?%d/1", cnt))
				res.fail("wrong-rows", "op %d CopyRows at row %d of %d: %s", i, pos, N, bad)
				pos += int64(cnt)
				continue
			}
			if cnt > 0 {
				res.outs = append(res.outs, fmt.Sprintf("i%x.%x/1", pos, cnt))
			} else {
				res.outs = append(res.outs, "i/1")
			}
			switch {
			case err != nil:
				res.fail("error", "op %d CopyRows at row %d of %d: unexpected error %v", i, pos, N, err)
			case pos+int64(cnt) < N:
				res.fail("early-eof", "op %d CopyRows at row %d of %d copied %d rows", i, pos, N, cnt)
			case cnt > 0 && pos+int64(cnt) > N:
				res.fail("wrong-rows", "op %d CopyRows at row %d of %d copied %d rows", i, pos, N, cnt)
			}
			pos += int64(cnt)
			if fwd && pos < N {
				pos = N
			}
		case code == 's':
			err := t.seek(arg)
			e := c08Err(err)
			switch {
			case err == nil:
				res.outs = append(res.outs, e)
				pos = arg
			case fwd && arg < pos:
				// a reader that documents forward-only seeking refuses to go
				// back: the position is unchanged
				res.outs = append(res.outs, "b")
			case fwd && e == "e" && arg >= N:
				// a forward seek made by reading reached the end: that is where a
				// sequential reader skipping to the row is
				res.outs = append(res.outs, "e")
				pos = N
			default:
				res.outs = append(res.outs, e)
				res.fail("error", "op %d SeekToRow(%d) on %d rows at row %d: unexpected error %v", i, arg, N, pos, err)
			}
		case code == 'x':
			if !t.reset() {
				res.fail("bad-op", "the reader has no Reset method")
			}
			res.outs = append(res.outs, "d")
			pos = 0
		default:
			res.outs = append(res.outs, "?")
			res.fail("bad-op", "op %q does not apply to a row reader", op)
		}
	}
}

// c08Exec runs the history of a case on the implementation.
func c08Exec(cs *c08Case) (res *c08Result, b *c08Built) {
	res = &c08Result{}
	needsFile := c08NeedsFile(cs)
	if needsFile {
		var err error
		if b, err = c08Build(cs.File); err != nil {
			res.fail("file", "cannot build or read the file sequentially: %v", err)
			return res, nil
		}
	}
	body := func() {
		defer func() {
			if r := recover(); r != nil {
				res.fail("panic", "panic: %v", r)
			}
		}()
		var f *parquet.File
		if needsFile {
			var err error
			if f, err = c08OpenFile(b, cs.File, cs.Open); err != nil {
				res.fail("file", "open: %v", err)
				return
			}
		}
		switch cs.Target {
		case "pages":
			if cs.RG >= len(b.rgRows) || cs.Col >= c08NumCols {
				res.fail("bad-op", "no such row group / column")
				return
			}
			c08RunPages(f.RowGroups()[cs.RG].ColumnChunks()[cs.Col], b.rgRows[cs.RG], b.rgOff[cs.RG], cs, res)
		case "multipages":
			// the column of the MultiRowGroup over all row groups: multiPages
			if len(b.rgRows) < 2 || cs.Col >= c08NumCols {
				res.fail("bad-op", "multipages needs at least two row groups")
				return
			}
			mrg, err := c08BuildNest(cs.Nest, f.RowGroups())
			if err != nil {
				res.fail("bad-op", "%v", err)
				return
			}
			c08RunPages(mrg.ColumnChunks()[cs.Col], b.total, 0, cs, res)
		case "columnpages":
			// the pages of a column of the file over all its row groups: columnPages
			col := c08LeafColumn(f, cs.Col)
			if col == nil {
				res.fail("bad-op", "no such leaf column")
				return
			}
			var pages parquet.Pages
			if cs.From {
				pages = col.PagesFrom(bytes.NewReader(b.data))
			} else {
				pages = col.Pages()
			}
			c08RunPagesOn(pages, nil, b.total, 0, cs, res)
		case "multirows":
			if len(b.rgRows) < 2 {
				res.fail("bad-op", "multirows needs at least two row groups")
				return
			}
			mrg, err := c08BuildNest(cs.Nest, f.RowGroups())
			if err != nil {
				res.fail("bad-op", "%v", err)
				return
			}
			t := &c08RowReader{r: mrg.Rows()}
			c08RunRows(t, b.total, cs, res)
		case "rows":
			if cs.RG >= len(b.rgRows) {
				res.fail("bad-op", "no such row group")
				return
			}
			t := &c08RowReader{r: f.RowGroups()[cs.RG].Rows(), off: b.rgOff[cs.RG]}
			c08RunRows(t, b.rgRows[cs.RG], cs, res)
		case "reader":
			t := &c08RowReader{r: parquet.NewReader(f)}
			c08RunRows(t, b.total, cs, res)
		case "generic":
			t := &c08GenericReader{r: parquet.NewGenericReader[c08Row](f)}
			c08RunRows(t, b.total, cs, res)
		default:
			if !c08ExecDerived(cs, b, f, res) {
				res.fail("bad-op", "unknown target %q", cs.Target)
			}
		}
	}
	if cs.Open.Async {
		// a protocol error of the background page reader would block forever
		done := make(chan struct{})
		go func() { defer close(done); body() }()
		select {
		case <-done:
		case <-time.After(20 * time.Second):
			res = &c08Result{}
			res.fail("hang", "the history did not finish within 20s (async read mode)")
		}
	} else {
		body()
	}
	return res, b
}

func c08Hex(xs []int64) string {
	if len(xs) == 0 {
		return "_"
	}
	parts := make([]string, len(xs))
	for i, x := range xs {
		parts[i] = fmt.Sprintf("%x", x)
	}
	return strings.Join(parts, ",")
}

func c08OpsTok(ops []string) string {
	if len(ops) == 0 {
		return "_"
	}
	parts := make([]string, len(ops))
	for i, op := range ops {
		code, arg := c08ParseOp(op)
		if arg >= 0 {
			parts[i] = fmt.Sprintf("%c%x", code, arg)
		} else {
			parts[i] = string(code)
		}
	}
	return strings.Join(parts, ",")
}

// c08ColsOfRG: the page layout of every column chunk of a row group ("/" between columns).
func c08ColsOfRG(b *c08Built, g int) string {
	parts := make([]string, c08NumCols)
	for c := range parts {
		parts[c] = c08Hex(b.layout[g][c])
	}
	return strings.Join(parts, "/")
}

// c08ChunksOfCol: the page layout of the chunk of a column in every row group (";" between row groups).
func c08ChunksOfCol(b *c08Built, col int) string {
	parts := make([]string, len(b.layout))
	for g := range parts {
		parts[g] = c08Hex(b.layout[g][col])
	}
	return strings.Join(parts, ";")
}

// c08ColsOfFile: every column ("/") with its chunk in every row group (";").
func c08ColsOfFile(b *c08Built) string {
	parts := make([]string, c08NumCols)
	for c := range parts {
		parts[c] = c08ChunksOfCol(b, c)
	}
	return strings.Join(parts, "/")
}

// c08Modelled: the case as the models see it: the sequential read after the
// history written out as the ReadPage operations that were made.
func c08Modelled(cs *c08Case, res *c08Result) *c08Case {
	if !cs.Drain {
		return cs
	}
	t := *cs
	t.Drain = false
	t.Ops = append([]string(nil), cs.Ops...)
	for len(t.Ops) < len(res.outs) {
		t.Ops = append(t.Ops, "r")
	}
	return &t
}

// c08Request is the oracle request that models the case: the faithful model of
// the current code for every target (page cursor; rowGroupRows over the five
// column cursors; multiPages; columnPages; reader/Reader/GenericReader over the
// row groups).
func c08Request(cs *c08Case, b *c08Built, res *c08Result) string {
	if c08IsDerived(cs.Target) {
		return c08DerivedRequest(cs, b, res)
	}
	m := "idx"
	if cs.Open.SkipIndex {
		m = "noidx"
	}
	switch cs.Target {
	case "pages":
		if cs.Open.SkipIndex {
			m = "lazy"
		}
		return "c08.pages " + m + " " + c08Hex(b.layout[cs.RG][cs.Col]) + " " + c08OpsTok(cs.Ops)
	case "multipages":
		if cs.Nest != "" {
			// the flattening of multiRowGroup.init over the nested applications
			return "c08.nested " + m + " " + cs.Nest + " " + c08ChunksOfCol(b, cs.Col) + " " + c08OpsTok(cs.Ops)
		}
		return "c08.mpages " + m + " " + c08ChunksOfCol(b, cs.Col) + " " + c08OpsTok(cs.Ops)
	case "columnpages":
		return "c08.cpages " + m + " " + c08ChunksOfCol(b, cs.Col) + " " + c08OpsTok(cs.Ops)
	case "rows":
		return "c08.mrows " + m + " " + c08ColsOfRG(b, cs.RG) + " " + c08OpsTok(cs.Ops)
	case "multirows":
		return "c08.mgrows " + m + " " + c08ColsOfFile(b) + " " + c08OpsTok(cs.Ops)
	default:
		// a file with one row group is read through the row group itself
		if len(b.rgRows) == 1 {
			m += "1"
		}
		ops := c08OpsTok(cs.Ops)
		if cs.Target == "generic" {
			// GenericReader.Read
			ops = strings.ReplaceAll(","+ops, ",r", ",G")[1:]
		}
		return "c08.reader " + m + " " + c08ColsOfFile(b) + " " + ops
	}
}

// c08SpecRequest: the row-position specification of the case (what the theorems
// say the model request above returns).
func c08SpecRequest(cs *c08Case, b *c08Built) string {
	switch cs.Target {
	case "multipages":
		return "c08.mpages spec " + c08ChunksOfCol(b, cs.Col) + " " + c08OpsTok(cs.Ops)
	case "columnpages":
		return "c08.cpages spec " + c08ChunksOfCol(b, cs.Col) + " " + c08OpsTok(cs.Ops)
	case "rows":
		if cs.Open.SkipIndex {
			return ""
		}
		return "c08.mrows spec " + c08ColsOfRG(b, cs.RG) + " " + c08OpsTok(cs.Ops)
	case "multirows":
		return "c08.mgrows spec " + c08ColsOfFile(b) + " " + c08OpsTok(cs.Ops)
	case "reader", "generic":
		ops := c08OpsTok(cs.Ops)
		if cs.Target == "generic" {
			ops = strings.ReplaceAll(","+ops, ",r", ",G")[1:]
		}
		return "c08.reader spec " + c08ColsOfFile(b) + " " + ops
	}
	return ""
}

// c08AsyncRequest: asyncPages over the page cursor under a schedule that the
// model draws from the seed (pages target, async read mode, no lazy index).
func c08AsyncRequest(cs *c08Case, b *c08Built, seed int) string {
	m := "idx"
	if cs.Open.SkipIndex {
		m = "noidx"
	}
	return fmt.Sprintf("c08.async %s %s %s %x %x", m, c08Hex(b.layout[cs.RG][cs.Col]), c08OpsTok(cs.Ops), seed, 64*len(cs.Ops)+256)
}

func c08Has(ops []string, op string) bool {
	for _, o := range ops {
		if o == op {
			return true
		}
	}
	return false
}

func c08Without(cs *c08Case, op string) *c08Case {
	t := *cs
	t.Ops = nil
	for _, o := range cs.Ops {
		if o != op {
			t.Ops = append(t.Ops, o)
		}
	}
	return &t
}

func c08Class(cs *c08Case, kind string) string {
	cl := cs.Target + "-" + kind
	if cs.Target == "merged" && cs.Der != nil {
		// which of the readers of merged row groups
		if mb, err := c08BuildMerged(cs.Der); err == nil {
			cl = cs.Target + "-" + mb.kind + "-" + kind
		}
	}
	if cs.Nest != "" {
		cl += "-nested"
	}
	if cs.File.Enc != "" {
		cl += "-encrypted"
	}
	if cs.Open.ReadBuf != 0 {
		cl += "-read-buffer"
	}
	if c08Has(cs.Ops, "l") {
		cl += "-lazy-index"
	}
	if c08Has(cs.Ops, "x") {
		cl += "-after-reset"
	}
	return cl
}

// c08Check runs a case, evaluates the predicate and the correspondence and
// reports.  Returns the kind of failure ("" = none, "corr" = model mismatch).
func c08Check(c *core.Ctx, cs *c08Case) string {
	res, b := c08Exec(cs)
	if res.kind != "" {
		c.Violation(c08Class(cs, res.kind), fmt.Sprintf("%s (%s, %d ops)", res.what, cs.Target, len(cs.Ops)), cs)
		return res.kind
	}
	if (b != nil || !c08NeedsFile(cs)) && c.HasOracle() {
		rcs := cs
		cs = c08Modelled(cs, res)
		req := c08Request(cs, b, res)
		if req == "" {
			return ""
		}
		want := c.Ask(req)
		got := strings.Join(res.outs, ",")
		if len(res.outs) == 0 {
			got = "_"
		}
		if want != got {
			c.Mismatch("corr:C08."+cs.Target, req, got, want, rcs)
			return "corr"
		}
		// a sample of the cases is also compared with the specification the
		// theorems relate the model to
		c08Checked++
		if sreq := c08SpecRequest(cs, b); sreq != "" && c08Checked%16 == 0 {
			if spec := c.Ask(sreq); spec != got {
				c.Mismatch("corr:C08."+cs.Target+".spec", sreq, got, spec, rcs)
				return "corr"
			}
		}
		if cs.Target == "pages" && cs.Open.Async && len(cs.Ops) > 0 && !c08Has(cs.Ops, "l") {
			for seed := 1; seed <= 2; seed++ {
				areq := c08AsyncRequest(cs, b, seed+7*c08Checked)
				if ans := c.Ask(areq); ans != got+"/1" {
					c.Mismatch("corr:C08.async", areq, got, ans, rcs)
					return "corr"
				}
			}
		}
	}
	return ""
}

var c08Checked int

var c08Reported = map[string]int{}

func c08Fails(c *core.Ctx, cs *c08Case) (bool, string) {
	kind := ""
	failed := c.Probe(func() { kind = c08Check(c, cs) })
	return failed, kind
}

// c08Run checks a case; a failing history is shrunk (operations dropped)
// before it is reported.  Failures of a class that was already reported are
// only counted.
func c08Run(c *core.Ctx, cs *c08Case, bucket string) bool {
	key, _ := json.Marshal(cs)
	c.Case(bucket, string(key), len(cs.Ops) >= 2)
	failed, kind := c08Fails(c, cs)
	if !failed {
		return true
	}
	t := cs
	for _, op := range []string{"l", "x"} {
		if c08Has(t.Ops, op) {
			u := c08Without(t, op)
			if f, k := c08Fails(c, u); f {
				t, kind = u, k
			}
		}
	}
	t, kind = c08Simplify(c, t, kind)
	cl := c08Class(t, kind)
	c08Reported[cl]++
	if c08Reported[cl] > 1 {
		return false
	}
	min := c08Shrink(c, t)
	// the shorter history may fail without a dimension the longer one needed
	if u, k := c08Simplify(c, min, kind); u != min {
		if cl2 := c08Class(u, k); cl2 == cl {
			min = c08Shrink(c, u)
		} else if c08Reported[cl2] == 0 {
			c08Reported[cl2]++
			min = c08Shrink(c, u)
		}
	}
	c08Check(c, min)
	return false
}

// c08Simplify drops the dimensions of a failing case that the failure does not
// need: nesting, encryption, read buffer size, async mode (the simpler file
// has the same rows; its page layout is its own).
func c08Simplify(c *core.Ctx, t *c08Case, kind string) (*c08Case, string) {
	for _, simpler := range []func(u *c08Case) bool{
		func(u *c08Case) bool { ok := u.Nest != ""; u.Nest = ""; return ok },
		func(u *c08Case) bool { ok := u.File.Enc != ""; u.File.Enc = ""; return ok },
		func(u *c08Case) bool { ok := u.Open.ReadBuf != 0; u.Open.ReadBuf = 0; return ok },
		func(u *c08Case) bool { ok := u.Open.Async; u.Open.Async = false; return ok },
		func(u *c08Case) bool { ok := u.From; u.From = false; return ok },
		func(u *c08Case) bool { ok := u.Drain; u.Drain = false; return ok },
	} {
		u := *t
		if simpler(&u) {
			if f, k := c08Fails(c, &u); f {
				t, kind = &u, k
			}
		}
	}
	return t, kind
}

func c08Shrink(c *core.Ctx, cs *c08Case) *c08Case {
	cur := *cs
	for changed := true; changed; {
		changed = false
		for i := range cur.Ops {
			t := cur
			t.Ops = append(append([]string(nil), cur.Ops[:i]...), cur.Ops[i+1:]...)
			if f, _ := c08Fails(c, &t); f {
				cur, changed = t, true
				break
			}
		}
	}
	// smaller read sizes
	for i, op := range cur.Ops {
		if code, arg := c08ParseOp(op); code == 'r' && arg > 1 {
			for _, n := range []int64{1, 2, 3} {
				if n >= arg {
					break
				}
				t := cur
				t.Ops = append([]string(nil), cur.Ops...)
				t.Ops[i] = fmt.Sprintf("r%d", n)
				if f, _ := c08Fails(c, &t); f {
					cur = t
					break
				}
			}
		}
	}
	return &cur
}

// c08SeekPoints: 0, page boundaries +-1, N-1, N and beyond.
func c08SeekPoints(layout []int64, N int64, few bool) []int64 {
	set := map[int64]bool{}
	var out []int64
	add := func(k int64) {
		if k >= 0 && !set[k] {
			set[k] = true
			out = append(out, k)
		}
	}
	add(0)
	first := int64(0)
	for i, n := range layout {
		if i > 0 && (!few || i == 1 || i == 5 || (len(layout) <= 5 && i == len(layout)-1)) {
			if !few || i == 1 {
				add(first - 1)
			}
			add(first)
			add(first + 1)
		}
		first += n
	}
	add(N - 1)
	add(N)
	add(N + 3)
	return out
}

func c08Enumerate(alphabet []string, length int, f func(ops []string)) {
	ops := make([]string, length)
	var rec func(d int)
	rec = func(d int) {
		if d == length {
			f(append([]string(nil), ops...))
			return
		}
		for _, a := range alphabet {
			ops[d] = a
			rec(d + 1)
		}
	}
	rec(0)
}

func c08CoqOps(ops []string) string {
	var parts []string
	for _, op := range ops {
		code, arg := c08ParseOp(op)
		switch {
		case code == 'r' && arg < 0:
			parts = append(parts, "ReadPage")
		case code == 's':
			parts = append(parts, fmt.Sprintf("SeekToRow %d", arg))
		}
	}
	return core.CoqList(parts)
}

func c08CoqOuts(outs []string) (string, bool) {
	var parts []string
	for _, o := range outs {
		switch {
		case o == "e":
			parts = append(parts, "EOF")
		case o == "k":
			parts = append(parts, "SeekOk")
		case o == "o":
			parts = append(parts, "OutOfRange")
		case strings.HasPrefix(o, "p") && !strings.HasPrefix(o, "p?"):
			var f, n int64
			if _, err := fmt.Sscanf(o, "p%x.%x", &f, &n); err != nil {
				return "", false
			}
			parts = append(parts, fmt.Sprintf("Rows %d %d", f, n))
		default:
			return "", false
		}
	}
	return core.CoqList(parts), true
}

// c08CoqROps: a history of a row reader in Coq syntax.
func c08CoqROps(ops []string, read, seek, reset string) string {
	var parts []string
	for _, op := range ops {
		code, arg := c08ParseOp(op)
		switch {
		case code == 'r' && arg >= 0:
			parts = append(parts, fmt.Sprintf("%s %d", read, arg))
		case code == 's':
			parts = append(parts, fmt.Sprintf("%s %d", seek, arg))
		case code == 'x':
			parts = append(parts, reset)
		}
	}
	return core.CoqList(parts)
}

// c08CoqMOuts: canonical outputs of a row reader as a list of mout (every
// assembled row holds its row number once per column).
func c08CoqMOuts(outs []string) (string, bool) {
	var parts []string
	for _, o := range outs {
		switch {
		case o == "k":
			parts = append(parts, "MSeekOk")
		case o == "o":
			parts = append(parts, "MOutOfRange")
		case o == "d":
			parts = append(parts, "MDone")
		case strings.HasPrefix(o, "i/"):
			parts = append(parts, fmt.Sprintf("MRows [] %v", o == "i/1"))
		case strings.HasPrefix(o, "i") && !strings.HasPrefix(o, "i?"):
			var f, n int64
			var e int
			if _, err := fmt.Sscanf(o, "i%x.%x/%d", &f, &n, &e); err != nil {
				return "", false
			}
			parts = append(parts, fmt.Sprintf("MRows (widen %d (seq %d %d)) %v", c08NumCols, f, n, e == 1))
		default:
			return "", false
		}
	}
	return core.CoqList(parts), true
}

func c08CoqNats(xs []int64) string {
	parts := make([]string, len(xs))
	for i, x := range xs {
		parts[i] = strconv.FormatInt(x, 10)
	}
	return core.CoqList(parts)
}

func runC08(c *core.Ctx) {
	c.Res.Rule = "files of rows (id, optional, list, dictionary string, optional leaf in an optional group; every value identifies its row; the five columns have different page layouts) written with small pages (PageBufferSize 16..96), 1..4 row groups, data pages v1 and v2; also row groups of uneven sizes (Flush), unencrypted and encrypted (encrypted footer / plaintext footer, footer key only / column keys); opened with/without SkipPageIndex, sync/async, ReadBufferSize default/16/64/300/65536. Histories over {ReadPage | ReadRows(n in 1,3,64,1000) | Reader.Read(one row), SeekToRow(k: 0, page and row-group boundaries +-1, N-1, N, N+3, random), load the offset index, Reset}: a corpus (the repaired defects first), ALL histories of length 4 (quick) / 5 (thorough) over a 9..12 letter alphabet on 22-row files, random histories up to length 40 on 300-row files; run on ColumnChunk.Pages (every column), RowGroup.Rows, NewReader (ReadRows and Read), NewGenericReader (Read), Column.Pages() / PagesFrom of every leaf column of the file (columnPages: one page cursor per row group; histories with backward seeks out of a row group that has been read from), and the column pages (multiPages) and rows of MultiRowGroup over all row groups, flat and nested 1..4 levels deep in fixed and random shapes (the outputs must be those of the flat concatenation). Histories of Column.Pages() (all) and of the other page readers (half of the random ones) are followed by a sequential read to io.EOF whose pages must be the rows from the current position on. Every per-operation output (first row and count of the page/batch, io.EOF) is compared with the extracted model of that layer (page cursor; rowGroupRows over the page layouts of all five columns; multiPages; columnPages; reader/Reader/GenericReader), a sample also with the position specification, async page histories also with the asyncPages model under model-drawn schedules. Derived readers (derived.go, variant.go; the same rows, so every value identifies its row): the Rows() of MergeRowGroups over 1..4 sorted inputs (buffers, files, both; ids dealt round robin = overlapping key ranges -> mergedRowGroupRows, disjoint stretches -> concatenatingRowsWrapper over sorted segments, ids present in two inputs with and without DropDuplicatedRows, one input with DropDuplicatedRows -> deduplicated row group, two inputs of 1300 rows overlapping in 100 ids -> row-range views around a merged stretch; schema handed over or merged from the inputs = every input behind a conversion that reorders the columns) and ConvertRowReader (forwardRowSeeker; same schema / columns dropped, reordered and one added) over scripted in-memory readers (the c-th call returns at most caps[c mod len] rows, caps from {none,1,2,3,4,5,7,8,16,63,64}, io.EOF with or after the last rows) and over the rows of a file: these document forward-only seeking, so histories are ALL histories of length 3-4 (4-5 on a merged source) over {ReadRows 1/3/64 (convert: 1/3/4/64), SeekToRow(a few rows, the middle, N-1, N, N+3)} on 30/40-row sources (a backward seek must be refused with the position unchanged, or be honoured) and random forward-biased histories up to length 24 (seeks ahead by 0, 1, a few rows, about a batch, far, to N-1, N, N+3; reads of 1,3,7,64,1000 rows) on 100..300 and 2600-row sources, the batch buffer reused from read to read; seeks in both directions on the column pages of the merged row groups (multiPages over row-range views, converted pages, buffer pages; expected rows = the sequential read of the id column), on ConvertRowGroup(...).Rows() and its column pages (a column the source lacks included), on GenericBuffer / RowBuffer Rows() and the pages of their columns (all histories of length 3-4 on 22 rows, random ones on 1/100/300 rows); VariantReader over a shredded VARIANT column of 200 rows (typed / residual / partial object / list / unshredded field / null rows; pages of 128..1024 bytes, v1/v2): ALL histories of length 3-4 over {create cursor a / b / elements of l, Next 1/8/64, SeekToRow 0/9/100/199/200} and random histories of length 2..21 over {create one of 10 cursors, Next 1/3/8/64/1000, SeekToRow anywhere, N, beyond}: every window must be the rows from the position (typed vector of a = the row numbers) and the state of every cursor in effect must equal that of a fresh reader that holds the same cursors from the start and is read sequentially. Models of these layers: forwardRowSeeker / mergedRowGroupRows / concatenatingRowsWrapper over a reader with capped batches (Cursor/Forward.v; scripted: every output; merged: the observed batch length is the cap), the row window of VariantReader over lazily opened leaves (Cursor/VariantLeaves.v; the first row each typed leaf delivered, read off its first value), rowGroupRows / the page cursor over one-page columns for buffers and over the source layout for converted row groups. Bulk copies (copy.go): parquet.CopyRows(dst, reader) as an operation of the histories of every row reader (dst: a bare RowWriter | a RowWriter with the reader's schema | a GenericWriter, i.e. the RowWriterTo shortcut of RowBuffer rows, the RowReaderFrom shortcut of the writers and the generic loop), after nothing / a seek / a partial read / both and followed by reads, seeks back and further copies: the rows handed over must be those from the position to the end, then the reader stands at the end; model Cursor/Copy.v (ReadRows(42) until io.EOF over the reader's model). A case = (file, open options, reader, history); non-trivial = at least 2 operations; distinct by the JSON of the case."
	var vm, vmRows, vmReader, vmNested, vmCP []string
	// Column.Pages(): the column pages against run_cpages_indexed inside coqc
	addVmCP := func(cs *c08Case) {
		if cs.Target != "columnpages" || cs.Open.SkipIndex || len(vmCP) >= 80 {
			return
		}
		res, b := c08Exec(cs)
		if b == nil || res.kind != "" {
			return
		}
		outs, ok := c08CoqOuts(res.outs)
		if !ok {
			return
		}
		var chunks []string
		for g := range b.layout {
			chunks = append(chunks, c08CoqNats(b.layout[g][cs.Col]))
		}
		vmCP = append(vmCP, fmt.Sprintf("(%s, %s, %s)", core.CoqList(chunks), c08CoqOps(c08Modelled(cs, res).Ops), outs))
	}
	// nested multi row groups: the column pages against run_nested_indexed inside coqc
	addVmNested := func(cs *c08Case) {
		if cs.Target != "multipages" || cs.Nest == "" || cs.Open.SkipIndex || cs.Open.Async || len(vmNested) >= 60 {
			return
		}
		res, b := c08Exec(cs)
		if b == nil || res.kind != "" {
			return
		}
		outs, ok := c08CoqOuts(res.outs)
		if !ok {
			return
		}
		var tree strings.Builder
		for i := 0; i < len(cs.Nest); i++ {
			switch ch := cs.Nest[i]; {
			case ch == '(':
				tree.WriteString("RGNode [")
			case ch == ')':
				tree.WriteString("]")
			case ch == ',':
				tree.WriteString("; ")
			default:
				j := i
				for j < len(cs.Nest) && cs.Nest[j] >= '0' && cs.Nest[j] <= '9' {
					j++
				}
				g, _ := strconv.Atoi(cs.Nest[i:j])
				tree.WriteString("RGLeaf " + c08CoqNats(b.layout[g][cs.Col]))
				i = j - 1
			}
		}
		vmNested = append(vmNested, fmt.Sprintf("(%s, %s, %s)", tree.String(), c08CoqOps(cs.Ops), outs))
	}
	addVmRows := func(cs *c08Case) {
		if cs.Open.SkipIndex || cs.Open.Async || c08Has(cs.Ops, "g") {
			return
		}
		isRows := cs.Target == "rows" && len(vmRows) < 120
		isReader := cs.Target == "reader" && len(vmReader) < 120
		if !isRows && !isReader {
			return
		}
		res, b := c08Exec(cs)
		if b == nil || res.kind != "" || (isReader && len(b.rgRows) < 2) {
			return
		}
		outs, ok := c08CoqMOuts(res.outs)
		if !ok {
			return
		}
		if isRows {
			var cols []string
			for c := 0; c < c08NumCols; c++ {
				cols = append(cols, c08CoqNats(b.layout[cs.RG][c]))
			}
			vmRows = append(vmRows, fmt.Sprintf("(%s, %s, %s)", core.CoqList(cols), c08CoqROps(cs.Ops, "RRead", "RSeek", "RReset"), outs))
		} else {
			var cols []string
			for c := 0; c < c08NumCols; c++ {
				var chunks []string
				for g := range b.layout {
					chunks = append(chunks, c08CoqNats(b.layout[g][c]))
				}
				cols = append(cols, core.CoqList(chunks))
			}
			vmReader = append(vmReader, fmt.Sprintf("(%s, %s, %s)", core.CoqList(cols), c08CoqROps(cs.Ops, "XReadRows", "XSeek", "XReset"), outs))
		}
	}
	addVm := func(cs *c08Case) {
		addVmRows(cs)
		addVmCP(cs)
		if cs.Target != "pages" || cs.Open.SkipIndex || len(vm) >= 400 {
			return
		}
		res, b := c08Exec(cs)
		if b == nil || res.kind != "" {
			return
		}
		outs, ok := c08CoqOuts(res.outs)
		if !ok {
			return
		}
		vm = append(vm, fmt.Sprintf("(%s, %s, %s)", c08CoqNats(b.layout[cs.RG][cs.Col]), c08CoqOps(c08Modelled(cs, res).Ops), outs))
	}

	small := func(v int) c08FileParams { return c08FileParams{Rows: 22, PageBuf: 16, Version: v, Batch: 5} }
	small2 := func(v int) c08FileParams {
		return c08FileParams{Rows: 22, PageBuf: 16, RGRows: 12, Version: v, Batch: 5}
	}
	medium := func(v int, pb int) c08FileParams {
		return c08FileParams{Rows: 300, PageBuf: pb, RGRows: 110, Version: v, Batch: 13}
	}

	// ---- corpus: the repaired defect first, then other hand-written histories
	corpus := func(p c08FileParams, opens []c08Open, v int) bool {
		bucket := "corpus"
		if p.Enc != "" {
			bucket = "corpus/encrypted"
		}
		b, err := c08Build(p)
		if err != nil {
			c.Violation("file", err.Error(), p)
			return false
		}
		for col := 0; col < c08NumCols; col++ {
			lay := b.layout[0][col]
			if len(lay) < 7 {
				c.Note("column %s of the corpus file has only %d pages", c08ColNames[col], len(lay))
				continue
			}
			first5 := int64(0)
			for _, n := range lay[:5] {
				first5 += n
			}
			for _, o := range opens {
				hs := [][]string{
					{"r", fmt.Sprintf("s%d", first5+1), "s2", "r", "r"},
					{"r", fmt.Sprintf("s%d", first5+1), "s2", fmt.Sprintf("s%d", lay[0]+1), "r", "r"},
					{"r", "r", fmt.Sprintf("s%d", lay[0]), "r", "s0", "r", "r"},
					{fmt.Sprintf("s%d", b.rgRows[0]), "r", fmt.Sprintf("s%d", b.rgRows[0]-1), "r", "r", "s0", "r"},
					{fmt.Sprintf("s%d", b.rgRows[0]+5), "r", "r", fmt.Sprintf("s%d", first5), "r"},
				}
				if o.SkipIndex {
					hs = append(hs, []string{"s0", "l", fmt.Sprintf("s%d", lay[0]), "r"},
						[]string{"s0", "r", "l", fmt.Sprintf("s%d", lay[0]+1), "r", "r"})
				}
				for _, h := range hs {
					cs := &c08Case{File: p, Open: o, Target: "pages", RG: 0, Col: col, Ops: h}
					c08Run(c, cs, bucket)
					if col == 0 && v == 2 && p.Enc == "" {
						c.Sample(cs)
					}
					addVm(cs)
				}
			}
		}
		for _, target := range []string{"rows", "reader", "generic", "multirows"} {
			for _, o := range opens {
				hs := [][]string{
					{"r10", "x", "s10", "r3"},
					{"r3", "s200", "r64", "s109", "r3", "s110", "r1", "s5", "r1000"},
					{"s300", "r1", "s299", "r3", "s0", "r1"},
					{"r64", "s64", "r1", "s63", "r1"},
					// the final batch comes back with io.EOF, then a seek to the row at which it started
					{"r64", "r64", "s64", "r3"},
					{"r1000", "s0", "r3"},
					{"s256", "r64", "s256", "r3", "x", "r1"},
				}
				if target == "reader" {
					hs = append(hs, []string{"g", "r3", "g", "s109", "g", "g", "r2", "s299", "g", "g", "s0", "g"},
						[]string{"r64", "g", "s64", "g", "x", "g", "r1"})
				}
				for _, h := range hs {
					cs := &c08Case{File: p, Open: o, Target: target, RG: 0, Ops: h}
					c08Run(c, cs, bucket)
					addVm(cs)
				}
			}
		}
		for col := 0; col < c08NumCols; col++ {
			for _, o := range opens {
				g1 := b.rgRows[0]
				for _, h := range [][]string{
					{"r", fmt.Sprintf("s%d", g1-1), "r", "r", "s2", "r", fmt.Sprintf("s%d", g1), "r"},
					{fmt.Sprintf("s%d", b.total-1), "r", "r", fmt.Sprintf("s%d", g1+1), "r", fmt.Sprintf("s%d", b.total+4), "r", "s0", "r"},
				} {
					c08Run(c, &c08Case{File: p, Open: o, Target: "multipages", Col: col, Ops: h}, bucket)
				}
				// Column.Pages(): backward seeks out of a row group that has been
				// read from (entered by a seek, by reading on from the row group
				// before it, after io.EOF), then a sequential read to the end
				if len(b.rgOff) < 3 {
					continue
				}
				g2 := b.rgOff[2]
				for hi, h := range [][]string{
					{fmt.Sprintf("s%d", g1), "r", fmt.Sprintf("s%d", g1-1), "r", "r", "r"},
					{fmt.Sprintf("s%d", g2), "r", "r", fmt.Sprintf("s%d", g1+1), "r", "s0", "r"},
					{"r", "r", fmt.Sprintf("s%d", g2+1), "r", fmt.Sprintf("s%d", g1), "r", "r", fmt.Sprintf("s%d", g1-1), "r", "r"},
					{fmt.Sprintf("s%d", g1-1), "r", "r", "r", "s0"},
					{fmt.Sprintf("s%d", b.total-1), "r", "r", fmt.Sprintf("s%d", g1), "r", "s2"},
				} {
					cs := &c08Case{File: p, Open: o, Target: "columnpages", Col: col, Ops: h, Drain: true, From: hi%2 == 1 && o == (c08Open{})}
					c08Run(c, cs, bucket)
					addVm(cs)
				}
			}
		}
		return true
	}
	for _, v := range []int{2, 1} {
		if !corpus(medium(v, 64), []c08Open{{}, {Async: true}, {SkipIndex: true}, {ReadBuf: 64}}, v) {
			return
		}
	}
	// the same histories on encrypted files (every page is authenticated under
	// its ordinal in the chunk, which every repositioning must keep in step),
	// with read buffers smaller than a page, of a few pages, and larger than the
	// chunk: the outputs are those of the unencrypted file
	encOpens := []c08Open{{}, {Async: true}, {SkipIndex: true}, {ReadBuf: 16}, {ReadBuf: 300}, {ReadBuf: 1 << 16}}
	for i, enc := range []string{"footer+column-keys", "plaintext-footer", "footer", "plaintext-footer+column-keys"} {
		if c.Quick() && i >= 2 {
			break
		}
		for _, v := range []int{2, 1} {
			p := medium(v, 64)
			p.Enc = enc
			if !corpus(p, encOpens, v) {
				return
			}
		}
	}
	nVmNested := 0
	// nested multi row groups: row groups of uneven sizes combined with
	// MultiRowGroup in every shape of depth 1..3, seeks at every row group
	// boundary (-1, 0, +1) in ascending and in descending order
	for _, v := range []int{2, 1} {
		p := c08FileParams{Rows: 300, PageBuf: 64, Version: v, Batch: 13, Flush: "40,90,25,70,30"}
		b, err := c08Build(p)
		if err != nil {
			c.Violation("file", err.Error(), p)
			return
		}
		for _, nest := range c08NestShapes(len(b.rgRows)) {
			for _, o := range []c08Open{{}, {Async: true}, {SkipIndex: true}} {
				for col := 0; col <= c08NumCols; col++ {
					target, read := "multipages", "r"
					if col == c08NumCols {
						target, read = "multirows", "r3"
					}
					var up, down, around []string
					around = append(around, read)
					for g := 1; g <= len(b.rgOff); g++ {
						bd := b.total
						if g < len(b.rgOff) {
							bd = b.rgOff[g]
						}
						up = append(up, fmt.Sprintf("s%d", bd), read)
						down = append([]string{fmt.Sprintf("s%d", bd), read, read}, down...)
						around = append(around, fmt.Sprintf("s%d", bd+1), read, fmt.Sprintf("s%d", bd-1), read, read)
					}
					for _, h := range [][]string{up, down, around} {
						cs := &c08Case{File: p, Open: o, Target: target, Col: col % c08NumCols, Nest: nest, Ops: h}
						c08Run(c, cs, "corpus/nested")
						if nVmNested++; nVmNested%5 == 0 {
							addVmNested(cs)
						}
					}
				}
			}
		}
	}

	// ---- exhaustive: every history of one length over a small alphabet
	length := c.N(4, 5)
	versions := []int{2, 1}
	exhaustive := func(cs c08Case, alphabet []string, length int, bucket string, vmEvery int) {
		n := 0
		c08Enumerate(alphabet, length, func(ops []string) {
			t := cs
			t.Ops = ops
			c08Run(c, &t, bucket)
			n++
			if vmEvery > 0 && n%vmEvery == 0 {
				addVm(&t)
			}
		})
	}
	for _, v := range versions {
		p := small(v)
		b, err := c08Build(p)
		if err != nil {
			c.Violation("file", err.Error(), p)
			return
		}
		for col := 0; col < c08NumCols; col++ {
			if c.Quick() && v == 1 && (col == 1 || col == 3) {
				continue
			}
			lay := b.layout[0][col]
			for _, o := range []c08Open{{}, {SkipIndex: true}} {
				alphabet := []string{"r"}
				for _, k := range c08SeekPoints(lay, b.rgRows[0], true) {
					alphabet = append(alphabet, fmt.Sprintf("s%d", k))
				}
				if o.SkipIndex {
					alphabet = append(alphabet, "l")
				}
				exhaustive(c08Case{File: p, Open: o, Target: "pages", Col: col}, alphabet, length,
					fmt.Sprintf("exhaustive/pages/v%d/skipindex=%v", v, o.SkipIndex), 211)
			}
		}
		// async: one length shorter
		for _, col := range []int{0, 2, 3} {
			lay := b.layout[0][col]
			alphabet := []string{"r"}
			for _, k := range c08SeekPoints(lay, b.rgRows[0], true) {
				alphabet = append(alphabet, fmt.Sprintf("s%d", k))
			}
			exhaustive(c08Case{File: p, Open: c08Open{Async: true}, Target: "pages", Col: col}, alphabet, length-1,
				fmt.Sprintf("exhaustive/pages/v%d/async", v), 0)
		}
		// row readers
		N := b.rgRows[0]
		b1 := b.layout[0][0][0]
		ralpha := []string{"r1", "r3", "r64", "s0", fmt.Sprintf("s%d", b1-1), fmt.Sprintf("s%d", b1), fmt.Sprintf("s%d", N-1), fmt.Sprintf("s%d", N), "x"}
		for _, o := range []c08Open{{}, {SkipIndex: true}} {
			if c.Quick() && v == 1 && o.SkipIndex {
				continue
			}
			exhaustive(c08Case{File: p, Open: o, Target: "rows"}, ralpha, length,
				fmt.Sprintf("exhaustive/rows/v%d/skipindex=%v", v, o.SkipIndex), 97)
		}
		p2 := small2(v)
		b2, err := c08Build(p2)
		if err != nil {
			c.Violation("file", err.Error(), p2)
			return
		}
		g := b2.rgRows[0]
		falpha := []string{"r1", "r3", "r64", "s0", fmt.Sprintf("s%d", g-1), fmt.Sprintf("s%d", g), fmt.Sprintf("s%d", g+1), fmt.Sprintf("s%d", b2.total-1), fmt.Sprintf("s%d", b2.total), "x"}
		for _, target := range []string{"reader", "generic", "multirows"} {
			if c.Quick() && v == 1 && target != "reader" {
				continue
			}
			alpha := falpha
			if target == "reader" && (v == 2 || !c.Quick()) {
				alpha = append(append([]string(nil), falpha...), "g")
			}
			exhaustive(c08Case{File: p2, Target: target}, alpha, length,
				fmt.Sprintf("exhaustive/%s/v%d", target, v), 97)
		}
		// multiPages: the pages of a column over both row groups
		for _, col := range []int{0, 2, 4} {
			if c.Quick() && (v == 1 || col != 4) {
				continue
			}
			palpha := []string{"r"}
			seen := map[int64]bool{}
			for _, k := range []int64{0, g - 1, g, g + 1, b2.layout[0][col][0], g + b2.layout[1][col][0], b2.total - 1, b2.total, b2.total + 3} {
				if !seen[k] {
					seen[k] = true
					palpha = append(palpha, fmt.Sprintf("s%d", k))
				}
			}
			exhaustive(c08Case{File: p2, Target: "multipages", Col: col}, palpha, length,
				fmt.Sprintf("exhaustive/multipages/v%d", v), 0)
		}
	}
	// encrypted files and nested multi row groups: all histories one operation shorter
	for _, v := range versions {
		if c.Quick() && v == 1 {
			continue
		}
		for _, enc := range []string{"footer", "plaintext-footer+column-keys"} {
			p := small(v)
			p.Enc = enc
			b, err := c08Build(p)
			if err != nil {
				c.Violation("file", err.Error(), p)
				return
			}
			for col := 0; col < c08NumCols; col++ {
				for _, o := range []c08Open{{}, {ReadBuf: 64}, {SkipIndex: true}} {
					if c.Quick() && (o.SkipIndex || (o.ReadBuf != 0) != (col == 3)) {
						// quick: default read buffer; the dictionary column with a 64-byte buffer
						continue
					}
					alphabet := []string{"r"}
					for _, k := range c08SeekPoints(b.layout[0][col], b.rgRows[0], true) {
						alphabet = append(alphabet, fmt.Sprintf("s%d", k))
					}
					if o.SkipIndex {
						alphabet = append(alphabet, "l")
					}
					exhaustive(c08Case{File: p, Open: o, Target: "pages", Col: col}, alphabet, length-1,
						fmt.Sprintf("exhaustive/pages/v%d/encrypted", v), 0)
				}
			}
			N := b.rgRows[0]
			b1 := b.layout[0][0][0]
			ralpha := []string{"r1", "r3", "r64", "s0", fmt.Sprintf("s%d", b1-1), fmt.Sprintf("s%d", b1), fmt.Sprintf("s%d", N-1), fmt.Sprintf("s%d", N), "x"}
			exhaustive(c08Case{File: p, Target: "rows"}, ralpha, length-1, fmt.Sprintf("exhaustive/rows/v%d/encrypted", v), 0)
		}
		p4 := c08FileParams{Rows: 22, PageBuf: 16, Version: v, Batch: 5, Flush: "5,8,3"}
		b4, err := c08Build(p4)
		if err != nil {
			c.Violation("file", err.Error(), p4)
			return
		}
		if len(b4.rgRows) != 4 {
			c.Violation("file", fmt.Sprintf("expected 4 row groups, got %v", b4.rgRows), p4)
			return
		}
		// seeks to the first row of every row group, to the last row of the second
		// one (and, thorough, the second row of the third one), to N and beyond
		palpha, nalpha := []string{"r"}, []string{"r1", "r64", "x"}
		for g, off := range b4.rgOff {
			palpha = append(palpha, fmt.Sprintf("s%d", off))
			if g > 0 {
				nalpha = append(nalpha, fmt.Sprintf("s%d", off))
			}
		}
		last1 := fmt.Sprintf("s%d", b4.rgOff[2]-1)
		palpha = append(palpha, last1, fmt.Sprintf("s%d", b4.total), fmt.Sprintf("s%d", b4.total+3))
		nalpha = append(nalpha, last1, fmt.Sprintf("s%d", b4.total))
		if !c.Quick() {
			palpha = append(palpha, fmt.Sprintf("s%d", b4.rgOff[2]+1))
			nalpha = append(nalpha, "r3", "s0", fmt.Sprintf("s%d", b4.rgOff[2]+1))
		}
		// Column.Pages() of every column over the four row groups, each history
		// followed by a sequential read to the end
		for col := 0; col < c08NumCols; col++ {
			for _, o := range []c08Open{{}, {SkipIndex: true}} {
				exhaustive(c08Case{File: p4, Open: o, Target: "columnpages", Col: col, Drain: true}, palpha, c.N(length-1, length),
					fmt.Sprintf("exhaustive/columnpages/v%d/skipindex=%v", v, o.SkipIndex), 53)
			}
		}
		for _, nest := range c08NestShapes(4) {
			for _, col := range []int{0, 2, 4} {
				if c.Quick() && col != 2 {
					continue
				}
				exhaustive(c08Case{File: p4, Target: "multipages", Col: col, Nest: nest}, palpha, length-1,
					fmt.Sprintf("exhaustive/multipages/v%d/nested", v), 0)
			}
			exhaustive(c08Case{File: p4, Target: "multirows", Nest: nest}, nalpha, length-1,
				fmt.Sprintf("exhaustive/multirows/v%d/nested", v), 0)
		}
	}
	c.Res.Exhaustive = true
	c.Note("exhaustive, one operation shorter: the page and row alphabets on encrypted 22-row files (encrypted footer; plaintext footer with column keys; read buffer default and 64 bytes), and {ReadPage, SeekToRow(first row of every row group, last row of the second one, N, N+3)} / {ReadRows 1/64, Reset, SeekToRow(first row of every row group but the first, last row of the second one, N)} on the column pages and the rows of a file of 4 row groups of 5, 8, 3 and 6 rows combined with MultiRowGroup in the shapes %v; the first alphabet followed by a sequential read to the end on Column.Pages() of every column of that file, with and without the page index (thorough: full length)", c08NestShapes(4))
	c.Note("exhaustive: all histories of length %d (async pages: %d) over the alphabets {ReadPage, SeekToRow(0, first page boundary -1/0/+1, page 5 boundary 0/+1, N-1, N, N+3)[, load index]} and {ReadRows 1/3/64[, Reader.Read], SeekToRow(0, boundary-1, boundary[, +1], N-1, N), Reset} on 22-row files; the same on the rows of the MultiRowGroup over both row groups, and {ReadPage, SeekToRow(0, row-group boundary -1/0/+1, first page boundary of each row group, N-1, N, N+3)} on its column pages (multiPages)", length, length-1)

	// ---- random histories on larger files
	nRand := c.N(2500, 40000)
	nEnc, nBuf, nNest, nDrain := 0, 0, 0, 0
	pbs := []int{24, 64, 96}
	for i := 0; i < nRand; i++ {
		p := medium(1+c.Rng.Intn(2), pbs[c.Rng.Intn(len(pbs))])
		switch c.Rng.Intn(8) {
		case 0, 1:
			p.RGRows = 0
		case 2, 3:
			// row groups of uneven sizes, a single-row one among them
			p.RGRows, p.Flush = 0, []string{"40,90,25,70,30", "7,120,60,1,50"}[c.Rng.Intn(2)]
		}
		if c.Rng.Intn(3) == 0 {
			p.Enc = []string{"footer", "plaintext-footer", "footer+column-keys", "plaintext-footer+column-keys"}[c.Rng.Intn(4)]
			nEnc++
		}
		b, err := c08Build(p)
		if err != nil {
			c.Violation("file", err.Error(), p)
			return
		}
		cs := &c08Case{File: p, Open: c08Open{SkipIndex: c.Rng.Intn(3) == 0, Async: c.Rng.Intn(3) == 0}}
		if c.Rng.Intn(3) == 0 {
			cs.Open.ReadBuf = []int{16, 64, 300, 1 << 16}[c.Rng.Intn(4)]
			nBuf++
		}
		cs.Target = []string{"pages", "pages", "rows", "reader", "generic", "multipages", "multirows", "columnpages"}[c.Rng.Intn(8)]
		if len(b.rgRows) < 2 && (cs.Target == "multipages" || cs.Target == "multirows") {
			cs.Target = "rows"
		}
		cs.RG = c.Rng.Intn(len(b.rgRows))
		cs.Col = c.Rng.Intn(c08NumCols)
		N := b.total
		var points []int64
		if cs.Target == "pages" || cs.Target == "rows" {
			N = b.rgRows[cs.RG]
			points = c08SeekPoints(b.layout[cs.RG][cs.Col], N, false)
		} else {
			cs.RG = 0
			if cs.Target != "multipages" && cs.Target != "columnpages" {
				cs.Col = 0
			}
			if cs.Target == "columnpages" {
				cs.From = c.Rng.Intn(4) == 0
			}
			if (cs.Target == "multipages" || cs.Target == "multirows") && c.Rng.Intn(3) != 0 {
				cs.Nest = c08RandomNest(c.Rng, len(b.rgRows), 1+c.Rng.Intn(4))
				nNest++
			}
			for g := range b.rgRows {
				for _, k := range c08SeekPoints(b.layout[g][c.Rng.Intn(c08NumCols)], b.rgRows[g], false) {
					points = append(points, b.rgOff[g]+k)
				}
			}
		}
		pageTarget := cs.Target == "pages" || cs.Target == "multipages" || cs.Target == "columnpages"
		if pageTarget && c.Rng.Intn(2) == 0 {
			cs.Drain = true
			nDrain++
		}
		n := 1 + c.Rng.Intn(40)
		for j := 0; j < n; j++ {
			x := c.Rng.Intn(100)
			switch {
			case x < 45:
				if pageTarget {
					cs.Ops = append(cs.Ops, "r")
				} else if cs.Target == "reader" && c.Rng.Intn(4) == 0 {
					cs.Ops = append(cs.Ops, "g")
				} else {
					cs.Ops = append(cs.Ops, fmt.Sprintf("r%d", []int{1, 3, 64, 1000}[c.Rng.Intn(4)]))
				}
			case x < 75:
				cs.Ops = append(cs.Ops, fmt.Sprintf("s%d", points[c.Rng.Intn(len(points))]))
			case x < 92:
				cs.Ops = append(cs.Ops, fmt.Sprintf("s%d", c.Rng.Int63n(N+2)))
			case x < 96:
				if cs.Target == "pages" && cs.Open.SkipIndex {
					cs.Ops = append(cs.Ops, "l")
				} else if !pageTarget {
					cs.Ops = append(cs.Ops, "x")
				} else {
					cs.Ops = append(cs.Ops, "r")
				}
			default:
				cs.Ops = append(cs.Ops, "s0")
			}
		}
		c08Run(c, cs, fmt.Sprintf("random/%s/skipindex=%v/async=%v", cs.Target, cs.Open.SkipIndex, cs.Open.Async))
		if i < 2 {
			c.Sample(cs)
		}
		if i%3 == 0 {
			addVm(cs)
		}
	}
	c.Note("random histories: %d on encrypted files, %d with a ReadBufferSize of 16, 64, 300 or 65536 bytes, %d on randomly nested multi row groups (1..4 levels of MultiRowGroup), %d histories of a page reader followed by a sequential read to the end", nEnc, nBuf, nNest, nDrain)
	for cl, n := range c08Reported {
		if n > 1 {
			c.Note("class %s: %d failing histories in total (first one shrunk and reported)", cl, n)
		}
	}
	c08RunDerivedAll(c)
	c08RunCopyAll(c)
	c.Note("row-range views (row_range.go) have no exported constructor; they are reached through the merge planner: the merged row groups of shape `lone` (two inputs of 1300 rows whose key ranges overlap in 100 ids) are read through Rows() and through their column pages")
	c.Note("async read mode: histories are run under the Go scheduler as it comes; the asyncPages model is run under schedules drawn by the oracle (2 per async page history) and must return the same outputs")

	c.Vm("From Coq Require Import List Arith Bool.\nFrom PQ Require Import Cursor.Model Cursor.Multi Cursor.Nested Cursor.ColumnPages Cursor.Forward.\nImport ListNotations.")
	c.Vm("Definition out_eqb (a b : out) : bool :=\n  match a, b with\n  | Rows f c, Rows f' c' => (f =? f') && (c =? c')\n  | EOF, EOF | SeekOk, SeekOk | OutOfRange, OutOfRange | Done, Done => true\n  | _, _ => false\n  end.")
	c.Vm("Fixpoint outs_eqb (a b : list out) : bool :=\n  match a, b with\n  | [], [] => true\n  | x :: a', y :: b' => out_eqb x y && outs_eqb a' b'\n  | _, _ => false\n  end.")
	c.Vm("Definition cases : list (list nat * list op * list out) := [\n  " + strings.Join(vm, ";\n  ") + "].")
	c.Vm("Definition mismatches := filter (fun '(pg, ops, outs) => negb (outs_eqb (run_indexed pg ops) outs)) cases.")
	c.Vm("Definition widen (ncols : nat) (ids : list nat) : list (list nat) := map (fun i => repeat i ncols) ids.")
	c.Vm("Definition rows_eqb (a b : list (list nat)) : bool := if list_eq_dec (list_eq_dec Nat.eq_dec) a b then true else false.")
	c.Vm("Definition mout_eqb (a b : mout) : bool :=\n  match a, b with\n  | MRows r e, MRows r' e' => rows_eqb r r' && Bool.eqb e e'\n  | MSeekOk, MSeekOk | MOutOfRange, MOutOfRange | MDone, MDone => true\n  | _, _ => false\n  end.")
	c.Vm("Fixpoint mouts_eqb (a b : list mout) : bool :=\n  match a, b with\n  | [], [] => true\n  | x :: a', y :: b' => mout_eqb x y && mouts_eqb a' b'\n  | _, _ => false\n  end.")
	c.Vm("Definition rcases : list (list chunk * list rop * list mout) := [\n  " + strings.Join(vmRows, ";\n  ") + "].")
	c.Vm("Definition xcases : list (list (list chunk) * list xop * list mout) := [\n  " + strings.Join(vmReader, ";\n  ") + "].")
	c.Vm("Definition rmismatches := filter (fun '(cols, ops, outs) => negb (mouts_eqb (run_mrows_indexed cols ops) outs)) rcases.")
	c.Vm("Definition xmismatches := filter (fun '(cols, ops, outs) => negb (mouts_eqb (run_reader_indexed cols ops) outs)) xcases.")
	c.Vm("Definition ncases : list (rgtree * list op * list out) := [\n  " + strings.Join(vmNested, ";\n  ") + "].")
	c.Vm("Definition nmismatches := filter (fun '(t, ops, outs) => negb (outs_eqb (run_nested_indexed t ops) outs)) ncases.")
	c.Vm("Definition cpcases : list (list chunk * list op * list out) := [\n  " + strings.Join(vmCP, ";\n  ") + "].")
	c.Vm("Definition cpmismatches := filter (fun '(chunks, ops, outs) => negb (outs_eqb (run_cpages_indexed chunks ops) outs)) cpcases.")
	// ConvertRowReader over scripted readers against run_fws (forwardRowSeeker)
	c.Vm("Definition fout_eqb (a b : fout) : bool :=\n  match a, b with\n  | FRows f c e, FRows f' c' e' => (c =? c') && Bool.eqb e e' && ((c =? 0) || (f =? f'))\n  | FSeekOk, FSeekOk | FRefused, FRefused | FSeekEOF, FSeekEOF => true\n  | _, _ => false\n  end.")
	c.Vm("Fixpoint fouts_eqb (a b : list fout) : bool :=\n  match a, b with\n  | [], [] => true\n  | x :: a', y :: b' => fout_eqb x y && fouts_eqb a' b'\n  | _, _ => false\n  end.")
	c.Vm("Definition fcases : list (nat * bool * list nat * list fop * list fout) := [\n  " + strings.Join(c08VmFwd, ";\n  ") + "].")
	c.Vm("Definition fmismatches := filter (fun '(n, eofl, caps, ops, outs) => negb (fouts_eqb (run_fws n eofl (cycle caps) ops) outs)) fcases.")
	c.Vm("Definition M := Eval vm_compute in (length cases + length rcases + length xcases + length ncases + length cpcases + length fcases, repeat tt (length mismatches + length rmismatches + length xmismatches + length nmismatches + length cpmismatches + length fmismatches)).\nPrint M.")
	c.Res.VmCases = len(vm) + len(vmRows) + len(vmReader) + len(vmNested) + len(vmCP) + len(c08VmFwd)
}

func replayC08(c *core.Ctx, raw json.RawMessage) {
	var cs c08Case
	if err := json.Unmarshal(raw, &cs); err != nil || cs.Target == "" {
		c.Note("replay is not a C08 case (file parameters + history); rerun the check with the recorded seed")
		return
	}
	c08Run(c, &cs, "replay")
}
