package main

// Struct families of the typed round trips that vary the SHAPE of the Go row
// type rather than its leaf kinds.

import (
	"time"

	"github.com/parquet-go/parquet-go/deprecated"
)

// ---- every Go kind as an `optional` NON-pointer field ----
//
// The null of such a field is the zero value of its Go type; the typed writer
// decides it with one null-index kernel per Go kind (null.go; assembly in
// null_amd64.go, portable twins in null_purego.go), so every kind is its own
// code path, in every build variant.

type tOptGroup struct {
	P int32  `parquet:"p"`
	Q string `parquet:"q"`
	R []int8 `parquet:"r"`
}

type tOptValue struct {
	ID  int64            `parquet:"id"`
	Bo  bool             `parquet:"bo,optional"`
	I   int              `parquet:"i,optional"`
	I8  int8             `parquet:"i8,optional"`
	I16 int16            `parquet:"i16,optional"`
	I32 int32            `parquet:"i32,optional"`
	I64 int64            `parquet:"i64,optional"`
	U   uint             `parquet:"u,optional"`
	U8  uint8            `parquet:"u8,optional"`
	U16 uint16           `parquet:"u16,optional"`
	U32 uint32           `parquet:"u32,optional"`
	U64 uint64           `parquet:"u64,optional"`
	F32 float32          `parquet:"f32,optional"`
	F64 float64          `parquet:"f64,optional"`
	S   string           `parquet:"s,optional"`
	B   []byte           `parquet:"b,optional"`
	A1  [1]byte          `parquet:"a1,optional"`
	A5  [5]byte          `parquet:"a5,optional"`
	A16 [16]byte         `parquet:"a16,optional"`
	A20 [20]byte         `parquet:"a20,optional"`
	I96 deprecated.Int96 `parquet:"i96,optional"`
	T   time.Time        `parquet:"t,optional,timestamp(microsecond)"`
	D   time.Duration    `parquet:"d,optional,time(microsecond)"`
	DT  int32            `parquet:"dt,optional,date"`
	DC  int64            `parquet:"dc,optional,decimal(2:15)"`
	G   tOptGroup        `parquet:"g,optional"`
	L   []int            `parquet:"l,optional"`
	LL  []uint           `parquet:"ll,optional,list"`
	DI  int              `parquet:"di,optional,dict"`
	DU  uint             `parquet:"du,optional,dict"`
	Z   int16            `parquet:"z"`
}

// ---- embedded (anonymous) structs ----
//
// The fields of an embedded struct are promoted into the group of its parent.
// The typed writer finds them by memory offset (schema.go structFieldsOf, the
// offsets of the embedded structs on the way add up), the reflection paths by
// field index.  The embedded structs sit first, in the middle (after fields of
// odd sizes, so that alignment padding matters) and last; two levels deep; of
// exported and unexported types; in the row type and in groups that are
// nested, optional and repeated.

type TEmbFirst struct {
	Kind uint8 `parquet:"kind"`
}

type TEmbHead struct {
	Version int32  `parquet:"version"`
	Flags   uint16 `parquet:"flags,optional"`
	Label   string `parquet:"label,dict"`
}

type TEmbCoords struct {
	X    int64    `parquet:"x"`
	Y    float64  `parquet:"y"`
	Raw  []byte   `parquet:"raw,optional"`
	Path []int32  `parquet:"path"`
	CU   [16]byte `parquet:"cu,uuid"`
}

type tEmbDeep struct {
	Depth int8 `parquet:"depth"`
	TEmbCoords
	After *int64 `parquet:"after,optional"`
}

type TEmbLast struct {
	Sum  float32 `parquet:"sum"`
	Note string  `parquet:"note,optional"`
}

type tEmbElem struct {
	K bool `parquet:"k"`
	TEmbHead
	N int64 `parquet:"n"`
	TEmbLast
}

type tEmbedded struct {
	TEmbFirst
	ID int64 `parquet:"id"`
	TEmbHead
	Mid uint8 `parquet:"mid"`
	tEmbDeep
	One  tEmbElem   `parquet:"one"`
	Opt  *tEmbElem  `parquet:"opt,optional"`
	Many []tEmbElem `parquet:"many"`
	Tail int32      `parquet:"tail"`
	TEmbLast
}

// The same shapes over leaves that hold no pointers (numbers, bools, byte
// arrays): a promoted field located at the wrong offset then reads other
// bytes of the rows, which is a wrong value and no more.  With strings, slices
// and pointers it is a forged pointer, which ends the process (no recoverable
// panic): the family "embedded" is not run once "embedded-scalars" has failed.

type TEmbNumHead struct {
	Version int32   `parquet:"version"`
	Flags   uint16  `parquet:"flags,optional"`
	Ratio   float32 `parquet:"ratio"`
}

type TEmbNumCoords struct {
	X  int64    `parquet:"x"`
	Y  float64  `parquet:"y"`
	CU [16]byte `parquet:"cu,uuid"`
	A5 [5]byte  `parquet:"a5"`
}

type tEmbNumDeep struct {
	Depth int8 `parquet:"depth"`
	TEmbNumCoords
	After int64 `parquet:"after,optional"`
}

type TEmbNumLast struct {
	Sum float32 `parquet:"sum"`
	Big uint64  `parquet:"big,dict"`
}

type tEmbNumElem struct {
	K bool `parquet:"k"`
	TEmbNumHead
	N int64 `parquet:"n"`
	TEmbNumLast
}

type tEmbScalars struct {
	TEmbFirst
	ID int64 `parquet:"id"`
	TEmbNumHead
	Mid uint8 `parquet:"mid"`
	tEmbNumDeep
	One  tEmbNumElem `parquet:"one"`
	Tail int32       `parquet:"tail"`
	TEmbNumLast
}

type tEmbNumElemFlat struct {
	K       bool    `parquet:"k"`
	Version int32   `parquet:"version"`
	Flags   uint16  `parquet:"flags,optional"`
	Ratio   float32 `parquet:"ratio"`
	N       int64   `parquet:"n"`
	Sum     float32 `parquet:"sum"`
	Big     uint64  `parquet:"big,dict"`
}

type tEmbScalarsFlat struct {
	Kind    uint8           `parquet:"kind"`
	ID      int64           `parquet:"id"`
	Version int32           `parquet:"version"`
	Flags   uint16          `parquet:"flags,optional"`
	Ratio   float32         `parquet:"ratio"`
	Mid     uint8           `parquet:"mid"`
	Depth   int8            `parquet:"depth"`
	X       int64           `parquet:"x"`
	Y       float64         `parquet:"y"`
	CU      [16]byte        `parquet:"cu,uuid"`
	A5      [5]byte         `parquet:"a5"`
	After   int64           `parquet:"after,optional"`
	One     tEmbNumElemFlat `parquet:"one"`
	Tail    int32           `parquet:"tail"`
	Sum     float32         `parquet:"sum"`
	Big     uint64          `parquet:"big,dict"`
}

// the same schemas without embedding (the read types of the "wide" cases)

type tEmbElemFlat struct {
	K       bool    `parquet:"k"`
	Version int32   `parquet:"version"`
	Flags   uint16  `parquet:"flags,optional"`
	Label   string  `parquet:"label,dict"`
	N       int64   `parquet:"n"`
	Sum     float32 `parquet:"sum"`
	Note    string  `parquet:"note,optional"`
}

type tEmbFlat struct {
	Kind    uint8          `parquet:"kind"`
	ID      int64          `parquet:"id"`
	Version int32          `parquet:"version"`
	Flags   uint16         `parquet:"flags,optional"`
	Label   string         `parquet:"label,dict"`
	Mid     uint8          `parquet:"mid"`
	Depth   int8           `parquet:"depth"`
	X       int64          `parquet:"x"`
	Y       float64        `parquet:"y"`
	Raw     []byte         `parquet:"raw,optional"`
	Path    []int32        `parquet:"path"`
	CU      [16]byte       `parquet:"cu,uuid"`
	After   *int64         `parquet:"after,optional"`
	One     tEmbElemFlat   `parquet:"one"`
	Opt     *tEmbElemFlat  `parquet:"opt,optional"`
	Many    []tEmbElemFlat `parquet:"many"`
	Tail    int32          `parquet:"tail"`
	Sum     float32        `parquet:"sum"`
	Note    string         `parquet:"note,optional"`
}

// ---- maps ----
//
// A Go map is a MAP group (repeated key_value of key and value).  The typed
// writer copies the entries of a map into scratch arrays of keys and values
// before it hands them to the column buffers: one generic copy per key kind of
// cmp.Ordered (ints, uints, floats, strings) and a reflection based copy for
// every other key kind (bool, byte arrays); the strides of the scratch arrays
// are the Go sizes of key and value, so every (key size, value size) pair is a
// shape of its own.  The reflection paths walk the map with MapRange.  Every
// key kind meets values that are smaller than, as large as and larger than
// the key; maps hold 0..ListLen entries (more than the scratch capacity of
// the previous row).
//
// As for the embedded structs, the shapes come twice: over values that hold
// no pointers (an entry read with the wrong stride is a wrong number) and
// over strings, slices, pointers, groups and maps (a forged pointer ends the
// process): "maps" is not run once "maps-scalars" has failed.

type tMapNumGroup struct {
	P int32   `parquet:"p"`
	Q uint8   `parquet:"q"`
	R float64 `parquet:"r,optional"`
	S [3]byte `parquet:"s"`
}

type tMapScalars struct {
	ID int64 `parquet:"id"`
	// key kinds with a generic scratch copy
	I8I64  map[int8]int64         `parquet:"i8i64"`
	I16U8  map[int16]uint8        `parquet:"i16u8"`
	I32F64 map[int32]float64      `parquet:"i32f64"`
	I32I32 map[int32]int32        `parquet:"i32i32" parquet-value:",delta"`
	I64I32 map[int64]int32        `parquet:"i64i32" parquet-key:",delta"`
	II16   map[int]int16          `parquet:"ii16"`
	U8U64  map[uint8]uint64       `parquet:"u8u64"`
	U16F32 map[uint16]float32     `parquet:"u16f32"`
	U32I64 map[uint32]int64       `parquet:"u32i64" parquet-value:",dict"`
	U64Bo  map[uint64]bool        `parquet:"u64bo"`
	UA5    map[uint][5]byte       `parquet:"ua5"`
	F32I64 map[float32]int64      `parquet:"f32i64"`
	F64I8  map[float64]int8       `parquet:"f64i8"`
	I32G   map[int32]tMapNumGroup `parquet:"i32g"`
	// key kinds copied by reflection
	BoI8   map[bool]int8            `parquet:"boi8"`
	BoI32  map[bool]int32           `parquet:"boi32"`
	BoI64  map[bool]int64           `parquet:"boi64" parquet-value:",dict"`
	BoA16  map[bool][16]byte        `parquet:"boa16"`
	A1I64  map[[1]byte]int64        `parquet:"a1i64"`
	A1Bo   map[[1]byte]bool         `parquet:"a1bo"`
	A4I16  map[[4]byte]int16        `parquet:"a4i16"`
	A4I32  map[[4]byte]int32        `parquet:"a4i32"`
	A4I64  map[[4]byte]int64        `parquet:"a4i64"`
	A5F64  map[[5]byte]float64      `parquet:"a5f64"`
	A8I64  map[[8]byte]int64        `parquet:"a8i64" parquet-key:",dict"`
	A16I32 map[[16]byte]int32       `parquet:"a16i32" parquet-key:",uuid"`
	A16A16 map[[16]byte][16]byte    `parquet:"a16a16"`
	A16A5  map[[16]byte][5]byte     `parquet:"a16a5"`
	A20U8  map[[20]byte]uint8       `parquet:"a20u8"`
	A20F32 map[[20]byte]float32     `parquet:"a20f32"`
	A4G    map[[4]byte]tMapNumGroup `parquet:"a4g"`
	OA4    map[[4]byte]int64        `parquet:"oa4,optional"`
	Z      int16                    `parquet:"z"`
}

type tMapGroup struct {
	P int32   `parquet:"p"`
	Q string  `parquet:"q,dict"`
	R []int64 `parquet:"r"`
	S *int16  `parquet:"s,optional"`
}

type tMaps struct {
	ID   int64                       `parquet:"id"`
	SS   map[string]string           `parquet:"ss"`
	SI   map[string]int64            `parquet:"si" parquet-key:",dict" parquet-value:",dict"`
	SI8  map[string]int8             `parquet:"si8"`
	SP   map[string]*int32           `parquet:"sp"`
	SB   map[string][]byte           `parquet:"sb"`
	SL   map[string][]int32          `parquet:"sl"`
	SG   map[string]tMapGroup        `parquet:"sg"`
	SPG  map[string]*tMapGroup       `parquet:"spg"`
	SA   map[string][16]byte         `parquet:"sa" parquet-value:",uuid"`
	I32S map[int32]string            `parquet:"i32s"`
	I8B  map[int8][]byte             `parquet:"i8b"`
	U64S map[uint64]string           `parquet:"u64s" parquet-value:",dict"`
	F64S map[float64]string          `parquet:"f64s"`
	BoS  map[bool]string             `parquet:"bos"`
	BoL  map[bool][]int64            `parquet:"bol"`
	A4S  map[[4]byte]string          `parquet:"a4s"`
	A16P map[[16]byte]*int64         `parquet:"a16p"`
	A16L map[[16]byte][]int16        `parquet:"a16l"`
	A8B  map[[8]byte][]byte          `parquet:"a8b"`
	A5G  map[[5]byte]tMapGroup       `parquet:"a5g"`
	MM   map[string]map[int32]int64  `parquet:"mm"`
	AM   map[[4]byte]map[bool]string `parquet:"am"`
	OM   map[string]int32            `parquet:"om,optional"`
	G    tMapHolder                  `parquet:"g"`
	PG   *tMapHolder                 `parquet:"pg,optional"`
	LG   []tMapHolder                `parquet:"lg"`
	Z    int16                       `parquet:"z"`
}

type tMapHolder struct {
	K int32             `parquet:"k"`
	M map[[4]byte]int64 `parquet:"m"`
	N map[string]string `parquet:"n"`
}

// ---- Go values narrower than their column ----
//
// A writer given a schema that is not the one of its row type (and every
// writer of `any` rows) maps each Go value to its column by the KIND of the
// value: the reflection value writer calls writeInt32 for int8/int16/int32,
// writeInt64 for int/int64/uint/uint64, writeFloat for float32, ... on
// whatever column buffer the schema put there (column_buffer_reflect.go
// writeValueFuncOfLeaf), and every column buffer - plain and dictionary
// indexed, of every physical type - has its own conversion for each of these
// calls.  The family writes rows of tNarrowW with the schema of tNarrowR
// (same names and tags, wider Go types) and reads them as tNarrowR: only
// conversions that keep the value (sign or zero extension, float32 ->
// float64) are among them, on plain, dictionary and delta encoded columns
// that are required, optional and repeated.  (The tags of tNarrowW must be
// valid for its own Go types - every writer derives the schema of its row type
// first - so the logical types that need a wide integer are on tNarrowR only.)

type tNarrowElemW struct {
	A int16  `parquet:"a,dict"`
	B *uint8 `parquet:"b,optional"`
}

type tNarrowElemR struct {
	A int64   `parquet:"a,dict"`
	B *uint32 `parquet:"b,optional"`
}

type tNarrowW struct {
	ID int64 `parquet:"id"`
	// -> INT64
	P8   int8    `parquet:"p8"`
	P16  int16   `parquet:"p16"`
	P32  int32   `parquet:"p32"`
	D8   int8    `parquet:"d8,dict"`
	D16  int16   `parquet:"d16,dict"`
	D32  int32   `parquet:"d32,dict"`
	E8   int8    `parquet:"e8,delta"`
	E16  int16   `parquet:"e16,delta"`
	E32  int32   `parquet:"e32,delta"`
	OP16 *int16  `parquet:"op16,optional"`
	OD8  *int8   `parquet:"od8,optional,dict"`
	OD32 *int32  `parquet:"od32,optional,dict"`
	VD16 int16   `parquet:"vd16,optional,dict"`
	LP32 []int32 `parquet:"lp32"`
	LD16 []int16 `parquet:"ld16,dict"`
	LL8  []int8  `parquet:"ll8,list,dict"`
	TS32 int32   `parquet:"ts32"`
	DC16 int16   `parquet:"dc16,dict"`
	// -> INT64 of an unsigned logical type
	UP8  uint8    `parquet:"up8"`
	UP16 uint16   `parquet:"up16"`
	UP32 uint32   `parquet:"up32"`
	UD8  uint8    `parquet:"ud8,dict"`
	UD16 uint16   `parquet:"ud16,dict"`
	UD32 uint32   `parquet:"ud32,dict"`
	OUD  *uint32  `parquet:"oud,optional,dict"`
	LUD  []uint16 `parquet:"lud,dict"`
	// -> INT32
	Q8  int8    `parquet:"q8"`
	Q16 int16   `parquet:"q16"`
	R8  int8    `parquet:"r8,dict"`
	R16 int16   `parquet:"r16,dict"`
	S16 int16   `parquet:"s16,delta"`
	OR8 *int8   `parquet:"or8,optional,dict"`
	LR8 []int8  `parquet:"lr8,dict"`
	DT8 int8    `parquet:"dt8"`
	UQ8 uint8   `parquet:"uq8"`
	UR8 uint8   `parquet:"ur8,dict"`
	UR6 uint16  `parquet:"ur6,dict"`
	LU6 []uint8 `parquet:"lu6,list,dict"`
	// -> DOUBLE
	F   float32   `parquet:"f"`
	FD  float32   `parquet:"fd,dict"`
	OFD *float32  `parquet:"ofd,optional,dict"`
	LFD []float32 `parquet:"lfd,dict"`
	// in groups
	G  tNarrowElemW   `parquet:"g"`
	LG []tNarrowElemW `parquet:"lg"`
	Z  int16          `parquet:"z"`
}

type tNarrowR struct {
	ID   int64          `parquet:"id"`
	P8   int64          `parquet:"p8"`
	P16  int64          `parquet:"p16"`
	P32  int64          `parquet:"p32"`
	D8   int64          `parquet:"d8,dict"`
	D16  int64          `parquet:"d16,dict"`
	D32  int64          `parquet:"d32,dict"`
	E8   int64          `parquet:"e8,delta"`
	E16  int64          `parquet:"e16,delta"`
	E32  int            `parquet:"e32,delta"`
	OP16 *int64         `parquet:"op16,optional"`
	OD8  *int64         `parquet:"od8,optional,dict"`
	OD32 *int64         `parquet:"od32,optional,dict"`
	VD16 int64          `parquet:"vd16,optional,dict"`
	LP32 []int64        `parquet:"lp32"`
	LD16 []int64        `parquet:"ld16,dict"`
	LL8  []int64        `parquet:"ll8,list,dict"`
	TS32 int64          `parquet:"ts32,timestamp(millisecond)"`
	DC16 int64          `parquet:"dc16,decimal(2:12),dict"`
	UP8  uint64         `parquet:"up8"`
	UP16 uint64         `parquet:"up16"`
	UP32 uint64         `parquet:"up32"`
	UD8  uint64         `parquet:"ud8,dict"`
	UD16 uint64         `parquet:"ud16,dict"`
	UD32 uint           `parquet:"ud32,dict"`
	OUD  *uint64        `parquet:"oud,optional,dict"`
	LUD  []uint64       `parquet:"lud,dict"`
	Q8   int32          `parquet:"q8"`
	Q16  int32          `parquet:"q16"`
	R8   int32          `parquet:"r8,dict"`
	R16  int32          `parquet:"r16,dict"`
	S16  int32          `parquet:"s16,delta"`
	OR8  *int32         `parquet:"or8,optional,dict"`
	LR8  []int32        `parquet:"lr8,dict"`
	DT8  int32          `parquet:"dt8,date"`
	UQ8  uint32         `parquet:"uq8"`
	UR8  uint32         `parquet:"ur8,dict"`
	UR6  uint32         `parquet:"ur6,dict"`
	LU6  []uint32       `parquet:"lu6,list,dict"`
	F    float64        `parquet:"f"`
	FD   float64        `parquet:"fd,dict"`
	OFD  *float64       `parquet:"ofd,optional,dict"`
	LFD  []float64      `parquet:"lfd,dict"`
	G    tNarrowElemR   `parquet:"g"`
	LG   []tNarrowElemR `parquet:"lg"`
	Z    int16          `parquet:"z"`
}
