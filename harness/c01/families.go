package main

// Struct families of the typed round trips that vary the SHAPE of the Go row
// type rather than its leaf kinds.

import (
	"time"

	"github.com/parquet-go/parquet-go/deprecated"
)

// ---- every Go kind as an `optional` NON-pointer field ----
//
// The null of such a field is the zero value of its Go type; the typed writer
// decides it with one null-index kernel per Go kind (null.go; assembly in
// null_amd64.go, portable twins in null_purego.go), so every kind is its own
// code path, in every build variant.

type tOptGroup struct {
	P int32  `parquet:"p"`
	Q string `parquet:"q"`
	R []int8 `parquet:"r"`
}

type tOptValue struct {
	ID  int64            `parquet:"id"`
	Bo  bool             `parquet:"bo,optional"`
	I   int              `parquet:"i,optional"`
	I8  int8             `parquet:"i8,optional"`
	I16 int16            `parquet:"i16,optional"`
	I32 int32            `parquet:"i32,optional"`
	I64 int64            `parquet:"i64,optional"`
	U   uint             `parquet:"u,optional"`
	U8  uint8            `parquet:"u8,optional"`
	U16 uint16           `parquet:"u16,optional"`
	U32 uint32           `parquet:"u32,optional"`
	U64 uint64           `parquet:"u64,optional"`
	F32 float32          `parquet:"f32,optional"`
	F64 float64          `parquet:"f64,optional"`
	S   string           `parquet:"s,optional"`
	B   []byte           `parquet:"b,optional"`
	A1  [1]byte          `parquet:"a1,optional"`
	A5  [5]byte          `parquet:"a5,optional"`
	A16 [16]byte         `parquet:"a16,optional"`
	A20 [20]byte         `parquet:"a20,optional"`
	I96 deprecated.Int96 `parquet:"i96,optional"`
	T   time.Time        `parquet:"t,optional,timestamp(microsecond)"`
	D   time.Duration    `parquet:"d,optional,time(microsecond)"`
	DT  int32            `parquet:"dt,optional,date"`
	DC  int64            `parquet:"dc,optional,decimal(2:15)"`
	G   tOptGroup        `parquet:"g,optional"`
	L   []int            `parquet:"l,optional"`
	LL  []uint           `parquet:"ll,optional,list"`
	DI  int              `parquet:"di,optional,dict"`
	DU  uint             `parquet:"du,optional,dict"`
	Z   int16            `parquet:"z"`
}

// ---- embedded (anonymous) structs ----
//
// The fields of an embedded struct are promoted into the group of its parent.
// The typed writer finds them by memory offset (schema.go structFieldsOf, the
// offsets of the embedded structs on the way add up), the reflection paths by
// field index.  The embedded structs sit first, in the middle (after fields of
// odd sizes, so that alignment padding matters) and last; two levels deep; of
// exported and unexported types; in the row type and in groups that are
// nested, optional and repeated.

type TEmbFirst struct {
	Kind uint8 `parquet:"kind"`
}

type TEmbHead struct {
	Version int32  `parquet:"version"`
	Flags   uint16 `parquet:"flags,optional"`
	Label   string `parquet:"label,dict"`
}

type TEmbCoords struct {
	X    int64    `parquet:"x"`
	Y    float64  `parquet:"y"`
	Raw  []byte   `parquet:"raw,optional"`
	Path []int32  `parquet:"path"`
	CU   [16]byte `parquet:"cu,uuid"`
}

type tEmbDeep struct {
	Depth int8 `parquet:"depth"`
	TEmbCoords
	After *int64 `parquet:"after,optional"`
}

type TEmbLast struct {
	Sum  float32 `parquet:"sum"`
	Note string  `parquet:"note,optional"`
}

type tEmbElem struct {
	K bool `parquet:"k"`
	TEmbHead
	N int64 `parquet:"n"`
	TEmbLast
}

type tEmbedded struct {
	TEmbFirst
	ID int64 `parquet:"id"`
	TEmbHead
	Mid uint8 `parquet:"mid"`
	tEmbDeep
	One  tEmbElem   `parquet:"one"`
	Opt  *tEmbElem  `parquet:"opt,optional"`
	Many []tEmbElem `parquet:"many"`
	Tail int32      `parquet:"tail"`
	TEmbLast
}

// The same shapes over leaves that hold no pointers (numbers, bools, byte
// arrays): a promoted field located at the wrong offset then reads other
// bytes of the rows, which is a wrong value and no more.  With strings, slices
// and pointers it is a forged pointer, which ends the process (no recoverable
// panic): the family "embedded" is not run once "embedded-scalars" has failed.

type TEmbNumHead struct {
	Version int32   `parquet:"version"`
	Flags   uint16  `parquet:"flags,optional"`
	Ratio   float32 `parquet:"ratio"`
}

type TEmbNumCoords struct {
	X  int64    `parquet:"x"`
	Y  float64  `parquet:"y"`
	CU [16]byte `parquet:"cu,uuid"`
	A5 [5]byte  `parquet:"a5"`
}

type tEmbNumDeep struct {
	Depth int8 `parquet:"depth"`
	TEmbNumCoords
	After int64 `parquet:"after,optional"`
}

type TEmbNumLast struct {
	Sum float32 `parquet:"sum"`
	Big uint64  `parquet:"big,dict"`
}

type tEmbNumElem struct {
	K bool `parquet:"k"`
	TEmbNumHead
	N int64 `parquet:"n"`
	TEmbNumLast
}

type tEmbScalars struct {
	TEmbFirst
	ID int64 `parquet:"id"`
	TEmbNumHead
	Mid uint8 `parquet:"mid"`
	tEmbNumDeep
	One  tEmbNumElem `parquet:"one"`
	Tail int32       `parquet:"tail"`
	TEmbNumLast
}

type tEmbNumElemFlat struct {
	K       bool    `parquet:"k"`
	Version int32   `parquet:"version"`
	Flags   uint16  `parquet:"flags,optional"`
	Ratio   float32 `parquet:"ratio"`
	N       int64   `parquet:"n"`
	Sum     float32 `parquet:"sum"`
	Big     uint64  `parquet:"big,dict"`
}

type tEmbScalarsFlat struct {
	Kind    uint8           `parquet:"kind"`
	ID      int64           `parquet:"id"`
	Version int32           `parquet:"version"`
	Flags   uint16          `parquet:"flags,optional"`
	Ratio   float32         `parquet:"ratio"`
	Mid     uint8           `parquet:"mid"`
	Depth   int8            `parquet:"depth"`
	X       int64           `parquet:"x"`
	Y       float64         `parquet:"y"`
	CU      [16]byte        `parquet:"cu,uuid"`
	A5      [5]byte         `parquet:"a5"`
	After   int64           `parquet:"after,optional"`
	One     tEmbNumElemFlat `parquet:"one"`
	Tail    int32           `parquet:"tail"`
	Sum     float32         `parquet:"sum"`
	Big     uint64          `parquet:"big,dict"`
}

// the same schemas without embedding (the read types of the "wide" cases)

type tEmbElemFlat struct {
	K       bool    `parquet:"k"`
	Version int32   `parquet:"version"`
	Flags   uint16  `parquet:"flags,optional"`
	Label   string  `parquet:"label,dict"`
	N       int64   `parquet:"n"`
	Sum     float32 `parquet:"sum"`
	Note    string  `parquet:"note,optional"`
}

type tEmbFlat struct {
	Kind    uint8          `parquet:"kind"`
	ID      int64          `parquet:"id"`
	Version int32          `parquet:"version"`
	Flags   uint16         `parquet:"flags,optional"`
	Label   string         `parquet:"label,dict"`
	Mid     uint8          `parquet:"mid"`
	Depth   int8           `parquet:"depth"`
	X       int64          `parquet:"x"`
	Y       float64        `parquet:"y"`
	Raw     []byte         `parquet:"raw,optional"`
	Path    []int32        `parquet:"path"`
	CU      [16]byte       `parquet:"cu,uuid"`
	After   *int64         `parquet:"after,optional"`
	One     tEmbElemFlat   `parquet:"one"`
	Opt     *tEmbElemFlat  `parquet:"opt,optional"`
	Many    []tEmbElemFlat `parquet:"many"`
	Tail    int32          `parquet:"tail"`
	Sum     float32        `parquet:"sum"`
	Note    string         `parquet:"note,optional"`
}
