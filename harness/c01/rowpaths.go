package main

// Write paths of the Row API and what the caller does with its rows once
// WriteRows has returned.
//
// The RowWriter contract lets a caller reuse the rows (the []Row, the Values
// and the memory the byte-array values point to) as soon as WriteRows returns:
// whatever the writer keeps for later (RowBuffer and SortingWriter keep rows
// until they are sorted and flushed, buffers and writers keep column buffers
// and dictionaries until the row group is flushed) must be its own copy.  A
// rowCase therefore has two dimensions on top of the generator case:
//
//	sink  : the RowWriter that receives the rows
//	        writer    GenericWriter[any].WriteRows (history Flush = Flush)
//	        legacy    Writer.WriteRows
//	        buffer    GenericBuffer[any].WriteRows, WriteRowGroup at each Flush of the history and at the end
//	        rowbuffer RowBuffer[any].WriteRows, idem
//	        sorting   SortingWriter[any].WriteRows (with or without a sorting column), Flush = Flush
//	        handover  one GenericWriter[any] that is given each batch of the history in another way
//	                  (drawn from the seed and the batch number): WriteRows; column by column through
//	                  ColumnWriters()[i].WriteRowValues; a row group begun with BeginRowGroup, filled
//	                  through its WriteRows or its ColumnWriters, and committed at once (the rows the
//	                  writer holds pending come first: ConcurrentRowGroupWriter.Commit).  The rows must
//	                  be read back in the order in which the calls returned, serially.
//	reuse : keep      fresh clones, never touched again (the caller the suite has)
//	        scribble  the rows live in one Value slab and one byte arena of the caller; after each
//	                  WriteRows every byte of the arena is inverted, every Value is replaced and the
//	                  row slices are dropped
//	        refill    the same slab and arena are filled with the next batch (fill / Write / refill
//	                  loop) and scribbled before Close
//
// The expected rows are the generator's own (b.Rows), which the sinks never see.

import (
	"fmt"
	"io"
	"sort"

	"github.com/parquet-go/parquet-go"

	"verif/harness/core"
	"verif/harness/gen"
)

type rowCase struct {
	gen.Case
	Sink  string `json:"sink,omitempty"`
	Reuse string `json:"reuse,omitempty"`
}

var rowSinks = []string{"writer", "rowbuffer", "handover", "sorting", "writer", "buffer", "writer", "rowbuffer", "handover", "sorting", "writer", "legacy"}
var reuseModes = []string{"keep", "scribble", "refill"}

// rowDims assigns the sink and the reuse mode of the i-th generated case
// (every sink meets every reuse mode; half of the cases go to the plain
// writer, whose options and histories are the widest).
func rowDims(i int) (sink, reuse string) {
	return rowSinks[i%len(rowSinks)], reuseModes[(i/len(rowSinks)+i)%len(reuseModes)]
}

func (rc rowCase) sink() string {
	if rc.Sink == "" {
		return "writer"
	}
	return rc.Sink
}

func (rc rowCase) reuse() string {
	if rc.Reuse == "" {
		return "keep"
	}
	return rc.Reuse
}

// callerRows is the memory of a caller that builds its batches in place.
type callerRows struct {
	arena []byte
	used  int
	slab  []parquet.Value
	rows  []parquet.Row
}

func isBytesKind(v parquet.Value) bool {
	if v.IsNull() {
		return false
	}
	k := v.Kind()
	return k == parquet.ByteArray || k == parquet.FixedLenByteArray
}

func batchNeeds(src []parquet.Row) (nbytes, nvalues int) {
	for _, r := range src {
		nvalues += len(r)
		for _, v := range r {
			if isBytesKind(v) {
				nbytes += len(v.ByteArray())
			}
		}
	}
	return
}

// load builds the batch in the caller's slab and arena (overwriting what the
// previous batch left there).
func (cb *callerRows) load(src []parquet.Row) []parquet.Row {
	nb, nv := batchNeeds(src)
	if len(cb.arena) < nb+1 {
		cb.arena = make([]byte, nb+1)
	}
	if len(cb.slab) < nv {
		cb.slab = make([]parquet.Value, nv)
	}
	cb.rows = cb.rows[:0]
	off, vo := 0, 0
	for _, r := range src {
		start := vo
		for _, v := range r {
			if isBytesKind(v) {
				data := v.ByteArray()
				dst := cb.arena[off : off+len(data)]
				copy(dst, data)
				off += len(data)
				var nv parquet.Value
				if v.Kind() == parquet.ByteArray {
					nv = parquet.ByteArrayValue(dst)
				} else {
					nv = parquet.FixedLenByteArrayValue(dst)
				}
				v = nv.Level(v.RepetitionLevel(), v.DefinitionLevel(), v.Column())
			}
			cb.slab[vo] = v
			vo++
		}
		cb.rows = append(cb.rows, parquet.Row(cb.slab[start:vo:vo]))
	}
	cb.used = off
	return cb.rows
}

var junkBytes = []byte("\xA5overwritten by the caller\x5A")

// scribble overwrites everything the caller owns.
func (cb *callerRows) scribble() {
	// each byte of the current batch is inverted exactly once (the rest of the
	// arena already holds what earlier calls left there)
	for i := range cb.arena[:cb.used] {
		cb.arena[i] = ^cb.arena[i]
	}
	cb.used = 0
	for i := range cb.slab {
		cb.slab[i] = parquet.ByteArrayValue(junkBytes).Level(0, 0, i%3)
	}
	for i := range cb.rows {
		cb.rows[i] = nil
	}
	cb.rows = cb.rows[:0]
}

// sortingLeaf picks the column a sorting case is ordered by ("" = none: the
// writer is given no sorting column).
func sortingLeaf(b *gen.Built, seed int64) string {
	if seed%3 == 0 {
		return ""
	}
	var names []string
	for _, f := range b.Root.Fields {
		if f.Leaf != "" && f.Rep != gen.Rpt {
			names = append(names, f.Name)
		}
	}
	if len(names) == 0 {
		return ""
	}
	return names[int(uint64(seed)/3%uint64(len(names)))]
}

// write runs the history of the case on its sink.
func (rc rowCase) write(b *gen.Built, out io.Writer) error {
	wopts := append([]parquet.WriterOption{b.Schema}, b.Opts.WriterOptions(b.Root)...)
	var writeRows func([]parquet.Row) (int, error)
	var flush, finish func() error
	groupSink := func(w *parquet.GenericWriter[any], rg parquet.RowGroup, numRows func() int64, reset func()) {
		flush = func() error {
			if numRows() == 0 {
				return nil
			}
			n, err := w.WriteRowGroup(rg)
			if err != nil {
				return fmt.Errorf("WriteRowGroup: %w", err)
			}
			if n != numRows() {
				return fmt.Errorf("WriteRowGroup = %d, the buffer holds %d rows", n, numRows())
			}
			reset()
			return nil
		}
		finish = func() error {
			if err := flush(); err != nil {
				return err
			}
			return w.Close()
		}
	}
	switch rc.sink() {
	case "writer":
		w := parquet.NewGenericWriter[any](out, wopts...)
		writeRows, flush, finish = w.WriteRows, w.Flush, w.Close
	case "legacy":
		w := parquet.NewWriter(out, wopts...)
		writeRows, flush, finish = w.WriteRows, w.Flush, w.Close
	case "rowbuffer":
		rb := parquet.NewRowBuffer[any](b.Schema)
		writeRows = rb.WriteRows
		groupSink(parquet.NewGenericWriter[any](out, wopts...), rb, rb.NumRows, rb.Reset)
	case "buffer":
		gb := parquet.NewGenericBuffer[any](b.Schema)
		writeRows = gb.WriteRows
		groupSink(parquet.NewGenericWriter[any](out, wopts...), gb, gb.NumRows, gb.Reset)
	case "sorting":
		if name := sortingLeaf(b, rc.Seed); name != "" {
			wopts = append(wopts, parquet.SortingWriterConfig(parquet.SortingColumns(parquet.Ascending(name))))
		}
		sortRowCount := []int64{1, 3, 17, 64, 1000}[int(uint64(rc.Seed)/7%5)]
		w := parquet.NewSortingWriter[any](out, sortRowCount, wopts...)
		writeRows, flush, finish = w.WriteRows, w.Flush, w.Close
	case "handover":
		w := parquet.NewGenericWriter[any](out, wopts...)
		ncols := len(b.Root.Leaves())
		batch := 0
		writeRows = func(rows []parquet.Row) (int, error) {
			route := mix(uint64(rc.Seed)*31+uint64(batch)) % 5
			batch++
			if len(rows) == 0 {
				route = 0
			}
			switch route {
			case 0:
				return w.WriteRows(rows)
			case 1, 2:
				return writeColumns(w.ColumnWriters(), rows, ncols)
			}
			rg := w.BeginRowGroup()
			var n int
			var err error
			if route == 3 {
				n, err = rg.WriteRows(rows)
			} else {
				n, err = writeColumns(rg.ColumnWriters(), rows, ncols)
			}
			if err != nil || n != len(rows) {
				return n, err
			}
			if c, err := rg.Commit(); err != nil || c != int64(len(rows)) {
				return 0, fmt.Errorf("Commit = %d, %v for a row group of %d rows", c, err, len(rows))
			}
			return n, nil
		}
		flush, finish = w.Flush, w.Close
	default:
		return fmt.Errorf("unknown sink %q", rc.Sink)
	}
	reuse := rc.reuse()
	var cb callerRows
	if reuse != "keep" {
		// one slab and one arena for the whole history, so that every batch lands
		// on the memory of the batches before it
		i := 0
		for _, h := range b.History {
			if h > 0 {
				nb, nv := batchNeeds(b.Rows[i : i+h])
				if nb+1 > len(cb.arena) {
					cb.arena = make([]byte, nb+1)
				}
				if nv > len(cb.slab) {
					cb.slab = make([]parquet.Value, nv)
				}
				i += h
			}
		}
	}
	i := 0
	for _, h := range b.History {
		if h < 0 {
			if err := flush(); err != nil {
				return fmt.Errorf("flush: %w", err)
			}
			continue
		}
		var rows []parquet.Row
		if reuse == "keep" {
			rows = make([]parquet.Row, h)
			for j := range rows {
				rows[j] = b.Rows[i+j].Clone()
			}
		} else {
			rows = cb.load(b.Rows[i : i+h])
		}
		n, err := writeRows(rows)
		if err != nil {
			return fmt.Errorf("write rows: %w", err)
		}
		if n != h {
			return fmt.Errorf("write rows: WriteRows = %d of %d rows and no error", n, h)
		}
		if reuse == "scribble" {
			cb.scribble()
		}
		i += h
	}
	if reuse != "keep" {
		cb.scribble()
	}
	if err := finish(); err != nil {
		return fmt.Errorf("close: %w", err)
	}
	return nil
}

// writeColumns hands the rows over column by column (the values of a column in
// the order of the rows, in memory of their own: what a column writer may keep
// of the values it is given is not the RowWriter contract).
func writeColumns(cols []*parquet.ColumnWriter, rows []parquet.Row, ncols int) (int, error) {
	if len(cols) != ncols {
		return 0, fmt.Errorf("%d column writers for %d leaf columns", len(cols), ncols)
	}
	vals := make([][]parquet.Value, ncols)
	for _, r := range rows {
		for _, v := range r {
			vals[v.Column()] = append(vals[v.Column()], v.Clone())
		}
	}
	for i := range cols {
		if _, err := cols[i].WriteRowValues(vals[i]); err != nil {
			return 0, fmt.Errorf("column %d: WriteRowValues: %w", i, err)
		}
	}
	return len(rows), nil
}

// comparePermutation checks that got holds exactly the rows of want, each as
// many times, in any order (the order of a sorting writer is the subject of
// C10).
func comparePermutation(c *core.Ctx, class string, rc rowCase, want, got []parquet.Row, how string) bool {
	if len(want) != len(got) {
		c.Violation(class+"-row-count", fmt.Sprintf("%s: wrote %d rows, read %d", how, len(want), len(got)), rc)
		return false
	}
	a, b := make([]string, len(want)), make([]string, len(got))
	for i := range want {
		a[i], b[i] = gen.CanonRow(want[i]), gen.CanonRow(got[i])
	}
	sort.Strings(a)
	sort.Strings(b)
	for i := range a {
		if a[i] != b[i] {
			row, side := a[i], "was written but is not read back (or fewer times)"
			if b[i] < a[i] {
				row, side = b[i], "is read back but was not written (or fewer times)"
			}
			c.Violation(class, fmt.Sprintf("%s: the rows read are not a permutation of the rows written: row [%s] %s", how, core.Trunc(row, 300), side), rc)
			return false
		}
	}
	return true
}
