package main

// C01: write then read returns exactly the rows written.  Rows are generated
// as value trees of random schemas, shredded by an independent implementation
// of the Dremel algorithm, written through the Row API with random options and
// Write/Flush histories into each RowWriter of the library (rowpaths.go:
// writers, buffers, the row buffer, the sorting writer) by a caller that keeps
// its rows or reuses their memory once WriteRows has returned, and read back
// through several readers.  Typed
// round trips (typed.go: struct families filled by reflection, several typed
// write and read paths) cover the Go-value mapping, the logical types reached
// through struct tags, the bulk (one call, many values) column paths, Go maps
// of every key kind and Go values narrower than the columns of a given schema.  The model side: Dremel shred == the rows handed to
// the writer, and assembling the read-back column streams returns the values.

import (
	"bytes"
	"encoding/json"
	"errors"
	"fmt"
	"io"
	"strings"

	"github.com/parquet-go/parquet-go"

	"verif/harness/core"
	"verif/harness/gen"
)

func main() { core.Main("C01", run, replay) }

var allCodecs = []string{"none", "snappy", "gzip", "brotli", "zstd", "lz4"}

func readAll(rows parquet.Rows, batch int) ([]parquet.Row, error) {
	defer rows.Close()
	var out []parquet.Row
	buf := make([]parquet.Row, batch)
	for {
		n, err := rows.ReadRows(buf)
		for _, r := range buf[:n] {
			out = append(out, r.Clone())
		}
		if err != nil {
			if errors.Is(err, io.EOF) {
				return out, nil
			}
			return out, err
		}
		if n == 0 {
			return out, fmt.Errorf("ReadRows returned 0 rows and no error")
		}
	}
}

func compareRows(c *core.Ctx, class string, cs rowCase, want, got []parquet.Row, how string) bool {
	if len(want) != len(got) {
		c.Violation(class+"-row-count", fmt.Sprintf("%s: wrote %d rows, read %d", how, len(want), len(got)), cs)
		return false
	}
	for i := range want {
		a, b := gen.CanonRow(want[i]), gen.CanonRow(got[i])
		if a != b {
			c.Violation(class, fmt.Sprintf("%s: row %d differs: wrote [%s] read [%s]", how, i, core.Trunc(a, 300), core.Trunc(b, 300)), cs)
			return false
		}
	}
	return true
}

func check(c *core.Ctx, cs rowCase) (ok bool, nontrivial bool, bucket string) {
	ok = true
	b := cs.Build()
	bucket = fmt.Sprintf("v%d/%s/%s/%s", b.Opts.PageVersion, b.Opts.Codec, cs.sink(), cs.reuse())
	var buf bytes.Buffer
	var werr error
	p := func() (p string) {
		defer func() {
			if r := recover(); r != nil {
				p = fmt.Sprint(r)
			}
		}()
		werr = cs.write(b, &buf)
		return ""
	}()
	if p != "" {
		c.Violation("write-panic", "writer panicked: "+core.Trunc(p, 300)+" schema "+b.Root.Text(), cs)
		return false, false, bucket
	}
	if werr != nil {
		// rows not accepted by the writer: outside the property
		return true, false, "rejected:" + core.Trunc(werr.Error(), 60)
	}
	data := buf.Bytes()
	rp := func() (p string) {
		defer func() {
			if r := recover(); r != nil {
				p = fmt.Sprint(r)
			}
		}()
		f, err := parquet.OpenFile(bytes.NewReader(data), int64(len(data)))
		if err != nil {
			c.Violation("open-error", "OpenFile of a file the writer produced failed: "+err.Error()+" schema "+b.Root.Text(), cs)
			ok = false
			return
		}
		if f.NumRows() != int64(len(b.Rows)) {
			c.Violation("num-rows", fmt.Sprintf("footer num_rows %d, wrote %d", f.NumRows(), len(b.Rows)), cs)
			ok = false
		}
		// (1) row group by row group
		var got []parquet.Row
		for _, rg := range f.RowGroups() {
			rs, err := readAll(rg.Rows(), 1+int(cs.Seed%7)*9)
			if err != nil {
				c.Violation("read-error", "reading back failed: "+err.Error()+" schema "+b.Root.Text(), cs)
				ok = false
				return
			}
			got = append(got, rs...)
		}
		how := cs.sink() + " (caller: " + cs.reuse() + ") -> "
		want := b.Rows
		if cs.sink() == "sorting" {
			// the order is the writer's (C10): the rows read must be a permutation of
			// the rows written, and every other reader must return them in the order
			// of this one
			if !comparePermutation(c, "rows-differ", cs, b.Rows, got, how+"RowGroup.Rows") {
				ok = false
				return
			}
			want = got
		} else if !compareRows(c, "rows-differ", cs, b.Rows, got, how+"RowGroup.Rows") {
			ok = false
			return
		}
		// (2) whole-file reader
		rd := parquet.NewReader(f)
		got2, err := readAll(readerRows{rd}, 64)
		if err != nil {
			c.Violation("read-error", "Reader.ReadRows failed: "+err.Error(), cs)
			ok = false
			return
		}
		if !compareRows(c, "rows-differ-reader", cs, want, got2, how+"parquet.Reader") {
			ok = false
			return
		}
		// (3) column by column through pages/values
		for ci, leaf := range b.Root.Leaves() {
			_ = leaf
			var wantv []string
			for _, r := range want {
				for _, v := range r {
					if v.Column() == ci {
						wantv = append(wantv, gen.Canon(v))
					}
				}
			}
			var gotv []string
			for _, rg := range f.RowGroups() {
				pages := rg.ColumnChunks()[ci].Pages()
				for {
					pg, err := pages.ReadPage()
					if err != nil {
						if !errors.Is(err, io.EOF) {
							c.Violation("read-error", "ReadPage failed: "+err.Error(), cs)
							ok = false
						}
						break
					}
					vals := make([]parquet.Value, pg.NumValues())
					n, _ := pg.Values().ReadValues(vals)
					for _, v := range vals[:n] {
						gotv = append(gotv, gen.Canon(v))
					}
					parquet.Release(pg)
				}
				pages.Close()
			}
			if strings.Join(wantv, " ") != strings.Join(gotv, " ") {
				c.Violation("column-values-differ", fmt.Sprintf(how+"column %d read through pages differs from what was written (schema %s)", ci, b.Root.Text()), cs)
				ok = false
				return
			}
		}
		return ""
	}()
	if rp != "" {
		c.Violation("read-panic", "reader panicked: "+core.Trunc(rp, 300)+" schema "+b.Root.Text(), cs)
		ok = false
	}
	// correspondence with the Dremel model: the model's shredding of the value
	// trees equals the rows given to the writer (validates the generator's
	// shredder against the proved model)
	if ok && c.HasOracle() && cs.NRows > 0 && cs.Seed%5 == 0 {
		v := b.Vals[0]
		want := c.Ask("c01.shred " + schemaTok(b.Root) + " " + valueTok(b.Root, v))
		got := shredTok(b.Root, b.Rows[0])
		if want != got {
			c.Mismatch("corr:C01.dremel_shred", b.Root.Text(), got, want, cs)
			ok = false
		}
	}
	return ok, len(b.Rows) >= 2, bucket
}

type readerRows struct{ r *parquet.Reader }

func (r readerRows) ReadRows(rows []parquet.Row) (int, error) { return r.r.ReadRows(rows) }
func (r readerRows) Close() error                           { return r.r.Close() }
func (r readerRows) Schema() *parquet.Schema                { return r.r.Schema() }
func (r readerRows) SeekToRow(i int64) error                { return r.r.SeekToRow(i) }

// ---- oracle syntax for schema / value / streams ----

func schemaTok(n *gen.Node) string {
	if n.Leaf != "" {
		return "L"
	}
	parts := make([]string, len(n.Fields))
	for i, f := range n.Fields {
		parts[i] = []string{"R", "O", "P"}[f.Rep] + schemaTok(f)
	}
	return "G(" + strings.Join(parts, ",") + ")"
}

func valueTok(n *gen.Node, v *gen.Val) string {
	if n.Leaf != "" {
		return "x" + fmt.Sprintf("%x", v.Leaf.Bytes())
	}
	parts := make([]string, len(n.Fields))
	for i, f := range n.Fields {
		fv := v.Group[i]
		switch f.Rep {
		case gen.Req:
			parts[i] = valueTok(f, fv)
		case gen.Opt:
			if fv.Null {
				parts[i] = "N"
			} else {
				parts[i] = "S" + valueTok(f, fv.Some)
			}
		default:
			el := make([]string, len(fv.List))
			for j, y := range fv.List {
				el[j] = valueTok(f, y)
			}
			parts[i] = "[" + strings.Join(el, ";") + "]"
		}
	}
	return "G(" + strings.Join(parts, ",") + ")"
}

func shredTok(root *gen.Node, row parquet.Row) string {
	n := len(root.Leaves())
	cols := make([][]string, n)
	for _, v := range row {
		s := "N"
		if !v.IsNull() {
			s = fmt.Sprintf("x%x", v.Bytes())
		}
		cols[v.Column()] = append(cols[v.Column()], fmt.Sprintf("%s:%d:%d", s, v.RepetitionLevel(), v.DefinitionLevel()))
	}
	parts := make([]string, n)
	for i, col := range cols {
		parts[i] = strings.Join(col, ",")
	}
	return strings.Join(parts, "|")
}

// ---- typed round trips ----

type tFlat struct {
	A int32    `parquet:"a"`
	B *int64   `parquet:"b,optional"`
	C string   `parquet:"c,dict"`
	D []byte   `parquet:"d,optional"`
	E float64  `parquet:"e"`
	F float32  `parquet:"f,optional"`
	G bool     `parquet:"g"`
	H [16]byte `parquet:"h,uuid"`
	I uint32   `parquet:"i"`
	J int64    `parquet:"j,optional"`
}

type tNested struct {
	ID    int64             `parquet:"id,delta"`
	Tags  []string          `parquet:"tags,list"`
	Nums  []int32           `parquet:"nums"`
	Inner *tInner           `parquet:"inner,optional"`
	Items []tInner          `parquet:"items"`
	Grid  [][]int64         `parquet:"grid,list"`
}

type tInner struct {
	X int32   `parquet:"x"`
	Y *string `parquet:"y,optional"`
	Z []int64 `parquet:"z"`
}

func run(c *core.Ctx) {
	c.Res.Rule = "random schemas (required/optional/repeated leaves of every physical type and several logical types, groups, LIST groups, depth <= 3) x value trees with boundary values (min/max ints, NaN payloads, -0, infinities, empty and long byte strings, null runs, empty and long lists) shredded by an independent Dremel implementation x writer options (page version, page buffer size, max rows per row group, codec per file and per column, encodings per column, dictionary limit, statistics, write buffer, bloom filters, index size limit) x Write/Flush histories x row sink (GenericWriter.WriteRows, Writer.WriteRows, GenericBuffer.WriteRows or RowBuffer.WriteRows + WriteRowGroup at every Flush, SortingWriter.WriteRows with or without a sorting column and sort buffers of 1..1000 rows; one GenericWriter handed each batch of the history in another way - WriteRows, ColumnWriters()[i].WriteRowValues column by column, a row group begun with BeginRowGroup, filled by rows or by columns and committed at once - whose rows must be read in the order in which the calls returned) x caller (keeps fresh rows; builds every batch in one Value slab and one byte arena which it overwrites after each WriteRows; refills the same slab and arena with the next batch); each file is read back through RowGroup.Rows, parquet.Reader and ColumnChunk.Pages and must equal the written rows value-for-value and level-for-level (in the order written; as a multiset for the sorting writer, whose order is C10); plus typed round trips generated by reflection over compiled struct families (every kind of dictionary-encoded column as required, optional and repeated field with lists of up to 5000 (thorough: 20000) elements handed over in one call; logical types through struct tags: int(n)/uint(n), decimal on int32/int64/fixed arrays, date, time, timestamp of every unit on integers, time.Time and time.Duration, uuid, enum, json, string/bytes, at the extremes of their ranges; every Go kind (bool, int, uint and every fixed width, floats, string, []byte, byte arrays of 1/5/16/20 bytes, Int96, time.Time, time.Duration, a group, lists) as an `optional` non-pointer field whose null is the zero value, zero with the null bias; row types and nested/optional/repeated groups that promote the fields of embedded structs placed first, in the middle behind fields of odd sizes, last and two levels deep, of exported and unexported types, read back into the embedding type or into the same schema declared without embedding; Go maps of every key kind - ints, uints, floats and strings, which the typed writer copies with a generic scratch array, bool and byte arrays of 1/4/5/8/16/20 bytes, which it copies by reflection - over values smaller than, as large as and larger than the key, of 0..400 entries, with numbers, byte arrays and groups of numbers as values in one family and strings, byte slices, pointers, lists, groups and maps as values in another, in the row, in optional and repeated groups; rows of a struct type with NARROWER Go types than the schema the writers are given - int8/int16/int32 into INT64, uint8/uint16/uint32 into unsigned INT64, int8/int16 and uint8/uint16 into INT32, float32 into DOUBLE columns that are plain, dictionary and delta encoded, required, optional, repeated and inside groups - which every writer maps to its columns by reflection on the kind of each value, read back as the Go type of the schema) x values from pools and extremes (min/max, 0, +-1, half-width boundaries, zero except for one byte, NaN payloads, -0, empty/long byte strings) x value pools of 2..2^30 distinct values per column x write path (one GenericWriter.Write call, small calls, GenericBuffer+WriteRowGroup, Write(any), RowBuffer+WriteRowGroup, SortingWriter with or without a sorting column) x caller (hands over its rows and keeps them; fills one reused batch slice whose arrays, byte-slice contents, numbers, pointer targets and list elements it overwrites in place after each Write; refills the same batch with the next rows) x read path (parquet.Read, GenericReader batches, Reader.Read(any)) x reading caller (keeps every batch by value and hands Read zeroed destinations; the destinations still holding the rows of the previous call; destinations it filled with unrelated rows - non-nil pointers, slices with capacity, byte slices in an arena it overwrites before the next call) x read type (the written struct type, or one with the same tags and wider Go integer types) x page version, page size, codec, dictionary limit, rows per row group x build variant (assembly kernels, purego); compared leaf by leaf (floats by bits, time.Time as instants, nil = empty slice). Non-trivial = at least 2 rows accepted by the writer; distinct by the JSON of the case."
	n := c.N(350, 6000)
	for i := 0; i < n; i++ {
		cs := rowCase{Case: gen.Case{Seed: c.Seed*1000003 + int64(i), NRows: []int{0, 1, 5, 40, 130, 300, 700}[c.Rng.Intn(7)], MaxDepth: 1 + c.Rng.Intn(3), MaxFields: 1 + c.Rng.Intn(5), Codecs: allCodecs, NullBias: c.Rng.Intn(8)}}
		cs.Sink, cs.Reuse = rowDims(i)
		if !c.Quick() && i%50 == 0 {
			cs.NRows = 5000
		}
		runCase(c, cs, i < 3)
	}
	// typed round trips
	// (quick: every family x write path x writing caller once)
	for i := 0; i < c.N(len(families)*len(writePaths)*len(reuseModes), 1296); i++ {
		runTypedCase(c, genTypedCase(c, i), i < 3)
	}
}

func runCase(c *core.Ctx, cs rowCase, sample bool) {
	failed := c.Probe(func() { check(c, cs) })
	if failed {
		// shrink: the plain caller, the plain writer
		for _, simpler := range []func(t *rowCase) bool{
			func(t *rowCase) bool { ch := t.reuse() != "keep"; t.Reuse = "keep"; return ch },
			func(t *rowCase) bool { ch := t.sink() != "writer"; t.Sink = "writer"; return ch },
			func(t *rowCase) bool { ch := t.reuse() == "refill"; t.Reuse = "scribble"; return ch },
		} {
			t := cs
			if simpler(&t) && c.Probe(func() { check(c, t) }) {
				cs = t
			}
		}
		// shrink: fewer rows
		for cs.NRows > 1 {
			t := cs
			t.NRows = cs.NRows / 2
			if c.Probe(func() { check(c, t) }) {
				cs = t
			} else {
				break
			}
		}
		for cs.NRows > 1 {
			t := cs
			t.NRows--
			if c.Probe(func() { check(c, t) }) {
				cs = t
			} else {
				break
			}
		}
	}
	_, nontrivial, bucket := check(c, cs)
	key, _ := json.Marshal(cs)
	c.Case(bucket, string(key), nontrivial)
	if sample {
		c.Sample(map[string]any{"case": cs, "schema": cs.Build().Root.Text(), "options": cs.Build().Opts})
	}
}

func replay(c *core.Ctx, raw json.RawMessage) {
	var tc typedCase
	if err := json.Unmarshal(raw, &tc); err == nil && tc.Typed != "" {
		runTypedCase(c, tc, true)
		return
	}
	var cs rowCase
	if err := json.Unmarshal(raw, &cs); err != nil {
		c.Note("replay does not hold a generator case")
		return
	}
	runCase(c, cs, true)
}
