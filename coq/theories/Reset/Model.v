(** C17 — abstract executable state machine of the file writer: which state
    flows into the emitted bytes, what Reset clears and what it keeps.
    Executable, no proofs (Reset/Proofs.v).

    Go sources mirrored (/repo writer.go, first line of each function at the time of writing):
      743   newConcurrentRowGroupWriter                   -> col_init
      887   ConcurrentRowGroupWriter.reset                -> map col_reset
      1041  ConcurrentRowGroupWriter.writeRows            -> lwrite (remain, chunks of 64)
      1110  newWriter (metadata sorted, configMetadata)   -> linit / init_of_map
      1218  writer.reset                                  -> lreset / reset_caps
      472, 1269  Writer.Close, writer.close               -> lclose
      1293  writer.writeFileHeader                        -> lheader
      1330  writer.writeFileFooter                        -> emit_cindexes / emit_oindexes / EvFooter
      1528  writer.writeRowGroup (reuse of the retained
            rowGroups/columnIndexes/offsetIndexes)        -> lflush_core
      1888  writer.WriteRows (flush on ErrTooManyRowGroups)-> lwrite
      2077  ColumnWriter.reset                            -> col_reset
      2138  ColumnWriter.Flush (dictionary limit)         -> col_flush_page
      2393  ColumnWriter.WriteRowValues                   -> col_write
      2753  fallbackDictionaryToPlain                     -> c_enc / c_switched
      2823  recordPageStats                               -> accumulators of colacc
      657   Writer.SetKeyValueMetadata                    -> set_kv
      file.go:671  sortKeyValueMetadata                   -> sort_kv
      format/parquet.go:1150 RowGroup.Reset, format/reset.go -> slot_clear

    Abstractions.  A row is an opaque identifier [N]; every column receives the
    identifiers of the rows.  The encoding of the rows of a page is a Section
    parameter [encode] (encoding in force, dictionary contents, rows): what
    matters is which state reaches it.  A page is complete when the buffer
    holds [cf_page_rows] rows (Go: when its size reaches the page buffer
    size).  The dictionary limit counts entries (Go: bytes).  The sink either
    accepts everything or, in [FailWrite], accepts a prefix of the events of
    one row group and then answers every write with an error (bufio's sticky
    error) until Reset installs another sink.  Emitted bytes are a list of
    [event]s; [observe_bytes] flattens them with any serialiser.  *)
From Coq Require Import List NArith Bool Arith.
Import ListNotations.
Open Scope N_scope.

Definition nlen {A} (l : list A) : N := N.of_nat (length l).

(** ---------- configuration (never changed by any operation) ---------- *)
Inductive enc := EncPlain | EncDict.

Record colcfg := mk_colcfg {
  cc_path : list N;      (* leaf.path (names as numbers, 0 = empty string) *)
  cc_dict : bool;        (* dictionary encoding configured *)
  cc_dict_max : N;       (* DictionaryMaxBytes, 0 = no limit *)
  cc_bloom : bool }.     (* bloom filter configured *)

Record config := mk_config {
  cf_cols : list colcfg;
  cf_max_rows : N;       (* MaxRowsPerRowGroup *)
  cf_page_rows : N;      (* page buffer size, in rows *)
  cf_encrypted : bool;   (* modules carry the row group ordinal as AAD *)
  cf_created_by : N }.

(** ---------- footer structures ---------- *)
Record colmeta := mk_colmeta {
  cm_path : list N;            (* path_in_schema *)
  cm_nvalues : N;
  cm_size : N;                 (* total_compressed_size *)
  cm_dict_off : N;
  cm_data_off : N;
  cm_stats : option (N * N);   (* min, max *)
  cm_npages : N;               (* encoding_stats *)
  cm_fallback : bool;
  cm_bloom_off : N;
  cm_bloom_len : N;
  cm_ci_off : N; cm_ci_len : N;
  cm_oi_off : N; cm_oi_len : N }.

Record rgmeta := mk_rgmeta {
  rg_cols : list colmeta;
  rg_rows : N;
  rg_off : N;                  (* file_offset *)
  rg_size : N;                 (* total_compressed_size *)
  rg_ordinal : N }.

Record footer := mk_footer {
  ft_rows : N;
  ft_rgs : list rgmeta;
  ft_kv : list (N * N);
  ft_created : N }.

Definition pageidx := list (N * N).          (* per page: min, max *)
Definition pagelocs := list (N * N * N).     (* per page: offset, size, first row *)

(** ---------- what the sink receives ---------- *)
Inductive event :=
| EvMagic
| EvDictPage (col : nat) (dict : list N) (aad : option N)
| EvDataPage (col : nat) (e : enc) (payload : list N) (rows : N) (aad : option N)
| EvBloom (col : nat) (values : list N) (aad : option N)
| EvColumnIndex (rg col : nat) (pages : pageidx)
| EvOffsetIndex (rg col : nat) (locs : pagelocs)
| EvFooter (f : footer).

Definition ev_size (e : event) : N :=
  match e with
  | EvMagic => 4
  | EvDictPage _ d _ => 1 + nlen d
  | EvDataPage _ _ p _ _ => 1 + nlen p
  | EvBloom _ v _ => 1 + nlen v
  | EvColumnIndex _ _ p => 1 + nlen p
  | EvOffsetIndex _ _ l => 1 + nlen l
  | EvFooter _ => 8
  end.

Definition evs_size (l : list event) : N := fold_left (fun a e => a + ev_size e) l 0.

(** ---------- live column writer ---------- *)
Record page := mk_page { pg_enc : enc; pg_payload : list N; pg_rows : N; pg_aad : option N }.

Definition page_size (p : page) : N := 1 + nlen (pg_payload p).

(* everything ColumnWriter.reset returns to its initial value *)
Record colacc := mk_colacc {
  a_buffer : list N;           (* columnBuffer: rows not yet in a page *)
  a_pages : list page;         (* pageBuffer, numPages *)
  a_dict : list N;             (* dictionary, insertion order *)
  a_numrows : N;               (* numRows: rows in finished pages *)
  a_nvalues : N;               (* columnChunk.MetaData.NumValues *)
  a_size : N;                  (* columnChunk.MetaData.TotalCompressedSize (data pages) *)
  a_stats : option (N * N);    (* columnChunk.MetaData.Statistics *)
  a_pageidx : pageidx;         (* columnIndex *)
  a_locs : pagelocs;           (* offsetIndex.PageLocations *)
  a_seen : list N }.           (* values read back for the bloom filter *)

Definition acc0 : colacc := mk_colacc [] [] [] 0 0 0 None [] [] [].

Record col := mk_col {
  c_cfg : colcfg;
  c_path : list N;             (* columnPath = columnChunk.MetaData.PathInSchema (same backing array) *)
  c_enc : enc;                 (* encoding in force *)
  c_switched : bool;           (* hasSwitchedToPlain *)
  c_ordinal : N;               (* rowGroupOrdinal *)
  c_acc : colacc;
  c_plain : list N }.          (* rows held by plainColumnBuffer while it is NOT the current buffer *)

Definition enc0 (cc : colcfg) : enc := if cc_dict cc then EncDict else EncPlain.

Definition col_init (cc : colcfg) : col := mk_col cc (cc_path cc) (enc0 cc) false 0 acc0 [].

(* func (c *ColumnWriter) reset() *)
Definition col_reset (c : col) : col :=
  mk_col (c_cfg c) (c_path c)
         (if c_switched c then enc0 (c_cfg c) else c_enc c)   (* if c.hasSwitchedToPlain { c.encoding = c.originalEncoding } *)
         false
         (c_ordinal c)                                        (* not touched *)
         acc0                                                 (* c.columnBuffer = c.originalColumnBuffer; c.columnBuffer.Reset(); ... *)
         [].                                                  (* c.plainColumnBuffer.Reset() (since 2943698) *)

(* writeRowGroup's deferred function: rg.reset(), then the ordinal of the next
   row group when the file is encrypted *)
Definition col_next_rg (encrypted : bool) (next : N) (c : col) : col :=
  let r := col_reset c in
  mk_col (c_cfg r) (c_path r) (c_enc r) (c_switched r) (if encrypted then next else c_ordinal r) (c_acc r) (c_plain r).

Definition set_ordinal (encrypted : bool) (o : N) (c : col) : col :=
  mk_col (c_cfg c) (c_path c) (c_enc c) (c_switched c) (if encrypted then o else c_ordinal c) (c_acc c) (c_plain c).

Definition memN (x : N) (l : list N) : bool := existsb (N.eqb x) l.

Fixpoint dict_add (dict rows : list N) : list N :=
  match rows with
  | [] => dict
  | r :: t => dict_add (if memN r dict then dict else dict ++ [r]) t
  end.

Fixpoint minmax (l : list N) : option (N * N) :=
  match l with
  | [] => None
  | x :: t => match minmax t with None => Some (x, x) | Some (a, b) => Some (N.min x a, N.max x b) end
  end.

Definition merge_stats (s p : option (N * N)) : option (N * N) :=
  match s, p with
  | None, _ => p
  | _, None => s
  | Some (a, b), Some (a', b') => Some (N.min a a', N.max b b')
  end.

Definition set_acc (c : col) (a : colacc) : col :=
  mk_col (c_cfg c) (c_path c) (c_enc c) (c_switched c) (c_ordinal c) a (c_plain c).

Section Machine.
  (** the row encoding: encoding in force, dictionary contents, rows of the page *)
  Variable encode : enc -> list N -> list N -> list N.

  (* columnBuffer.WriteValues: the indexed buffer inserts into the dictionary,
     the plain buffer used after a fallback does not *)
  Definition col_add_rows (c : col) (rows : list N) : col :=
    let a := c_acc c in
    set_acc c (mk_colacc (a_buffer a ++ rows) (a_pages a)
                         (match c_enc c with EncDict => dict_add (a_dict a) rows | EncPlain => a_dict a end)
                         (a_numrows a) (a_nvalues a) (a_size a) (a_stats a) (a_pageidx a) (a_locs a) (a_seen a)).

  (* func (c *ColumnWriter) Flush(): writeDataPage + recordPageStats, then the
     dictionary limit decides the encoding of the FOLLOWING pages *)
  Definition col_flush_page (encrypted : bool) (c : col) : col :=
    let a := c_acc c in
    match a_buffer a with
    | [] => c
    | _ =>
      let cc := c_cfg c in
      let fallback := cc_dict cc && negb (c_switched c) && (0 <? cc_dict_max cc) && (cc_dict_max cc <? nlen (a_dict a)) in
      let n := nlen (a_buffer a) in
      let p := mk_page (c_enc c) (encode (c_enc c) (a_dict a) (a_buffer a)) n
                       (if encrypted then Some (c_ordinal c) else None) in
      let mm := minmax (a_buffer a) in
      let a' := mk_colacc [] (a_pages a ++ [p]) (a_dict a) (a_numrows a + n) (a_nvalues a + n)
                          (a_size a + page_size p) (merge_stats (a_stats a) mm)
                          (a_pageidx a ++ match mm with Some m => [m] | None => [] end)
                          (a_locs a ++ [(a_size a, page_size p, a_numrows a)])
                          (a_seen a ++ a_buffer a) in
      if fallback then
        (* fallbackDictionaryToPlain: c.columnBuffer = c.plainColumnBuffer, with the rows it holds *)
        mk_col cc (c_path c) EncPlain true (c_ordinal c)
               (mk_colacc (c_plain c) (a_pages a') (a_dict a') (a_numrows a') (a_nvalues a') (a_size a') (a_stats a')
                          (a_pageidx a') (a_locs a') (a_seen a')) []
      else set_acc c a'
    end.

  (* func (c *ColumnWriter) WriteRowValues: append, flush the page when the buffer is full *)
  Definition col_write (encrypted : bool) (page_rows : N) (c : col) (rows : list N) : col :=
    let c1 := col_add_rows c rows in
    if page_rows <=? nlen (a_buffer (c_acc c1)) then col_flush_page encrypted c1 else c1.

  (** ---------- logical state of the writer ---------- *)
  Record lstate := mk_lstate {
    l_cfg : config;
    l_cfgmd : list (N * N);       (* configMetadata: the sorted pairs of the configuration *)
    l_cols : list col;            (* currentRowGroup.columns *)
    l_numrows : N;                (* currentRowGroup.numRows *)
    l_rgs : list rgmeta;          (* rowGroups *)
    l_cidx : list (list pageidx); (* columnIndexes *)
    l_oidx : list (list pagelocs);(* offsetIndexes *)
    l_md : list (N * N);          (* metadata *)
    l_off : N;                    (* writer.offset *)
    l_out : list event;           (* accepted by the current sink *)
    l_broken : bool }.            (* the sink failed; sticky until Reset *)

  (** elements of rowGroups/columnIndexes/offsetIndexes retained beyond the
      length of the truncated slices: writeRowGroup extends the slices over
      them and APPENDS to their inner slices *)
  Record capslot := mk_capslot { cp_rg : rgmeta; cp_ci : list pageidx; cp_oi : list pagelocs }.

  Definition rg_zero : rgmeta := mk_rgmeta [] 0 0 0 0.
  Definition slot_zero : capslot := mk_capslot rg_zero [] [].

  (* format.RowGroup.Reset / ColumnIndex.Reset / OffsetIndex.Reset + truncation *)
  Definition slot_clear (rg : rgmeta) (ci : list pageidx) (oi : list pagelocs) : capslot :=
    mk_capslot (mk_rgmeta [] 0 0 0 0) [] [].

  (** per column: dictionary page, data pages (io.Copy of the page buffer) *)
  Definition aad_of (encrypted : bool) (c : col) : option N := if encrypted then Some (c_ordinal c) else None.

  Definition col_emit (encrypted : bool) (ci : nat) (c : col) (off : N) : list event * colmeta * pagelocs * N :=
    let a := c_acc c in
    let cc := c_cfg c in
    let dev := if cc_dict cc then [EvDictPage ci (a_dict a) (aad_of encrypted c)] else [] in
    let dict_off := if cc_dict cc then off else 0 in
    let data_off := off + evs_size dev in
    let pevs := map (fun p => EvDataPage ci (pg_enc p) (pg_payload p) (pg_rows p) (pg_aad p)) (a_pages a) in
    let m := mk_colmeta (c_path c) (a_nvalues a) (a_size a + evs_size dev) dict_off data_off (a_stats a)
                        (nlen (a_pages a)) (c_switched c) 0 0 0 0 0 0 in
    (dev ++ pevs, m, map (fun '(o, s, r) => (o + data_off, s, r)) (a_locs a), data_off + a_size a).

  Fixpoint emit_cols (encrypted : bool) (ci : nat) (cols : list col) (off : N)
    : list event * list colmeta * list pagelocs * N :=
    match cols with
    | [] => ([], [], [], off)
    | c :: t =>
      let '(ev, m, locs, off1) := col_emit encrypted ci c off in
      let '(evs, ms, ls, off2) := emit_cols encrypted (S ci) t off1 in
      (ev ++ evs, m :: ms, locs :: ls, off2)
    end.

  Definition set_bloom (m : colmeta) (o l : N) : colmeta :=
    mk_colmeta (cm_path m) (cm_nvalues m) (cm_size m) (cm_dict_off m) (cm_data_off m) (cm_stats m)
               (cm_npages m) (cm_fallback m) o l (cm_ci_off m) (cm_ci_len m) (cm_oi_off m) (cm_oi_len m).

  (* the bloom filters follow the pages of all columns *)
  Fixpoint emit_blooms (encrypted : bool) (ci : nat) (cols : list col) (ms : list colmeta) (off : N)
    : list event * list colmeta * N :=
    match cols, ms with
    | c :: t, m :: mt =>
      if cc_bloom (c_cfg c) then
        let e := EvBloom ci (a_seen (c_acc c)) (aad_of encrypted c) in
        let '(evs, ms', off') := emit_blooms encrypted (S ci) t mt (off + ev_size e) in
        (e :: evs, set_bloom m off (ev_size e) :: ms', off')
      else
        let '(evs, ms', off') := emit_blooms encrypted (S ci) t mt off in
        (evs, m :: ms', off')
    | _, _ => ([], ms, off)
    end.

  Definition sum_sizes (ms : list colmeta) : N := fold_left (fun a m => a + cm_size m) ms 0.

  (* how many of the events the sink accepts, and the bytes they take *)
  Definition accepted (fail : option nat) (evs : list event) : list event :=
    match fail with None => evs | Some k => firstn k evs end.

  (* func (w *writer) writeRowGroup; [slot] is the retained element the slices
     are extended over (slot_zero when there is none).  Returns the new state
     and whether the slot was consumed. *)
  Definition lflush_core (fail : option nat) (l : lstate) (slot : capslot) : lstate * bool :=
    match l_cols l with
    | [] => (l, false)
    | c0 :: _ =>
      let n := a_numrows (c_acc c0) + nlen (a_buffer (c_acc c0)) in   (* totalRowCount *)
      if n =? 0 then (l, false) else
      let cfg := l_cfg l in
      let encrypted := cf_encrypted cfg in
      let rgi := nlen (l_rgs l) in
      (* c.rowGroupOrdinal = rowGroupIndex; c.Flush() *)
      let cols1 := map (fun c => col_flush_page encrypted (set_ordinal encrypted rgi c)) (l_cols l) in
      let hdr := if l_off l =? 0 then [EvMagic] else [] in
      let off1 := l_off l + evs_size hdr in
      let '(evs, ms, locs, off2) := emit_cols encrypted 0 cols1 off1 in
      let '(bevs, ms', off3) := emit_blooms encrypted 0 cols1 ms off2 in
      let all := hdr ++ evs ++ bevs in
      match l_broken l, fail with
      | false, None =>
        let rg := mk_rgmeta (rg_cols (cp_rg slot) ++ ms')   (* append(reuseRowGroup.Columns, rg.columnChunk...) *)
                            n off1 (sum_sizes ms') rgi in
        let ci := cp_ci slot ++ map (fun c => a_pageidx (c_acc c)) cols1 in
        let oi := cp_oi slot ++ locs in
        (mk_lstate cfg (l_cfgmd l) (map (col_next_rg encrypted (rgi + 1)) cols1) 0
                   (l_rgs l ++ [rg]) (l_cidx l ++ [ci]) (l_oidx l ++ [oi]) (l_md l)
                   off3 (l_out l ++ all) false, true)
      | true, _ =>
        (* every write fails: the deferred rg.reset() runs, nothing is recorded *)
        (mk_lstate cfg (l_cfgmd l) (map (col_next_rg encrypted rgi) cols1) 0
                   (l_rgs l) (l_cidx l) (l_oidx l) (l_md l) (l_off l) (l_out l) true, false)
      | false, Some _ =>
        let acc := accepted fail all in
        (mk_lstate cfg (l_cfgmd l) (map (col_next_rg encrypted rgi) cols1) 0
                   (l_rgs l) (l_cidx l) (l_oidx l) (l_md l)
                   (l_off l + evs_size acc) (l_out l ++ acc) true, false)
      end
    end.

  Definition lflush (fail : option nat) (lc : lstate * list capslot) : lstate * list capslot :=
    let '(l', used) := lflush_core fail (fst lc) (hd slot_zero (snd lc)) in
    (l', if used then tl (snd lc) else snd lc).

  Definition set_cols_numrows (l : lstate) (cols : list col) (n : N) : lstate :=
    mk_lstate (l_cfg l) (l_cfgmd l) cols n (l_rgs l) (l_cidx l) (l_oidx l) (l_md l) (l_off l) (l_out l) (l_broken l).

  (* writer.WriteRows + ConcurrentRowGroupWriter.writeRows: rows go to the
     current row group until it holds maxRows, then the row group is flushed;
     chunks of at most 64 rows *)
  Fixpoint lwrite (fuel : nat) (lc : lstate * list capslot) (rows : list N) : lstate * list capslot :=
    match fuel with
    | O => lc
    | S f =>
      match rows with
      | [] => lc
      | _ =>
        let l := fst lc in
        let cfg := l_cfg l in
        let remain := cf_max_rows cfg - l_numrows l in
        if remain =? 0 then lwrite f (lflush None lc) rows        (* ErrTooManyRowGroups: flush, go on *)
        else
          let len := N.to_nat (N.min (N.min remain (nlen rows)) 64) in
          let chunk := firstn len rows in
          let cols := map (fun c => col_write (cf_encrypted cfg) (cf_page_rows cfg) c chunk) (l_cols l) in
          lwrite f (set_cols_numrows l cols (l_numrows l + nlen chunk), snd lc) (skipn len rows)
      end
    end.

  Definition write_fuel (rows : list N) : nat := 2 * length rows + 2.

  (* func (w *writer) writeFileHeader *)
  Definition lheader (l : lstate) : lstate :=
    if l_off l =? 0 then
      mk_lstate (l_cfg l) (l_cfgmd l) (l_cols l) (l_numrows l) (l_rgs l) (l_cidx l) (l_oidx l) (l_md l)
                (ev_size EvMagic) (l_out l ++ [EvMagic]) (l_broken l)
    else l.

  Definition set_ci (m : colmeta) (o n : N) : colmeta :=
    mk_colmeta (cm_path m) (cm_nvalues m) (cm_size m) (cm_dict_off m) (cm_data_off m) (cm_stats m)
               (cm_npages m) (cm_fallback m) (cm_bloom_off m) (cm_bloom_len m) o n (cm_oi_off m) (cm_oi_len m).
  Definition set_oi (m : colmeta) (o n : N) : colmeta :=
    mk_colmeta (cm_path m) (cm_nvalues m) (cm_size m) (cm_dict_off m) (cm_data_off m) (cm_stats m)
               (cm_npages m) (cm_fallback m) (cm_bloom_off m) (cm_bloom_len m) (cm_ci_off m) (cm_ci_len m) o n.
  Definition set_rg_cols (r : rgmeta) (cs : list colmeta) : rgmeta :=
    mk_rgmeta cs (rg_rows r) (rg_off r) (rg_size r) (rg_ordinal r).

  (* column indexes of one row group (a column whose index describes no page is skipped) *)
  Fixpoint emit_ci_cols (rgi ci : nat) (ms : list colmeta) (idx : list pageidx) (off : N)
    : list event * list colmeta * N :=
    match ms, idx with
    | m :: mt, p :: pt =>
      match p with
      | [] => let '(evs, ms', off') := emit_ci_cols rgi (S ci) mt pt off in (evs, m :: ms', off')
      | _ => let e := EvColumnIndex rgi ci p in
             let '(evs, ms', off') := emit_ci_cols rgi (S ci) mt pt (off + ev_size e) in
             (e :: evs, set_ci m off (ev_size e) :: ms', off')
      end
    | _, _ => ([], ms, off)
    end.

  Fixpoint emit_cindexes (rgi : nat) (rgs : list rgmeta) (idx : list (list pageidx)) (off : N)
    : list event * list rgmeta * N :=
    match rgs, idx with
    | r :: rt, i :: it =>
      let '(evs, ms, off1) := emit_ci_cols rgi 0 (rg_cols r) i off in
      let '(evs2, rs, off2) := emit_cindexes (S rgi) rt it off1 in
      (evs ++ evs2, set_rg_cols r ms :: rs, off2)
    | _, _ => ([], rgs, off)
    end.

  Fixpoint emit_oi_cols (rgi ci : nat) (ms : list colmeta) (idx : list pagelocs) (off : N)
    : list event * list colmeta * N :=
    match ms, idx with
    | m :: mt, p :: pt =>
      let e := EvOffsetIndex rgi ci p in
      let '(evs, ms', off') := emit_oi_cols rgi (S ci) mt pt (off + ev_size e) in
      (e :: evs, set_oi m off (ev_size e) :: ms', off')
    | _, _ => ([], ms, off)
    end.

  Fixpoint emit_oindexes (rgi : nat) (rgs : list rgmeta) (idx : list (list pagelocs)) (off : N)
    : list event * list rgmeta * N :=
    match rgs, idx with
    | r :: rt, i :: it =>
      let '(evs, ms, off1) := emit_oi_cols rgi 0 (rg_cols r) i off in
      let '(evs2, rs, off2) := emit_oindexes (S rgi) rt it off1 in
      (evs ++ evs2, set_rg_cols r ms :: rs, off2)
    | _, _ => ([], rgs, off)
    end.

  Definition total_rows (rgs : list rgmeta) : N := fold_left (fun a r => a + rg_rows r) rgs 0.

  (* Writer.Close (every column flushes its page) + writer.close *)
  Definition lclose (lc : lstate * list capslot) : lstate * list capslot :=
    (* for _, c := range w.ColumnWriters() { c.Close() }: the last page of every
       column is written to its page buffer with the ordinal the column holds *)
    let l := set_cols_numrows (fst lc)
               (map (col_flush_page (cf_encrypted (l_cfg (fst lc)))) (l_cols (fst lc))) (l_numrows (fst lc)) in
    if l_broken l && (l_off l =? 0) then (l, snd lc)      (* writeFileHeader fails first *)
    else
      let '(l1, caps1) := lflush None (lheader l, snd lc) in
      if l_broken l1 then (l1, caps1)
      else
        let '(cevs, rgs1, off1) := emit_cindexes 0 (l_rgs l1) (l_cidx l1) (l_off l1) in
        let '(oevs, rgs2, off2) := emit_oindexes 0 rgs1 (l_oidx l1) off1 in
        let ft := mk_footer (total_rows rgs2) rgs2 (l_md l1) (cf_created_by (l_cfg l1)) in
        let fe := EvFooter ft in
        (mk_lstate (l_cfg l1) (l_cfgmd l1) (l_cols l1) (l_numrows l1) rgs2 (l_cidx l1) (l_oidx l1) (l_md l1)
                   (off2 + ev_size fe) (l_out l1 ++ cevs ++ oevs ++ [fe]) false, caps1).

  (* Writer.SetKeyValueMetadata: replace the value of an existing key, else append *)
  Fixpoint set_kv (md : list (N * N)) (k v : N) : list (N * N) :=
    match md with
    | [] => [(k, v)]
    | (k', v') :: t => if k' =? k then (k, v) :: t else (k', v') :: set_kv t k v
    end.

  Definition set_md (l : lstate) (md : list (N * N)) : lstate :=
    mk_lstate (l_cfg l) (l_cfgmd l) (l_cols l) (l_numrows l) (l_rgs l) (l_cidx l) (l_oidx l) md (l_off l) (l_out l) (l_broken l).

  (* func (w *writer) reset(writer io.Writer): logical part.  [on_cols] is what
     happens to the live columns, [on_md] to the key/value metadata. *)
  Definition lreset_with (on_cols : lstate -> list col) (on_md : lstate -> list (N * N)) (l : lstate) : lstate :=
    mk_lstate (l_cfg l) (l_cfgmd l) (on_cols l) 0 [] [] [] (on_md l) 0 [] false.

  (* w.currentRowGroup.reset(); ...; w.metadata = append(w.metadata[:0], w.configMetadata...);
     if w.encryption != nil { for each column: c.rowGroupOrdinal = 0 } *)
  Definition lreset : lstate -> lstate :=
    lreset_with (fun l => map (fun c => set_ordinal (cf_encrypted (l_cfg l)) 0 (col_reset c)) (l_cols l))
                l_cfgmd.

  (** PINNED (pre-fix) resets, kept to refute the statement on them.

      (1) before 120fe51: the finished footer structs shared the backing array
      of path_in_schema with the live columns; RowGroup.Reset ->
      ColumnMetaData.Reset -> clear(c.PathInSchema) emptied the strings the
      live column writers still point to, whenever a row group was finished *)
  Definition col_reset_pinned (finished : bool) (c : col) : col :=
    let r := col_reset c in
    mk_col (c_cfg r) (if finished then map (fun _ => 0) (c_path r) else c_path r)
           (c_enc r) (c_switched r) (c_ordinal r) (c_acc r) (c_plain r).

  Definition lreset_pinned : lstate -> lstate :=
    lreset_with (fun l => map (fun c => set_ordinal (cf_encrypted (l_cfg l)) 0
                                 (col_reset_pinned (match l_rgs l with [] => false | _ => true end) c)) (l_cols l))
                l_cfgmd.

  (* (2) before 949139e: rowGroupOrdinal kept the row group count of the previous file *)
  Definition lreset_pinned_ordinal : lstate -> lstate :=
    lreset_with (fun l => map col_reset (l_cols l)) l_cfgmd.

  (* (4) before 2943698: after a fallback the current buffer is the PLAIN buffer;
     reset switched back to the original buffer and emptied only that one, so
     the rows buffered since the last page stayed in the PLAIN buffer *)
  Definition col_reset_pinned_plain (c : col) : col :=
    let r := col_reset c in
    mk_col (c_cfg r) (c_path r) (c_enc r) (c_switched r) (c_ordinal r) (c_acc r)
           (if c_switched c then a_buffer (c_acc c) else c_plain c).

  Definition lreset_pinned_plain : lstate -> lstate :=
    lreset_with (fun l => map (fun c => set_ordinal (cf_encrypted (l_cfg l)) 0 (col_reset_pinned_plain c)) (l_cols l))
                l_cfgmd.

  (* (3) before cd20a46: the metadata list was not touched *)
  Definition lreset_pinned_kv : lstate -> lstate :=
    lreset_with (fun l => map (fun c => set_ordinal (cf_encrypted (l_cfg l)) 0 (col_reset c)) (l_cols l))
                l_md.

  Fixpoint zip_slots (rgs : list rgmeta) (ci : list (list pageidx)) (oi : list (list pagelocs)) : list capslot :=
    match rgs, ci, oi with
    | r :: rt, c :: ct, o :: ot => slot_clear r c o :: zip_slots rt ct ot
    | _, _, _ => []
    end.

  (* truncation keeps the (cleared) elements in front of the ones retained before *)
  Definition reset_caps (lr : lstate -> lstate) (lc : lstate * list capslot) : lstate * list capslot :=
    let l := fst lc in
    (lr l, zip_slots (l_rgs l) (l_cidx l) (l_oidx l) ++ snd lc).

  (** ---------- operations ---------- *)
  Inductive op :=
  | Write (rows : list N)
  | Flush
  | Close
  | Reset
  | FailWrite (rows : list N) (k : nat)   (* Write, then a flush whose sink fails after k events *)
  | Abandon                               (* the life ends here without Close: nothing happens *)
  | WriteRG (rows : list N)               (* WriteRowGroup: flush, copy the rows, flush *)
  | SetKV (k v : N).

  Definition lstep_gen (lr : lstate -> lstate) (lc : lstate * list capslot) (o : op) : lstate * list capslot :=
    match o with
    | Write rows => lwrite (write_fuel rows) lc rows
    | Flush => lflush None lc
    | Close => lclose lc
    | Reset => reset_caps lr lc
    | FailWrite rows k => lflush (Some k) (lwrite (write_fuel rows) lc rows)
    | Abandon => lc
    | WriteRG rows => lflush None (lwrite (write_fuel rows) (lflush None lc) rows)
    | SetKV k v => (set_md (fst lc) (set_kv (l_md (fst lc)) k v), snd lc)
    end.

  (** ---------- full state: logical part, retained capacity, scratch ---------- *)
  Record state := mk_state { st_l : lstate; st_caps : list capslot; st_scratch : list N }.

  (* what an operation leaves in the scratch buffers (page buffers, header
     buffer, staging of WriteRows): some function of the old garbage and of the
     operation; never read *)
  Definition scribble (sc : list N) (o : op) : list N :=
    match o with
    | Write rows | FailWrite rows _ | WriteRG rows => rev rows ++ firstn 8 sc
    | SetKV k v => k :: v :: sc
    | _ => sc
    end.

  Definition step_gen (lr : lstate -> lstate) (s : state) (o : op) : state :=
    let '(l, caps) := lstep_gen lr (st_l s, st_caps s) o in
    mk_state l caps (scribble (st_scratch s) o).

  Definition step : state -> op -> state := step_gen lreset.
  Definition step_pinned : state -> op -> state := step_gen lreset_pinned.

  Definition run (s : state) (ops : list op) : state := fold_left step ops s.
  Definition run_gen (lr : lstate -> lstate) (s : state) (ops : list op) : state := fold_left (step_gen lr) ops s.
  Definition run_pinned (s : state) (ops : list op) : state := run_gen lreset_pinned s ops.

  Definition reset (s : state) : state := step s Reset.
  Definition reset_pinned (s : state) : state := step_pinned s Reset.

  (* newWriter: [md] is the metadata list the writer starts with *)
  Definition linit (cfg : config) (md : list (N * N)) : lstate :=
    mk_lstate cfg md (map col_init (cf_cols cfg)) 0 [] [] [] md 0 [] false.

  Definition init (cfg : config) (md : list (N * N)) : state := mk_state (linit cfg md) [] [].

  Definition observe (s : state) : list event := l_out (st_l s).

  (* the bytes, for any serialisation of the events *)
  Definition observe_bytes {B} (ser : event -> list B) (s : state) : list B := flat_map ser (observe s).
End Machine.

(** ---------- key/value metadata: a Go map (any iteration order), sorted ---------- *)
Definition kv_leb (a b : N * N) : bool :=
  match fst a ?= fst b with
  | Lt => true
  | Gt => false
  | Eq => snd a <=? snd b
  end.

Fixpoint kv_insert (x : N * N) (l : list (N * N)) : list (N * N) :=
  match l with
  | [] => [x]
  | y :: t => if kv_leb x y then x :: y :: t else y :: kv_insert x t
  end.

(* sortKeyValueMetadata *)
Fixpoint sort_kv (l : list (N * N)) : list (N * N) :=
  match l with [] => [] | x :: t => kv_insert x (sort_kv t) end.

(* newWriter: for k, v := range config.KeyValueMetadata { append }; sortKeyValueMetadata *)
Definition init_of_map (encode : enc -> list N -> list N -> list N) (cfg : config) (kvmap : list (N * N)) : state :=
  init cfg (sort_kv kvmap).

(** ---------- instance used by the oracle: rows as identifiers ---------- *)
Fixpoint index_of (x : N) (l : list N) (i : N) : N :=
  match l with [] => i | y :: t => if x =? y then i else index_of x t (i + 1) end.

Definition encode_ids (e : enc) (dict rows : list N) : list N :=
  match e with EncPlain => rows | EncDict => map (fun r => index_of r dict 0) rows end.

(* structure observable: for every footer, the rows of its row groups; and the
   number of data pages and dictionary pages *)
Fixpoint structure (evs : list event) : list (list N) :=
  match evs with
  | [] => []
  | EvFooter f :: t => map rg_rows (ft_rgs f) :: structure t
  | _ :: t => structure t
  end.

Fixpoint last_footer (evs : list event) (acc : option footer) : option footer :=
  match evs with
  | [] => acc
  | EvFooter f :: t => last_footer t (Some f)
  | _ :: t => last_footer t acc
  end.

Definition count_pages (evs : list event) : N :=
  nlen (filter (fun e => match e with EvDataPage _ _ _ _ _ => true | _ => false end) evs).

Definition run_ids (cfg : config) (kvmap : list (N * N)) (ops : list op) : state :=
  run encode_ids (init_of_map encode_ids cfg kvmap) ops.

Definition run_ids_pinned (cfg : config) (kvmap : list (N * N)) (ops : list op) : state :=
  run_pinned encode_ids (init_of_map encode_ids cfg kvmap) ops.

Definition run_ids_gen (lr : lstate -> lstate) (cfg : config) (kvmap : list (N * N)) (ops : list op) : state :=
  run_gen encode_ids lr (init_of_map encode_ids cfg kvmap) ops.

(* rows start, start+1, ... *)
Fixpoint iota (start : N) (n : nat) : list N :=
  match n with O => [] | S m => start :: iota (start + 1) m end.
