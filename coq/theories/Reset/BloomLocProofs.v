(** C17 — proofs about Reset/BloomLoc.v. *)
From Coq Require Import List NArith Bool.
From PQ Require Import Reset.BloomLoc.
Import ListNotations.
Local Open Scope N_scope.

Lemma brow_group_after_reset : forall bits off a o,
  fst (brow_group bits off (breset a) o) = own_loc bits (off, o).
Proof.
  intros bits off a o. destruct o as [n|len]; unfold own_loc, brow_group, breset; simpl; [|reflexivity].
  destruct (filter_size bits n =? 0); reflexivity.
Qed.

(** every row group of a life records its own location, whatever the column
    writer held when the life began (after a reset) *)
Lemma blife_own : forall bits rgs a,
  fst (blife breset bits (breset a) rgs) = map (own_loc bits) rgs.
Proof.
  induction rgs as [|[off o] t IH]; intros a; [reflexivity|].
  cbn [blife map].
  pose proof (brow_group_after_reset bits off a o) as H.
  destruct (brow_group bits off (breset a) o) as [loc s1]. simpl in H. subst loc.
  specialize (IH s1). destruct (blife breset bits (breset s1) t) as [locs s2]. simpl in *. now rewrite IH.
Qed.

(** history independence: earlier row groups and lives (verbatim copies
    included) leave nothing in the locations recorded after a reset *)
Lemma blife_history_irrelevant : forall bits a h rgs,
  fst (blife breset bits (breset (snd (blife breset bits a h))) rgs)
  = fst (blife breset bits (breset bnew) rgs).
Proof. intros. now rewrite !blife_own. Qed.

(** the reset that clears the location only together with a filter of its own
    keeps the location of a copied chunk for a later chunk without filter *)
Lemma breset_pinned_refuted : exists bits h rgs,
  fst (blife breset_pinned bits (breset_pinned (snd (blife breset_pinned bits bnew h))) rgs)
  <> fst (blife breset_pinned bits (breset_pinned bnew) rgs).
Proof. exists 10%N, [(4%N, Copied 47)], [(4%N, Built 0)]. vm_compute. discriminate. Qed.
