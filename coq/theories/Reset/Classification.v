(** C17 — classification of every field of the stateful writer structs.

    The field lists come from the Go sources (gen/gogen -> Generated/StateFields.v,
    regenerated on every run).  Each field is put in exactly one class:

      Config   set at construction (newWriter / newConcurrentRowGroupWriter),
               never changed by Write/Flush/Close/Reset;
      ResetC   per-file or per-row-group state, returned to its initial value by
               writer.reset / ConcurrentRowGroupWriter.reset / ColumnWriter.reset;
      Scratch  capacity and buffers whose previous content cannot influence the
               output: every read is preceded by an overwrite (or a truncation
               to length 0) in the same operation;
      Carried  survives Reset on purpose; the reason why it cannot influence
               the bytes of the next file is given in the table.

    No proofs here except the reflexive totality checks: a field ADDED to one
    of the Go structs makes [classification_total] fail (vm_compute gives
    false), which stops the build until someone classifies the field; a field
    REMOVED makes [classification_no_stale] fail.  *)
From Coq Require Import List String Bool.
From PQ Require Import Generated.StateFields.
Import ListNotations.
Open Scope string_scope.

Inductive cls := Config | ResetC | Scratch | Carried.

Definition cls_name (c : cls) : string :=
  match c with Config => "config" | ResetC => "reset" | Scratch => "scratch" | Carried => "carried" end.

(** (field, class, where it is set / cleared / why it is harmless) *)
Definition entry := (string * cls * string)%type.

(* writer (writer.go, type writer struct) *)
Definition table_writer : list entry :=
  [("buffer", Carried, "bufio.Writer allocated by newWriter; reset: buffer.Reset(output) drops the buffered bytes and the sticky error, only the capacity survives");
   ("writer", ResetC, "offsetTrackingWriter: reset sets the destination and offset = 0");
   ("currentRowGroup", ResetC, "pointer fixed at construction; the pointee is reset by ConcurrentRowGroupWriter.reset");
   ("createdBy", Config, "config.CreatedBy");
   ("metadata", ResetC, "sorted copy of config.KeyValueMetadata plus SetKeyValueMetadata calls; reset restores configMetadata (since cd20a46; model: l_md, refutation C17_pinned_kv_survives_reset_refuted)");
   ("configMetadata", Config, "newWriter: clone of the sorted configuration pairs (model: l_cfgmd)");
   ("columnOrders", Config, "newWriter");
   ("schemaElements", Config, "newWriter");
   ("rowGroups", ResetC, "reset: every element Reset() in place, slice truncated to 0; the retained elements are reused by writeRowGroup (model: caps, invariant caps_ok)");
   ("columnIndexes", ResetC, "as rowGroups");
   ("offsetIndexes", ResetC, "as rowGroups");
   ("sortingColumns", Config, "newWriter (config.Sorting)");
   ("deferredBloomFilters", ResetC, "reset: buffers returned, slice truncated");
   ("deferredBloomFilterSize", ResetC, "reset: 0");
   ("fileMetaData", ResetC, "reset: zero value; assigned completely by writeFileFooter before it is encoded");
   ("footer", Scratch, "bytes 0..3 are overwritten by writeFileFooter before they are written; bytes 4..7 (magic) are set at construction");
   ("encryption", ResetC, "newWriter; reset builds a new state from the same configuration (keys; a new random file identifier unless the configuration pins one: excluded from the property like the nonces)")].

(* ColumnWriter (writer.go) *)
Definition table_ColumnWriter : list entry :=
  [("pool", Config, "config.ColumnPageBuffers");
   ("pageBuffer", ResetC, "reset: returned to the pool, nil (model: a_pages)");
   ("numPages", ResetC, "reset: 0");
   ("columnPath", Config, "leaf.path; shared with columnChunk.MetaData.PathInSchema (the finished footer structs own a clone since 120fe51; model: c_path, refutation C17_pinned_reset_aliasing_refuted)");
   ("columnType", ResetC, "replaced by the plain type on dictionary fallback; reset restores originalType when hasSwitchedToPlain");
   ("originalType", Config, "construction");
   ("columnIndex", ResetC, "ColumnIndexer.Reset (model: a_pageidx)");
   ("columnBuffer", ResetC, "reset: originalColumnBuffer restored and Reset (model: a_buffer)");
   ("plainColumnBuffer", ResetC, "allocated lazily by the first fallback and kept; reset empties it (since 2943698: rows buffered after a fallback in an abandoned file came back with the next fallback; model: c_plain, refutation C17_pinned_plain_buffer_refuted)");
   ("originalColumnBuffer", Carried, "the lazily created dictionary-indexed buffer, recorded once; content cleared by reset through columnBuffer");
   ("columnFilter", Config, "config.BloomFilters");
   ("encoding", ResetC, "PLAIN after a fallback; reset restores originalEncoding when hasSwitchedToPlain (model: c_enc)");
   ("originalEncoding", Config, "construction");
   ("compression", Config, "construction");
   ("bloomFilterCompression", Config, "construction");
   ("dictionary", ResetC, "Dictionary.Reset (model: a_dict)");
   ("maxRepetitionLevel", Config, "construction");
   ("maxDefinitionLevel", Config, "construction");
   ("header", Scratch, "page header structs and their thrift buffer: sizes, CRC and the per-version header are assigned before each Encode, the buffer is Reset before each Encode; page type and Valid flags are construction-time");
   ("filter", Scratch, "reset truncates to 0 and keeps the capacity; resizeBloomFilter zeroes every byte before use");
   ("numRows", ResetC, "reset: 0");
   ("bufferIndex", Config, "construction");
   ("bufferSize", Config, "construction");
   ("writePageStats", Config, "construction");
   ("writePageBounds", Config, "construction");
   ("writeDeprecatedStatistics", Config, "construction");
   ("isCompressed", Config, "construction");
   ("encodings", Config, "built at construction (PLAIN is already listed for dictionary columns, so the addEncoding of the fallback does not change it); not touched by reset");
   ("columnChunk", ResetC, "accumulators (NumValues, sizes, offsets, Statistics, EncodingStats, BloomFilterOffset) cleared by reset; Type/Encoding/PathInSchema/Codec are construction-time; BloomFilterLength is overwritten whenever a filter is written and a column either always or never has one");
   ("offsetIndex", ResetC, "reset: PageLocations truncated (model: a_locs)");
   ("hasSwitchedToPlain", ResetC, "reset: false (model: c_switched)");
   ("dictionaryMaxBytes", Config, "construction");
   ("copied", ResetC, "reset: nil");
   ("encKey", Config, "encryption only");
   ("rowGroupOrdinal", ResetC, "encryption only (AAD of the modules): writer.reset sets it to 0 (since 949139e; model: c_ordinal, refutation C17_pinned_encrypted_ordinal_refuted). Without encryption it is never assigned and never read");
   ("columnOrdinal", Config, "encryption only");
   ("fileUnique", ResetC, "encryption only: the file identifier of the state rebuilt by writer.reset");
   ("aadPrefix", Config, "encryption only");
   ("totalUnencodedByteArrayBytes", ResetC, "reset: 0");
   ("repetitionLevelHistogram", ResetC, "reset: cleared");
   ("definitionLevelHistogram", ResetC, "reset: cleared");
   ("pageRepetitionLevelHistograms", ResetC, "reset: truncated");
   ("pageDefinitionLevelHistograms", ResetC, "reset: truncated");
   ("geospatialAccumulator", ResetC, "reset: accumulator reset")].

(* ConcurrentRowGroupWriter (writer.go) *)
Definition table_ConcurrentRowGroupWriter : list entry :=
  [("writer", Config, "construction");
   ("config", Config, "construction");
   ("values", Scratch, "per-column staging of WriteRows: cleared and truncated by the deferred function of every call, appended from length 0");
   ("numRows", ResetC, "reset: 0 (model: l_numrows)");
   ("maxRows", Config, "config.MaxRowsPerRowGroup");
   ("columns", ResetC, "slice fixed at construction; every element is reset by ColumnWriter.reset");
   ("columnChunk", ResetC, "targets of ColumnWriter.columnChunk, see there");
   ("columnIndex", Scratch, "assigned for every column by writeRowGroup before it is copied into the file's list");
   ("offsetIndex", ResetC, "targets of ColumnWriter.offsetIndex, see there")].

(* writerBuffers (pooled: dataPageBuffers / dictionaryPageBuffers) *)
Definition table_writerBuffers : list entry :=
  [("repetitions", Scratch, "truncated by reset() when taken from the pool, appended from length 0");
   ("definitions", Scratch, "as repetitions");
   ("page", Scratch, "as repetitions");
   ("scratch", Scratch, "swapped with page after being truncated")].

(* column buffers behind ColumnWriter.columnBuffer *)
Definition table_optionalColumnBuffer : list entry :=
  [("base", ResetC, "Reset");
   ("reordered", Carried, "set by Swap, cleared by Page(); Reset leaves it: a stale true only makes the next Page() run the reordering pass over the identity permutation");
   ("maxDefinitionLevel", Config, "construction");
   ("rows", ResetC, "Reset: truncated");
   ("sortIndex", Scratch, "resized and filled completely by Page() before it is read");
   ("definitionLevels", ResetC, "Reset: truncated");
   ("nullOrdering", Config, "construction")].

Definition table_repeatedColumnBuffer : list entry :=
  [("base", ResetC, "Reset");
   ("reordered", Carried, "as optionalColumnBuffer.reordered");
   ("maxRepetitionLevel", Config, "construction");
   ("maxDefinitionLevel", Config, "construction");
   ("rows", ResetC, "Reset: truncated");
   ("repetitionLevels", ResetC, "Reset: truncated");
   ("definitionLevels", ResetC, "Reset: truncated");
   ("buffer", Scratch, "staging, truncated before use");
   ("reordering", Scratch, "spare buffer swapped in by the reordering pass after being Reset");
   ("nullOrdering", Config, "construction");
   ("descending", Config, "construction")].

Fixpoint lookup (tbl : list entry) (f : string) : option cls :=
  match tbl with
  | [] => None
  | (g, c, _) :: t => if String.eqb f g then Some c else lookup t f
  end.

Definition table_of (struct_name : string) : list entry :=
  if String.eqb struct_name "writer" then table_writer
  else if String.eqb struct_name "ColumnWriter" then table_ColumnWriter
  else if String.eqb struct_name "ConcurrentRowGroupWriter" then table_ConcurrentRowGroupWriter
  else if String.eqb struct_name "writerBuffers" then table_writerBuffers
  else if String.eqb struct_name "optionalColumnBuffer" then table_optionalColumnBuffer
  else if String.eqb struct_name "repeatedColumnBuffer" then table_repeatedColumnBuffer
  else [].

(** the classification function: struct name, field name -> class; [None] by default *)
Definition classify (struct_name field : string) : option cls := lookup (table_of struct_name) field.

Definition classify_name (struct_name field : string) : string :=
  match classify struct_name field with Some c => cls_name c | None => "none" end.

Definition is_some {A} (o : option A) : bool := match o with Some _ => true | None => false end.

Definition generated : list (string * list (string * string)) :=
  [("writer", fields_writer);
   ("ColumnWriter", fields_ColumnWriter);
   ("ConcurrentRowGroupWriter", fields_ConcurrentRowGroupWriter);
   ("writerBuffers", fields_writerBuffers);
   ("optionalColumnBuffer", fields_optionalColumnBuffer);
   ("repeatedColumnBuffer", fields_repeatedColumnBuffer)].

(** every generated field is classified *)
Definition total_for (sf : string * list (string * string)) : bool :=
  forallb (fun f => is_some (classify (fst sf) (fst f))) (snd sf).
Definition classification_total : bool := forallb total_for generated.

(** names of the fields that are not classified (for the error message) *)
Definition unclassified : list (string * string) :=
  flat_map (fun sf => map (fun f => (fst sf, fst f))
                          (filter (fun f => negb (is_some (classify (fst sf) (fst f)))) (snd sf))) generated.

(** no table entry names a field that does not exist (any more), no field twice *)
Definition names (tbl : list entry) : list string := map (fun e => fst (fst e)) tbl.
Fixpoint nodupb (l : list string) : bool :=
  match l with [] => true | x :: t => negb (existsb (String.eqb x) t) && nodupb t end.
Definition no_stale_for (sf : string * list (string * string)) : bool :=
  forallb (fun n => existsb (fun f => String.eqb n (fst f)) (snd sf)) (names (table_of (fst sf)))
  && nodupb (names (table_of (fst sf))).
Definition classification_no_stale : bool := forallb no_stale_for generated.

(** Link to the model (Reset/Model.v): the Go fields abstracted by each
    component of the model state.  Every field of the three writer structs
    classified ResetC must be named here (checked by [reset_fields_modelled]),
    so that "returned to its initial value" is a statement about the model. *)
Definition model_components : list (string * list (string * string)) :=
  [("l_off / l_out / l_broken", [("writer", "writer")]);
   ("l_cols", [("writer", "currentRowGroup"); ("ConcurrentRowGroupWriter", "columns")]);
   ("l_numrows", [("ConcurrentRowGroupWriter", "numRows")]);
   ("l_rgs + caps", [("writer", "rowGroups"); ("writer", "fileMetaData")]);
   ("l_md", [("writer", "metadata")]);
   ("c_ordinal / aad of the events (the file identifier is random unless pinned: not modelled)",
    [("writer", "encryption"); ("ColumnWriter", "rowGroupOrdinal"); ("ColumnWriter", "fileUnique")]);
   ("l_cidx + caps", [("writer", "columnIndexes")]);
   ("l_oidx + caps", [("writer", "offsetIndexes")]);
   ("bloom events (inline; deferred filters are the same bytes later)", [("writer", "deferredBloomFilters"); ("writer", "deferredBloomFilterSize")]);
   ("a_pages", [("ColumnWriter", "pageBuffer"); ("ColumnWriter", "numPages"); ("ColumnWriter", "copied")]);
   ("c_enc / c_switched", [("ColumnWriter", "encoding"); ("ColumnWriter", "columnType"); ("ColumnWriter", "hasSwitchedToPlain")]);
   ("a_buffer / c_plain", [("ColumnWriter", "columnBuffer"); ("ColumnWriter", "plainColumnBuffer")]);
   ("a_dict", [("ColumnWriter", "dictionary")]);
   ("a_pageidx", [("ColumnWriter", "columnIndex"); ("ColumnWriter", "pageRepetitionLevelHistograms"); ("ColumnWriter", "pageDefinitionLevelHistograms")]);
   ("a_locs", [("ColumnWriter", "offsetIndex"); ("ConcurrentRowGroupWriter", "offsetIndex")]);
   ("a_numrows", [("ColumnWriter", "numRows")]);
   ("a_nvalues / a_size / a_stats", [("ColumnWriter", "columnChunk"); ("ConcurrentRowGroupWriter", "columnChunk");
                                     ("ColumnWriter", "totalUnencodedByteArrayBytes"); ("ColumnWriter", "repetitionLevelHistogram");
                                     ("ColumnWriter", "definitionLevelHistogram"); ("ColumnWriter", "geospatialAccumulator")])].

Definition modelled (s f : string) : bool :=
  existsb (fun mc => existsb (fun p => String.eqb s (fst p) && String.eqb f (snd p)) (snd mc)) model_components.

Definition reset_fields_of (s : string) : list string :=
  map (fun e => fst (fst e)) (filter (fun e => match snd (fst e) with ResetC => true | _ => false end) (table_of s)).

Definition reset_fields_modelled : bool :=
  forallb (fun s => forallb (modelled s) (reset_fields_of s)) ["writer"; "ColumnWriter"; "ConcurrentRowGroupWriter"].
