(** C17 — proofs about Reset/Model.v: the simulation "equal on everything but
    scratch and retained capacity", reset establishes it against a fresh
    writer, key/value sorting is independent of the map order. *)
From Coq Require Import List NArith Bool Arith Lia Permutation Sorted.
From PQ Require Import Reset.Model.
Import ListNotations.
Open Scope N_scope.

(** ---------- retained capacity ---------- *)
Definition slot_empty (s : capslot) : Prop :=
  rg_cols (cp_rg s) = [] /\ cp_ci s = [] /\ cp_oi s = [].

Definition caps_ok (caps : list capslot) : Prop := Forall slot_empty caps.

Lemma slot_zero_empty : slot_empty slot_zero.
Proof. repeat split. Qed.

Lemma hd_empty : forall caps, caps_ok caps -> slot_empty (hd slot_zero caps).
Proof. intros [|s t] H; cbn; [apply slot_zero_empty | inversion H; auto]. Qed.

Lemma tl_ok : forall caps, caps_ok caps -> caps_ok (tl caps).
Proof. intros [|s t] H; cbn; [constructor | inversion H; auto]. Qed.

Lemma zip_slots_ok : forall r c o, caps_ok (zip_slots r c o).
Proof.
  induction r as [|r rt IH]; intros [|c ct] [|o ot]; cbn; try constructor.
  - repeat split.
  - apply IH.
Qed.

Section Proofs.
  Variable encode : enc -> list N -> list N -> list N.

  Notation lflush_core := (lflush_core encode).
  Notation lflush := (lflush encode).
  Notation lwrite := (lwrite encode).
  Notation lclose := (lclose encode).
  Notation lstep_gen := (lstep_gen encode).
  Notation step_gen := (step_gen encode).
  Notation step := (step encode).
  Notation run := (run encode).
  Notation reset := (reset encode).
  Notation col_flush_page := (col_flush_page encode).
  Notation col_write := (col_write encode).

  (** the flush reads a retained element only through the three inner slices *)
  Lemma lflush_core_slot : forall f l s1 s2,
    slot_empty s1 -> slot_empty s2 -> lflush_core f l s1 = lflush_core f l s2.
  Proof.
    intros f l [r1 c1 o1] [r2 c2 o2] (Hr1 & Hc1 & Ho1) (Hr2 & Hc2 & Ho2).
    cbn in *. subst. unfold Model.lflush_core. cbn. rewrite Hr1, Hr2. reflexivity.
  Qed.

  (** simulation on (logical state, retained capacity) pairs *)
  Definition psim (p1 p2 : lstate * list capslot) : Prop :=
    fst p1 = fst p2 /\ caps_ok (snd p1) /\ caps_ok (snd p2).

  Lemma lflush_psim : forall f p1 p2, psim p1 p2 -> psim (lflush f p1) (lflush f p2).
  Proof.
    intros f [l1 c1] [l2 c2] (Hl & H1 & H2). cbn in Hl. subst l2.
    unfold Model.lflush. cbn [fst snd].
    rewrite (lflush_core_slot f l1 (hd slot_zero c1) (hd slot_zero c2)) by (apply hd_empty; assumption).
    destruct (lflush_core f l1 (hd slot_zero c2)) as [l' u].
    split; [reflexivity|]. cbn [snd].
    destruct u; split; auto using tl_ok.
  Qed.

  Lemma lwrite_psim : forall fuel p1 p2 rows, psim p1 p2 -> psim (lwrite fuel p1 rows) (lwrite fuel p2 rows).
  Proof.
    induction fuel as [|f IH]; intros p1 p2 rows H; cbn; [assumption|].
    destruct rows as [|r rt]; [assumption|].
    destruct H as (Hl & H1 & H2). rewrite <- Hl.
    destruct (cf_max_rows (l_cfg (fst p1)) - l_numrows (fst p1) =? 0).
    - apply IH. apply lflush_psim. repeat split; assumption.
    - apply IH. repeat split; assumption.
  Qed.

  Lemma lclose_psim : forall p1 p2, psim p1 p2 -> psim (lclose p1) (lclose p2).
  Proof.
    intros p1 p2 (Hl & H1 & H2). unfold Model.lclose. rewrite <- Hl.
    set (l := set_cols_numrows (fst p1) _ _).
    destruct (l_broken l && (l_off l =? 0)); [repeat split; assumption|].
    assert (P : psim (lflush None (lheader l, snd p1)) (lflush None (lheader l, snd p2)))
      by (apply lflush_psim; repeat split; assumption).
    destruct (lflush None (lheader l, snd p1)) as [la ca], (lflush None (lheader l, snd p2)) as [lb cb].
    destruct P as (E & Ha & Hb). cbn in E, Ha, Hb. subst lb.
    destruct (l_broken la); [repeat split; assumption|].
    destruct (emit_cindexes 0 (l_rgs la) (l_cidx la) (l_off la)) as [[cevs rgs1] off1].
    destruct (emit_oindexes 0 rgs1 (l_oidx la) off1) as [[oevs rgs2] off2].
    repeat split; assumption.
  Qed.

  Lemma reset_caps_psim : forall lr p1 p2, psim p1 p2 -> psim (reset_caps lr p1) (reset_caps lr p2).
  Proof.
    intros lr p1 p2 (Hl & H1 & H2). unfold reset_caps. rewrite <- Hl.
    repeat split; cbn [snd]; apply Forall_app; split; auto; apply zip_slots_ok.
  Qed.

  Lemma lstep_psim : forall lr o p1 p2, psim p1 p2 -> psim (lstep_gen lr p1 o) (lstep_gen lr p2 o).
  Proof.
    intros lr o p1 p2 H. destruct o; cbn.
    - apply lwrite_psim, H.
    - apply lflush_psim, H.
    - apply lclose_psim, H.
    - apply reset_caps_psim, H.
    - apply lflush_psim, lwrite_psim, H.
    - exact H.
    - apply lflush_psim, lwrite_psim, lflush_psim, H.
    - destruct H as (Hl & H1 & H2). rewrite <- Hl. repeat split; assumption.
  Qed.

  (** simulation on full states: equal on all non-scratch fields *)
  Definition sim (s1 s2 : state) : Prop :=
    st_l s1 = st_l s2 /\ caps_ok (st_caps s1) /\ caps_ok (st_caps s2).

  Lemma step_sim : forall lr o s1 s2, sim s1 s2 -> sim (step_gen lr s1 o) (step_gen lr s2 o).
  Proof.
    intros lr o s1 s2 H. unfold Model.step_gen.
    assert (P : psim (lstep_gen lr (st_l s1, st_caps s1) o) (lstep_gen lr (st_l s2, st_caps s2) o))
      by (apply lstep_psim; exact H).
    destruct (lstep_gen lr (st_l s1, st_caps s1) o), (lstep_gen lr (st_l s2, st_caps s2) o).
    exact P.
  Qed.

  Lemma run_sim : forall ops s1 s2, sim s1 s2 -> sim (run s1 ops) (run s2 ops).
  Proof.
    induction ops as [|o t IH]; intros s1 s2 H; cbn; [assumption|].
    apply IH. apply step_sim, H.
  Qed.

  Lemma sim_observe : forall s1 s2, sim s1 s2 -> observe s1 = observe s2.
  Proof. intros s1 s2 (H & _). unfold observe. now rewrite H. Qed.

  Lemma sim_refl : forall s, caps_ok (st_caps s) -> sim s s.
  Proof. intros s H; repeat split; assumption. Qed.

  Lemma run_caps_ok : forall ops s, caps_ok (st_caps s) -> caps_ok (st_caps (run s ops)).
  Proof. intros ops s H. apply (run_sim ops s s (sim_refl s H)). Qed.

  (** two states that differ only in scratch (and in retained, cleared
      capacity) produce the same bytes for every operation list *)
  Theorem scratch_irrelevant : forall s1 s2 ops,
    st_l s1 = st_l s2 -> caps_ok (st_caps s1) -> caps_ok (st_caps s2) ->
    observe (run s1 ops) = observe (run s2 ops).
  Proof. intros s1 s2 ops Hl H1 H2. apply sim_observe, run_sim. repeat split; assumption. Qed.

  (** ---------- invariant: the construction-time part of the state ---------- *)
  Definition col_ok (encrypted : bool) (c : col) : Prop :=
    c_path c = cc_path (c_cfg c)
    /\ (c_switched c = false -> c_enc c = enc0 (c_cfg c))
    /\ (encrypted = false -> c_ordinal c = 0)
    /\ c_plain c = [].

  Definition cols_ok (encrypted : bool) (ccs : list colcfg) (cols : list col) : Prop :=
    Forall (col_ok encrypted) cols /\ map c_cfg cols = ccs.

  Lemma cols_ok_map : forall e ccs cols f,
    (forall c, col_ok e c -> col_ok e (f c) /\ c_cfg (f c) = c_cfg c) ->
    cols_ok e ccs cols -> cols_ok e ccs (map f cols).
  Proof.
    intros e ccs cols f Hf (HF & HM). split.
    - apply Forall_map. eapply Forall_impl; [|exact HF]. intros c Hc. apply Hf, Hc.
    - rewrite map_map. rewrite <- HM. apply map_ext_in. intros c Hin.
      apply Hf. rewrite Forall_forall in HF. auto.
  Qed.

  Lemma col_add_rows_ok : forall e c rows, col_ok e c ->
    col_ok e (col_add_rows c rows) /\ c_cfg (col_add_rows c rows) = c_cfg c.
  Proof. intros e [cc p en sw o a pl] rows H. cbn in *. auto. Qed.

  Lemma col_flush_page_ok : forall e e' c, col_ok e c ->
    col_ok e (col_flush_page e' c) /\ c_cfg (col_flush_page e' c) = c_cfg c.
  Proof.
    intros e e' [cc p en sw o a pl] (Hp & He & Ho & Hl). unfold Model.col_flush_page. cbn in *.
    destruct (a_buffer a); [repeat split; auto|].
    match goal with |- context [if ?b then _ else _] => destruct b eqn:Hb end; cbn.
    - repeat split; auto. discriminate.
    - repeat split; auto.
  Qed.

  Lemma col_write_ok : forall e e' pr c rows, col_ok e c ->
    col_ok e (col_write e' pr c rows) /\ c_cfg (col_write e' pr c rows) = c_cfg c.
  Proof.
    intros e e' pr c rows H. unfold Model.col_write.
    destruct (col_add_rows_ok e c rows H) as (H1 & E1).
    destruct (pr <=? _); [|auto].
    destruct (col_flush_page_ok e e' _ H1) as (H2 & E2). split; [auto|congruence].
  Qed.

  Lemma col_reset_ok : forall e c, col_ok e c -> col_ok e (col_reset c) /\ c_cfg (col_reset c) = c_cfg c.
  Proof.
    intros e [cc p en sw o a pl] (Hp & He & Ho & Hl). cbn in *. repeat split; auto.
    intros _. destruct sw; auto.
  Qed.

  Lemma set_ordinal_ok : forall e o c, col_ok e c ->
    col_ok e (set_ordinal e o c) /\ c_cfg (set_ordinal e o c) = c_cfg c.
  Proof.
    intros e o [cc p en sw od a pl] (Hp & He & Ho & Hl). cbn in *. repeat split; auto.
    intros E. rewrite E. auto.
  Qed.

  Lemma col_next_rg_ok : forall e o c, col_ok e c ->
    col_ok e (col_next_rg e o c) /\ c_cfg (col_next_rg e o c) = c_cfg c.
  Proof.
    intros e o c H. destruct (col_reset_ok e c H) as ((Hp & He & Ho & Hl) & E).
    unfold col_next_rg. cbn. repeat split; auto.
    intros E'. rewrite E'. auto.
  Qed.

  (** invariant of the logical state: the construction-time part is that of
      the configuration [cfg] and of the configured metadata [md] *)
  Definition linv (cfg : config) (md : list (N * N)) (l : lstate) : Prop :=
    l_cfg l = cfg /\ l_cfgmd l = md /\ cols_ok (cf_encrypted cfg) (cf_cols cfg) (l_cols l).

  Lemma lflush_core_inv : forall cfg md f l slot, linv cfg md l -> linv cfg md (fst (lflush_core f l slot)).
  Proof.
    intros cfg md f l slot (Hc & Hm & Hk). unfold Model.lflush_core.
    destruct (l_cols l) as [|c0 ct] eqn:Ecols; [cbn; repeat split; try assumption; rewrite Ecols; apply Hk|].
    destruct (a_numrows (c_acc c0) + nlen (a_buffer (c_acc c0)) =? 0);
      [cbn; repeat split; try assumption; rewrite Ecols; apply Hk|].
    rewrite <- Ecols in *. rewrite Hc.
    set (cols1 := map _ (l_cols l)).
    assert (K1 : cols_ok (cf_encrypted cfg) (cf_cols cfg) cols1).
    { apply cols_ok_map; [|exact Hk]. intros c Hcok.
      destruct (set_ordinal_ok (cf_encrypted cfg) (nlen (l_rgs l)) c Hcok) as (A & B).
      destruct (col_flush_page_ok (cf_encrypted cfg) (cf_encrypted cfg) _ A) as (C & D).
      split; [exact C|congruence]. }
    destruct (emit_cols _ _ _ _) as [[[evs ms] locs] off2].
    destruct (emit_blooms _ _ _ _ _) as [[bevs ms'] off3].
    assert (K2 : forall o, cols_ok (cf_encrypted cfg) (cf_cols cfg) (map (col_next_rg (cf_encrypted cfg) o) cols1)).
    { intros o. apply cols_ok_map; [|exact K1]. intros c Hcok. apply col_next_rg_ok, Hcok. }
    destruct (l_broken l); [|destruct f]; cbn; (split; [reflexivity|split; [assumption|apply K2]]).
  Qed.

  Definition pinv (cfg : config) (md : list (N * N)) (p : lstate * list capslot) : Prop := linv cfg md (fst p).

  Lemma lflush_pinv : forall cfg md f p, pinv cfg md p -> pinv cfg md (lflush f p).
  Proof.
    intros cfg md f [l c] Hi. unfold pinv in *. cbn in Hi. unfold Model.lflush. cbn [fst snd].
    pose proof (lflush_core_inv cfg md f l (hd slot_zero c) Hi) as A.
    destruct (lflush_core f l (hd slot_zero c)) as [l' u]. exact A.
  Qed.

  Lemma lwrite_pinv : forall cfg md fuel p rows, pinv cfg md p -> pinv cfg md (lwrite fuel p rows).
  Proof.
    induction fuel as [|f IH]; intros p rows H; cbn; [assumption|].
    destruct rows as [|r rt]; [assumption|].
    destruct (_ =? 0).
    - apply IH, lflush_pinv, H.
    - apply IH. destruct H as (Hc & Hm & Hk). split; [|split]; cbn; auto.
      rewrite Hc. apply cols_ok_map; [|exact Hk]. intros c Hcok. apply col_write_ok, Hcok.
  Qed.

  Lemma lheader_linv : forall cfg md l, linv cfg md l -> linv cfg md (lheader l).
  Proof. intros cfg md l H. unfold lheader. destruct (l_off l =? 0); cbn; auto. Qed.

  Lemma lclose_pinv : forall cfg md p, pinv cfg md p -> pinv cfg md (lclose p).
  Proof.
    intros cfg md [l c] (Hc & Hm & Hk). unfold pinv in *. cbn in *. unfold Model.lclose. cbn [fst snd].
    set (l0 := set_cols_numrows l _ _).
    assert (H0 : linv cfg md l0).
    { split; [|split]; cbn; auto. rewrite Hc.
      apply cols_ok_map; [|exact Hk]. intros x Hx. apply col_flush_page_ok, Hx. }
    destruct (l_broken l0 && (l_off l0 =? 0)); [exact H0|].
    assert (H1 : pinv cfg md (lflush None (lheader l0, c))).
    { apply lflush_pinv. apply lheader_linv, H0. }
    destruct (lflush None (lheader l0, c)) as [l1 c1].
    destruct (l_broken l1); [exact H1|].
    destruct (emit_cindexes _ _ _ _) as [[cevs rgs1] off1].
    destruct (emit_oindexes _ _ _ _) as [[oevs rgs2] off2].
    destruct H1 as (A & B & C). cbn in *. split; [|split]; cbn; auto.
  Qed.

  Lemma lreset_linv : forall cfg md l, linv cfg md l -> linv cfg md (lreset l).
  Proof.
    intros cfg md l (Hc & Hm & Hk). split; [|split]; cbn; auto. rewrite Hc.
    apply cols_ok_map; [|exact Hk]. intros c Hcok.
    destruct (col_reset_ok _ c Hcok) as (A & B).
    destruct (set_ordinal_ok (cf_encrypted cfg) 0 _ A) as (C & D). split; [exact C|congruence].
  Qed.

  Lemma lstep_pinv : forall cfg md o p, pinv cfg md p -> pinv cfg md (lstep_gen lreset p o).
  Proof.
    intros cfg md o p H. destruct o; cbn.
    - apply lwrite_pinv, H.
    - apply lflush_pinv, H.
    - apply lclose_pinv, H.
    - apply lreset_linv, H.
    - apply lflush_pinv, lwrite_pinv, H.
    - exact H.
    - apply lflush_pinv, lwrite_pinv, lflush_pinv, H.
    - destruct H as (A & B & C). split; [|split]; cbn; auto.
  Qed.

  Definition sinv (cfg : config) (md : list (N * N)) (s : state) : Prop := linv cfg md (st_l s).

  Lemma step_sinv : forall cfg md o s, sinv cfg md s -> sinv cfg md (step s o).
  Proof.
    intros cfg md o s H. unfold sinv, Model.step, Model.step_gen.
    pose proof (lstep_pinv cfg md o (st_l s, st_caps s) H) as P.
    destruct (lstep_gen lreset (st_l s, st_caps s) o). exact P.
  Qed.

  Lemma run_sinv : forall cfg md ops s, sinv cfg md s -> sinv cfg md (run s ops).
  Proof.
    intros cfg md ops. induction ops as [|o t IH]; intros s H; cbn; [assumption|].
    apply IH, step_sinv, H.
  Qed.

  Lemma init_sinv : forall cfg md, sinv cfg md (init cfg md).
  Proof.
    intros cfg md. split; [|split]; cbn; auto. split.
    - apply Forall_map. apply Forall_forall. intros cc _. repeat split.
    - rewrite map_map. cbn. apply map_id.
  Qed.

  (** reset returns every logical field to its initial value *)
  Lemma col_reset_init : forall e c, col_ok e c -> set_ordinal e 0 (col_reset c) = col_init (c_cfg c).
  Proof.
    intros e [cc p en sw o a pl] (Hp & He & Ho & Hl). cbn in *. unfold col_init, set_ordinal. cbn.
    rewrite Hp. f_equal.
    - destruct sw; auto.
    - destruct e; auto.
  Qed.

  Lemma lreset_init : forall cfg md l, linv cfg md l -> lreset l = linit cfg md.
  Proof.
    intros cfg md l (Hc & Hm & HF & HM). unfold lreset, lreset_with, linit. rewrite Hc, Hm. f_equal.
    rewrite <- HM, map_map. apply map_ext_in. intros c Hin.
    apply col_reset_init. rewrite Forall_forall in HF. auto.
  Qed.

  Lemma reset_sim_init : forall cfg md s, sinv cfg md s -> caps_ok (st_caps s) -> sim (reset s) (init cfg md).
  Proof.
    intros cfg md s Hi Hc.
    unfold Model.reset, Model.step, Model.step_gen. cbn.
    split; [|split]; cbn.
    - apply lreset_init; assumption.
    - apply Forall_app; split; [apply zip_slots_ok|exact Hc].
    - constructor.
  Qed.

  (** MAIN: whatever the previous life did (any operations, failed or
      abandoned content, dictionary fallback, SetKeyValueMetadata), after
      Reset the writer behaves as a fresh writer *)
  Theorem reset_equiv_init : forall cfg md h ops,
    observe (run (reset (run (init cfg md) h)) ops) = observe (run (init cfg md) ops).
  Proof.
    intros cfg md h ops. apply sim_observe, run_sim, reset_sim_init.
    - apply run_sinv, init_sinv.
    - apply run_caps_ok. constructor.
  Qed.

  (** the same for the bytes, whatever the serialisation of the events *)
  Corollary reset_equiv_init_bytes : forall B (ser : event -> list B) cfg md h ops,
    observe_bytes ser (run (reset (run (init cfg md) h)) ops) = observe_bytes ser (run (init cfg md) ops).
  Proof. intros. unfold observe_bytes. now rewrite reset_equiv_init. Qed.

  (** Reset in the middle of a history: the operations before the last Reset do not matter *)
  Corollary history_before_reset_irrelevant : forall cfg md h1 h2 ops,
    observe (run (init cfg md) (h1 ++ Reset :: ops)) = observe (run (init cfg md) (h2 ++ Reset :: ops)).
  Proof.
    intros. unfold Model.run. rewrite !fold_left_app. cbn [fold_left].
    change (observe (run (reset (run (init cfg md) h1)) ops) = observe (run (reset (run (init cfg md) h2)) ops)).
    now rewrite !reset_equiv_init.
  Qed.
  Definition is_setkv (o : op) : bool := match o with SetKV _ _ => true | _ => false end.

  (** ---------- every emitted footer carries the metadata list of its time ---------- *)
  Definition no_footer (e : event) : Prop := match e with EvFooter _ => False | _ => True end.

  Definition footer_kv (md : list (N * N)) (e : event) : Prop :=
    match e with EvFooter f => ft_kv f = md | _ => True end.

  Lemma no_footer_kv : forall md evs, Forall no_footer evs -> Forall (footer_kv md) evs.
  Proof. intros md evs H. eapply Forall_impl; [|exact H]. intros [] Hn; cbn in *; auto; contradiction. Qed.

  Lemma emit_cols_no_footer : forall e cols ci off,
    Forall no_footer (fst (fst (fst (emit_cols e ci cols off)))).
  Proof.
    induction cols as [|c t IH]; intros ci off; cbn; [constructor|].
    specialize (IH (S ci)).
    destruct (emit_cols e (S ci) t _) as [[[evs ms] ls] off2] eqn:E.
    cbn. apply Forall_app; split.
    - apply Forall_app; split.
      + destruct (cc_dict (c_cfg c)); repeat constructor.
      + apply Forall_map. apply Forall_forall. intros; exact I.
    - specialize (IH (off + evs_size (if cc_dict (c_cfg c) then [EvDictPage ci (a_dict (c_acc c)) (aad_of e c)] else []) + a_size (c_acc c))).
      rewrite E in IH. exact IH.
  Qed.

  Lemma emit_blooms_no_footer : forall e cols ms ci off,
    Forall no_footer (fst (fst (emit_blooms e ci cols ms off))).
  Proof.
    induction cols as [|c t IH]; intros ms ci off; cbn; [constructor|].
    destruct ms as [|m mt]; [constructor|].
    destruct (cc_bloom (c_cfg c)).
    - specialize (IH mt (S ci) (off + ev_size (EvBloom ci (a_seen (c_acc c)) (aad_of e c)))).
      destruct (emit_blooms e (S ci) t mt _) as [[evs ms'] off']. cbn in *. constructor; [exact I|exact IH].
    - specialize (IH mt (S ci) off).
      destruct (emit_blooms e (S ci) t mt off) as [[evs ms'] off']. exact IH.
  Qed.

  Lemma emit_ci_cols_no_footer : forall rgi ms idx ci off,
    Forall no_footer (fst (fst (emit_ci_cols rgi ci ms idx off))).
  Proof.
    induction ms as [|m mt IH]; intros idx ci off; cbn; [constructor|].
    destruct idx as [|p pt]; [constructor|].
    destruct p as [|x xt].
    - specialize (IH pt (S ci) off). destruct (emit_ci_cols rgi (S ci) mt pt off) as [[evs ms'] off']. exact IH.
    - specialize (IH pt (S ci) (off + ev_size (EvColumnIndex rgi ci (x :: xt)))).
      destruct (emit_ci_cols rgi (S ci) mt pt _) as [[evs ms'] off']. constructor; [exact I|exact IH].
  Qed.

  Lemma emit_cindexes_no_footer : forall rgs idx rgi off,
    Forall no_footer (fst (fst (emit_cindexes rgi rgs idx off))).
  Proof.
    induction rgs as [|r rt IH]; intros idx rgi off; cbn; [constructor|].
    destruct idx as [|i it]; [constructor|].
    pose proof (emit_ci_cols_no_footer rgi (rg_cols r) i 0%nat off) as H1.
    destruct (emit_ci_cols rgi 0 (rg_cols r) i off) as [[evs ms] off1].
    specialize (IH it (S rgi) off1).
    destruct (emit_cindexes (S rgi) rt it off1) as [[evs2 rs] off2].
    cbn in *. apply Forall_app; split; assumption.
  Qed.

  Lemma emit_oi_cols_no_footer : forall rgi ms idx ci off,
    Forall no_footer (fst (fst (emit_oi_cols rgi ci ms idx off))).
  Proof.
    induction ms as [|m mt IH]; intros idx ci off; cbn; [constructor|].
    destruct idx as [|p pt]; [constructor|].
    specialize (IH pt (S ci) (off + ev_size (EvOffsetIndex rgi ci p))).
    destruct (emit_oi_cols rgi (S ci) mt pt _) as [[evs ms'] off']. constructor; [exact I|exact IH].
  Qed.

  Lemma emit_oindexes_no_footer : forall rgs idx rgi off,
    Forall no_footer (fst (fst (emit_oindexes rgi rgs idx off))).
  Proof.
    induction rgs as [|r rt IH]; intros idx rgi off; cbn; [constructor|].
    destruct idx as [|i it]; [constructor|].
    pose proof (emit_oi_cols_no_footer rgi (rg_cols r) i 0%nat off) as H1.
    destruct (emit_oi_cols rgi 0 (rg_cols r) i off) as [[evs ms] off1].
    specialize (IH it (S rgi) off1).
    destruct (emit_oindexes (S rgi) rt it off1) as [[evs2 rs] off2].
    cbn in *. apply Forall_app; split; assumption.
  Qed.

  (* invariant: the metadata list is [md] and every footer emitted so far carries [md] *)
  Definition kvinv (md : list (N * N)) (l : lstate) : Prop :=
    l_cfgmd l = md /\ l_md l = md /\ Forall (footer_kv md) (l_out l).

  Lemma lflush_core_kv : forall md f l slot, kvinv md l -> kvinv md (fst (lflush_core f l slot)).
  Proof.
    intros md f l slot (Hc & Hm & Ho). unfold Model.lflush_core.
    destruct (l_cols l) as [|c0 ct]; [cbn; repeat split; assumption|].
    destruct (a_numrows (c_acc c0) + nlen (a_buffer (c_acc c0)) =? 0); [cbn; repeat split; assumption|].
    set (cols1 := map _ (c0 :: ct)).
    set (hdr := if l_off l =? 0 then [EvMagic] else []).
    pose proof (emit_cols_no_footer (cf_encrypted (l_cfg l)) cols1 0%nat (l_off l + evs_size hdr)) as H1.
    destruct (emit_cols _ _ _ _) as [[[evs ms] locs] off2].
    pose proof (emit_blooms_no_footer (cf_encrypted (l_cfg l)) cols1 ms 0%nat off2) as H2.
    destruct (emit_blooms _ _ _ _ _) as [[bevs ms'] off3].
    cbn in H1, H2.
    assert (HA : Forall (footer_kv md) (hdr ++ evs ++ bevs)).
    { apply no_footer_kv. apply Forall_app; split; [subst hdr; destruct (l_off l =? 0); repeat constructor|].
      apply Forall_app; split; assumption. }
    destruct (l_broken l); [|destruct f]; cbn; repeat split; try assumption.
    - apply Forall_app; split; [assumption|]. unfold accepted.
      rewrite <- (firstn_skipn n (hdr ++ evs ++ bevs)) in HA. apply Forall_app in HA. apply HA.
    - apply Forall_app; split; assumption.
  Qed.

  Definition pkv (md : list (N * N)) (p : lstate * list capslot) : Prop := kvinv md (fst p).

  Lemma lflush_pkv : forall md f p, pkv md p -> pkv md (lflush f p).
  Proof.
    intros md f [l c] H. unfold pkv in *. cbn in H. unfold Model.lflush. cbn [fst snd].
    pose proof (lflush_core_kv md f l (hd slot_zero c) H) as A.
    destruct (lflush_core f l (hd slot_zero c)) as [l' u]. exact A.
  Qed.

  Lemma lwrite_pkv : forall md fuel p rows, pkv md p -> pkv md (lwrite fuel p rows).
  Proof.
    induction fuel as [|f IH]; intros p rows H; cbn; [assumption|].
    destruct rows as [|r rt]; [assumption|].
    destruct (_ =? 0).
    - apply IH, lflush_pkv, H.
    - apply IH. exact H.
  Qed.

  Lemma lclose_pkv : forall md p, pkv md p -> pkv md (lclose p).
  Proof.
    intros md [l c] (Hc & Hm & Ho). unfold pkv in *. cbn in *. unfold Model.lclose. cbn [fst snd].
    set (l0 := set_cols_numrows l _ _).
    assert (H0 : kvinv md l0) by (repeat split; assumption).
    destruct (l_broken l0 && (l_off l0 =? 0)); [exact H0|].
    assert (Hh : kvinv md (lheader l0)).
    { unfold lheader. destruct (l_off l0 =? 0); [|exact H0]. destruct H0 as (A & B & C).
      repeat split; cbn; try assumption. apply Forall_app; split; [assumption|repeat constructor]. }
    pose proof (lflush_pkv md None (lheader l0, c) Hh) as H1.
    destruct (lflush None (lheader l0, c)) as [l1 c1].
    destruct (l_broken l1); [exact H1|].
    pose proof (emit_cindexes_no_footer (l_rgs l1) (l_cidx l1) 0%nat (l_off l1)) as N1.
    destruct (emit_cindexes _ _ _ _) as [[cevs rgs1] off1].
    pose proof (emit_oindexes_no_footer rgs1 (l_oidx l1) 0%nat off1) as N2.
    destruct (emit_oindexes _ _ _ _) as [[oevs rgs2] off2].
    destruct H1 as (A & B & C). cbn in *. repeat split; cbn; try assumption.
    apply Forall_app; split; [assumption|].
    apply Forall_app; split; [apply no_footer_kv, N1|].
    apply Forall_app; split; [apply no_footer_kv, N2|].
    constructor; [cbn; exact B|constructor].
  Qed.

  Lemma lstep_pkv : forall md o p, is_setkv o = false ->
    pkv md p -> pkv md (lstep_gen lreset p o).
  Proof.
    intros md o p Hk H. destruct o; cbn in *; try discriminate.
    - apply lwrite_pkv, H.
    - apply lflush_pkv, H.
    - apply lclose_pkv, H.
    - destruct H as (A & B & C). unfold pkv, kvinv. cbn. repeat split; auto.
    - apply lflush_pkv, lwrite_pkv, H.
    - exact H.
    - apply lflush_pkv, lwrite_pkv, lflush_pkv, H.
  Qed.

  (** a file written without SetKeyValueMetadata carries exactly the metadata
      list the writer was constructed with, in every footer *)
  Theorem footers_carry_metadata : forall cfg md ops,
    existsb is_setkv ops = false ->
    Forall (footer_kv md) (observe (run (init cfg md) ops)).
  Proof.
    intros cfg md ops.
    assert (G : forall ops s, existsb is_setkv ops = false ->
                kvinv md (st_l s) -> kvinv md (st_l (run s ops))).
    { induction ops0 as [|o t IH]; intros s Hk H; cbn; [assumption|].
      cbn in Hk. apply orb_false_iff in Hk.
      apply IH; [apply Hk|].
      unfold Model.step, Model.step_gen.
      pose proof (lstep_pkv md o (st_l s, st_caps s) (proj1 Hk) H) as P.
      destruct (lstep_gen lreset (st_l s, st_caps s) o). exact P. }
    intros Hk. apply (G ops (init cfg md) Hk). repeat split; constructor.
  Qed.
End Proofs.

(** ---------- key/value metadata ---------- *)
Definition kv_le (a b : N * N) : Prop := kv_leb a b = true.

Lemma kv_leb_total : forall a b, kv_leb a b = true \/ kv_leb b a = true.
Proof.
  intros [a1 a2] [b1 b2]. unfold kv_leb. cbn.
  rewrite (N.compare_antisym a1 b1).
  destruct (a1 ?= b1) eqn:E; cbn; auto.
  rewrite !N.leb_le. lia.
Qed.

Lemma kv_leb_trans : forall a b c, kv_leb a b = true -> kv_leb b c = true -> kv_leb a c = true.
Proof.
  intros [a1 a2] [b1 b2] [c1 c2]. unfold kv_leb. cbn.
  destruct (a1 ?= b1) eqn:E1; destruct (b1 ?= c1) eqn:E2; try discriminate;
    try apply N.compare_eq in E1; try apply N.compare_eq in E2; subst;
    rewrite ?N.compare_lt_iff in *; intros H1 H2.
  - rewrite N.compare_refl. rewrite N.leb_le in *. lia.
  - rewrite (proj2 (N.compare_lt_iff _ _) E2). reflexivity.
  - rewrite (proj2 (N.compare_lt_iff _ _) E1). reflexivity.
  - assert (L : a1 < c1) by lia. rewrite (proj2 (N.compare_lt_iff _ _) L). reflexivity.
Qed.

Lemma kv_leb_antisym : forall a b, kv_leb a b = true -> kv_leb b a = true -> a = b.
Proof.
  intros [a1 a2] [b1 b2]. unfold kv_leb. cbn. rewrite (N.compare_antisym a1 b1).
  destruct (a1 ?= b1) eqn:E; cbn; try discriminate.
  apply N.compare_eq in E. subst. rewrite !N.leb_le. intros. f_equal. lia.
Qed.

Lemma kv_insert_perm : forall x l, Permutation (x :: l) (kv_insert x l).
Proof.
  induction l as [|y t IH]; cbn; [auto|].
  destruct (kv_leb x y); [auto|].
  eapply perm_trans; [apply perm_swap|]. now apply perm_skip.
Qed.

Lemma sort_kv_perm_self : forall l, Permutation l (sort_kv l).
Proof.
  induction l as [|x t IH]; cbn; [auto|].
  eapply perm_trans; [apply perm_skip, IH|apply kv_insert_perm].
Qed.

Lemma kv_insert_sorted : forall x l, StronglySorted kv_le l -> StronglySorted kv_le (kv_insert x l).
Proof.
  induction l as [|y t IH]; intros H; cbn.
  - constructor; constructor.
  - inversion H as [|? ? Ht Hy]; subst.
    destruct (kv_leb x y) eqn:E.
    + constructor; [exact H|]. constructor; [exact E|].
      eapply Forall_impl; [|exact Hy]. intros z Hz. eapply kv_leb_trans; eauto.
    + constructor; [apply IH, Ht|].
      assert (Hyx : kv_leb y x = true) by (destruct (kv_leb_total x y); congruence).
      eapply Permutation_Forall; [apply kv_insert_perm|]. constructor; assumption.
  Qed.

Lemma sort_kv_sorted : forall l, StronglySorted kv_le (sort_kv l).
Proof. induction l; cbn; [constructor|now apply kv_insert_sorted]. Qed.

Lemma sorted_perm_unique : forall l1 l2,
  StronglySorted kv_le l1 -> StronglySorted kv_le l2 -> Permutation l1 l2 -> l1 = l2.
Proof.
  induction l1 as [|a t1 IH]; intros l2 H1 H2 P.
  - apply Permutation_nil in P. now subst.
  - destruct l2 as [|b t2]; [apply Permutation_sym, Permutation_nil in P; discriminate|].
    inversion H1 as [|? ? S1 F1]; inversion H2 as [|? ? S2 F2]; subst.
    assert (a = b).
    { assert (Ia : In a (b :: t2)) by (eapply Permutation_in; [exact P|left; reflexivity]).
      assert (Ib : In b (a :: t1)) by (eapply Permutation_in; [apply Permutation_sym, P|left; reflexivity]).
      rewrite Forall_forall in F1, F2.
      destruct Ia as [->|Ia]; [reflexivity|]. destruct Ib as [->|Ib]; [reflexivity|].
      apply kv_leb_antisym; [apply F1, Ib|apply F2, Ia]. }
    subst b. f_equal. apply IH; auto. eapply Permutation_cons_inv, P.
Qed.

(** the sorted metadata does not depend on the order in which the map was iterated *)
Theorem sort_kv_perm : forall m1 m2, Permutation m1 m2 -> sort_kv m1 = sort_kv m2.
Proof.
  intros m1 m2 P. apply sorted_perm_unique; try apply sort_kv_sorted.
  eapply perm_trans; [apply Permutation_sym, sort_kv_perm_self|].
  eapply perm_trans; [exact P|apply sort_kv_perm_self].
Qed.

Theorem kv_order_irrelevant : forall encode cfg m1 m2 ops, Permutation m1 m2 ->
  observe (run encode (init_of_map encode cfg m1) ops) = observe (run encode (init_of_map encode cfg m2) ops).
Proof. intros. unfold init_of_map. now rewrite (sort_kv_perm m1 m2). Qed.
