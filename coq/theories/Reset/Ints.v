(** C17 — integer fields of typed rows: which value reaches an INT32 / INT64
    column for every (Go integer kind, width tag) combination.  Executable, no
    proofs (Reset/IntsProofs.v).

    Go sources mirrored (/repo column_buffer_write.go):
      writeRowsFuncOfSmallInt  int8/int16/uint8/uint16 fields: [int32(x)] into an
                               INT32 column, [int64(x)] into an INT64 column
                               (int(64) / uint(64) tag), one [switch kind] each
      writeRowsFuncOfInt       int/int32/int64/uint/uint32/uint64 fields: copied
                               when the sizes agree, [int32(x)] /
                               [int32(uint32(x))] when an 8 byte kind goes to an
                               INT32 column, [int64(x)] when a 4 byte kind goes
                               to an INT64 column
    The conversions go through scratch slices of process-wide pools; the value
    stored is a function of the field alone: the Go value as an integer,
    reduced modulo 2^(physical width).  The logical width of the tag (8, 16)
    does not reduce further.

    A Go value is given by its kind (signed, bits) and its bit pattern [raw]. *)
From Coq Require Import List ZArith Bool.
Import ListNotations.
Local Open Scope Z_scope.

(** the integer a Go value of [bits] bits with bit pattern [raw] denotes *)
Definition go_value (signed : bool) (bits raw : Z) : Z :=
  let r := raw mod 2 ^ bits in
  if signed && (2 ^ (bits - 1) <=? r) then r - 2 ^ bits else r.

(** the bit pattern stored in a column of physical width [phys] (Go integer
    conversion: sign or zero extension when widening, truncation when
    narrowing) *)
Definition widen (signed : bool) (bits phys raw : Z) : Z :=
  go_value signed bits raw mod 2 ^ phys.

Definition widen_column (signed : bool) (bits phys : Z) (raws : list Z) : list Z :=
  map (widen signed bits phys) raws.

(** what a reader converting the column back to the Go kind obtains *)
Definition read_back (bits pat : Z) : Z := pat mod 2 ^ bits.
