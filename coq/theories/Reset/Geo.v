(** C17 — the geospatial statistics of a GEOMETRY / GEOGRAPHY column chunk:
    the per-row-group accumulator of the column writer.  Executable, no proofs
    (Reset/GeoProofs.v).

    Go sources mirrored (/repo geospatial_statistics.go):
      geospatialBBoxAccumulator                  -> gacc (field by field)
      newGeospatialBBoxAccumulator, reset        -> gacc_reset (statement by statement)
      updateFromGeom                             -> gacc_update
      accumulatePage                             -> gacc_values
      toGeospatialStatistics                     -> gacc_stats
    writer.go: ColumnWriter.reset calls reset at the end of every row group and
    on Writer.Reset; recordPageStats calls accumulatePage and stores the result
    of toGeospatialStatistics in the column chunk metadata for every page.

    Abstractions.  A coordinate is the integer key of a float64 (order
    preserving; both zeros have key 0, as Go's comparisons do not tell them
    apart).  [pinf] / [ninf] are the keys of +Inf / -Inf.  A geometry is what the
    accumulator reads from the value parsed by go-geom: its WKB type code, whether
    its bounds are empty, the bounds in X and Y and, when the layout has them, in
    Z and M; a bound is [None] when one of its ends is NaN (the dimension is
    then skipped).  The values of a row group are taken as one list: the Go code
    walks them page by page and leaves a page at its first unparseable value,
    after which the statistics are suppressed whatever else is accumulated. *)
From Coq Require Import List NArith ZArith Bool.
Import ListNotations.

Definition pinf : Z := 9218868437227405312%Z.    (* 0x7ff0000000000000 *)
Definition ninf : Z := (- 9218868437227405312)%Z.

Definition bound := option (Z * Z).            (* (min, max); None: NaN *)

Record geometry := mk_geometry {
  g_code : N;                 (* wkbGeomTypeCode: 0 = unknown type *)
  g_empty : bool;             (* Bounds() nil or empty *)
  g_x : bound;
  g_y : bound;
  g_z : option bound;         (* None: the layout has no Z *)
  g_m : option bound }.       (* None: the layout has no M *)

(* a non-null value of the column *)
Inductive gvalue := GBad | GGeom (g : geometry).

Record gacc := mk_gacc {
  ga_hasValues : bool;
  ga_hasGeomTypes : bool;
  ga_parseError : bool;
  ga_x : Z * Z;
  ga_y : Z * Z;
  ga_hasZ : bool;
  ga_z : Z * Z;
  ga_hasM : bool;
  ga_m : Z * Z;
  ga_types : list N }.        (* geomTypeSet, kept sorted (the Go map is sorted on output) *)

(** reset: every field, whatever it held *)
Definition gacc_reset (a : gacc) : gacc :=
  mk_gacc false false false (pinf, ninf) (pinf, ninf) false (pinf, ninf) false (pinf, ninf) [].

Definition gacc_new : gacc := gacc_reset (mk_gacc true true true (0, 0) (0, 0) true (0, 0) true (0, 0) [])%Z.

Fixpoint insert_type (c : N) (l : list N) : list N :=
  match l with
  | [] => [c]
  | x :: r => if N.eqb c x then l else if N.ltb c x then c :: l else x :: insert_type c r
  end.

(* if !has || min < cur.min { cur.min = min }; same for max *)
Definition extend (has : bool) (cur : Z * Z) (b : Z * Z) : Z * Z :=
  ((if negb has || Z.ltb (fst b) (fst cur) then fst b else fst cur),
   (if negb has || Z.ltb (snd cur) (snd b) then snd b else snd cur)).

Definition extend_xy (has : bool) (cur : Z * Z) (b : bound) : Z * Z :=
  match b with Some r => extend has cur r | None => cur end.

Definition gacc_update (a : gacc) (g : geometry) : gacc :=
  let types := if N.eqb (g_code g) 0 then ga_types a else insert_type (g_code g) (ga_types a) in
  let hasT := if N.eqb (g_code g) 0 then ga_hasGeomTypes a else true in
  if g_empty g then
    mk_gacc (ga_hasValues a) hasT (ga_parseError a) (ga_x a) (ga_y a) (ga_hasZ a) (ga_z a) (ga_hasM a) (ga_m a) types
  else
    let x := extend_xy (ga_hasValues a) (ga_x a) (g_x g) in
    let y := extend_xy (ga_hasValues a) (ga_y a) (g_y g) in
    let '(hz, z) := match g_z g with
                    | Some (Some r) => (true, extend (ga_hasZ a) (ga_z a) r)
                    | _ => (ga_hasZ a, ga_z a)
                    end in
    let '(hm, m) := match g_m g with
                    | Some (Some r) => (true, extend (ga_hasM a) (ga_m a) r)
                    | _ => (ga_hasM a, ga_m a)
                    end in
    mk_gacc true hasT (ga_parseError a) x y hz z hm m types.

Fixpoint gacc_values (a : gacc) (vs : list gvalue) : gacc :=
  match vs with
  | [] => a
  | GBad :: _ =>
      mk_gacc (ga_hasValues a) (ga_hasGeomTypes a) true (ga_x a) (ga_y a) (ga_hasZ a) (ga_z a) (ga_hasM a) (ga_m a) (ga_types a)
  | GGeom g :: r => gacc_values (gacc_update a g) r
  end.

Record bbox := mk_bbox { bb_x : Z * Z; bb_y : Z * Z; bb_z : option (Z * Z); bb_m : option (Z * Z) }.
Record gstats := mk_gstats { gs_types : list N; gs_bbox : option bbox }.

(* None: the empty GeospatialStatistics *)
Definition gacc_stats (a : gacc) : option gstats :=
  if ga_parseError a || negb (ga_hasGeomTypes a) then None
  else Some (mk_gstats (ga_types a)
         (if ga_hasValues a then
            Some (mk_bbox (ga_x a) (ga_y a)
                    (if ga_hasZ a then Some (ga_z a) else None)
                    (if ga_hasM a then Some (ga_m a) else None))
          else None)).

(** the statistics of the row groups of one life of a column writer: the
    accumulator is reset after every row group *)
Fixpoint life_stats (a : gacc) (rgs : list (list gvalue)) : list (option gstats) * gacc :=
  match rgs with
  | [] => ([], a)
  | vs :: r =>
      let a' := gacc_values a vs in
      let '(out, a'') := life_stats (gacc_reset a') r in
      (gacc_stats a' :: out, a'')
  end.

(** what the footer must carry for a row group holding [vs] *)
Definition row_group_stats (vs : list gvalue) : option gstats := gacc_stats (gacc_values gacc_new vs).

(** a reset that leaves field number [k] of the accumulator alone (1 hasValues,
    2 hasGeomTypes, 3 parseError, 4 hasZ, 5 hasM, 6 geomTypeSet; the ranges are
    rewritten under their flags): used to show that every one of these fields
    reaches the footer, i.e. that [gacc_reset] has no statement to spare *)
Definition gacc_reset_keeping (k : N) (a : gacc) : gacc :=
  let r := gacc_reset a in
  let keep (i : N) {A} (old new : A) : A := if N.eqb k i then old else new in
  mk_gacc (keep 1%N (ga_hasValues a) (ga_hasValues r)) (keep 2%N (ga_hasGeomTypes a) (ga_hasGeomTypes r))
          (keep 3%N (ga_parseError a) (ga_parseError r)) (ga_x r) (ga_y r)
          (keep 4%N (ga_hasZ a) (ga_hasZ r)) (ga_z r) (keep 5%N (ga_hasM a) (ga_hasM r)) (ga_m r)
          (keep 6%N (ga_types a) (ga_types r)).
