(** C17 — proofs about Reset/Geo.v. *)
From Coq Require Import List NArith ZArith Bool Sorted.
From PQ Require Import Reset.Geo.
Import ListNotations.

Lemma gacc_reset_new : forall a, gacc_reset a = gacc_new.
Proof. reflexivity. Qed.

(** every row group of a life gets the statistics of its own values, whatever
    the accumulator held when the life began (after a reset) *)
Lemma life_stats_own_values : forall rgs a,
  fst (life_stats (gacc_reset a) rgs) = map row_group_stats rgs.
Proof.
  induction rgs as [|vs r IH]; intros a; simpl; [reflexivity|].
  specialize (IH (gacc_values (gacc_reset a) vs)).
  destruct (life_stats (gacc_reset (gacc_values (gacc_reset a) vs)) r) as [out a'']; simpl in *.
  now rewrite IH, gacc_reset_new.
Qed.

(** history independence: the statistics of the row groups written after a
    reset do not depend on the earlier row groups and lives *)
Lemma life_stats_history_irrelevant : forall a h rgs,
  fst (life_stats (gacc_reset (snd (life_stats a h))) rgs)
  = fst (life_stats gacc_new rgs).
Proof.
  intros a h rgs. rewrite life_stats_own_values.
  change gacc_new with (gacc_reset gacc_new). now rewrite life_stats_own_values.
Qed.

(** and within one life the row groups before a row group do not matter *)
Lemma life_stats_app : forall h rgs a,
  fst (life_stats (gacc_reset a) (h ++ rgs)) = map row_group_stats h ++ map row_group_stats rgs.
Proof. intros. now rewrite life_stats_own_values, map_app. Qed.

(** the type list stays sorted without repetitions *)
Lemma insert_type_sorted : forall c l, StronglySorted N.lt l -> StronglySorted N.lt (insert_type c l).
Proof.
  intros c l H. induction H as [|x r Hr IH Hx]; simpl.
  - repeat constructor.
  - destruct (N.eqb c x) eqn:E; [constructor; assumption|].
    destruct (N.ltb c x) eqn:L.
    + apply N.ltb_lt in L. constructor; [constructor; assumption|].
      constructor; [assumption|]. eapply Forall_impl; [|exact Hx]. intros y Hy. eapply N.lt_trans; eassumption.
    + constructor; [assumption|].
      apply N.eqb_neq in E. apply N.ltb_ge in L.
      assert (Hlt : N.lt x c) by (apply N.le_neq; split; [assumption|congruence]).
      clear - Hx Hlt. induction r as [|y r IHr]; simpl.
      * repeat constructor. assumption.
      * inversion Hx; subst. destruct (N.eqb c y); [constructor; assumption|].
        destruct (N.ltb c y); constructor; try assumption; try (constructor; assumption).
        apply IHr. assumption.
Qed.
