(** C17 — proofs about Reset/Ints.v. *)
From Coq Require Import List ZArith Znumtheory Bool Lia.
From PQ Require Import Reset.Ints.
Import ListNotations.
Local Open Scope Z_scope.

Lemma widen_range : forall signed bits phys raw,
  0 <= phys -> 0 <= widen signed bits phys raw < 2 ^ phys.
Proof.
  intros signed bits phys raw Hp. unfold widen.
  apply Z.mod_pos_bound. apply Z.pow_pos_nonneg; lia.
Qed.

Lemma pow_divides : forall a b, 0 <= a <= b -> (2 ^ a | 2 ^ b).
Proof.
  intros a b H. exists (2 ^ (b - a)).
  rewrite <- Z.pow_add_r by lia. f_equal. lia.
Qed.

(** no information is lost when the column is at least as wide as the kind:
    the stored pattern, cut to the width of the kind, is the pattern written *)
Lemma widen_read_back : forall signed bits phys raw,
  0 < bits <= phys -> 0 <= raw < 2 ^ bits ->
  read_back bits (widen signed bits phys raw) = raw.
Proof.
  intros signed bits phys raw Hb Hr. unfold read_back, widen.
  assert (Hpb : 0 < 2 ^ bits) by (apply Z.pow_pos_nonneg; lia).
  assert (Hpp : 0 < 2 ^ phys) by (apply Z.pow_pos_nonneg; lia).
  rewrite <- (Zmod_div_mod (2 ^ bits) (2 ^ phys)); try assumption.
  2: apply pow_divides; lia.
  unfold go_value. rewrite (Z.mod_small raw) by lia.
  destruct (signed && (2 ^ (bits - 1) <=? raw)).
  - replace (raw - 2 ^ bits) with (raw + (-1) * 2 ^ bits) by lia.
    rewrite Z_mod_plus_full. apply Z.mod_small; lia.
  - apply Z.mod_small; lia.
Qed.

(** hence two different values never share a stored pattern *)
Lemma widen_injective : forall signed bits phys r1 r2,
  0 < bits <= phys -> 0 <= r1 < 2 ^ bits -> 0 <= r2 < 2 ^ bits ->
  widen signed bits phys r1 = widen signed bits phys r2 -> r1 = r2.
Proof.
  intros signed bits phys r1 r2 Hb H1 H2 E.
  rewrite <- (widen_read_back signed bits phys r1 Hb H1).
  rewrite <- (widen_read_back signed bits phys r2 Hb H2).
  now rewrite E.
Qed.

(** the stored pattern denotes the Go value when the column is read at the
    signedness of the kind (sign extension of negative values) *)
Lemma widen_value : forall signed bits phys raw,
  0 < bits <= phys -> 0 <= raw < 2 ^ bits ->
  go_value signed phys (widen signed bits phys raw) = go_value signed bits raw.
Proof.
  intros signed bits phys raw Hb Hr.
  assert (Hpb : 0 < 2 ^ bits) by (apply Z.pow_pos_nonneg; lia).
  assert (Hpp : 0 < 2 ^ phys) by (apply Z.pow_pos_nonneg; lia).
  assert (Hle : 2 ^ bits <= 2 ^ phys) by (apply Z.pow_le_mono_r; lia).
  assert (Hh : 2 * 2 ^ (bits - 1) = 2 ^ bits).
  { rewrite <- Z.pow_succ_r by lia. f_equal. lia. }
  assert (Hhp : 2 * 2 ^ (phys - 1) = 2 ^ phys).
  { rewrite <- Z.pow_succ_r by lia. f_equal. lia. }
  unfold widen, go_value at 1. rewrite Z.mod_mod by lia.
  unfold go_value. rewrite (Z.mod_small raw) by lia.
  destruct signed; simpl.
  - destruct (2 ^ (bits - 1) <=? raw) eqn:E.
    + apply Z.leb_le in E.
      replace ((raw - 2 ^ bits) mod 2 ^ phys) with (raw - 2 ^ bits + 2 ^ phys).
      2:{ symmetry. rewrite <- (Z_mod_plus_full _ 1). rewrite Z.mul_1_l. apply Z.mod_small. lia. }
      assert (L : 2 ^ (phys - 1) <=? raw - 2 ^ bits + 2 ^ phys = true) by (apply Z.leb_le; lia).
      rewrite L. lia.
    + apply Z.leb_gt in E. rewrite (Z.mod_small raw) by lia.
      assert (L : 2 ^ (phys - 1) <=? raw = false) by (apply Z.leb_gt; lia).
      rewrite L. reflexivity.
  - rewrite (Z.mod_small raw) by lia. reflexivity.
Qed.
