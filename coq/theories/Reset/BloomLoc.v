(** C17 — the bloom filter location carried by the live column chunk metadata
    of a ColumnWriter (writer.go: ColumnWriter.columnChunk.MetaData
    .BloomFilterOffset / BloomFilterLength, ColumnWriter.filter), over the row
    groups of several lives.  No proofs here (Reset/BloomLocProofs.v).

    A row group reaches a column writer that has a filter configured in one of
    two ways:
      - [Built n]: the rows went through the column writer; flushFilterPages
        sizes the filter from n values (the entries of the dictionary, or
        NumValues after a fallback / without dictionary); a filter of size 0
        (n = 0: an optional dictionary column holding only nulls) is not
        written and nothing is recorded (writer.go writeRowGroup: the location
        is assigned only when len(c.filter) > 0);
      - [Copied len]: writer_copy.go loadCopiedChunk / writeRowGroup: the chunk
        of a file row group is streamed verbatim, its filter of [len] bytes
        with it; the location is recorded, ColumnWriter.filter stays empty.
    After every row group ColumnWriter.reset runs; Writer.Reset runs it too. *)
From Coq Require Import List NArith Bool.
Import ListNotations.
Local Open Scope N_scope.

Inductive rgop := Built (n : N) | Copied (len : N).

Record bstate := mk_bstate {
  b_filter : N;          (* len(c.filter) *)
  b_loc : N * N }.       (* BloomFilterOffset, BloomFilterLength of the live metadata *)

Definition bnew : bstate := mk_bstate 0 (0, 0).

(* SplitBlockFilter.Size: 32-byte blocks, none for no value *)
Definition filter_size (bits n : N) : N := 32 * ((n * bits + 255) / 256).

(* the row group: what the footer records for the chunk, and the state after *)
Definition brow_group (bits off : N) (s : bstate) (o : rgop) : (N * N) * bstate :=
  match o with
  | Built n =>
      let sz := filter_size bits n in
      if sz =? 0 then (b_loc s, mk_bstate 0 (b_loc s))
      else ((off, sz), mk_bstate sz (off, sz))
  | Copied len => ((off, len), mk_bstate (b_filter s) (off, len))
  end.

(* ColumnWriter.reset *)
Definition breset (s : bstate) : bstate := mk_bstate 0 (0, 0).

(* a reset that forgets the location together with the filter it truncates *)
Definition breset_pinned (s : bstate) : bstate :=
  if b_filter s =? 0 then s else mk_bstate 0 (0, 0).

(* the row groups of one file: each at its own offset [off i]; reset after each *)
Fixpoint blife (rs : bstate -> bstate) (bits : N) (s : bstate) (rgs : list (N * rgop)) : list (N * N) * bstate :=
  match rgs with
  | [] => ([], s)
  | (off, o) :: t =>
      let '(loc, s1) := brow_group bits off s o in
      let '(locs, s2) := blife rs bits (rs s1) t in
      (loc :: locs, s2)
  end.

(* what a row group records on its own *)
Definition own_loc (bits : N) (x : N * rgop) : N * N :=
  match snd x with
  | Built n => if filter_size bits n =? 0 then (0, 0) else (fst x, filter_size bits n)
  | Copied len => (fst x, len)
  end.

(* flags for the oracle: which row groups of a file record a filter *)
Definition has_filter (bits : N) (x : N * rgop) : bool := negb (snd (own_loc bits x) =? 0).
