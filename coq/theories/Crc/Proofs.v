(** Proofs about the CRC-32/IEEE model of Crc/Model.v.

    Route to the burst theorem:
    - [step0] (one shift step with no input) is linear over xor on all of N
      ([step0_lxor]) and divides an even register by two ([step0_shiftl1]);
    - hence the register after a byte string is [8 * length] steps applied
      to (initial register xor the message read as a little-endian number)
      ([update_le]), and the run over [m xor e] differs from the run over [m]
      by the run over [e] from the zero register: the initial 0xFFFFFFFF and
      the final complement cancel ([crc32_diff]);
    - on 32-bit registers [step0] maps non-zero to non-zero
      ([step0_nonzero]: the step sets bit 31 exactly when the register was
      odd, because only the polynomial has bit 31) and is injective
      ([step0_injective]);
    - an error pattern whose set bits lie in [p, p+32) is the number
      [c * 2^p] with [0 < c < 2^32]; [p] steps bring the register to [c], the
      remaining steps keep it non-zero ([burst_register_nonzero]). *)
From Coq Require Import List NArith ZArith Bool Arith Lia ZifyN ZifyNat ZifyBool.
From PQ Require Import Crc.Model.
Import ListNotations.
Open Scope N_scope.

Ltac xor_solve :=
  apply N.bits_inj; intro; rewrite ?N.lxor_spec, ?N.bits_0;
  repeat match goal with
         | |- context [N.testbit ?a ?k] => destruct (N.testbit a k)
         end; reflexivity.

(** * Iteration *)

Lemma iter_S {A} (f : A -> A) n x : Nat.iter (S n) f x = f (Nat.iter n f x).
Proof. reflexivity. Qed.

Lemma iter_plus {A} (f : A -> A) a b x :
  Nat.iter (a + b) f x = Nat.iter a f (Nat.iter b f x).
Proof.
  induction a; [reflexivity|].
  change (S a + b)%nat with (S (a + b)). now rewrite !iter_S, IHa.
Qed.

Lemma iter_S_r {A} (f : A -> A) n x : Nat.iter (S n) f x = Nat.iter n f (f x).
Proof. induction n; [reflexivity|]. now rewrite iter_S, IHn. Qed.

(** * The shift step *)

Lemma step0_alt s :
  step0 s = N.lxor (N.shiftr s 1) (if N.odd s then poly else 0).
Proof. unfold step0. destruct (N.odd s); [reflexivity|]. now rewrite N.lxor_0_r. Qed.

Lemma step0_lxor a b : step0 (N.lxor a b) = N.lxor (step0 a) (step0 b).
Proof.
  rewrite !step0_alt, Nxor_bit0, N.shiftr_lxor.
  destruct (N.odd a), (N.odd b); cbn [xorb]; xor_solve.
Qed.

Lemma step0_0 : step0 0 = 0.
Proof. reflexivity. Qed.

Lemma step0_shiftl1 y : step0 (N.shiftl y 1) = y.
Proof.
  unfold step0.
  assert (H : N.odd (N.shiftl y 1) = false).
  { rewrite <- N.bit0_odd. apply N.shiftl_spec_low. lia. }
  rewrite H, N.shiftr_shiftl_l by lia. apply N.shiftl_0_r.
Qed.

Lemma iter_step0_lxor n a b :
  Nat.iter n step0 (N.lxor a b) = N.lxor (Nat.iter n step0 a) (Nat.iter n step0 b).
Proof. induction n; [reflexivity|]. now rewrite !iter_S, IHn, step0_lxor. Qed.

Lemma iter_step0_0 n : Nat.iter n step0 0 = 0.
Proof. induction n; [reflexivity|]. now rewrite iter_S, IHn. Qed.

Lemma iter_step0_shiftl n y : Nat.iter n step0 (N.shiftl y (N.of_nat n)) = y.
Proof.
  induction n; [apply N.shiftl_0_r|].
  rewrite iter_S_r.
  replace (N.of_nat (S n)) with (N.of_nat n + 1) by lia.
  now rewrite <- N.shiftl_shiftl, step0_shiftl1.
Qed.

(* bits above the ones consumed by [n] steps just move down by [n] places *)
Lemma iter_step0_shift n x y :
  Nat.iter n step0 (N.lxor x (N.shiftl y (N.of_nat n))) = N.lxor (Nat.iter n step0 x) y.
Proof. now rewrite iter_step0_lxor, iter_step0_shiftl. Qed.

(** * The register as a function of the whole message *)

Lemma update_byte_lxor s t a b :
  update_byte (N.lxor s t) (N.lxor a b) = N.lxor (update_byte s a) (update_byte t b).
Proof.
  unfold update_byte. rewrite <- iter_step0_lxor. f_equal. xor_solve.
Qed.

Lemma xor_bytes_length m e : length m = length e -> length (xor_bytes m e) = length m.
Proof.
  revert e; induction m as [|a m IH]; intros [|b e] H; cbn in *; try discriminate; auto.
Qed.

Lemma update_cons s b r : update s (b :: r) = update (update_byte s b) r.
Proof. reflexivity. Qed.

(** linearity: the run over [m xor e] is the xor of the runs *)
Lemma update_lxor m : forall e s t, length m = length e ->
  update (N.lxor s t) (xor_bytes m e) = N.lxor (update s m) (update t e).
Proof.
  induction m as [|a m IH]; intros [|b e] s t H; cbn [length] in *; try discriminate.
  - reflexivity.
  - cbn [xor_bytes]. rewrite !update_cons, update_byte_lxor. apply IH. lia.
Qed.

Lemma update_app s a b : update s (a ++ b) = update (update s a) b.
Proof. apply fold_left_app. Qed.

(** the difference of two checksums over equal-length inputs is the run of
    the difference from the zero register *)
Lemma crc32_update_diff c m e : length m = length e ->
  N.lxor (crc32_update c (xor_bytes m e)) (crc32_update c m) = update 0 e.
Proof.
  intros H. unfold crc32_update.
  replace (N.lxor c mask32) with (N.lxor (N.lxor c mask32) 0) at 1 by apply N.lxor_0_r.
  rewrite update_lxor by assumption. xor_solve.
Qed.

Lemma crc32_diff m e : length m = length e ->
  N.lxor (crc32 (xor_bytes m e)) (crc32 m) = update 0 e.
Proof. apply crc32_update_diff. Qed.

(** the whole run is [8 * length] steps from (register xor message) *)
Lemma update_le bs : forall s,
  update s bs = Nat.iter (8 * length bs) step0 (N.lxor s (le_num bs)).
Proof.
  induction bs as [|b r IH]; intro s.
  - cbn. now rewrite N.lxor_0_r.
  - rewrite update_cons, IH. cbn [length le_num].
    replace (8 * S (length r))%nat with (8 * length r + 8)%nat by lia.
    rewrite iter_plus. f_equal. unfold update_byte.
    rewrite <- (iter_step0_shift 8). f_equal. change (N.of_nat 8) with 8. xor_solve.
Qed.

(** * 32-bit registers *)

Definition bounded (s : N) : Prop := N.shiftr s 32 = 0.

Lemma bounded_lt s : bounded s <-> s < 2 ^ 32.
Proof.
  unfold bounded. rewrite N.shiftr_div_pow2. apply N.div_small_iff. discriminate.
Qed.

Lemma bounded_lxor a b : bounded a -> bounded b -> bounded (N.lxor a b).
Proof. unfold bounded. intros Ha Hb. now rewrite N.shiftr_lxor, Ha, Hb. Qed.

Lemma bounded_shiftr1 s : bounded s -> bounded (N.shiftr s 1).
Proof.
  unfold bounded. intro H. rewrite N.shiftr_shiftr.
  replace (1 + 32) with (32 + 1) by reflexivity.
  now rewrite <- N.shiftr_shiftr, H.
Qed.

Lemma step0_bound s : bounded s -> bounded (step0 s).
Proof.
  intro H. rewrite step0_alt. apply bounded_lxor.
  - now apply bounded_shiftr1.
  - destruct (N.odd s); reflexivity.
Qed.

(** the step never sends a non-zero 32-bit register to zero: if the register
    is odd the result has bit 31 (only the polynomial contributes it), if it
    is even the result is its half *)
Lemma step0_nonzero s : bounded s -> s <> 0 -> step0 s <> 0.
Proof.
  intros Hb Hnz H0. unfold step0 in H0.
  destruct (N.odd s) eqn:Ho.
  - apply N.lxor_eq in H0.
    assert (H : N.shiftr (N.shiftr s 1) 31 = 1) by (rewrite H0; reflexivity).
    rewrite N.shiftr_shiftr in H. change (1 + 31) with 32 in H.
    unfold bounded in Hb. rewrite Hb in H. discriminate.
  - apply Hnz. rewrite (N.div2_odd s), Ho, N.div2_spec, H0. reflexivity.
Qed.

Lemma step0_injective s t : bounded s -> bounded t -> step0 s = step0 t -> s = t.
Proof.
  intros Hs Ht H. apply N.lxor_eq.
  destruct (N.eq_dec (N.lxor s t) 0) as [|Hnz]; [assumption|exfalso].
  apply (step0_nonzero (N.lxor s t)); [now apply bounded_lxor|assumption|].
  rewrite step0_lxor, H. apply N.lxor_nilpotent.
Qed.

Lemma iter_step0_bound n s : bounded s -> bounded (Nat.iter n step0 s).
Proof. induction n; [auto|]. intro. rewrite iter_S. auto using step0_bound. Qed.

Lemma iter_step0_nonzero n s : bounded s -> s <> 0 -> Nat.iter n step0 s <> 0.
Proof.
  induction n; [auto|]. intros Hb Hnz. rewrite iter_S.
  apply step0_nonzero; [now apply iter_step0_bound|auto].
Qed.

Lemma iter_step0_injective n s t :
  bounded s -> bounded t -> Nat.iter n step0 s = Nat.iter n step0 t -> s = t.
Proof.
  induction n; [auto|]. intros Hs Ht H. rewrite !iter_S in H.
  apply IHn; auto. apply step0_injective; auto using iter_step0_bound.
Qed.

(** * Bits of a message *)

Lemma byte_high_bits b k : b < 256 -> 8 <= k -> N.testbit b k = false.
Proof.
  intros Hb Hk. rewrite <- (N.mod_small b (2 ^ 8)) by exact Hb.
  now apply N.mod_pow2_bits_high.
Qed.

Lemma msg_bit_nil k : msg_bit [] k = false.
Proof. unfold msg_bit. destruct (k / 8)%nat; apply N.bits_0. Qed.

Lemma msg_bit_cons_low b r k : (k < 8)%nat ->
  msg_bit (b :: r) k = N.testbit b (N.of_nat k).
Proof.
  intro H. unfold msg_bit.
  rewrite Nat.div_small, Nat.mod_small by assumption. reflexivity.
Qed.

Lemma msg_bit_cons_high b r k : msg_bit (b :: r) (8 + k) = msg_bit r k.
Proof.
  unfold msg_bit.
  replace (8 + k)%nat with (k + 1 * 8)%nat by lia.
  rewrite Nat.div_add, Nat.mod_add by discriminate.
  replace (k / 8 + 1)%nat with (S (k / 8)) by lia. reflexivity.
Qed.

(** bit k of the little-endian number is bit k of the message *)
Lemma le_num_bit e : is_bytes e -> forall k,
  N.testbit (le_num e) (N.of_nat k) = msg_bit e k.
Proof.
  induction 1 as [|b r Hb Hr IH]; intro k.
  - now rewrite msg_bit_nil, N.bits_0.
  - cbn [le_num]. rewrite N.lxor_spec.
    destruct (Nat.lt_ge_cases k 8) as [Hk|Hk].
    + rewrite msg_bit_cons_low by assumption.
      rewrite N.shiftl_spec_low by lia. apply xorb_false_r.
    + replace k with (8 + (k - 8))%nat at 3 by lia.
      rewrite msg_bit_cons_high, <- IH.
      rewrite byte_high_bits by (assumption || lia).
      rewrite N.shiftl_spec_high' by lia. rewrite xorb_false_l. f_equal. lia.
Qed.

Lemma msg_bit_true_lt e k : msg_bit e k = true -> (k < 8 * length e)%nat.
Proof.
  unfold msg_bit. intro H.
  destruct (Nat.lt_ge_cases (k / 8) (length e)) as [Hl|Hl].
  - pose proof (Nat.div_mod k 8). pose proof (Nat.mod_upper_bound k 8). lia.
  - rewrite nth_overflow, N.bits_0 in H by assumption. discriminate.
Qed.

Lemma le_num_zero e : is_bytes e -> le_num e = 0 -> forall b, In b e -> b = 0.
Proof.
  induction 1 as [|b r Hb Hr IH]; cbn [le_num]; intros H0 x Hin; [destruct Hin|].
  apply N.lxor_eq in H0. rewrite N.shiftl_mul_pow2 in H0.
  change (2 ^ 8) with 256 in H0.
  assert (le_num r = 0) by lia.
  destruct Hin as [<-|Hin]; [lia|auto].
Qed.

Lemma le_num_nonzero e : is_bytes e -> nonzero e -> le_num e <> 0.
Proof.
  intros Hb (b & Hin & Hnz) H0. apply Hnz. eapply le_num_zero; eauto.
Qed.

(** * Bursts *)

(** a non-zero pattern whose set bits lie in [p, p + 32), fed to the zero
    register, leaves a non-zero register *)
Lemma burst_register_nonzero e :
  is_bytes e -> nonzero e -> burst_within 32 e -> update 0 e <> 0.
Proof.
  intros Hb Hnz (p & Hp).
  pose proof (le_num_nonzero e Hb Hnz) as HE.
  set (E := le_num e) in *.
  assert (Hbit : forall k, N.testbit E k = msg_bit e (N.to_nat k)).
  { intro k. unfold E. rewrite <- le_num_bit by assumption. f_equal. lia. }
  (* the lowest position is inside the message *)
  assert (Hpn : (p <= 8 * length e)%nat).
  { destruct (Nat.le_gt_cases p (8 * length e)) as [|Hgt]; [assumption|exfalso].
    apply HE. apply N.bits_inj. intro k. rewrite N.bits_0, Hbit.
    destruct (msg_bit e (N.to_nat k)) eqn:Hk; [|reflexivity].
    pose proof (Hp _ Hk). pose proof (msg_bit_true_lt _ _ Hk). lia. }
  set (c := N.shiftr E (N.of_nat p)).
  assert (HEc : E = N.shiftl c (N.of_nat p)).
  { apply N.bits_inj. intro k. unfold c.
    destruct (N.lt_ge_cases k (N.of_nat p)) as [Hk|Hk].
    - rewrite N.shiftl_spec_low by assumption. rewrite Hbit.
      destruct (msg_bit e (N.to_nat k)) eqn:Hm; [|reflexivity].
      pose proof (Hp _ Hm). lia.
    - rewrite N.shiftl_spec_high', N.shiftr_spec' by assumption. f_equal. lia. }
  assert (Hcb : bounded c).
  { unfold bounded, c. apply N.bits_inj. intro k.
    rewrite N.bits_0, !N.shiftr_spec', Hbit.
    destruct (msg_bit e (N.to_nat (k + 32 + N.of_nat p))) eqn:Hm; [|reflexivity].
    pose proof (Hp _ Hm). lia. }
  assert (Hcnz : c <> 0).
  { intro H0. apply HE. rewrite HEc, H0. apply N.shiftl_0_l. }
  rewrite update_le, N.lxor_0_l. fold E.
  replace (8 * length e)%nat with ((8 * length e - p) + p)%nat by lia.
  rewrite iter_plus, HEc, iter_step0_shiftl.
  now apply iter_step0_nonzero.
Qed.

(** CRC-32 detects every burst of at most 32 bits *)
Theorem crc_detects_bursts m e :
  length e = length m -> is_bytes e -> nonzero e -> burst_within 32 e ->
  crc32 (xor_bytes m e) <> crc32 m.
Proof.
  intros Hl Hb Hnz Hbu Heq.
  apply (burst_register_nonzero e Hb Hnz Hbu).
  rewrite <- (crc32_diff m e) by auto. rewrite Heq. apply N.lxor_nilpotent.
Qed.

Theorem crc_update_detects_bursts c m e :
  length e = length m -> is_bytes e -> nonzero e -> burst_within 32 e ->
  crc32_update c (xor_bytes m e) <> crc32_update c m.
Proof.
  intros Hl Hb Hnz Hbu Heq.
  apply (burst_register_nonzero e Hb Hnz Hbu).
  rewrite <- (crc32_update_diff c m e) by auto. rewrite Heq. apply N.lxor_nilpotent.
Qed.

(** * A change confined to a window of at most four bytes *)

Lemma xor_bytes_app a b c d : length a = length c ->
  xor_bytes (a ++ b) (c ++ d) = xor_bytes a c ++ xor_bytes b d.
Proof.
  revert c; induction a as [|x a IH]; intros [|y c] H; cbn in *; try discriminate; auto.
  f_equal. apply IH. lia.
Qed.

Lemma xor_bytes_zeros a : xor_bytes a (repeat 0 (length a)) = a.
Proof. induction a as [|x a IH]; cbn; [reflexivity|]. now rewrite N.lxor_0_r, IH. Qed.

Lemma xor_bytes_cancel w w' : length w = length w' ->
  xor_bytes w (xor_bytes w w') = w'.
Proof.
  revert w'; induction w as [|x w IH]; intros [|y w'] H; cbn in *; try discriminate; auto.
  f_equal; [xor_solve|apply IH; lia].
Qed.

Lemma is_bytes_repeat0 n : is_bytes (repeat 0 n).
Proof. induction n; constructor; [reflexivity|assumption]. Qed.

Lemma lt_pow2_shiftr a n : a < 2 ^ n <-> N.shiftr a n = 0.
Proof.
  rewrite N.shiftr_div_pow2. symmetry. apply N.div_small_iff.
  apply N.pow_nonzero. discriminate.
Qed.

Lemma lxor_byte a b : a < 256 -> b < 256 -> N.lxor a b < 256.
Proof.
  change 256 with (2 ^ 8). rewrite !lt_pow2_shiftr. intros Ha Hb.
  now rewrite N.shiftr_lxor, Ha, Hb.
Qed.

Lemma is_bytes_xor w : forall w', is_bytes w -> is_bytes w' -> is_bytes (xor_bytes w w').
Proof.
  induction w as [|x w IH]; intros [|y w'] H H'; cbn; try constructor;
    inversion H; inversion H'; subst; auto using lxor_byte.
  apply IH; assumption.
Qed.

Lemma is_bytes_app a b : is_bytes a -> is_bytes b -> is_bytes (a ++ b).
Proof. intros. apply Forall_app. now split. Qed.

Lemma xor_bytes_nonzero w : forall w', length w = length w' -> w <> w' ->
  nonzero (xor_bytes w w').
Proof.
  induction w as [|x w IH]; intros [|y w'] Hl Hne; cbn in *; try discriminate.
  - now elim Hne.
  - destruct (N.eq_dec x y) as [->|Hxy].
    + destruct (IH w') as (b & Hin & Hb); [lia|congruence|].
      exists b. split; [now right|assumption].
    + exists (N.lxor x y). split; [now left|].
      intro H0. apply N.lxor_eq in H0. contradiction.
Qed.

Lemma nth_window a l b i :
  nth i (repeat 0 a ++ l ++ repeat 0 b) 0 <> 0 -> (a <= i < a + length l)%nat.
Proof.
  intro H.
  destruct (Nat.lt_ge_cases i a) as [Hia|Hia].
  - rewrite app_nth1 in H by (rewrite repeat_length; assumption).
    rewrite nth_repeat in H. now elim H.
  - rewrite app_nth2 in H by (rewrite repeat_length; assumption).
    rewrite repeat_length in H.
    destruct (Nat.lt_ge_cases (i - a) (length l)) as [Hil|Hil]; [lia|].
    rewrite app_nth2 in H by assumption. rewrite nth_repeat in H. now elim H.
Qed.

Lemma window_burst a l b : (length l <= 4)%nat ->
  burst_within 32 (repeat 0 a ++ l ++ repeat 0 b).
Proof.
  intro Hl. exists (8 * a)%nat. intros k Hk. unfold msg_bit in Hk.
  assert (Hn : nth (k / 8) (repeat 0 a ++ l ++ repeat 0 b) 0 <> 0).
  { intro H0. rewrite H0, N.bits_0 in Hk. discriminate. }
  apply nth_window in Hn.
  pose proof (Nat.div_mod k 8). pose proof (Nat.mod_upper_bound k 8). lia.
Qed.

Theorem crc_detects_window pre w w' post :
  length w = length w' -> (length w <= 4)%nat -> is_bytes w -> is_bytes w' -> w <> w' ->
  crc32 (pre ++ w' ++ post) <> crc32 (pre ++ w ++ post).
Proof.
  intros Hl H4 Hw Hw' Hne.
  set (e := repeat 0 (length pre) ++ xor_bytes w w' ++ repeat 0 (length post)).
  assert (Hx : pre ++ w' ++ post = xor_bytes (pre ++ w ++ post) e).
  { unfold e. rewrite xor_bytes_app by (now rewrite repeat_length).
    rewrite xor_bytes_app by (now rewrite xor_bytes_length).
    now rewrite !xor_bytes_zeros, xor_bytes_cancel. }
  rewrite Hx. apply crc_detects_bursts.
  - unfold e. rewrite !app_length, !repeat_length, xor_bytes_length by assumption. reflexivity.
  - unfold e. repeat apply is_bytes_app; auto using is_bytes_repeat0, is_bytes_xor.
  - destruct (xor_bytes_nonzero w w' Hl Hne) as (b & Hin & Hb).
    exists b. split; [|assumption]. unfold e. apply in_or_app. right. apply in_or_app. now left.
  - unfold e. apply window_burst. now rewrite xor_bytes_length.
Qed.

(** flipping one bit of one byte changes the checksum *)
Theorem crc_detects_single_bit pre x post j :
  x < 256 -> j < 8 ->
  crc32 (pre ++ N.lxor x (N.shiftl 1 j) :: post) <> crc32 (pre ++ x :: post).
Proof.
  intros Hx Hj.
  assert (Hbit : N.shiftl 1 j < 256).
  { rewrite N.shiftl_1_l. change 256 with (2 ^ 8). apply N.pow_lt_mono_r; lia. }
  apply (crc_detects_window pre [x] [N.lxor x (N.shiftl 1 j)] post); cbn; try lia.
  - repeat constructor. assumption.
  - repeat constructor. now apply lxor_byte.
  - intro H. injection H as H.
    assert (H0 : N.shiftl 1 j = 0).
    { apply (f_equal (N.lxor x)) in H.
      rewrite N.lxor_nilpotent, <- N.lxor_assoc, N.lxor_nilpotent, N.lxor_0_l in H.
      now symmetry. }
    rewrite N.shiftl_1_l in H0. now apply N.pow_nonzero in H0.
Qed.

(** * 32-bit result, table-driven form, chaining *)

Lemma bounded_byte b : b < 256 -> bounded b.
Proof. intro H. apply bounded_lt. lia. Qed.

Lemma update_byte_bound s b : bounded s -> b < 256 -> bounded (update_byte s b).
Proof.
  intros Hs Hb. unfold update_byte. apply iter_step0_bound.
  apply bounded_lxor; auto using bounded_byte.
Qed.

Lemma update_bound bs : is_bytes bs -> forall s, bounded s -> bounded (update s bs).
Proof.
  induction 1 as [|b r Hb Hr IH]; intros s Hs; [assumption|].
  rewrite update_cons. apply IH. now apply update_byte_bound.
Qed.

Theorem crc32_bound bs : is_bytes bs -> crc32 bs < 2 ^ 32.
Proof.
  intro H. apply bounded_lt. unfold crc32, crc32_update.
  apply bounded_lxor; [|reflexivity]. apply update_bound; [assumption|reflexivity].
Qed.

(** Go's table-driven loop body equals the bitwise one *)
Lemma update_byte_table_eq s b : update_byte_table s b = update_byte s b.
Proof.
  unfold update_byte_table, update_byte, tab.
  rewrite <- (iter_step0_shift 8). f_equal.
  change (N.of_nat 8) with 8. change 255 with (N.ones 8).
  apply N.bits_inj. intro k. rewrite !N.lxor_spec, N.land_spec.
  destruct (N.lt_ge_cases k 8) as [Hk|Hk].
  - rewrite N.shiftl_spec_low, N.ones_spec_low by assumption.
    now rewrite andb_true_r, xorb_false_r.
  - rewrite N.shiftl_spec_high', N.shiftr_spec', N.ones_spec_high by assumption.
    rewrite andb_false_r. replace (k - 8 + 8) with k by lia.
    destruct (N.testbit s k), (N.testbit b k); reflexivity.
Qed.

Theorem crc32_table_eq bs : crc32_table bs = crc32 bs.
Proof.
  unfold crc32_table, crc32, crc32_update, update. f_equal.
  change (N.lxor 0 mask32) with mask32. generalize mask32.
  induction bs as [|b r IH]; intro s; cbn; [reflexivity|].
  now rewrite update_byte_table_eq, IH.
Qed.

(** chained Update over sections = checksum of the concatenation *)
Lemma crc32_update_app c a b :
  crc32_update (crc32_update c a) b = crc32_update c (a ++ b).
Proof.
  unfold crc32_update. rewrite update_app. f_equal. f_equal.
  rewrite N.lxor_assoc, N.lxor_nilpotent. apply N.lxor_0_r.
Qed.

Theorem page_crc_concat r d p : page_crc r d p = crc32 (r ++ d ++ p).
Proof. unfold page_crc, crc32. now rewrite !crc32_update_app. Qed.

(** the signed thrift field round-trips *)
Theorem int32_roundtrip c : c < 2 ^ 32 -> int32_to_crc (crc_to_int32 c) = c.
Proof.
  intro H. unfold int32_to_crc, crc_to_int32.
  change (2 ^ 32) with 4294967296 in H.
  change (2 ^ 32)%Z with 4294967296%Z. change (2 ^ 31)%Z with 2147483648%Z.
  destruct (Z.ltb_spec (Z.of_N c) 2147483648).
  - rewrite Z.mod_small by lia. lia.
  - replace (Z.of_N c - 4294967296)%Z with (Z.of_N c + (-1) * 4294967296)%Z by lia.
    rewrite Z.mod_add by lia. rewrite Z.mod_small by lia. lia.
Qed.

(** * readPage *)

Theorem read_page_rejects body e :
  length e = length body -> is_bytes e -> nonzero e -> burst_within 32 e ->
  crc32 body <> 0 ->
  read_page_accepts (crc32 body) (xor_bytes body e) = false.
Proof.
  intros Hl Hb Hnz Hbu H0. unfold read_page_accepts.
  destruct (N.eqb_spec (crc32 body) 0) as [|_]; [contradiction|].
  apply N.eqb_neq. intro H. symmetry in H. revert H. now apply crc_detects_bursts.
Qed.

Theorem read_page_accepts_clean body : read_page_accepts (crc32 body) body = true.
Proof. unfold read_page_accepts. destruct (N.eqb_spec (crc32 body) 0); [reflexivity|apply N.eqb_refl]. Qed.

Theorem read_page_zero_crc_accepts_anything body : read_page_accepts 0 body = true.
Proof. reflexivity. Qed.

(** ** the comparison, characterised; alterations of the stored checksum field *)

Theorem read_page_accepts_iff stored body :
  read_page_accepts stored body = true <-> stored = 0 \/ stored = crc32 body.
Proof.
  unfold read_page_accepts.
  destruct (N.eqb_spec stored 0) as [H0|H0].
  - split; [intros _; left; exact H0 | reflexivity].
  - rewrite N.eqb_eq. split; [intros H; right; exact H | intros [H|H]; [contradiction | exact H]].
Qed.

Theorem read_page_rejects_wrong_stored stored body :
  stored <> 0 -> stored <> crc32 body -> read_page_accepts stored body = false.
Proof.
  intros H0 H1. destruct (read_page_accepts stored body) eqn:E; [|reflexivity].
  apply read_page_accepts_iff in E. destruct E as [E|E]; contradiction.
Qed.

(* a bit pattern flipped in the stored checksum field *)
Theorem read_page_rejects_flipped_checksum body e :
  e <> 0 -> N.lxor (crc32 body) e <> 0 ->
  read_page_accepts (N.lxor (crc32 body) e) body = false.
Proof.
  intros He Hz. apply read_page_rejects_wrong_stored; [exact Hz|].
  intros H. apply He.
  assert (N.lxor (crc32 body) (N.lxor (crc32 body) e) = N.lxor (crc32 body) (crc32 body)) as H2
    by (rewrite H; reflexivity).
  rewrite <- N.lxor_assoc, N.lxor_nilpotent, N.lxor_0_l in H2. exact H2.
Qed.

(* both the body and the stored checksum are altered: accepted only when the
   stored value happens to be 0 or the checksum of the altered body *)
Theorem read_page_accepts_only_matching stored body body' :
  stored <> 0 -> read_page_accepts stored body = true -> read_page_accepts stored body' = true ->
  crc32 body = crc32 body'.
Proof.
  intros H0 H1 H2. apply read_page_accepts_iff in H1, H2.
  destruct H1 as [H1|H1]; [contradiction|]. destruct H2 as [H2|H2]; [contradiction|]. congruence.
Qed.

(** * Loaders *)

Theorem loader_check_verified : forall l, loader_check l <> Unverified.
Proof. intros []; discriminate. Qed.

Theorem all_traces_verified enc dict evs : trace_verified loader_check enc dict evs = true.
Proof.
  unfold trace_verified. apply forallb_forall. intros [k l] _. cbn.
  destruct l; reflexivity.
Qed.

(* a dictionary is only ever marked loaded by a load of the dictionary page:
   the skip of the dictionary page in the stream never replaces a load *)
Lemma serve_dict_loaded st ev :
  dict_loaded st = false -> dict_loaded (snd (serve st ev)) = true ->
  exists l, In (DictPage, l) (fst (serve st ev)).
Proof.
  intros H0 H1. destruct st as [enc hd dl]. cbn in H0. subst dl.
  destruct ev as [| |k de]; cbn in *.
  - destruct hd; cbn in *; [eexists; left; reflexivity|discriminate].
  - discriminate.
  - destruct k, de, hd; cbn in *; try discriminate;
      try (eexists; left; reflexivity); try (eexists; right; left; reflexivity).
Qed.

Fixpoint final (st : state) (evs : list event) : state :=
  match evs with
  | [] => st
  | ev :: r => final (snd (serve st ev)) r
  end.

Theorem dictionary_always_loaded_from_page evs : forall st,
  dict_loaded st = false -> dict_loaded (final st evs) = true ->
  exists l, In (DictPage, l) (run st evs).
Proof.
  induction evs as [|ev r IH]; intros st H0 H1; cbn in *; [congruence|].
  destruct (serve st ev) as [loads st'] eqn:Hs. cbn in H1.
  destruct (dict_loaded st') eqn:Hd.
  - destruct (serve_dict_loaded st ev H0) as (l & Hl); [now rewrite Hs|].
    rewrite Hs in Hl. exists l. apply in_or_app. now left.
  - destruct (IH st' Hd H1) as (l & Hl). exists l. apply in_or_app. now right.
Qed.

(** * The reader of a column across row groups (Column.Pages) *)

Theorem column_path_never_unverified enc dict p noindex k target :
  column_path_check loader_check enc dict p noindex k target <> Some Unverified.
Proof.
  unfold column_path_check.
  destruct (column_chunk_events p noindex k dict) as [evs|]; [|discriminate].
  destruct (filter _ _) as [|[k' l] r]; [discriminate|].
  cbn. intro H. injection H as H. now apply (loader_check_verified l).
Qed.

(* the page that is read is checked: a data page of the row group the reader
   reads, and the dictionary page whenever the data page is dictionary-encoded *)
Theorem column_path_reads_the_page enc dict p noindex k :
  k <> DictPage -> p <> ColSeek RgBefore ->
  column_path_check loader_check enc dict p noindex k k <> None /\
  (dict = true -> column_path_check loader_check enc dict p noindex k DictPage <> None).
Proof.
  intros Hk Hp.
  destruct p as [|[]]; try congruence;
    destruct k; try congruence; destruct enc, dict, noindex; vm_compute; split; congruence.
Qed.

(** * The full 32-bit comparison is necessary: any tolerated difference is reachable by a four-byte change *)

Lemma bounded_testbit s k : bounded s -> 32 <= k -> N.testbit s k = false.
Proof.
  intros H Hk. unfold bounded in H.
  replace k with ((k - 32) + 32) by lia. rewrite <- N.shiftr_spec', H. apply N.bits_0.
Qed.

Lemma bounded_of_bits s : (forall k, 32 <= k -> N.testbit s k = false) -> bounded s.
Proof.
  intros H. unfold bounded. apply N.bits_inj. intro k.
  rewrite N.bits_0, N.shiftr_spec'. apply H. lia.
Qed.

Lemma poly_bounded : bounded poly.
Proof. reflexivity. Qed.

Lemma inv_step0_bounded s : bounded s -> bounded (inv_step0 s).
Proof.
  intros Hs. unfold inv_step0. apply bounded_of_bits. intros k Hk.
  destruct (N.testbit s 31) eqn:H31.
  - rewrite N.lor_spec.
    assert (N.testbit 1 k = false) as -> by (apply (bounded_testbit 1); [reflexivity|exact Hk]).
    rewrite orb_false_r, N.shiftl_spec_high' by lia. rewrite N.lxor_spec.
    destruct (N.eq_dec k 32) as [->|Hne].
    + change (32 - 1) with 31. rewrite H31. reflexivity.
    + rewrite (bounded_testbit s), (bounded_testbit poly) by (try exact Hs; try exact poly_bounded; lia).
      reflexivity.
  - rewrite N.shiftl_spec_high' by lia.
    destruct (N.eq_dec k 32) as [->|Hne].
    + exact H31.
    + apply bounded_testbit; [exact Hs|lia].
Qed.

Lemma step0_inv_step0 s : step0 (inv_step0 s) = s.
Proof.
  unfold inv_step0. destruct (N.testbit s 31) eqn:H31.
  - unfold step0.
    assert (N.odd (N.lor (N.shiftl (N.lxor s poly) 1) 1) = true) as ->.
    { rewrite <- N.bit0_odd, N.lor_spec, N.shiftl_spec_low by lia. reflexivity. }
    assert (N.shiftr (N.lor (N.shiftl (N.lxor s poly) 1) 1) 1 = N.lxor s poly) as ->.
    { rewrite N.shiftr_lor, N.shiftr_shiftl_l by lia. change (N.shiftr 1 1) with 0.
      rewrite N.lor_0_r. apply N.shiftl_0_r. }
    rewrite N.lxor_assoc, N.lxor_nilpotent. apply N.lxor_0_r.
  - apply step0_shiftl1.
Qed.

Lemma iter_step0_inv n s : Nat.iter n step0 (Nat.iter n inv_step0 s) = s.
Proof.
  induction n as [|n IH]; [reflexivity|].
  rewrite iter_S_r. rewrite iter_S. rewrite step0_inv_step0. exact IH.
Qed.

Lemma iter_inv_bounded n s : bounded s -> bounded (Nat.iter n inv_step0 s).
Proof. intros H. induction n as [|n IH]; [exact H|]. rewrite iter_S. now apply inv_step0_bounded. Qed.


Lemma land255_lt x : N.land x 255 < 256.
Proof.
  apply (proj2 (lt_pow2_shiftr _ 8)). apply N.bits_inj. intro k.
  rewrite N.bits_0, N.shiftr_spec', N.land_spec.
  assert (N.testbit 255 (k + 8) = false) as ->; [|apply andb_false_r].
  apply N.bits_above_log2. change (N.log2 255) with 7. lia.
Qed.

Lemma is_bytes_le32 x : is_bytes (le32_bytes x).
Proof. unfold le32_bytes, is_bytes. repeat constructor; apply land255_lt. Qed.

Lemma testbit_255 j : N.testbit 255 j = (j <? 8).
Proof.
  destruct (N.ltb_spec j 8) as [H|H].
  - assert (j = 0 \/ j = 1 \/ j = 2 \/ j = 3 \/ j = 4 \/ j = 5 \/ j = 6 \/ j = 7) as Hj by lia.
    destruct Hj as [->|[->|[->|[->|[->|[->|[->| ->]]]]]]]; reflexivity.
  - apply N.bits_above_log2. change (N.log2 255) with 7. lia.
Qed.

Lemma le_num_le32 x : bounded x -> le_num (le32_bytes x) = x.
Proof.
  intros Hx. unfold le32_bytes. cbn [le_num]. apply N.bits_inj. intro k.
  rewrite !N.lxor_spec, !N.land_spec, !testbit_255.
  destruct (N.ltb_spec k 8) as [H8|H8].
  { rewrite !N.shiftl_spec_low by lia. rewrite andb_true_r. now rewrite !xorb_false_r. }
  rewrite andb_false_r, xorb_false_l, N.shiftl_spec_high' by lia.
  rewrite !N.lxor_spec, !N.land_spec, !testbit_255, N.shiftr_spec'.
  destruct (N.ltb_spec (k - 8) 8) as [H16|H16].
  { rewrite !N.shiftl_spec_low by lia. rewrite andb_true_r, !xorb_false_r. f_equal. lia. }
  rewrite andb_false_r, xorb_false_l, N.shiftl_spec_high' by lia.
  rewrite !N.lxor_spec, !N.land_spec, !testbit_255, N.shiftr_spec'.
  destruct (N.ltb_spec (k - 8 - 8) 8) as [H24|H24].
  { rewrite !N.shiftl_spec_low by lia. rewrite andb_true_r, !xorb_false_r. f_equal. lia. }
  rewrite andb_false_r, xorb_false_l, N.shiftl_spec_high' by lia.
  rewrite !N.lxor_spec, !N.land_spec, !testbit_255, N.shiftr_spec'.
  rewrite N.shiftl_0_l, N.bits_0, xorb_false_r.
  destruct (N.ltb_spec (k - 8 - 8 - 8) 8) as [H32|H32].
  { rewrite andb_true_r. f_equal. lia. }
  rewrite andb_false_r. symmetry. apply bounded_testbit; [exact Hx|lia].
Qed.

Lemma update_zeros n : update 0 (repeat 0 n) = 0.
Proof.
  rewrite update_le, N.lxor_0_l.
  assert (le_num (repeat 0 n) = 0) as ->.
  { induction n as [|n IH]; [reflexivity|]. cbn [repeat le_num]. rewrite IH. reflexivity. }
  apply iter_step0_0.
Qed.

(** the change of the last four bytes whose checksum difference is exactly [d] *)

Theorem crc_suffix_fault pre w d :
  length w = 4%nat -> bounded d ->
  crc32 (pre ++ xor_bytes w (suffix_fault d)) = N.lxor (crc32 (pre ++ w)) d.
Proof.
  intros Hw Hd.
  set (e := suffix_fault d).
  assert (He : length e = 4%nat) by reflexivity.
  assert (Hx : pre ++ xor_bytes w e = xor_bytes (pre ++ w) (repeat 0 (length pre) ++ e)).
  { rewrite xor_bytes_app by (now rewrite repeat_length). now rewrite xor_bytes_zeros. }
  rewrite Hx.
  pose proof (crc32_diff (pre ++ w) (repeat 0 (length pre) ++ e)) as Hdiff.
  rewrite !app_length, repeat_length, Hw, He in Hdiff. specialize (Hdiff eq_refl).
  rewrite update_app, update_zeros, update_le, N.lxor_0_l, He in Hdiff.
  unfold e in Hdiff at 2. unfold suffix_fault in Hdiff.
  rewrite le_num_le32 in Hdiff by (apply iter_inv_bounded; exact Hd).
  change (8 * 4)%nat with 32%nat in Hdiff. rewrite iter_step0_inv in Hdiff.
  rewrite <- Hdiff. rewrite N.lxor_comm, N.lxor_assoc, N.lxor_nilpotent. symmetry. apply N.lxor_0_r.
Qed.

(** Consequence: a reader that tolerates ANY non-zero difference [d] between
    the stored checksum and the checksum of the body lets an altered body
    through: the altered body differs in its last four bytes only (a burst of
    at most 32 bits), and its checksum is the stored one xor [d]. *)
Theorem weaker_comparison_lets_a_burst_through pre w d :
  length w = 4%nat -> is_bytes w -> bounded d -> d <> 0 ->
  let body := pre ++ w in
  let body' := pre ++ xor_bytes w (suffix_fault d) in
  body' <> body /\ length body' = length body /\
  N.lxor (crc32 body') (crc32 body) = d.
Proof.
  intros Hw Hb Hd Hnz body body'. unfold body, body'.
  pose proof (crc_suffix_fault pre w d Hw Hd) as H.
  split; [|split].
  - intro Heq. rewrite Heq in H. apply Hnz.
    assert (N.lxor (crc32 (pre ++ w)) (crc32 (pre ++ w)) = N.lxor (crc32 (pre ++ w)) (N.lxor (crc32 (pre ++ w)) d)) as H2
      by (rewrite <- H; reflexivity).
    rewrite <- N.lxor_assoc, N.lxor_nilpotent, N.lxor_0_l in H2. symmetry. exact H2.
  - rewrite !app_length. f_equal. apply xor_bytes_length. rewrite Hw. reflexivity.
  - rewrite H. rewrite N.lxor_comm, <- N.lxor_assoc, N.lxor_nilpotent. apply N.lxor_0_l.
Qed.
