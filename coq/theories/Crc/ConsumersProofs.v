(** Proofs about the consumers of Crc/Consumers.v. *)
From Coq Require Import List NArith Bool Arith Lia.
From PQ Require Import Crc.Model Crc.Proofs Crc.Consumers.
Import ListNotations.

Lemma consume_from_clean_prefix : forall k rest n alt,
  consume_from (repeat (AItem Clean) k ++ rest) n alt = consume_from rest (k + n) alt.
Proof.
  induction k as [|k IH]; intros rest n alt; [reflexivity|].
  cbn [repeat app consume_from]. rewrite orb_false_r. rewrite IH. f_equal. lia.
Qed.

(* a checked alteration ends the loop with the error, after exactly the
   intact items in front of it, none of them altered *)
Theorem consume_reports_checked : forall before after c,
  checkb c = true -> consume (source before after c) = Reported before false.
Proof.
  intros before after c Hc. unfold consume, source. rewrite consume_from_clean_prefix, Hc.
  cbn. now rewrite Nat.add_0_r.
Qed.

(* an unchecked one is handed on as data and the loop reports success *)
Theorem consume_unchecked_delivers_altered : forall before after c,
  checkb c = false -> consume (source before after c) = Done (before + 1 + after) true.
Proof.
  intros before after c Hc. unfold consume, source. rewrite consume_from_clean_prefix, Hc.
  cbn [app consume_from]. rewrite consume_from_clean_prefix. cbn. f_equal. lia.
Qed.

Lemma path_check_verified : forall enc dict p k target c,
  path_check loader_check enc dict p k target = Some c -> checkb c = true.
Proof.
  intros enc dict p k target c H. unfold path_check in H.
  destruct (filter _ _) as [|kl r]; [discriminate|]. injection H as <-.
  destruct (loader_check (snd kl)) eqn:E; try reflexivity.
  exfalso. now apply (loader_check_verified (snd kl)).
Qed.

(* with the loader table of the tree, every kind of consumer reports through a checking loader *)
Theorem consumer_check_verified : forall enc dict kind k target,
  match consumer_check loader_check enc dict kind k target with
  | ByCall c | ByOutput c => checkb c = true
  | Untouched => True
  end.
Proof.
  intros enc dict kind k target. unfold consumer_check. destruct kind.
  - destruct (path_check loader_check enc dict PathSequential k target) eqn:E; [|exact I].
    now apply path_check_verified in E.
  - destruct (path_check loader_check false dict PathSequential k target) eqn:E; [|exact I].
    now apply path_check_verified in E.
  - exact I.
Qed.

(* a consumer that reads the column meets the page itself, and the dictionary page when there is one *)
Theorem consumer_meets_the_page : forall enc dict kind k,
  k <> DictPage -> kind <> ProjectedAway ->
  consumer_check loader_check enc dict kind k k <> Untouched /\
  (dict = true -> consumer_check loader_check enc dict kind k DictPage <> Untouched).
Proof.
  intros enc dict kind k Hk Hkind.
  destruct kind; [| |contradiction]; destruct enc, dict, k; try contradiction; vm_compute; split; intros; discriminate.
Qed.

(* the spliced page is rejected by the reader of the output exactly as the source page is *)
Theorem splice_keeps_rejection : forall body e : list N,
  length e = length body -> is_bytes e -> nonzero e -> burst_within 32 e ->
  crc32 body <> 0 ->
  let p := splice {| sp_crc := crc32 body; sp_body := xor_bytes body e |} in
  read_page_accepts (sp_crc p) (sp_body p) = false.
Proof. intros body e H1 H2 H3 H4 H5. cbn. now apply read_page_rejects. Qed.

(* only the verbatim path leaves the report to the reader of the output *)
Theorem wrg_decodes_unless_verbatim : forall same enc transparent fits,
  wrg_kind (write_row_group_path same enc transparent fits) = Verbatim <->
  (same = true /\ enc = false /\ transparent = true /\ fits = true).
Proof.
  intros same enc transparent fits. destruct same, enc, transparent, fits; cbn; split; intro H;
    try discriminate; try reflexivity; try (repeat split; reflexivity);
    destruct H as (A & B & C & D); discriminate.
Qed.

(** Merges *)

Lemma first_stop_source : forall before after c,
  checkb c = true -> first_stop (source before after c) = AFail.
Proof.
  intros before after c Hc. unfold source. rewrite Hc.
  induction before as [|b IH]; [reflexivity|exact IH].
Qed.

Lemma at_end_first_stop : forall l, at_end l = true -> first_stop l = AEnd.
Proof. intros [|[d| |] r] H; try reflexivity; discriminate. Qed.

Lemma first_stop_pop : forall ins i j d r,
  ins i = AItem d :: r -> first_stop (pop ins i j) = first_stop (ins j).
Proof.
  intros ins i j d r H. unfold pop. destruct (Nat.eqb j i) eqn:E; [|reflexivity].
  apply Nat.eqb_eq in E. subst j. now rewrite H.
Qed.

(* a merge that ended without error although none of its first k inputs has
   anything more to give met no failing input among them: whatever the order
   in which the inputs were refilled *)
Theorem merge_done_all_ended : forall sched ins n alt m alt' rest k,
  merge_run false sched ins n alt = (Done m alt', rest) ->
  (forall j, (j < k)%nat -> at_end (rest j) = true) ->
  forall j, (j < k)%nat -> first_stop (ins j) = AEnd.
Proof.
  induction sched as [|i sched IH]; intros ins n alt m alt' rest k Hrun Hend j Hj.
  - cbn in Hrun. injection Hrun as _ _ <-. now apply at_end_first_stop, Hend.
  - cbn [merge_run] in Hrun. destruct (ins i) as [|[d| |] r] eqn:E.
    + now apply (IH _ _ _ _ _ _ _ Hrun Hend).
    + rewrite <- (first_stop_pop ins i j d r E). now apply (IH _ _ _ _ _ _ _ Hrun Hend).
    + now apply (IH _ _ _ _ _ _ _ Hrun Hend).
    + discriminate.
Qed.

(* hence: one input whose altered page is fetched by a checking loader, and a
   merge that went on until no input had anything more to give, ends with
   the error *)
Theorem merge_reports_checked : forall sched ins n alt o rest k j before after c,
  merge_run false sched ins n alt = (o, rest) ->
  (forall j, (j < k)%nat -> at_end (rest j) = true) ->
  (j < k)%nat -> ins j = source before after c -> checkb c = true ->
  exists m a, o = Reported m a.
Proof.
  intros sched ins n alt o rest k j before after c Hrun Hend Hj Hsrc Hc.
  destruct o as [m a|m a]; [|now exists m, a].
  pose proof (merge_done_all_ended _ _ _ _ _ _ _ _ Hrun Hend j Hj) as H.
  rewrite Hsrc, first_stop_source in H by exact Hc. discriminate.
Qed.

(** Windows *)

(* wherever the windows end relative to the altered page, the read ends with
   the error after exactly the intact rows in front of the page *)
Theorem windows_report_checked : forall sizes before after c i rem n,
  checkb c = true ->
  read_windows true sizes (source before after c) i rem n false = Reported (before + n)%nat false.
Proof.
  intros sizes before after c i rem n Hc. unfold source. rewrite Hc.
  revert i rem n. induction before as [|b IH]; intros i rem n.
  - cbn. now destruct rem.
  - cbn [repeat app read_windows]. cbn [orb]. destruct rem as [|k]; rewrite IH; f_equal; lia.
Qed.
