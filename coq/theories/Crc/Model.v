(** Model of the page checksum of parquet-go: CRC-32/IEEE exactly as
    hash/crc32 computes it (reflected polynomial 0xEDB88320, register
    initialised to 0xFFFFFFFF, final complement), and of the page loaders of
    file.go: which loader serves which access path and whether that loader
    verifies the checksum stored in the page header.

    Executable, no proofs (proofs are in Crc/Proofs.v).

    Go sources mirrored:
      hash/crc32 (stdlib): simpleMakeTable, simpleUpdate, Update, ChecksumIEEE
      /repo/writer.go  writerBuffers.crc32  (Update over repetitions, definitions, page)
      /repo/file.go    FilePages.ReadPage / readPage / readDictionary /
                       readEncryptedPage / ReadDictionary / readDataPageV1 / readDataPageV2

    Bytes are [N] below 256, the register is an [N] below 2^32.  The step
    functions are written with shifts and xors only, which keeps them inside
    32 bits for 32-bit inputs (Proofs.v: [step0_bound], [crc32_bound]); no
    [mod] is needed. *)
From Coq Require Import List NArith ZArith Bool Arith.
Import ListNotations.
Open Scope N_scope.

(** * CRC-32/IEEE *)

(* crc32.IEEE = 0xedb88320 : the polynomial with its bits reversed *)
Definition poly : N := 0xEDB88320.
Definition mask32 : N := 0xFFFFFFFF.

(* simpleMakeTable, inner loop body:
     if crc&1 == 1 { crc = (crc >> 1) ^ poly } else { crc >>= 1 }           *)
Definition step0 (s : N) : N :=
  if N.odd s then N.lxor (N.shiftr s 1) poly else N.shiftr s 1.

(* bitwise form of one byte: xor the byte into the low end of the register,
   then eight shift steps *)
Definition update_byte (s b : N) : N := Nat.iter 8 step0 (N.lxor s b).

(* the register after a byte string, without pre/post-conditioning *)
Definition update (s : N) (bs : list N) : N := fold_left update_byte bs s.

(* crc32.Update(crc, IEEETable, p) = ^simpleUpdate(^crc, tab, p) *)
Definition crc32_update (crc : N) (bs : list N) : N :=
  N.lxor (update (N.lxor crc mask32) bs) mask32.

(* crc32.ChecksumIEEE(p) = Update(0, IEEETable, p) *)
Definition crc32 (bs : list N) : N := crc32_update 0 bs.

(* simpleMakeTable: tab[i] = eight steps from i *)
Definition tab (i : N) : N := Nat.iter 8 step0 i.

(* simpleUpdate, loop body:  crc = tab[byte(crc)^v] ^ (crc >> 8) *)
Definition update_byte_table (s b : N) : N :=
  N.lxor (tab (N.lxor (N.land s 255) b)) (N.shiftr s 8).

Definition crc32_table (bs : list N) : N :=
  N.lxor (fold_left update_byte_table bs mask32) mask32.

(* writer.go writerBuffers.crc32: the checksum of a page is the chained
   Update over the three sections of the body as they are written to the file *)
Definition page_crc (repetitions definitions page : list N) : N :=
  crc32_update (crc32_update (crc32_update 0 repetitions) definitions) page.

(* writer.go: header.CRC = int32(buf.crc32());  file.go readPage: uint32(header.CRC).
   The thrift field is a signed 32-bit integer. *)
Definition crc_to_int32 (c : N) : Z :=
  let z := Z.of_N c in if (z <? 2 ^ 31)%Z then z else (z - 2 ^ 32)%Z.
Definition int32_to_crc (z : Z) : N := Z.to_N (z mod 2 ^ 32).

(** * Messages as bit strings, error patterns, bursts *)

(* byte-wise xor of two byte strings (the shorter one decides the length) *)
Fixpoint xor_bytes (m e : list N) : list N :=
  match m, e with
  | a :: m', b :: e' => N.lxor a b :: xor_bytes m' e'
  | _, _ => []
  end.

(* bit k of a message, in the order the reflected CRC consumes them: byte
   k/8, bit k mod 8 counted from the least significant bit *)
Definition msg_bit (e : list N) (k : nat) : bool :=
  N.testbit (nth (k / 8) e 0) (N.of_nat (k mod 8)).

(* the message read as one little-endian number: bit k of it is [msg_bit e k]
   (for bytes below 256).  Written with xor so that it is linear for any N. *)
Fixpoint le_num (bs : list N) : N :=
  match bs with
  | [] => 0
  | b :: r => N.lxor b (N.shiftl (le_num r) 8)
  end.

Definition is_bytes (bs : list N) : Prop := Forall (fun b => b < 256) bs.
Definition nonzero (e : list N) : Prop := exists b, In b e /\ b <> 0.

(* all set bits of [e] lie within [w] consecutive bit positions *)
Definition burst_within (w : nat) (e : list N) : Prop :=
  exists p : nat, forall k, msg_bit e k = true -> (p <= k < p + w)%nat.

(** * The inverse register step (harness: c13InvStep) and the change of the last
    four body bytes that produces a prescribed checksum difference (harness:
    c13DeriveBodyFault); theorem C13_suffix_fault_has_difference *)
Definition inv_step0 (s : N) : N :=
  if N.testbit s 31 then N.lor (N.shiftl (N.lxor s poly) 1) 1 else N.shiftl s 1.

(* the four little-endian bytes of a 32-bit number *)
Definition le32_bytes (x : N) : list N :=
  [N.land x 255; N.land (N.shiftr x 8) 255; N.land (N.shiftr x 16) 255; N.land (N.shiftr x 24) 255].

Definition suffix_fault (d : N) : list N := le32_bytes (Nat.iter 32 inv_step0 d).

(** * Page loaders (file.go)

    A column chunk is a stream [dictionary page?] data page*.  A [FilePages]
    keeps the decoded dictionary once loaded.  The events below are the ways
    the bytes of a page body reach a decoder. *)

Inductive page_kind := DictPage | DataPageV1 | DataPageV2.

(* the routine that fetches the body bytes *)
Inductive loader :=
| LReadPage          (* FilePages.readPage, called from ReadPage (sequential stream) *)
| LReadDictPlain     (* FilePages.readDictionary, unencrypted branch *)
| LReadEncrypted     (* FilePages.readEncryptedPage *)
| LReadDictEncrypted (* FilePages.readDictionary, encrypted branch *).

Inductive check := CrcVerified | AeadVerified | Unverified.

(* current tree: readPage compares header.CRC with ChecksumIEEE(body) before
   anything is decoded (unless header.CRC = 0); readDictionary calls readPage
   (since "fix: the lazy dictionary loader verifies the page checksum");
   encrypted modules are opened with AES-GCM, which authenticates the body *)
Definition loader_check (l : loader) : check :=
  match l with
  | LReadPage => CrcVerified
  | LReadDictPlain => CrcVerified
  | LReadEncrypted => AeadVerified
  | LReadDictEncrypted => AeadVerified
  end.

(* pinned tree (before the fix): readDictionary read the body with io.ReadFull
   and decoded it without looking at header.CRC *)
Definition loader_check_pinned (l : loader) : check :=
  match l with
  | LReadDictPlain => Unverified
  | _ => loader_check l
  end.

(* what the program does with a FilePages *)
Inductive event :=
| EvReadDictionary                 (* FilePages.ReadDictionary *)
| EvSeekToRow                      (* FilePages.SeekToRow: repositions the stream after the dictionary page *)
| EvStreamPage (k : page_kind) (dict_encoded : bool)
                                   (* ReadPage meets a page of this kind in the stream *).

Record state := { encrypted : bool; has_dict : bool; dict_loaded : bool }.

Definition lazy_dict (st : state) : list (page_kind * loader) :=
  if has_dict st && negb (dict_loaded st)
  then [(DictPage, if encrypted st then LReadDictEncrypted else LReadDictPlain)]
  else [].

Definition stream_loader (st : state) : loader :=
  if encrypted st then LReadEncrypted else LReadPage.

Definition with_dict (st : state) : state :=
  {| encrypted := encrypted st; has_dict := has_dict st; dict_loaded := true |}.

(* one event: the page bodies handed to a decoder, each with the loader that
   fetched it, and the next state.
     ReadDictionary:  if f.dictionary == nil && f.dictOffset > 0 { readDictionary() }
     ReadPage on a dictionary page: skipped (Discard / unref) when f.dictionary != nil,
        otherwise loaded from the stream and decoded (readDictionaryPage)
     ReadPage on a data page: loaded from the stream; readDataPageV1/V2 call
        readDictionary() first when the page is dictionary-encoded and
        f.dictionary == nil (the lazy load after a seek)                     *)
Definition serve (st : state) (ev : event) : list (page_kind * loader) * state :=
  match ev with
  | EvReadDictionary => (lazy_dict st, if has_dict st then with_dict st else st)
  | EvSeekToRow => ([], st)
  | EvStreamPage DictPage _ =>
      if dict_loaded st then ([], st)
      else ([(DictPage, stream_loader st)], with_dict st)
  | EvStreamPage k true =>
      ((k, stream_loader st) :: lazy_dict st, if has_dict st then with_dict st else st)
  | EvStreamPage k false => ([(k, stream_loader st)], st)
  end.

Fixpoint run (st : state) (evs : list event) : list (page_kind * loader) :=
  match evs with
  | [] => []
  | ev :: r => let '(loads, st') := serve st ev in loads ++ run st' r
  end.

Definition init_state (enc dict : bool) : state :=
  {| encrypted := enc; has_dict := dict; dict_loaded := false |}.

Definition checkb (c : check) : bool :=
  match c with Unverified => false | _ => true end.

(* every body decoded along a trace was fetched by a checking loader *)
Definition trace_verified (tbl : loader -> check) (enc dict : bool) (evs : list event) : bool :=
  forallb (fun kl => checkb (tbl (snd kl))) (run (init_state enc dict) evs).

(* readPage: `if header.CRC != 0 { compare }` -- a stored checksum of 0 is
   indistinguishable from an absent one and switches the comparison off.
   [read_page stored body] = true when the body is accepted. *)
Definition read_page_accepts (stored : N) (body : list N) : bool :=
  if N.eqb stored 0 then true else N.eqb stored (crc32 body).

(* named access paths used by the correspondence harness *)
Inductive access_path :=
| PathSequential        (* ReadPage from the start of the chunk: dictionary page met in the stream *)
| PathSeekThenRead      (* SeekToRow, then ReadPage: data page from the stream, dictionary lazily *)
| PathReadDictionary    (* FilePages.ReadDictionary on a fresh reader *)
| PathReadDictThenPages (* ReadDictionary, then ReadPage from the start: the dictionary page in the stream is skipped *).

Definition path_events (p : access_path) (k : page_kind) (dict : bool) : list event :=
  match p with
  | PathSequential => (if dict then [EvStreamPage DictPage false] else []) ++ [EvStreamPage k dict]
  | PathSeekThenRead => [EvSeekToRow; EvStreamPage k dict]
  | PathReadDictionary => [EvReadDictionary]
  | PathReadDictThenPages => [EvReadDictionary] ++ (if dict then [EvStreamPage DictPage false] else []) ++ [EvStreamPage k dict]
  end.

(* how the body of a page of kind [target] is checked along a path:
   None when the path never hands such a body to a decoder *)
Definition path_check (tbl : loader -> check) (enc dict : bool) (p : access_path)
           (k : page_kind) (target : page_kind) : option check :=
  let loads := run (init_state enc dict) (path_events p k dict) in
  match filter (fun kl => match fst kl, target with
                          | DictPage, DictPage | DataPageV1, DataPageV1 | DataPageV2, DataPageV2 => true
                          | _, _ => false end) loads with
  | [] => None
  | kl :: _ => Some (tbl (snd kl))
  end.

(** * The reader of a column across the row groups of a file

    column.go, Column.Pages / PagesFrom: [columnPages] holds one
    [FilePages] per row group of the file (each with its own state: its own
    lazily loaded dictionary) and reads them one after the other; errors of
    the current [FilePages] are returned as they are.
    [columnPages.SeekToRow r]: the row groups before the one holding row [r]
    are not read at all; [SeekToRow] with the remaining row count on that
    one; [SeekToRow 0] on every later one.  With an offset index
    [FilePages.SeekToRow 0] on a fresh reader leaves the stream where it is
    (f.index == target: at the start of the chunk, the dictionary page is met
    in the stream); without offset index (SkipPageIndex, or a file without
    page index) it positions the stream at the first data page, so the
    dictionary of a later row group is loaded lazily. *)
Inductive rg_position :=
| RgBefore (* the row group of the page comes before the one the seek went to *)
| RgAt     (* the seek went to a row of that row group *)
| RgAfter  (* the seek went to an earlier row group: reached by reading on *).

Inductive column_path :=
| ColSequential
| ColSeek (pos : rg_position).

(* the events on the FilePages of the row group that holds the page; None when
   that row group is not read *)
Definition column_chunk_events (p : column_path) (noindex : bool) (k : page_kind) (dict : bool)
  : option (list event) :=
  match p with
  | ColSequential => Some (path_events PathSequential k dict)
  | ColSeek RgBefore => None
  | ColSeek RgAt => Some (path_events PathSeekThenRead k dict)
  | ColSeek RgAfter =>
      Some (EvSeekToRow :: (if noindex then [EvStreamPage k dict] else path_events PathSequential k dict))
  end.

Definition same_kind (a b : page_kind) : bool :=
  match a, b with
  | DictPage, DictPage | DataPageV1, DataPageV1 | DataPageV2, DataPageV2 => true
  | _, _ => false
  end.

Definition column_path_check (tbl : loader -> check) (enc dict : bool) (p : column_path)
           (noindex : bool) (k : page_kind) (target : page_kind) : option check :=
  match column_chunk_events p noindex k dict with
  | None => None
  | Some evs =>
      match filter (fun kl => same_kind (fst kl) target) (run (init_state enc dict) evs) with
      | [] => None
      | kl :: _ => Some (tbl (snd kl))
      end
  end.
