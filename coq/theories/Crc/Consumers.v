(** C13 — consumers of page and row readers.

    The loaders of Crc/Model.v decide whether a corrupted body is rejected
    when it is fetched.  The caller of the library mostly does not call the
    loaders: it calls a routine that reads pages or rows on its behalf and
    hands them on (CopyPages, CopyRows, CopyValues, Writer.WriteRowGroup,
    Writer.ReadRowsFrom, Reader.Read, Read, the row reader wrappers...).
    All of these are instances of one loop (page.go CopyPages, row.go
    copyRows, value.go copyValues, writer_reencode.go copyColumnValues,
    reader.go Reader.Read used in a loop):

        for {
            x, err := src.Read()
            if err != nil {
                if err == io.EOF { err = nil }
                return n, err
            }
            dst.Write(x); n++
        }

    [consume] is that loop; [source] is what a reader answers call after
    call when one page of its input was altered; [consumer_check] says how a
    consumer of each kind comes to report the alteration.  No proofs here. *)
From Coq Require Import List NArith Bool.
From PQ Require Import Crc.Model.
Import ListNotations.

(* what the source answers to one Read call *)
Inductive delivery := Clean | Altered.
Inductive answer :=
| AItem (d : delivery)  (* a page / a batch of rows, nil error *)
| AEnd                  (* io.EOF *)
| AFail                 (* any other error: here the corruption error of the loader *).

(* how the loop ends: the count handed to the destination, and whether an
   altered item is among them *)
Inductive outcome :=
| Done (n : nat) (altered : bool)      (* returns n, nil *)
| Reported (n : nat) (altered : bool)  (* returns n, err *).

Fixpoint consume_from (src : list answer) (n : nat) (alt : bool) : outcome :=
  match src with
  | [] => Done n alt
  | AItem d :: r => consume_from r (S n) (alt || match d with Altered => true | Clean => false end)
  | AEnd :: _ => Done n alt
  | AFail :: _ => Reported n alt
  end.

Definition consume (src : list answer) : outcome := consume_from src 0 false.

(* the answers of a reader over [before] intact items, the item holding the
   altered page, [after] intact items: the altered item fails when the
   loader that fetches it checks it, and is delivered otherwise *)
Definition source (before after : nat) (c : check) : list answer :=
  repeat (AItem Clean) before
  ++ (if checkb c then [AFail] else [AItem Altered])
  ++ repeat (AItem Clean) after ++ [AEnd].

(** * Kinds of consumers *)

Inductive consumer_kind :=
| Decoding       (* reads every page of the columns it uses through a page reader, from the start *)
| Verbatim       (* splices the stored bytes of the column chunks, page headers included, into its output *)
| ProjectedAway  (* does not read the column of the page *).

(* how the alteration comes to be reported *)
Inductive report :=
| ByCall (c : check)      (* the consuming call returns the error of the loader *)
| ByOutput (c : check)    (* the call returns nil; a reader of the output meets the page *)
| Untouched               (* nothing reads the page: the data delivered is that of the intact file *).

(* writer_copy.go: the header bytes (with the CRC field) and the body bytes of
   every page are copied as they are *)
Record stored_page := { sp_crc : N; sp_body : list N }.
Definition splice (p : stored_page) : stored_page := p.

(* a decoding consumer meets the page like a sequential reader of the chunk;
   the output of a verbatim copy is an unencrypted file whose page is met by
   ITS sequential reader *)
Definition consumer_check (tbl : loader -> check) (enc dict : bool) (kind : consumer_kind)
           (k target : page_kind) : report :=
  match kind with
  | ProjectedAway => Untouched
  | Decoding =>
      match path_check tbl enc dict PathSequential k target with
      | Some c => ByCall c
      | None => Untouched
      end
  | Verbatim =>
      match path_check tbl false dict PathSequential k target with
      | Some c => ByOutput c
      | None => Untouched
      end
  end.

(** * The path Writer.WriteRowGroup takes (writer.go WriteRowGroup,
    writer_copy.go copyableColumnChunks, writer_reencode.go
    columnOrientedRowGroup), for a row group that is not a concatenation of
    segments:
      verbatim   when the rows are those of the column chunks of a file
                 (chunkTransparentRowGroup), the row count fits
                 MaxRowsPerRowGroup, the source is not encrypted and codec,
                 page version and encodings are those of the writer;
      re-encode  column by column (copyColumnValues) when only the
                 configuration differs or the source is encrypted;
      rows       (CopyRows from Rows()) otherwise. *)
Inductive wrg_path := WVerbatim | WReencode | WRows.

Definition write_row_group_path (same_config src_encrypted chunk_transparent fits : bool) : wrg_path :=
  if chunk_transparent && fits then
    if same_config && negb src_encrypted then WVerbatim else WReencode
  else WRows.

Definition wrg_kind (p : wrg_path) : consumer_kind :=
  match p with WVerbatim => Verbatim | _ => Decoding end.

(** * Consumers of several sources: merges (merge.go)

    MergeRowReaders / MergeRowGroups(...).Rows() keep a buffer of rows per
    input and refill it from the reader of that input when it runs empty
    (mergedRowReader2.ReadRows for two inputs, the loser tree of
    mergedRowReader for three and more).  Which input is refilled next is
    decided by the keys: here it is an arbitrary schedule, a list of input
    numbers.  A refill that fails ends the merge with the error; a refill
    that meets the end of the input leaves the merge to the other inputs.
    [lenient = true] is the variant that takes a failed refill for the end of
    the input (what a merge must not do).  Inputs are numbered from 0;
    the answer lists are those of [source]. *)
Definition inputs := nat -> list answer.

Definition pop (ins : inputs) (i : nat) : inputs :=
  fun j => if Nat.eqb j i then tl (ins j) else ins j.

Fixpoint merge_run (lenient : bool) (sched : list nat) (ins : inputs) (n : nat) (alt : bool)
  : outcome * inputs :=
  match sched with
  | [] => (Done n alt, ins)
  | i :: rest =>
      match ins i with
      | AItem d :: _ =>
          merge_run lenient rest (pop ins i) (S n)
                    (alt || match d with Altered => true | Clean => false end)
      | AFail :: _ => if lenient then merge_run lenient rest ins n alt else (Reported n alt, ins)
      | _ => merge_run lenient rest ins n alt
      end
  end.

(* the answer that stops a reader of the list: the first one that is not an item *)
Fixpoint first_stop (l : list answer) : answer :=
  match l with
  | AItem _ :: r => first_stop r
  | a :: _ => a
  | [] => AEnd
  end.

(* the input has nothing more to give *)
Definition at_end (l : list answer) : bool :=
  match l with
  | AItem _ :: _ | AFail :: _ => false
  | _ => true
  end.

(** * Readers that deliver rows in windows (variant_column_reader.go)

    VariantReader.Next(n) makes every leaf column of the variant group read a
    window of n rows (variantLeafReader.readWindow).  A leaf reader learns
    that the last row of the window is complete from the slot that FOLLOWS
    it: when the window ends where a page ends it loads the next page (a
    peek) although every row it is about to return lies before that page.
    The items of the source are rows; the failed load of the altered page is
    the [AFail] in front of the rows behind it.  [rem] rows are still due in
    window number [i]; window number j has [S (sizes j)] rows.  [keep = true]:
    the failure met by the peek is returned by that call (and kept:
    VariantReader.err); [keep = false] is the variant that returns the
    complete window and drops the failure - the page reader has moved on, the
    next window starts with the rows behind the page. *)
Fixpoint read_windows (keep : bool) (sizes : nat -> nat) (src : list answer) (i rem n : nat) (alt : bool)
  : outcome :=
  match src with
  | [] => Done n alt
  | AEnd :: _ => Done n alt
  | AFail :: r =>
      match rem with
      | O => if keep then Reported n alt
             else read_windows keep sizes r (S i) (S (sizes (S i))) n alt
      | S _ => Reported n alt
      end
  | AItem d :: r =>
      let alt' := alt || match d with Altered => true | Clean => false end in
      match rem with
      | O => read_windows keep sizes r (S i) (sizes (S i)) (S n) alt'
      | S k => read_windows keep sizes r i k (S n) alt'
      end
  end.

Definition read_in_windows (keep : bool) (sizes : nat -> nat) (src : list answer) : outcome :=
  read_windows keep sizes src 0 (S (sizes 0%nat)) 0 false.
