(** C13 — consumers of page and row readers.

    The loaders of Crc/Model.v decide whether a corrupted body is rejected
    when it is fetched.  The caller of the library mostly does not call the
    loaders: it calls a routine that reads pages or rows on its behalf and
    hands them on (CopyPages, CopyRows, CopyValues, Writer.WriteRowGroup,
    Writer.ReadRowsFrom, Reader.Read, Read, the row reader wrappers...).
    All of these are instances of one loop (page.go CopyPages, row.go
    copyRows, value.go copyValues, writer_reencode.go copyColumnValues,
    reader.go Reader.Read used in a loop):

        for {
            x, err := src.Read()
            if err != nil {
                if err == io.EOF { err = nil }
                return n, err
            }
            dst.Write(x); n++
        }

    [consume] is that loop; [source] is what a reader answers call after
    call when one page of its input was altered; [consumer_check] says how a
    consumer of each kind comes to report the alteration.  No proofs here. *)
From Coq Require Import List NArith Bool.
From PQ Require Import Crc.Model.
Import ListNotations.

(* what the source answers to one Read call *)
Inductive delivery := Clean | Altered.
Inductive answer :=
| AItem (d : delivery)  (* a page / a batch of rows, nil error *)
| AEnd                  (* io.EOF *)
| AFail                 (* any other error: here the corruption error of the loader *).

(* how the loop ends: the count handed to the destination, and whether an
   altered item is among them *)
Inductive outcome :=
| Done (n : nat) (altered : bool)      (* returns n, nil *)
| Reported (n : nat) (altered : bool)  (* returns n, err *).

Fixpoint consume_from (src : list answer) (n : nat) (alt : bool) : outcome :=
  match src with
  | [] => Done n alt
  | AItem d :: r => consume_from r (S n) (alt || match d with Altered => true | Clean => false end)
  | AEnd :: _ => Done n alt
  | AFail :: _ => Reported n alt
  end.

Definition consume (src : list answer) : outcome := consume_from src 0 false.

(* the answers of a reader over [before] intact items, the item holding the
   altered page, [after] intact items: the altered item fails when the
   loader that fetches it checks it, and is delivered otherwise *)
Definition source (before after : nat) (c : check) : list answer :=
  repeat (AItem Clean) before
  ++ (if checkb c then [AFail] else [AItem Altered])
  ++ repeat (AItem Clean) after ++ [AEnd].

(** * Kinds of consumers *)

Inductive consumer_kind :=
| Decoding       (* reads every page of the columns it uses through a page reader, from the start *)
| Verbatim       (* splices the stored bytes of the column chunks, page headers included, into its output *)
| ProjectedAway  (* does not read the column of the page *).

(* how the alteration comes to be reported *)
Inductive report :=
| ByCall (c : check)      (* the consuming call returns the error of the loader *)
| ByOutput (c : check)    (* the call returns nil; a reader of the output meets the page *)
| Untouched               (* nothing reads the page: the data delivered is that of the intact file *).

(* writer_copy.go: the header bytes (with the CRC field) and the body bytes of
   every page are copied as they are *)
Record stored_page := { sp_crc : N; sp_body : list N }.
Definition splice (p : stored_page) : stored_page := p.

(* a decoding consumer meets the page like a sequential reader of the chunk;
   the output of a verbatim copy is an unencrypted file whose page is met by
   ITS sequential reader *)
Definition consumer_check (tbl : loader -> check) (enc dict : bool) (kind : consumer_kind)
           (k target : page_kind) : report :=
  match kind with
  | ProjectedAway => Untouched
  | Decoding =>
      match path_check tbl enc dict PathSequential k target with
      | Some c => ByCall c
      | None => Untouched
      end
  | Verbatim =>
      match path_check tbl false dict PathSequential k target with
      | Some c => ByOutput c
      | None => Untouched
      end
  end.

(** * The path Writer.WriteRowGroup takes (writer.go WriteRowGroup,
    writer_copy.go copyableColumnChunks, writer_reencode.go
    columnOrientedRowGroup), for a row group that is not a concatenation of
    segments:
      verbatim   when the rows are those of the column chunks of a file
                 (chunkTransparentRowGroup), the row count fits
                 MaxRowsPerRowGroup, the source is not encrypted and codec,
                 page version and encodings are those of the writer;
      re-encode  column by column (copyColumnValues) when only the
                 configuration differs or the source is encrypted;
      rows       (CopyRows from Rows()) otherwise. *)
Inductive wrg_path := WVerbatim | WReencode | WRows.

Definition write_row_group_path (same_config src_encrypted chunk_transparent fits : bool) : wrg_path :=
  if chunk_transparent && fits then
    if same_config && negb src_encrypted then WVerbatim else WReencode
  else WRows.

Definition wrg_kind (p : wrg_path) : consumer_kind :=
  match p with WVerbatim => Verbatim | _ => Decoding end.
