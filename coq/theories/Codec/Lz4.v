(** C20 — decoder of the LZ4 raw BLOCK format, written from the format
    description (lz4_Block_format.md), NOT from the Go code:
      a block is a series of sequences; a sequence is
        token          : high nibble = literal length, low nibble = match length - 4
        [ext bytes]    : when the literal length nibble is 15, bytes are added
                         to it until one is not 255
        literals
        -- the LAST sequence ends here (literals only) --
        offset         : 2 bytes little endian, 0 is invalid
        [ext bytes]    : when the match length nibble is 15, same extension
        a match copies (nibble + 4 + extension) bytes from [offset] bytes back
        in the output, byte by byte (overlap repeats a pattern).
    [max_out] plays the role of len(dst) of lz4.UncompressBlock: producing more
    is an error.  An empty block is an error (a block holds at least a token).
    Executable, no proofs. *)
From Coq Require Import List NArith Bool Arith.
From PQ Require Import Codec.Model Codec.Snappy.
Import ListNotations.
Local Open Scope N_scope.

(* length extension: add bytes until one is not 255 *)
Fixpoint lz4_ext (f : nat) (s : bytes) (acc : N) : option (N * bytes) :=
  match f, s with
  | S f', b :: r => if b =? 255 then lz4_ext f' r (acc + 255) else Some (acc + b, r)
  | _, _ => None
  end.

Definition lz4_len (nib : N) (s : bytes) : option (N * bytes) :=
  if nib =? 15 then lz4_ext (length s) s 15 else Some (nib, s).

Fixpoint lz4_seqs (f : nat) (s : bytes) (out_rev : bytes) (olen max_out : N) : option bytes :=
  match f with
  | O => None
  | S f' =>
      match s with
      | [] => None
      | token :: r =>
          match lz4_len (token / 16) r with
          | None => None
          | Some (ll, r1) =>
              if olen + ll <=? max_out then
                let n := N.to_nat ll in
                let lit := firstn n r1 in
                if Nat.eqb (length lit) n then
                  let out1 := rev_append lit out_rev in
                  match skipn n r1 with
                  | [] => Some out1                       (* last sequence: literals only *)
                  | r2 =>
                      match le_bytes 2 r2 with
                      | None => None
                      | Some (off, r3) =>
                          match lz4_len (token mod 16) r3 with
                          | None => None
                          | Some (ml, r4) =>
                              let ml := ml + 4 in
                              if (olen + ll + ml <=? max_out) && (0 <? off) then
                                match copy_back (S (N.to_nat ml)) (N.to_nat off) (N.to_nat ml) out1 with
                                | Some out2 => lz4_seqs f' r4 out2 (olen + ll + ml) max_out
                                | None => None
                                end
                              else None
                          end
                      end
                  end
                else None
              else None
          end
      end
  end.

(** [Some x] = decoded block, [None] = malformed block or more than [max_out] bytes. *)
Definition lz4_decode (max_out : N) (s : bytes) : option bytes :=
  match lz4_seqs (S (length s)) s [] 0 max_out with
  | Some out_rev => if N.of_nat (length out_rev) <=? max_out then Some (rev' out_rev) else None
  | None => None
  end.

(** compress/lz4/lz4.go Codec.Decode with the decoder above standing for
    lz4.UncompressBlock: the retry loop of Codec/Model.v. *)
Definition lz4_codec_decode (dst_cap : N) (s : bytes) : option bytes :=
  let src_len := N.of_nat (length s) in
  match lz4_retry (lz4_fuel src_len)
          (fun n => match lz4_decode n s with Some x => Some (N.of_nat (length x)) | None => None end)
          src_len (lz4_reserve dst_cap src_len) with
  | LzOk _ n => lz4_decode n s
  | _ => None
  end.

(** ---- literal-only encoder (reference for the round-trip lemma) *)
Fixpoint lz4_ext_enc (f : nat) (n : N) : bytes :=
  match f with
  | O => [n]
  | S f' => if n <? 255 then [n] else 255 :: lz4_ext_enc f' (n - 255)
  end.

Definition lz4_literal_block (x : bytes) : bytes :=
  let l := N.of_nat (length x) in
  if l <? 15 then (16 * l) :: x
  else 240 :: lz4_ext_enc (length x) (l - 15) ++ x.
