(** C20 — model of the pooled compression wrappers of compress/compress.go
    (Compressor.Encode, Decompressor.Decode), of the un-reset pools of
    compress/zstd/zstd.go and of the growth loop of compress/lz4/lz4.go Decode.
    Executable, no proofs (Codec/Proofs.v).

    The third-party stream objects (gzip/brotli readers and writers, zstd
    encoders/decoders) are ABSTRACT: a type of internal states and the
    operations the wrapper calls on them (Section variables).  What is modelled
    statement by statement is the wrapper: memory.Pool.Get (pop or construct,
    reset with the new input), the run, the deferred cleanup (reset to
    nil/io.Discard, Put only after a clean run whose reset succeeded) and the growth loop of
    dst in Decode (cap 0 -> 2*len(src), doubling).

    sync.Pool gives no guarantee about which pooled object Get returns, nor
    that it returns one at all (the GC empties pools, every P has a private
    cache): each call of the model therefore carries a [pick] chosen by the
    environment ([None] = miss, [Some i] = the i-th pooled object modulo the
    pool size) and a history may contain [EvGc] events that drop an object.

    A byte is an [N] below 256; a byte string is a [list N]. *)
From Coq Require Import List NArith Bool Arith.
Import ListNotations.

Definition bytes := list N.

(** What one Read call of an io.Reader reports besides the bytes:
    [More] = (n, nil), [Eof] = (n, io.EOF), [Err] = (n, any other error). *)
Inductive rstatus := More | Eof | Err.

(** Result of Encode/Decode: [Done out err] = returned (out, err != nil);
    [Hang] = the loop did not finish within the fuel of the model. *)
Inductive outcome :=
| Done (out : bytes) (err : bool)
| Hang.

(* internal/memory/pool.go Pool.Get: v := p.pool.Get(); v == nil -> newT() else resetT(v) *)
Fixpoint remove_nth {A} (i : nat) (l : list A) : list A :=
  match l, i with
  | [], _ => []
  | _ :: t, O => t
  | x :: t, S j => x :: remove_nth j t
  end.

Definition pool_get {A} (pool : list A) (pick : option nat) : option (A * list A) :=
  match pick with
  | None => None
  | Some i =>
      match pool with
      | [] => None
      | _ => let k := Nat.modulo i (length pool) in
             match nth_error pool k with
             | Some x => Some (x, remove_nth k pool)
             | None => None
             end
      end
  end.

Section Wrappers.
  (** ---- abstract third-party streams ---------------------------------- *)
  Variable R : Type.                                   (* state of a compress.Reader (+ its bytes.Reader input) *)
  Variable rd_new : bytes -> R * bool.                 (* newReader(&r.input) with input = src; bool: err != nil *)
  Variable rd_reset : R -> option bytes -> R * bool.   (* r.input.Reset(src); r.reader.Reset(&r.input)  /  Reset(nil) *)
  Variable rd_read : R -> nat -> (bytes * rstatus) * R. (* r.reader.Read(p) with len(p) = n *)

  Variable W : Type.                                   (* state of a compress.Writer (its output buffer is kept by the wrapper) *)
  Variable wr_new : W * bool.                          (* newWriter(&w.output) *)
  Variable wr_reset : W -> bool -> W.                  (* Reset(&w.output) (true) / Reset(io.Discard) (false) *)
  Variable wr_write : W -> bytes -> (bytes * bool) * W. (* Write(src): bytes appended to the output, err != nil *)
  Variable wr_close : W -> (bytes * bool) * W.         (* Close() *)

  Variable fuel : nat.                                 (* bound on the iterations of the read loop *)

  (** ---- Decompressor.Decode ------------------------------------------- *)

  (* the for loop: n, err := Read(dst[len(dst):cap(dst)]); dst = dst[:len(dst)+n];
     err != nil -> return (EOF is not an error); len == cap -> double.
     Returns the outcome, the reader state and the chunks read (ghost). *)
  Fixpoint grow_loop (f : nat) (s : R) (dst : bytes) (cap : nat) : outcome * R * list bytes :=
    match f with
    | O => (Hang, s, [])
    | S f' =>
        let '((c, st), s1) := rd_read s (cap - length dst) in
        let dst1 := dst ++ c in
        match st with
        | Eof => (Done dst1 false, s1, [c])
        | Err => (Done dst1 true, s1, [c])
        | More =>
            let cap1 := if Nat.eqb (length dst1) cap then 2 * length dst1 else cap in
            let '(o, s2, cs) := grow_loop f' s1 dst1 cap1 in
            (o, s2, c :: cs)
        end
    end.

  (* [dst] is the whole backing array handed in (cap(dst) = length dst): only
     its capacity is used, dst[:0] drops the contents. *)
  (* the part of Decode after a successful Get: dst sizing, the loop, the deferred cleanup *)
  Definition decode_run (r : R) (pool1 : list R) (dst src : bytes) : outcome * list R :=
    let cap := if Nat.eqb (length dst) 0 then 2 * length src else length dst in
    let '(o, r1, _) := grow_loop fuel r (firstn 0 dst) cap in
    match o with
    | Hang => (Hang, pool1)  (* the call never returns: the deferred function never runs *)
    | Done _ run_err =>
        (* defer: r.input.Reset(nil); if err := r.reader.Reset(nil); err == nil && clean { Put(r) }
           clean = the read loop ended with io.EOF: a reader whose stream ended with an
           error may keep state of the failed stream across Reset (brotli keeps
           unconsumed input after "excessive input") and is dropped *)
        let '(r2, e2) := rd_reset r1 None in
        (o, if e2 || run_err then pool1 else r2 :: pool1)
    end.

  Definition decode (pool : list R) (pick : option nat) (dst src : bytes) : outcome * list R :=
    (* r := d.readers.Get(new, reset) *)
    let '(r, init_err, pool1) :=
      match pool_get pool pick with
      | None => (fst (rd_new src), snd (rd_new src), pool)
      | Some (r0, rest) => (fst (rd_reset r0 (Some src)), snd (rd_reset r0 (Some src)), rest)
      end in
    if init_err then
      (* return dst[:0], initErr — the reader is dropped *)
      (Done (firstn 0 dst) true, pool1)
    else decode_run r pool1 dst src.

  (** ---- Compressor.Encode --------------------------------------------- *)

  (* Write(src); Close(); output accumulates in w.output = bytes.NewBuffer(dst[:0]) *)
  Definition wrun (w : W) (out0 src : bytes) : (bytes * bool) * W :=
    let '((o1, e1), w1) := wr_write w src in
    if e1 then ((out0 ++ o1, true), w1)
    else let '((o2, e2), w2) := wr_close w1 in ((out0 ++ o1 ++ o2, e2), w2).

  Definition encode_run (w : W) (pool1 : list W) (dst src : bytes) : outcome * list W :=
    let '((out, e), w1) := wrun w (firstn 0 dst) src in
    (* defer: w.output = *bytes.NewBuffer(nil); w.writer.Reset(io.Discard); Put(w) *)
    (Done out e, wr_reset w1 false :: pool1).

  Definition encode (pool : list W) (pick : option nat) (dst src : bytes) : outcome * list W :=
    let '(w, init_err, pool1) :=
      match pool_get pool pick with
      | None => (fst wr_new, snd wr_new, pool)
      | Some (w0, rest) => (wr_reset w0 true, false, rest)
      end in
    if init_err then (Done (firstn 0 dst) true, pool1)
    else encode_run w pool1 dst src.

  (** ---- a codec value = its two pools; histories ----------------------- *)
  Record cstate := mk_cstate { readers : list R; writers : list W }.

  Inductive event :=
  | EvEncode (pick : option nat) (dst src : bytes)
  | EvDecode (pick : option nat) (dst src : bytes)
  | EvGc (of_readers : bool) (i : nat).   (* the GC drops a pooled object *)

  Definition step (st : cstate) (ev : event) : outcome * cstate :=
    match ev with
    | EvEncode pick dst src =>
        let '(o, ws) := encode (writers st) pick dst src in (o, mk_cstate (readers st) ws)
    | EvDecode pick dst src =>
        let '(o, rs) := decode (readers st) pick dst src in (o, mk_cstate rs (writers st))
    | EvGc true i => (Done [] false, mk_cstate (remove_nth i (readers st)) (writers st))
    | EvGc false i => (Done [] false, mk_cstate (readers st) (remove_nth i (writers st)))
    end.

  Fixpoint run_history (st : cstate) (h : list event) : cstate :=
    match h with
    | [] => st
    | ev :: t => run_history (snd (step st ev)) t
    end.

  Fixpoint outcomes (st : cstate) (h : list event) : list outcome :=
    match h with
    | [] => []
    | ev :: t => fst (step st ev) :: outcomes (snd (step st ev)) t
    end.

  Definition init : cstate := mk_cstate [] [].

  (** what a fresh codec value (empty pools) answers *)
  Definition fresh_result (ev : event) : outcome := fst (step init ev).
End Wrappers.

(** ---- compress/zstd/zstd.go: pools of encoders/decoders that are NOT reset
    (EncodeAll / DecodeAll are documented as stateless), always Put back. *)
Section ZstdPools.
  Variable ZS : Type.
  Variable z_new : ZS.
  Variable z_all : ZS -> bytes -> (bytes * bool) * ZS.   (* EncodeAll(src, dst[:0]) / DecodeAll(src, dst[:0]) *)

  Definition zstd_call (pool : list ZS) (pick : option nat) (dst src : bytes) : outcome * list ZS :=
    let '(z, pool1) := match pool_get pool pick with
                       | None => (z_new, pool)
                       | Some (z0, rest) => (z0, rest)
                       end in
    let '((out, e), z1) := z_all z src in
    (Done (firstn 0 dst ++ out) e, z1 :: pool1).

  Fixpoint zstd_history (pool : list ZS) (h : list (option nat * bytes * bytes)) : list ZS :=
    match h with
    | [] => pool
    | (pick, dst, src) :: t => zstd_history (snd (zstd_call pool pick dst src)) t
    end.
End ZstdPools.

(** ---- compress/lz4/lz4.go Codec.Decode: the retry loop -------------------
    [ub n] = lz4.UncompressBlock(src, dst) with len(dst) = n: [Some k] = k
    bytes written, [None] = error.  Lengths are [N]. *)
Local Open Scope N_scope.

Definition lz4_reserve (dst_cap src_len : N) : N :=
  (* reserveAtLeast(dst, 3*len(src)) *)
  if dst_cap <? 3 * src_len then 3 * src_len else dst_cap.

Inductive lz4_outcome := LzOk (n : N) (dst_len : N) | LzErr (dst_len : N) | LzHang.

Fixpoint lz4_retry (f : nat) (ub : N -> option N) (src_len dst_len : N) : lz4_outcome :=
  match f with
  | O => LzHang
  | S f' =>
      match ub dst_len with
      | Some n => LzOk n dst_len
      | None =>
          if 255 * src_len + 64 <? dst_len then LzErr dst_len
          else lz4_retry f' ub src_len (N.max (2 * dst_len) 64)
      end
  end.

(* the loop before commit a96dcfb: dst = make([]byte, 2*len(dst)) on every error *)
Fixpoint lz4_retry_pinned (f : nat) (ub : N -> option N) (src_len dst_len : N) : lz4_outcome :=
  match f with
  | O => LzHang
  | S f' =>
      match ub dst_len with
      | Some n => LzOk n dst_len
      | None => lz4_retry_pinned f' ub src_len (2 * dst_len)
      end
  end.

(* enough iterations for every input: one to reach 64, then doubling past 255*len+64 *)
Definition lz4_fuel (src_len : N) : nat := S (S (N.to_nat (N.size (255 * src_len + 64)))).

(** Decompressor.Decode before commit 636f91c: a constructor / reset error
    panics ("will be caught below", nothing catches). *)
Inductive outcome_pinned := PDone (o : outcome) | PPanic.

Definition decode_pinned_init {R} (rd_new : bytes -> R * bool) (src : bytes) : outcome_pinned :=
  if snd (rd_new src) then PPanic else PDone Hang (* the rest is as in [decode] *).
