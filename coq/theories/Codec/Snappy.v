(** C20 — decoder of the snappy RAW block format, written from the format
    description (google/snappy format_description.txt), NOT from the Go code:
      preamble  : uncompressed length as a little-endian base-128 varint (< 2^32)
      elements  : tag byte, low two bits =
        00 literal : length-1 in the upper 6 bits when < 60; 60..63 mean that
                     1..4 following bytes hold length-1 (little endian); then the bytes
        01 copy    : length 4..11 = 4 + bits 2..4; offset (11 bits) = bits 5..7 * 256 + next byte
        10 copy    : length 1..64 = 1 + upper 6 bits; offset = next 2 bytes (little endian)
        11 copy    : length 1..64 = 1 + upper 6 bits; offset = next 4 bytes (little endian)
      a copy reads [length] bytes starting [offset] bytes back in the output
      produced so far, byte by byte (offset < length repeats a pattern);
      offset 0 or beyond the start is an error; the output must have exactly
      the declared length.
    Used as an independent decoder of what Go's snappy Encode emits.
    The output is accumulated in reverse ([out_rev], newest byte first).
    Executable, no proofs. *)
From Coq Require Import List NArith Bool Arith.
From PQ Require Import Codec.Model.
Import ListNotations.
Local Open Scope N_scope.

(* base-128 varint, at most [f] bytes *)
Fixpoint uvarint (f : nat) (s : bytes) (mult acc : N) : option (N * bytes) :=
  match f, s with
  | S f', b :: r =>
      let acc' := acc + (b mod 128) * mult in
      if b <? 128 then Some (acc', r) else uvarint f' r (mult * 128) acc'
  | _, _ => None
  end.

(* k bytes little endian *)
Fixpoint le_bytes (k : nat) (s : bytes) : option (N * bytes) :=
  match k with
  | O => Some (0, s)
  | S k' =>
      match s with
      | [] => None
      | b :: r => match le_bytes k' r with
                  | Some (v, r') => Some (b + 256 * v, r')
                  | None => None
                  end
      end
  end.

(* append [len] bytes found [off] bytes back, to a reversed output *)
Fixpoint copy_back (f : nat) (off len : nat) (out_rev : bytes) : option bytes :=
  match f with
  | O => None
  | S f' =>
      match len with
      | O => Some out_rev
      | _ =>
          let k := Nat.min len off in
          let seg := firstn k (skipn (off - k) out_rev) in
          if negb (Nat.eqb k 0) && Nat.eqb (length seg) k
          then copy_back f' off (len - k) (seg ++ out_rev)
          else None
      end
  end.

Definition sn_max_len : N := 4294967295.

Fixpoint sn_elems (f : nat) (s : bytes) (out_rev : bytes) : option bytes :=
  match f with
  | O => None
  | S f' =>
      match s with
      | [] => Some out_rev
      | tag :: r =>
          let ty := tag mod 4 in
          let hi := tag / 4 in
          if ty =? 0 then
            (* literal *)
            match (if hi <? 60 then Some (hi + 1, r)
                   else match le_bytes (N.to_nat (hi - 59)) r with
                        | Some (v, r') => Some (v + 1, r')
                        | None => None
                        end) with
            | None => None
            | Some (l, r1) =>
                if l <=? sn_max_len then
                  let n := N.to_nat l in
                  let lit := firstn n r1 in
                  if Nat.eqb (length lit) n
                  then sn_elems f' (skipn n r1) (rev_append lit out_rev)
                  else None
                else None
            end
          else
            match (if ty =? 1 then
                     match r with
                     | b :: r' => Some (4 + hi mod 8, (hi / 8) * 256 + b, r')
                     | [] => None
                     end
                   else
                     match le_bytes (if ty =? 2 then 2%nat else 4%nat) r with
                     | Some (o, r') => Some (1 + hi, o, r')
                     | None => None
                     end) with
            | None => None
            | Some (len, off, r1) =>
                if off <=? sn_max_len then
                  match copy_back (S (N.to_nat len)) (N.to_nat off) (N.to_nat len) out_rev with
                  | Some out' => sn_elems f' r1 out'
                  | None => None
                  end
                else None
            end
      end
  end.

Definition snappy_declared_len (s : bytes) : option N :=
  match uvarint 5 s 1 0 with
  | Some (n, _) => if n <=? sn_max_len then Some n else None
  | None => None
  end.

(** [Some x] = decoded block, [None] = corrupt input. *)
Definition snappy_decode (s : bytes) : option bytes :=
  match uvarint 5 s 1 0 with
  | None => None
  | Some (dlen, body) =>
      if dlen <=? sn_max_len then
        match sn_elems (S (length body)) body [] with
        | Some out_rev =>
            if N.of_nat (length out_rev) =? dlen then Some (rev' out_rev) else None
        | None => None
        end
      else None
  end.

(** ---- the literal-only encoder (reference, for the round-trip lemma):
    what a snappy encoder emits for incompressible input. *)
Fixpoint uvarint_enc (f : nat) (n : N) : bytes :=
  match f with
  | O => [n mod 128]
  | S f' => if n <? 128 then [n] else (n mod 128 + 128) :: uvarint_enc f' (n / 128)
  end.

(* one literal element holding 1..60 bytes *)
Definition sn_lit_elem (x : bytes) : bytes := (4 * (N.of_nat (length x) - 1)) :: x.

Definition sn_literal_stream (chunks : list bytes) : bytes :=
  uvarint_enc 4 (N.of_nat (length (concat chunks))) ++ concat (map sn_lit_elem chunks).
