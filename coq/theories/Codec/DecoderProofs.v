(** C20 — facts about the format decoders of Codec/Snappy.v and Codec/Lz4.v
    that can be proved outright (no hypotheses): the decoders are total
    functions (Coq), what they return has the declared / permitted length, and
    they invert the literal-only encoders (what a compressor emits for
    incompressible input).  The round trip through the third-party ENCODERS is
    not claimed: the extracted decoders are run on Go's Encode output instead. *)
From Coq Require Import List NArith Bool Arith Lia.
From PQ Require Import Codec.Model Codec.Snappy Codec.Lz4 Codec.Proofs.
Import ListNotations.
Local Open Scope N_scope.

Lemma rev'_length : forall (l : bytes), length (rev' l) = length l.
Proof. intros l. unfold rev'. rewrite rev_append_rev, app_nil_r. apply rev_length. Qed.

(** ---- snappy ------------------------------------------------------------ *)

(** the output has exactly the length declared by the preamble, or the
    decoder reports corruption *)
Theorem snappy_decode_length : forall s x,
  snappy_decode s = Some x -> snappy_declared_len s = Some (N.of_nat (length x)).
Proof.
  intros s x. unfold snappy_decode, snappy_declared_len.
  destruct (uvarint 5 s 1 0) as [[dlen body]|]; [|discriminate].
  destruct (dlen <=? sn_max_len); [|discriminate].
  destruct (sn_elems (S (length body)) body []) as [o|]; [|discriminate].
  destruct (N.of_nat (length o) =? dlen) eqn:E; [|discriminate].
  intros H; inversion H; subst. rewrite rev'_length.
  apply N.eqb_eq in E. rewrite E. reflexivity.
Qed.

Lemma pow128_pos : forall f, 0 < 128 ^ N.of_nat f.
Proof. intros f. apply N.neq_0_lt_0. apply N.pow_nonzero. discriminate. Qed.

Lemma uvarint_cons : forall f b r mult acc,
  uvarint (S f) (b :: r) mult acc =
  if b <? 128 then Some (acc + (b mod 128) * mult, r)
  else uvarint f r (mult * 128) (acc + (b mod 128) * mult).
Proof. reflexivity. Qed.

Lemma uvarint_roundtrip : forall f n mult acc rest,
  n < 128 ^ N.of_nat (S f) ->
  uvarint (S f) (uvarint_enc f n ++ rest) mult acc = Some (acc + n * mult, rest).
Proof.
  induction f as [|f IH]; intros n mult acc rest Hn.
  - change (128 ^ N.of_nat 1) with 128 in Hn. simpl uvarint_enc. simpl app.
    rewrite uvarint_cons. rewrite N.mod_mod by discriminate.
    rewrite (N.mod_small n 128) by lia.
    assert (E : (n <? 128) = true) by (apply N.ltb_lt; lia). rewrite E. reflexivity.
  - simpl uvarint_enc. destruct (n <? 128) eqn:E.
    + apply N.ltb_lt in E. simpl app. rewrite uvarint_cons.
      rewrite (N.mod_small n 128) by lia.
      assert (E' : (n <? 128) = true) by (apply N.ltb_lt; lia). rewrite E'. reflexivity.
    + apply N.ltb_ge in E. simpl app. rewrite uvarint_cons.
      assert (Hm : (n mod 128 + 128) mod 128 = n mod 128).
      { replace (n mod 128 + 128) with (n mod 128 + 1 * 128) by lia.
        rewrite N.mod_add by discriminate. apply N.mod_mod. discriminate. }
      rewrite Hm.
      assert (E' : (n mod 128 + 128 <? 128) = false) by (apply N.ltb_ge; apply N.le_add_l). rewrite E'.
      rewrite IH.
      * f_equal. f_equal. pose proof (N.div_mod n 128 ltac:(discriminate)). nia.
      * rewrite Nat2N.inj_succ, N.pow_succ_r' in Hn.
        apply N.div_lt_upper_bound; [discriminate|]. lia.
Qed.

Lemma firstn_app_exact : forall A (a b : list A), firstn (length a) (a ++ b) = a.
Proof.
  intros. rewrite firstn_app, Nat.sub_diag, firstn_all. simpl. apply app_nil_r.
Qed.

Lemma skipn_app_exact : forall A (a b : list A), skipn (length a) (a ++ b) = b.
Proof.
  intros. rewrite skipn_app, Nat.sub_diag, skipn_all. reflexivity.
Qed.

Definition lit_chunk_ok (c : bytes) : Prop := (1 <= length c <= 60)%nat.

(** a run of literal elements appends the literals to the output *)
Lemma sn_elems_literals : forall chunks f out_rev,
  Forall lit_chunk_ok chunks ->
  (length (concat (map sn_lit_elem chunks)) < f)%nat ->
  sn_elems f (concat (map sn_lit_elem chunks)) out_rev = Some (rev (concat chunks) ++ out_rev).
Proof.
  induction chunks as [|c chunks IH]; intros f out_rev HF Hf.
  - destruct f; [simpl in Hf; lia|]. reflexivity.
  - inversion HF as [|? ? Hc HF']; subst. unfold lit_chunk_ok in Hc.
    destruct f; [lia|].
    cbn [map concat]. unfold sn_lit_elem at 1. cbn [app].
    cbn [sn_elems].
    set (l := N.of_nat (length c)).
    assert (Hl : 1 <= l <= 60) by (unfold l; lia).
    assert (E1 : (4 * (l - 1)) mod 4 = 0).
    { rewrite N.mul_comm. apply N.mod_mul. discriminate. }
    assert (E2 : (4 * (l - 1)) / 4 = l - 1).
    { rewrite N.mul_comm. apply N.div_mul. discriminate. }
    rewrite E1, E2. simpl (0 =? 0).  cbv iota.
    assert (E3 : (l - 1 <? 60) = true) by (apply N.ltb_lt; lia). rewrite E3.
    replace (l - 1 + 1) with l by lia.
    assert (E4 : (l <=? sn_max_len) = true) by (apply N.leb_le; unfold sn_max_len; lia). rewrite E4.
    unfold l. rewrite Nat2N.id.
    rewrite firstn_app_exact, skipn_app_exact, Nat.eqb_refl.
    rewrite IH; auto.
    + rewrite rev_append_rev, rev_app_distr, <- app_assoc. reflexivity.
    + simpl in Hf. rewrite app_length in Hf. lia.
Qed.

(** decoding a stream made only of literal elements returns the input *)
Theorem snappy_literal_roundtrip : forall chunks,
  Forall lit_chunk_ok chunks ->
  N.of_nat (length (concat chunks)) < 4294967296 ->
  snappy_decode (sn_literal_stream chunks) = Some (concat chunks).
Proof.
  intros chunks HF Hn. unfold snappy_decode, sn_literal_stream.
  rewrite (uvarint_roundtrip 4); [|change (128 ^ N.of_nat 5) with 34359738368; lia].
  rewrite N.mul_1_r, N.add_0_l.
  assert (E : (N.of_nat (length (concat chunks)) <=? sn_max_len) = true)
    by (apply N.leb_le; unfold sn_max_len; lia).
  rewrite E.
  rewrite sn_elems_literals; auto.
  rewrite app_nil_r, rev_length, N.eqb_refl.
  unfold rev'. rewrite rev_append_rev, app_nil_r, rev_involutive. reflexivity.
Qed.

(** a copy with offset 1 repeats the last byte (run-length) *)
Lemma copy_back_rle : forall len f b out,
  (len < f)%nat -> copy_back f 1 len (b :: out) = Some (repeat b len ++ b :: out).
Proof.
  induction len as [|len IH]; intros f b out Hf.
  - destruct f; [lia|]. reflexivity.
  - destruct f; [lia|]. cbn [copy_back].
    replace (Nat.min (S len) 1) with 1%nat by lia.
    simpl (1 - 1)%nat. simpl skipn. simpl firstn. simpl length. simpl.
    replace (len - 0)%nat with len by lia.
    rewrite IH by lia.
    f_equal. cbn [repeat]. rewrite app_comm_cons, (repeat_cons len b), <- app_assoc. reflexivity.
Qed.

(** ---- LZ4 --------------------------------------------------------------- *)

(** the output never exceeds the destination size, or the decoder errors *)
Theorem lz4_decode_bounded : forall max_out s x,
  lz4_decode max_out s = Some x -> N.of_nat (length x) <= max_out.
Proof.
  intros max_out s x. unfold lz4_decode.
  destruct (lz4_seqs (S (length s)) s [] 0 max_out) as [o|]; [|discriminate].
  destruct (N.of_nat (length o) <=? max_out) eqn:E; [|discriminate].
  intros H; inversion H; subst. rewrite rev'_length. apply N.leb_le; auto.
Qed.

Lemma lz4_ext_roundtrip : forall f n acc rest g,
  n < 255 * N.of_nat (S f) -> (length (lz4_ext_enc f n) <= g)%nat ->
  lz4_ext g (lz4_ext_enc f n ++ rest) acc = Some (acc + n, rest).
Proof.
  induction f as [|f IH]; intros n acc rest g Hn Hg.
  - simpl in *. destruct g; [lia|]. simpl.
    assert (E : (n =? 255) = false) by (apply N.eqb_neq; lia). rewrite E. reflexivity.
  - cbn [lz4_ext_enc] in *. destruct (n <? 255) eqn:E.
    + apply N.ltb_lt in E. simpl in *. destruct g; [lia|]. simpl.
      assert (E' : (n =? 255) = false) by (apply N.eqb_neq; lia). rewrite E'. reflexivity.
    + apply N.ltb_ge in E. simpl in Hg. destruct g; [lia|]. simpl app. cbn [lz4_ext].
      simpl (255 =? 255). cbv iota.
      rewrite IH; [f_equal; f_equal; lia | lia | lia].
Qed.

(** a block made of one literals-only sequence decodes to its literals *)
Theorem lz4_literal_roundtrip : forall x max_out,
  N.of_nat (length x) <= max_out ->
  lz4_decode max_out (lz4_literal_block x) = Some x.
Proof.
  intros x max_out Hm.
  assert (Hfin : forall (o : bytes), o = rev_append x [] ->
            (if N.of_nat (length o) <=? max_out then Some (rev' o) else None) = Some x).
  { intros o Ho. subst o. rewrite rev_append_rev, app_nil_r, rev_length.
    assert (E : (N.of_nat (length x) <=? max_out) = true) by (apply N.leb_le; auto).
    rewrite E. unfold rev'. rewrite rev_append_rev, app_nil_r, rev_involutive. reflexivity. }
  unfold lz4_decode, lz4_literal_block.
  set (l := N.of_nat (length x)) in *.
  destruct (l <? 15) eqn:E.
  - apply N.ltb_lt in E.
    cbn [lz4_seqs].
    assert (E1 : 16 * l / 16 = l) by (rewrite N.mul_comm; apply N.div_mul; discriminate).
    rewrite E1. unfold lz4_len.
    assert (E2 : (l =? 15) = false) by (apply N.eqb_neq; lia). rewrite E2.
    assert (E3 : (0 + l <=? max_out) = true) by (apply N.leb_le; lia). rewrite E3.
    unfold l. rewrite Nat2N.id, firstn_all, Nat.eqb_refl, skipn_all.
    apply Hfin. reflexivity.
  - apply N.ltb_ge in E.
    cbn [lz4_seqs].
    change (240 / 16) with 15. unfold lz4_len. simpl (15 =? 15). cbv iota.
    rewrite lz4_ext_roundtrip.
    + replace (15 + (l - 15)) with l by lia.
      assert (E3 : (0 + l <=? max_out) = true) by (apply N.leb_le; lia). rewrite E3.
      unfold l. rewrite Nat2N.id, firstn_all, Nat.eqb_refl, skipn_all.
      apply Hfin. reflexivity.
    + unfold l. lia.
    + rewrite app_length. lia.
Qed.

(** the wrapper loop of lz4.Codec.Decode around this decoder ends for every
    input and every dst capacity (instance of [lz4_retry_terminates]) *)
Theorem lz4_codec_decode_loop_total : forall dst_cap s,
  let src_len := N.of_nat (length s) in
  lz4_retry (lz4_fuel src_len)
    (fun n => match lz4_decode n s with Some x => Some (N.of_nat (length x)) | None => None end)
    src_len (lz4_reserve dst_cap src_len) <> LzHang.
Proof. intros. apply lz4_retry_terminates. Qed.
