(** C20 — a concrete instance of the abstract streams of Codec/Model.v that
    satisfies every contract hypothesis of Codec/Proofs.v (non-vacuity): the
    "magic byte" codec.  A compressed stream is the byte 31 followed by the
    data; the reader parses the magic byte when it is constructed or reset and
    FAILS on anything else (like gzip on a bad header); Reset(nil) loads the
    empty stream; Read hands out the data in pieces of the requested size.
    A stream with header 30 ends in a Read error that leaves the reader broken
    although its Reset returns nil (like brotli); after a stream with header 29
    Reset(nil) FAILS and leaves the reader broken.  A broken reader would deliver
    garbage if it were re-used: the ghost predicate [mg_ok] = "not broken" is a
    non-trivial invariant, the wrapper must put neither back. *)
From Coq Require Import List NArith Bool Arith Lia.
From PQ Require Import Codec.Model Codec.Proofs.
Import ListNotations.
Local Open Scope N_scope.

(* remaining data, "the stream ends in a Read error", "Reset(nil) after this
   stream fails", "broken" (nothing is guaranteed any more) *)
Record mg_R : Type := mk_mg { mg_rem : bytes; mg_bad_end : bool; mg_sticky : bool; mg_broken : bool }.

(* header 31: good stream.
   header 30: the payload is delivered, then the last Read reports an error and
              the reader is broken from then on although its Reset returns nil
              (like brotli after "excessive input").
   header 29: the payload is delivered and the stream ends cleanly, but the
              Reset(nil) that follows FAILS and leaves the reader broken.
   anything else: the constructor / Reset(src) fails. *)
Definition mg_new (src : bytes) : mg_R * bool :=
  match src with
  | 31 :: r => (mk_mg r false false false, false)
  | 30 :: r => (mk_mg r true false false, false)
  | 29 :: r => (mk_mg r false true false, false)
  | _ => (mk_mg [] false false false, true)
  end.

(* a broken reader accepts every Reset but then delivers garbage ("BRK") *)
Definition mg_reset (s : mg_R) (o : option bytes) : mg_R * bool :=
  if mg_broken s then
    match o with
    | Some _ => (mk_mg [66; 82; 75] false false true, false)
    | None => (s, false)
    end
  else
    match o with
    | Some src => mg_new src
    | None => if mg_sticky s then (mk_mg [] false false true, true)
              else (mk_mg [] false false false, false)
    end.

Definition mg_read (s : mg_R) (n : nat) : (bytes * rstatus) * mg_R :=
  let c := firstn n (mg_rem s) in
  let rest := skipn n (mg_rem s) in
  let st := match rest with
            | [] => if mg_bad_end s then Err else Eof
            | _ => More
            end in
  ((c, st), mk_mg rest (mg_bad_end s) (mg_sticky s)
              (match st with Err => true | _ => mg_broken s end)).

Definition mg_ok (s : mg_R) : Prop := mg_broken s = false.

Definition mg_W : Type := unit.
Definition mg_wnew : mg_W * bool := (tt, false).
Definition mg_wreset (w : mg_W) (b : bool) : mg_W := tt.
Definition mg_write (w : mg_W) (src : bytes) : (bytes * bool) * mg_W := ((31 :: src, false), tt).
Definition mg_close (w : mg_W) : (bytes * bool) * mg_W := (([], false), tt).
Definition mg_enc (x : bytes) : bytes := 31 :: x.

Definition mg_step (fuel : nat) :=
  step mg_R mg_new mg_reset mg_read mg_W mg_wnew mg_wreset mg_write mg_close fuel.
Definition mg_outcomes (fuel : nat) :=
  outcomes mg_R mg_new mg_reset mg_read mg_W mg_wnew mg_wreset mg_write mg_close fuel
    (init mg_R mg_W).

Lemma mg_yields : forall k s e b, (length s < k)%nat -> yields mg_R mg_read k (mk_mg s false e b) s.
Proof.
  induction k as [|k IH]; intros s e0 b0 Hk; [lia|].
  simpl. intros n Hn. split; [apply firstn_le_length|].
  destruct (skipn n s) as [|b t] eqn:E.
  - assert (Hl : (length (skipn n s) = 0)%nat) by (rewrite E; reflexivity).
    rewrite skipn_length in Hl. apply firstn_all2. lia.
  - assert (Hl : (length (skipn n s) = S (length t))%nat) by (rewrite E; reflexivity).
    rewrite skipn_length in Hl.
    split.
    + destruct s; [simpl in Hl; lia|]. destruct n; [lia|]. discriminate.
    + exists (b :: t). split.
      * rewrite <- E. symmetry. apply firstn_skipn.
      * apply IH. simpl. lia.
Qed.

Lemma mg_new_ok : forall src, snd (mg_new src) = false -> mg_ok (fst (mg_new src)).
Proof. intros [|[|p] r]; try reflexivity. do 5 (destruct p; try reflexivity). Qed.

Lemma mg_reset_ok : forall s o, mg_ok s -> snd (mg_reset s o) = false -> mg_ok (fst (mg_reset s o)).
Proof.
  intros s o H. unfold mg_reset. unfold mg_ok in H. rewrite H.
  destruct o as [src|]; [apply mg_new_ok|].
  destruct (mg_sticky s); [discriminate|reflexivity].
Qed.

Lemma mg_read_ok : forall s n, mg_ok s -> snd (fst (mg_read s n)) <> Err -> mg_ok (snd (mg_read s n)).
Proof.
  intros s n H. unfold mg_read, mg_ok in *. simpl.
  destruct (skipn n (mg_rem s)); [destruct (mg_bad_end s)|]; simpl; congruence.
Qed.

Lemma mg_reset_fresh : forall s src, mg_ok s ->
  snd (mg_reset s (Some src)) = snd (mg_new src) /\
  (snd (mg_new src) = false -> obs_eq mg_R mg_read (fst (mg_reset s (Some src))) (fst (mg_new src))).
Proof.
  intros s src H. unfold mg_reset. unfold mg_ok in H. rewrite H.
  split; [reflexivity|]. intros _ ns. reflexivity.
Qed.

Lemma mg_wreset_fresh : forall (w : mg_W) out0 src, True -> snd mg_wnew = false ->
  fst (wrun mg_W mg_write mg_close (mg_wreset w true) out0 src) =
  fst (wrun mg_W mg_write mg_close (fst mg_wnew) out0 src).
Proof. intros. reflexivity. Qed.

Lemma mg_enc_spec : forall x, snd mg_wnew = false /\
  fst (wrun mg_W mg_write mg_close (fst mg_wnew) [] x) = (mg_enc x, false).
Proof. intros x. split; [reflexivity|]. unfold wrun. simpl. rewrite app_nil_r. reflexivity. Qed.

Lemma mg_dec_spec : forall x, snd (mg_new (mg_enc x)) = false /\
  yields mg_R mg_read (S (length x)) (fst (mg_new (mg_enc x))) x.
Proof. intros x. split; [reflexivity|]. apply mg_yields. lia. Qed.

(** the general theorems instantiated: no hypothesis is left *)
Theorem mg_history_independent : forall fuel h ev,
  fst (mg_step fuel (run_history mg_R mg_new mg_reset mg_read mg_W mg_wnew mg_wreset mg_write mg_close fuel (init mg_R mg_W) h) ev) =
  fresh_result mg_R mg_new mg_reset mg_read mg_W mg_wnew mg_wreset mg_write mg_close fuel (ev_no_pick ev).
Proof.
  intros fuel. unfold mg_step.
  apply (history_independent mg_R mg_new mg_reset mg_read mg_W mg_wnew mg_wreset mg_write mg_close fuel
           mg_ok (fun _ => True));
    auto using mg_new_ok, mg_reset_ok, mg_read_ok, mg_reset_fresh, mg_wreset_fresh.
Qed.

Theorem mg_roundtrip : forall fuel h1 h2 p1 p2 dst1 dst2 x, (length x < fuel)%nat ->
  let run := run_history mg_R mg_new mg_reset mg_read mg_W mg_wnew mg_wreset mg_write mg_close fuel (init mg_R mg_W) in
  fst (mg_step fuel (run h1) (EvEncode p1 dst1 x)) = Done (mg_enc x) false /\
  fst (mg_step fuel (run h2) (EvDecode p2 dst2 (mg_enc x))) = Done x false.
Proof.
  intros fuel h1 h2 p1 p2 dst1 dst2 x Hf. unfold mg_step.
  apply (roundtrip_after_any_history mg_R mg_new mg_reset mg_read mg_W mg_wnew mg_wreset mg_write mg_close fuel
           mg_ok (fun _ => True));
    auto using mg_new_ok, mg_reset_ok, mg_read_ok, mg_reset_fresh, mg_wreset_fresh, mg_enc_spec, mg_dec_spec;
    discriminate.
Qed.
