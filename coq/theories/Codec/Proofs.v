(** C20 — proofs about the pooled wrappers (Codec/Model.v).

    HYPOTHESES-AS-CONTRACT (Section variables / hypotheses of [Contract]; they
    describe the third-party stream objects and are NOT proved here, the
    differential runs of harness/c20 are their only validation):

      r_ok / w_ok           a ghost predicate "this stream object is usable"
      Hr_new_ok             a reader whose constructor succeeded is usable
      Hr_reset_ok           Reset (to an input or to nil) of a usable reader that
                            returns no error leaves it usable
                            (NOTHING is assumed about a reader whose Reset failed)
      Hr_read_ok            a Read that reports no error (data or EOF) keeps a reader
                            usable (NOTHING is assumed about a reader after a Read
                            that reported an error: brotli keeps unconsumed input of
                            the failed stream across Reset)
      Hr_reset_fresh        Reset(src) of a usable reader fails exactly when the
                            constructor fails on src and otherwise yields a reader
                            observationally equal to a freshly constructed one (same
                            answers to every sequence of Read sizes), WHATEVER the
                            reader processed before
      Hw_new_ok, Hw_reset_ok, Hw_write_ok, Hw_close_ok, Hw_reset_fresh
                            the same for writers (Reset has no error)
    and for the round trip ([Roundtrip]):
      Hw_enc                a fresh writer emits [enc x] without error
      Hr_dec                a fresh reader on [enc x] yields [x] ([yields]: every Read
                            with room returns at least one byte or ends)
      enc_nonempty          a compressed stream is never empty *)
From Coq Require Import List NArith Bool Arith Lia.
From PQ Require Import Codec.Model.
Import ListNotations.

(** ---- pool_get --------------------------------------------------------- *)
Lemma remove_nth_Forall : forall A (P : A -> Prop) i l, Forall P l -> Forall P (remove_nth i l).
Proof.
  intros A P i l H. revert i. induction H; intros [|i]; simpl; auto.
Qed.

Lemma pool_get_Forall : forall A (P : A -> Prop) pool pick x rest,
  Forall P pool -> pool_get pool pick = Some (x, rest) -> P x /\ Forall P rest.
Proof.
  intros A P pool pick x rest HF HG. unfold pool_get in HG.
  destruct pick as [i|]; [|discriminate].
  destruct pool as [|a l]; [discriminate|].
  remember (a :: l) as p.
  destruct (nth_error p (i mod length p)) eqn:E; [|discriminate].
  inversion HG; subst x rest. split.
  - apply nth_error_In in E. rewrite Forall_forall in HF. auto.
  - apply remove_nth_Forall; auto.
Qed.

Lemma pool_get_nil : forall A pick, @pool_get A [] pick = None.
Proof. intros A [i|]; reflexivity. Qed.

Section Contract.
  Variable R : Type.
  Variable rd_new : bytes -> R * bool.
  Variable rd_reset : R -> option bytes -> R * bool.
  Variable rd_read : R -> nat -> (bytes * rstatus) * R.
  Variable W : Type.
  Variable wr_new : W * bool.
  Variable wr_reset : W -> bool -> W.
  Variable wr_write : W -> bytes -> (bytes * bool) * W.
  Variable wr_close : W -> (bytes * bool) * W.
  Variable fuel : nat.

  Notation grow_loop := (grow_loop R rd_read).
  Notation decode := (decode R rd_new rd_reset rd_read fuel).
  Notation encode := (encode W wr_new wr_reset wr_write wr_close).
  Notation wrun := (wrun W wr_write wr_close).
  Notation step := (step R rd_new rd_reset rd_read W wr_new wr_reset wr_write wr_close fuel).
  Notation run_history := (run_history R rd_new rd_reset rd_read W wr_new wr_reset wr_write wr_close fuel).
  Notation fresh_result := (fresh_result R rd_new rd_reset rd_read W wr_new wr_reset wr_write wr_close fuel).
  Notation init := (init R W).

  (** what a reader answers to a sequence of Read calls with the given buffer sizes *)
  Fixpoint reads (s : R) (ns : list nat) : list (bytes * rstatus) :=
    match ns with
    | [] => []
    | n :: t => fst (rd_read s n) :: reads (snd (rd_read s n)) t
    end.

  Definition obs_eq (s1 s2 : R) : Prop := forall ns, reads s1 ns = reads s2 ns.

  Lemma obs_eq_step : forall s1 s2 n, obs_eq s1 s2 ->
    fst (rd_read s1 n) = fst (rd_read s2 n) /\ obs_eq (snd (rd_read s1 n)) (snd (rd_read s2 n)).
  Proof.
    intros s1 s2 n H. split.
    - specialize (H [n]). simpl in H. inversion H; auto.
    - intros ns. specialize (H (n :: ns)). simpl in H. inversion H; auto.
  Qed.

  (** the growth loop only observes the reader through its answers *)
  Lemma grow_loop_obs_eq : forall f s1 s2 dst cap, obs_eq s1 s2 ->
    fst (fst (grow_loop f s1 dst cap)) = fst (fst (grow_loop f s2 dst cap)) /\
    snd (grow_loop f s1 dst cap) = snd (grow_loop f s2 dst cap).
  Proof.
    induction f as [|f IH]; intros s1 s2 dst cap H; simpl; [auto|].
    destruct (obs_eq_step s1 s2 (cap - length dst) H) as [H1 H2].
    destruct (rd_read s1 (cap - length dst)) as [[c1 st1] s1'].
    destruct (rd_read s2 (cap - length dst)) as [[c2 st2] s2'].
    simpl in H1, H2. inversion H1; subst c2 st2.
    destruct st1; simpl; auto.
    specialize (IH s1' s2' (dst ++ c1)
                  (if Nat.eqb (length (dst ++ c1)) cap then 2 * length (dst ++ c1) else cap) H2).
    destruct (grow_loop f s1' _ _) as [[o1 r1] cs1].
    destruct (grow_loop f s2' _ _) as [[o2 r2] cs2].
    simpl in *. destruct IH as [Ha Hb]. subst. auto.
  Qed.

  (** the doubling loop returns exactly dst followed by the chunks read, in order *)
  Lemma grow_loop_chunks : forall f s dst cap out e,
    fst (fst (grow_loop f s dst cap)) = Done out e ->
    out = dst ++ concat (snd (grow_loop f s dst cap)).
  Proof.
    induction f as [|f IH]; intros s dst cap out e; simpl; [discriminate|].
    destruct (rd_read s (cap - length dst)) as [[c st] s1].
    destruct st; simpl.
    - specialize (IH s1 (dst ++ c)
                    (if Nat.eqb (length (dst ++ c)) cap then 2 * length (dst ++ c) else cap) out e).
      destruct (grow_loop f s1 _ _) as [[o r] cs]. simpl in *.
      intros H. rewrite (IH H). rewrite app_assoc. reflexivity.
    - intros H; inversion H. rewrite app_nil_r. reflexivity.
    - intros H; inversion H. rewrite app_nil_r. reflexivity.
  Qed.

  (** a reader that delivers [y]: every Read with room returns a non-empty
      piece of what is left, or the rest together with EOF; never an error.
      The index bounds the number of Read calls. *)
  Fixpoint yields (k : nat) (s : R) (y : bytes) : Prop :=
    match k with
    | O => False
    | S k' => forall n, (0 < n)%nat ->
        let '((c, st), s') := rd_read s n in
        (length c <= n)%nat /\
        match st with
        | More => c <> [] /\ exists y', y = c ++ y' /\ yields k' s' y'
        | Eof => c = y
        | Err => False
        end
    end.

  Lemma grow_loop_yields : forall k f s y dst cap,
    yields k s y -> (k <= f)%nat -> (length dst < cap)%nat ->
    fst (fst (grow_loop f s dst cap)) = Done (dst ++ y) false.
  Proof.
    induction k as [|k IH]; intros f s y dst cap HY Hf Hc; [destruct HY|].
    destruct f as [|f]; [lia|]. simpl.
    specialize (HY (cap - length dst) ltac:(lia)).
    destruct (rd_read s (cap - length dst)) as [[c st] s1].
    destruct HY as [Hlen HY]. destruct st.
    - destruct HY as [Hne [y' [Hy HY']]]. subst y.
      assert (Hpos : (0 < length c)%nat) by (destruct c; [congruence|simpl; lia]).
      assert (Hl : length (dst ++ c) = (length dst + length c)%nat) by apply app_length.
      specialize (IH f s1 y' (dst ++ c)
                    (if Nat.eqb (length (dst ++ c)) cap then 2 * length (dst ++ c) else cap) HY' ltac:(lia)).
      assert (Hc' : (length (dst ++ c) < (if Nat.eqb (length (dst ++ c)) cap then 2 * length (dst ++ c) else cap))%nat).
      { destruct (Nat.eqb (length (dst ++ c)) cap) eqn:E.
        - lia.
        - apply Nat.eqb_neq in E. lia. }
      specialize (IH Hc').
      destruct (grow_loop f s1 _ _) as [[o r] cs]. simpl in *.
      rewrite IH. rewrite app_assoc. reflexivity.
    - subst c. reflexivity.
    - destruct HY.
  Qed.

  (** termination: a reader that makes progress (each Read with room returns a
      byte or stops) and holds at most [k-1] more bytes ends the loop within k
      iterations — stated through [yields] above; the loop itself is total. *)

  (** ---- the contract --------------------------------------------------- *)
  Variable r_ok : R -> Prop.
  Variable w_ok : W -> Prop.
  Hypothesis Hr_new_ok : forall src, snd (rd_new src) = false -> r_ok (fst (rd_new src)).
  Hypothesis Hr_reset_ok : forall s o, r_ok s -> snd (rd_reset s o) = false -> r_ok (fst (rd_reset s o)).
  Hypothesis Hr_read_ok : forall s n, r_ok s -> snd (fst (rd_read s n)) <> Err -> r_ok (snd (rd_read s n)).
  Hypothesis Hr_reset_fresh : forall s src, r_ok s ->
    snd (rd_reset s (Some src)) = snd (rd_new src) /\
    (snd (rd_new src) = false -> obs_eq (fst (rd_reset s (Some src))) (fst (rd_new src))).
  Hypothesis Hw_new_ok : snd wr_new = false -> w_ok (fst wr_new).
  Hypothesis Hw_reset_ok : forall w b, w_ok w -> w_ok (wr_reset w b).
  Hypothesis Hw_write_ok : forall w src, w_ok w -> w_ok (snd (wr_write w src)).
  Hypothesis Hw_close_ok : forall w, w_ok w -> w_ok (snd (wr_close w)).
  Hypothesis Hw_reset_fresh : forall w out0 src, w_ok w -> snd wr_new = false ->
    fst (wrun (wr_reset w true) out0 src) = fst (wrun (fst wr_new) out0 src).

  (** the invariant: every pooled object is usable (it was put back after a
      successful reset), and a codec whose writer constructor fails has no
      pooled writer *)
  Definition inv (st : cstate R W) : Prop :=
    Forall r_ok (readers R W st) /\ Forall w_ok (writers R W st) /\
    (snd wr_new = true -> writers R W st = []).

  Lemma inv_init : inv init.
  Proof. repeat split; simpl; auto. Qed.

  Lemma grow_loop_ok : forall f s dst cap out, r_ok s ->
    fst (fst (grow_loop f s dst cap)) = Done out false ->
    r_ok (snd (fst (grow_loop f s dst cap))).
  Proof.
    induction f as [|f IH]; intros s dst cap out H; simpl; [discriminate|].
    pose proof (Hr_read_ok s (cap - length dst) H) as H1.
    destruct (rd_read s (cap - length dst)) as [[c st] s1]. simpl in H1.
    destruct st; simpl.
    - specialize (IH s1 (dst ++ c)
                    (if Nat.eqb (length (dst ++ c)) cap then 2 * length (dst ++ c) else cap) out
                    (H1 ltac:(discriminate))).
      destruct (grow_loop f s1 _ _) as [[o r] cs]. auto.
    - intros _. apply H1. discriminate.
    - discriminate.
  Qed.

  Lemma wrun_ok : forall w out0 src, w_ok w -> w_ok (snd (wrun w out0 src)).
  Proof.
    intros w out0 src H. unfold Model.wrun.
    pose proof (Hw_write_ok w src H) as H1.
    destruct (wr_write w src) as [[o1 e1] w1]. simpl in H1.
    destruct e1; simpl; auto.
    pose proof (Hw_close_ok w1 H1) as H2.
    destruct (wr_close w1) as [[o2 e2] w2]. auto.
  Qed.

  Lemma decode_run_fresh : forall r rn p1 p2 dst src, obs_eq r rn -> r_ok r ->
    fst (decode_run R rd_reset rd_read fuel r p1 dst src) =
    fst (decode_run R rd_reset rd_read fuel rn p2 dst src) /\
    (Forall r_ok p1 -> Forall r_ok (snd (decode_run R rd_reset rd_read fuel r p1 dst src))).
  Proof.
    intros r rn p1 p2 dst src Hobs Hok. unfold decode_run.
    set (cap := if Nat.eqb (length dst) 0 then 2 * length src else length dst).
    destruct (grow_loop_obs_eq fuel r rn (firstn 0 dst) cap Hobs) as [Ho _].
    pose proof (grow_loop_ok fuel r (firstn 0 dst) cap) as Hok1.
    destruct (grow_loop fuel r (firstn 0 dst) cap) as [[o r1] cs].
    destruct (grow_loop fuel rn (firstn 0 dst) cap) as [[o' r1'] cs'].
    simpl in Ho, Hok1. subst o'.
    destruct o as [out err|]; [|simpl; auto].
    destruct (rd_reset r1 None) as [r2 e2] eqn:E2. destruct (rd_reset r1' None) as [r2' e2'].
    simpl in *. split; auto. intros HF.
    destruct e2; simpl; auto. destruct err; simpl; auto.
    constructor; auto.
    specialize (Hok1 out Hok eq_refl).
    pose proof (Hr_reset_ok r1 None Hok1) as Hok2. rewrite E2 in Hok2. auto.
  Qed.

  Lemma obs_eq_refl : forall s, obs_eq s s.
  Proof. intros s ns. reflexivity. Qed.

  (** Decode on a pool of usable readers: same answer as on an empty pool, and
      the pool stays usable *)
  Lemma decode_fresh : forall pool pick dst src, Forall r_ok pool ->
    fst (decode pool pick dst src) = fst (decode [] None dst src) /\
    Forall r_ok (snd (decode pool pick dst src)).
  Proof.
    intros pool pick dst src HF. unfold Model.decode. simpl pool_get.
    destruct (pool_get pool pick) as [[r0 rest]|] eqn:EG.
    - destruct (pool_get_Forall _ _ _ _ _ _ HF EG) as [Hr0 Hrest].
      destruct (Hr_reset_fresh r0 src Hr0) as [He Hobs].
      pose proof (Hr_reset_ok r0 (Some src) Hr0) as Hok.
      rewrite He in *. destruct (snd (rd_new src)); [simpl; auto|].
      destruct (decode_run_fresh _ _ rest [] dst src (Hobs eq_refl) (Hok eq_refl)); auto.
    - pose proof (Hr_new_ok src) as Hok.
      destruct (snd (rd_new src)); [simpl; auto|].
      destruct (decode_run_fresh _ _ pool [] dst src (obs_eq_refl _) (Hok eq_refl)); auto.
  Qed.

  Lemma encode_run_ok : forall w p dst src, w_ok w -> Forall w_ok p ->
    Forall w_ok (snd (encode_run W wr_reset wr_write wr_close w p dst src)) /\
    snd (encode_run W wr_reset wr_write wr_close w p dst src) <> [].
  Proof.
    intros w p dst src Hw Hp. unfold encode_run.
    pose proof (wrun_ok w (firstn 0 dst) src Hw) as Hok.
    destruct (wrun w (firstn 0 dst) src) as [[out e] w1]. simpl in *.
    split; [constructor; auto | discriminate].
  Qed.

  Lemma encode_fresh : forall pool pick dst src, Forall w_ok pool ->
    (snd wr_new = true -> pool = []) ->
    fst (encode pool pick dst src) = fst (encode [] None dst src) /\
    Forall w_ok (snd (encode pool pick dst src)) /\
    (snd wr_new = true -> snd (encode pool pick dst src) = []).
  Proof.
    intros pool pick dst src HF HN. unfold Model.encode. simpl pool_get.
    destruct (pool_get pool pick) as [[w0 rest]|] eqn:EG.
    - destruct (pool_get_Forall _ _ _ _ _ _ HF EG) as [Hw0 Hrest].
      assert (Hnew : snd wr_new = false).
      { destruct (snd wr_new) eqn:E; auto. rewrite (HN eq_refl) in EG.
        rewrite pool_get_nil in EG. discriminate. }
      rewrite Hnew.
      destruct (encode_run_ok (wr_reset w0 true) rest dst src (Hw_reset_ok w0 true Hw0) Hrest) as [H1 H2].
      split; [|split; [auto | discriminate]].
      unfold encode_run.
      pose proof (Hw_reset_fresh w0 (firstn 0 dst) src Hw0 Hnew) as Hfr.
      destruct (wrun (wr_reset w0 true) (firstn 0 dst) src) as [[out e] w1].
      destruct (wrun (fst wr_new) (firstn 0 dst) src) as [[out' e'] w1'].
      simpl in *. inversion Hfr; subst. reflexivity.
    - destruct (snd wr_new) eqn:Hnew.
      + simpl. auto.
      + destruct (encode_run_ok (fst wr_new) pool dst src (Hw_new_ok eq_refl) HF) as [H1 H2].
        split; [|split; [auto | discriminate]].
        unfold encode_run. destruct (wrun (fst wr_new) (firstn 0 dst) src) as [[out e] w1]. reflexivity.
  Qed.

  Definition ev_no_pick (ev : event) : event :=
    match ev with
    | EvEncode _ dst src => EvEncode None dst src
    | EvDecode _ dst src => EvDecode None dst src
    | EvGc b i => EvGc b i
    end.

  Lemma step_inv : forall st ev, inv st ->
    fst (step st ev) = fst (step init (ev_no_pick ev)) /\ inv (snd (step st ev)).
  Proof.
    intros [rs ws] ev [HR [HW HN]]. simpl in HR, HW, HN.
    destruct ev as [pick dst src|pick dst src|[|] i]; simpl.
    - destruct (encode_fresh ws pick dst src HW HN) as [H1 [H2 H3]].
      destruct (encode ws pick dst src) as [o ws']. destruct (encode [] None dst src) as [o' ws''].
      simpl in *. subst. repeat split; auto.
    - destruct (decode_fresh rs pick dst src HR) as [H1 H2].
      destruct (decode rs pick dst src) as [o rs']. destruct (decode [] None dst src) as [o' rs''].
      simpl in *. subst. repeat split; auto.
    - repeat split; simpl; auto. apply remove_nth_Forall; auto.
    - repeat split; simpl; auto.
      + apply remove_nth_Forall; auto.
      + intros H. rewrite (HN H). destruct i; reflexivity.
  Qed.

  Lemma run_history_inv : forall h st, inv st -> inv (run_history st h).
  Proof.
    induction h as [|ev h IH]; intros st H; simpl; auto.
    apply IH. apply (step_inv st ev H).
  Qed.

  (** HISTORY INDEPENDENCE: after every history of Encode / Decode calls (valid
      or failing inputs, any dst, any choice of sync.Pool) and GC events, the
      next call answers what a fresh codec value answers. *)
  Theorem history_independent : forall h ev,
    fst (step (run_history init h) ev) = fresh_result (ev_no_pick ev).
  Proof.
    intros h ev. unfold Model.fresh_result.
    apply (step_inv _ ev (run_history_inv h init inv_init)).
  Qed.

  (** the contents of dst never reach the output: only its capacity matters *)
  Theorem dst_contents_irrelevant : forall h pick dst dst' src,
    length dst = length dst' ->
    fst (step (run_history init h) (EvDecode pick dst src)) =
    fst (step (run_history init h) (EvDecode pick dst' src)) /\
    fst (step (run_history init h) (EvEncode pick dst src)) =
    fst (step (run_history init h) (EvEncode pick dst' src)).
  Proof.
    intros h pick dst dst' src Hl. rewrite !history_independent.
    unfold ev_no_pick, Model.fresh_result, Model.step, Model.init. cbn [readers writers].
    unfold Model.decode, Model.encode, decode_run, encode_run. cbn [pool_get].
    change (firstn 0 dst) with (@nil N). change (firstn 0 dst') with (@nil N).
    rewrite Hl. split; reflexivity.
  Qed.

  (** ---- round trip under the codec contract ----------------------------- *)
  Section Roundtrip.
    Variable enc : bytes -> bytes.
    Hypothesis Hw_enc : forall x, snd wr_new = false /\
      fst (wrun (fst wr_new) [] x) = (enc x, false).
    Hypothesis Hr_dec : forall x, snd (rd_new (enc x)) = false /\
      yields (S (length x)) (fst (rd_new (enc x))) x.
    Hypothesis enc_nonempty : forall x, enc x <> [].

    Lemma fresh_encode : forall dst x, fresh_result (EvEncode None dst x) = Done (enc x) false.
    Proof.
      intros dst x. unfold Model.fresh_result, Model.step, Model.encode. simpl pool_get. cbv iota beta.
      destruct (Hw_enc x) as [Hn Hr]. rewrite Hn. unfold encode_run.
      change (firstn 0 dst) with (@nil N).
      destruct (wrun (fst wr_new) [] x) as [[out e] w1]. simpl in Hr. inversion Hr. reflexivity.
    Qed.

    Lemma fresh_decode : forall dst x, (length x < fuel)%nat ->
      fresh_result (EvDecode None dst (enc x)) = Done x false.
    Proof.
      intros dst x Hf. unfold Model.fresh_result, Model.step, Model.decode. simpl pool_get. cbv iota beta.
      destruct (Hr_dec x) as [Hn HY]. rewrite Hn. unfold decode_run.
      change (firstn 0 dst) with (@nil N).
      set (cap := if Nat.eqb (length dst) 0 then 2 * length (enc x) else length dst).
      assert (Hc : (length (@nil N) < cap)%nat).
      { unfold cap. destruct (Nat.eqb (length dst) 0) eqn:E.
        - pose proof (enc_nonempty x). destruct (enc x); [congruence|simpl; lia].
        - apply Nat.eqb_neq in E. simpl. lia. }
      pose proof (grow_loop_yields (S (length x)) fuel (fst (rd_new (enc x))) x [] cap HY ltac:(lia) Hc) as HG.
      destruct (grow_loop fuel (fst (rd_new (enc x))) [] cap) as [[o r1] cs]. simpl in HG. subst o.
      destruct (rd_reset r1 None) as [r2 e2]. reflexivity.
    Qed.

    (** Decode(Encode(x)) = x whatever happened on the codec value before the
        Encode, between the two calls, and whatever dst buffers are passed *)
    Theorem roundtrip_after_any_history : forall h1 h2 p1 p2 dst1 dst2 x,
      (length x < fuel)%nat ->
      fst (step (run_history init h1) (EvEncode p1 dst1 x)) = Done (enc x) false /\
      fst (step (run_history init h2) (EvDecode p2 dst2 (enc x))) = Done x false.
    Proof.
      intros. rewrite !history_independent. simpl. split.
      - apply fresh_encode.
      - apply fresh_decode; auto.
    Qed.
  End Roundtrip.
End Contract.

(** ---- zstd pools (no reset) ------------------------------------------- *)
Section ZstdContract.
  Variable ZS : Type.
  Variable z_new : ZS.
  Variable z_all : ZS -> bytes -> (bytes * bool) * ZS.
  Variable z_ok : ZS -> Prop.
  (* contract of EncodeAll / DecodeAll: stateless *)
  Hypothesis Hz_new : z_ok z_new.
  Hypothesis Hz_keep : forall z src, z_ok z -> z_ok (snd (z_all z src)).
  Hypothesis Hz_stateless : forall z src, z_ok z -> fst (z_all z src) = fst (z_all z_new src).

  Lemma zstd_call_fresh : forall pool pick dst src, Forall z_ok pool ->
    fst (zstd_call ZS z_new z_all pool pick dst src) = fst (zstd_call ZS z_new z_all [] None dst src) /\
    Forall z_ok (snd (zstd_call ZS z_new z_all pool pick dst src)).
  Proof.
    intros pool pick dst src HF. unfold zstd_call. simpl pool_get.
    destruct (pool_get pool pick) as [[z0 rest]|] eqn:EG.
    - destruct (pool_get_Forall _ _ _ _ _ _ HF EG) as [Hz Hrest].
      pose proof (Hz_stateless z0 src Hz) as Hs. pose proof (Hz_keep z0 src Hz) as Hk.
      destruct (z_all z0 src) as [[out e] z1]. destruct (z_all z_new src) as [[out' e'] z1'].
      simpl in *. inversion Hs; subst. auto.
    - pose proof (Hz_keep z_new src Hz_new) as Hk.
      destruct (z_all z_new src) as [[out e] z1]. simpl in *. auto.
  Qed.

  Theorem zstd_history_independent : forall h pick dst src,
    fst (zstd_call ZS z_new z_all (zstd_history ZS z_new z_all [] h) pick dst src) =
    fst (zstd_call ZS z_new z_all [] None dst src).
  Proof.
    intros h pick dst src.
    assert (H : forall h pool, Forall z_ok pool -> Forall z_ok (zstd_history ZS z_new z_all pool h)).
    { clear h. induction h as [|[[p d] s] h IH]; intros pool HF; simpl; auto.
      apply IH. apply zstd_call_fresh; auto. }
    apply zstd_call_fresh. apply H. constructor.
  Qed.
End ZstdContract.

(** ---- the retry loop of lz4.Codec.Decode ---------------------------------- *)
Local Open Scope N_scope.

Lemma lz4_retry_S : forall f ub src_len d,
  lz4_retry (S f) ub src_len d =
  match ub d with
  | Some n => LzOk n d
  | None => if 255 * src_len + 64 <? d then LzErr d
            else lz4_retry f ub src_len (N.max (2 * d) 64)
  end.
Proof. reflexivity. Qed.

Lemma lz4_retry_terminates_aux : forall f ub src_len d,
  64 <= d -> 255 * src_len + 64 < d * 2 ^ N.of_nat f ->
  lz4_retry (S f) ub src_len d <> LzHang.
Proof.
  induction f as [|f IH]; intros ub src_len d Hd Hb.
  - simpl in *. destruct (ub d); [discriminate|].
    replace (d * 1) with d in Hb by lia.
    apply N.ltb_lt in Hb. rewrite Hb. discriminate.
  - change (lz4_retry (S (S f)) ub src_len d) with
      (match ub d with
       | Some n => LzOk n d
       | None => if 255 * src_len + 64 <? d then LzErr d
                 else lz4_retry (S f) ub src_len (N.max (2 * d) 64)
       end).
    destruct (ub d); [discriminate|].
    destruct (255 * src_len + 64 <? d); [discriminate|].
    apply IH.
    + lia.
    + rewrite Nat2N.inj_succ, N.pow_succ_r' in Hb.
      replace (N.max (2 * d) 64) with (2 * d) by lia. lia.
Qed.

Lemma lz4_size_bound : forall x, x < 2 ^ N.size x.
Proof.
  intros x. destruct x as [|p]; [reflexivity|].
  apply N.size_gt.
Qed.

(** the repaired loop terminates for every input, every dst capacity and every
    behaviour of UncompressBlock: within [lz4_fuel] iterations it has either
    succeeded or passed the 255x bound and returned the error *)
Theorem lz4_retry_terminates : forall ub src_len dst_len,
  lz4_retry (lz4_fuel src_len) ub src_len dst_len <> LzHang.
Proof.
  intros ub src_len dst_len. unfold lz4_fuel.
  set (k := N.to_nat (N.size (255 * src_len + 64))).
  change (lz4_retry (S (S k)) ub src_len dst_len) with
    (match ub dst_len with
     | Some n => LzOk n dst_len
     | None => if 255 * src_len + 64 <? dst_len then LzErr dst_len
               else lz4_retry (S k) ub src_len (N.max (2 * dst_len) 64)
     end).
  destruct (ub dst_len); [discriminate|].
  destruct (255 * src_len + 64 <? dst_len); [discriminate|].
  apply lz4_retry_terminates_aux; [lia|].
  unfold k. rewrite N2Nat.id.
  pose proof (lz4_size_bound (255 * src_len + 64)).
  assert (0 < 2 ^ N.size (255 * src_len + 64)) by lia.
  nia.
Qed.

(** an error is only reported past the bound (a shorter buffer is retried), and
    the buffer never exceeds twice the bound plus the caller's own capacity *)
Theorem lz4_retry_err_bound : forall f ub src_len d d',
  lz4_retry f ub src_len d = LzErr d' -> 255 * src_len + 64 < d'.
Proof.
  induction f as [|f IH]; intros ub src_len d d' H; [discriminate|]. rewrite lz4_retry_S in H.
  destruct (ub d); [discriminate|].
  destruct (255 * src_len + 64 <? d) eqn:E.
  - inversion H; subst. apply N.ltb_lt; auto.
  - eapply IH; eauto.
Qed.

Theorem lz4_retry_alloc_bound : forall f ub src_len d,
  match lz4_retry f ub src_len d with
  | LzOk _ d' | LzErr d' => d' <= N.max d (2 * (255 * src_len + 64))
  | LzHang => True
  end.
Proof.
  induction f as [|f IH]; intros ub src_len d; [simpl; auto|]. rewrite lz4_retry_S.
  destruct (ub d); [lia|].
  destruct (255 * src_len + 64 <? d) eqn:E; [lia|].
  apply N.ltb_ge in E.
  specialize (IH ub src_len (N.max (2 * d) 64)).
  destruct (lz4_retry f ub src_len (N.max (2 * d) 64)); auto; lia.
Qed.

(** the loop before the repair never stops on a malformed block *)
Theorem lz4_retry_pinned_hangs : forall f src_len d,
  lz4_retry_pinned f (fun _ => None) src_len d = LzHang.
Proof.
  induction f as [|f IH]; intros; simpl; auto.
Qed.
