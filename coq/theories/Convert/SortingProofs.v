(** Rows sorted by a list of columns are sorted by every prefix of it; the
    sorting columns of a converted row group ([kept_prefix]) are such a prefix.
    Skipping a dropped column instead of stopping there is refuted. *)
From Coq Require Import List Bool Arith Lia.
From PQ Require Import Convert.Sorting.
Import ListNotations.

Section SortingProofs.
  Variable K R : Type.
  Variable cmp : K -> R -> R -> comparison.
  Notation lex := (lex K R cmp).
  Notation le_by := (le_by K R cmp).
  Notation sorted_by := (sorted_by K R cmp).

  Lemma lex_app p q a b :
    lex (p ++ q) a b = match lex p a b with Eq => lex q a b | c => c end.
  Proof. induction p as [|k p IH]; cbn; [reflexivity|]. destruct (cmp k a b); auto. Qed.

  Lemma le_by_prefix p q a b : le_by (p ++ q) a b = true -> le_by p a b = true.
  Proof. unfold Sorting.le_by. rewrite lex_app. destruct (lex p a b); auto. Qed.

  Lemma sorted_by_prefix p q : forall rows, sorted_by (p ++ q) rows = true -> sorted_by p rows = true.
  Proof.
    induction rows as [|a rows IH]; [reflexivity|]. destruct rows as [|b rest]; [reflexivity|].
    cbn [Sorting.sorted_by]. intros H. apply andb_true_iff in H. destruct H as [H1 H2].
    apply andb_true_iff. split; [now apply (le_by_prefix p q)|now apply IH].
  Qed.

  Lemma kept_prefix_is_prefix kept : forall ks, exists rest, ks = kept_prefix K kept ks ++ rest.
  Proof.
    induction ks as [|k ks [rest IH]]; [now exists []|]. cbn. destruct (kept k).
    - exists rest. cbn. now f_equal.
    - now exists (k :: ks).
  Qed.

  Lemma kept_prefix_kept kept : forall ks, forallb kept (kept_prefix K kept ks) = true.
  Proof. induction ks as [|k ks IH]; [reflexivity|]. cbn. destruct (kept k) eqn:E; [cbn; now rewrite E|reflexivity]. Qed.

  (* the declared sorting columns are true of the rows, and all of them are columns of the target *)
  Theorem converted_sorting_sound kept ks rows :
    sorted_by ks rows = true ->
    sorted_by (kept_prefix K kept ks) rows = true /\ forallb kept (kept_prefix K kept ks) = true.
  Proof.
    intros H. split; [|apply kept_prefix_kept].
    destruct (kept_prefix_is_prefix kept ks) as [rest E]. rewrite E in H.
    now apply sorted_by_prefix in H.
  Qed.

  (* nothing is lost when every sorting column is kept *)
  Lemma kept_prefix_all kept : forall ks, forallb kept ks = true -> kept_prefix K kept ks = ks.
  Proof.
    induction ks as [|k ks IH]; [reflexivity|]. cbn. intros H. apply andb_true_iff in H.
    destruct H as [-> H]. now rewrite IH.
  Qed.
End SortingProofs.

(** skipping a dropped column (filter) instead of stopping at it: rows sorted
    by (a, b) are not sorted by b *)
Definition sx_cmp (k : nat) (x y : nat * nat) : comparison :=
  match k with 0 => Nat.compare (fst x) (fst y) | _ => Nat.compare (snd x) (snd y) end.

Lemma skipping_dropped_columns_refuted :
  let rows := [(1, 9); (2, 1); (3, 5)] in
  let kept := fun k : nat => negb (Nat.eqb k 0) in
  sorted_by nat (nat * nat) sx_cmp [0; 1] rows = true /\
  filter kept [0; 1] = [1] /\
  sorted_by nat (nat * nat) sx_cmp (filter kept [0; 1]) rows = false /\
  kept_prefix nat kept [0; 1] = [].
Proof. vm_compute. repeat split; reflexivity. Qed.
