(** The converted columns are the shredding of the projected value. *)
From Coq Require Import List Arith Bool NArith Lia.
From PQ Require Import Dremel.Model Dremel.Proofs Convert.Model Convert.Lemmas.
Import ListNotations.

Section Proofs.
  Variable V : Type.
  Variable zero : N -> V.
  Notation value := (value V).
  Notation entry := (entry V).
  Notation column := (column V).
  Notation action := (action V).
  Notation run := (run V).
  Notation conv := (conv V).
  Notation plan := (plan V zero).
  Notation plan_fields := (plan_fields V zero).
  Notation fill_plan := (fill_plan V zero).
  Notation fill_action := (fill_action V).
  Notation fill_plan_fields := (fill_plan_fields V zero).
  Notation project := (project V zero).
  Notation project_fields := (project_fields V zero).
  Notation zero_val := (zero_val V zero).
  Notation zero_fields := (zero_fields V zero).
  Notation wfn := (wfn V).
  Notation wfn_fields := (wfn_fields V).

  (** ** schemas *)

  Lemma nlf_cons n r s fs : nlf (NCons n r s fs) = nl s + nlf fs.
  Proof. reflexivity. Qed.

  Lemma wf_erase : forall s, wf_nschema s -> wf_schema (erase s).
  Proof.
    apply (nschema_mut (fun s => wf_nschema s -> wf_schema (erase s))
                       (fun fs => wf_nfields fs -> wf_schema_fields (erase_fields fs))).
    - intros; exact I.
    - intros fs IH [Hp Hf]. split; [exact Hp|now apply IH].
    - intros; exact I.
    - intros n r s IHs fs IHf (_ & Hs & Hf). split; auto.
  Qed.

  Lemma wf_erase_fields fs : wf_nfields fs -> wf_schema_fields (erase_fields fs).
  Proof.
    induction fs as [|n r s fs IH]; [intros; exact I|]. intros (_ & Hs & Hf).
    split; [now apply wf_erase|now apply IH].
  Qed.

  Lemma nl_pos s : wf_nschema s -> 0 < nl s.
  Proof. destruct s; cbn; [lia|tauto]. Qed.

  Lemma find_field_acc n fs : forall off pos,
    find_field n fs off pos =
    match find_field n fs 0 0 with
    | Some (o, p, r, s) => Some (off + o, pos + p, r, s)
    | None => None
    end.
  Proof.
    induction fs as [|m r s fs IH]; intros off pos; cbn; [reflexivity|].
    destruct (N.eqb n m); [now rewrite !Nat.add_0_r|].
    rewrite (IH (off + nl s) (S pos)), (IH (nl s) 1).
    destruct (find_field n fs 0 0) as [[[[o p] r'] s']|]; [|reflexivity].
    f_equal. f_equal. f_equal. f_equal; lia.
  Qed.

  (** ** one field of a record *)

  Definition field_cols (rp : rep) (s : schema) (fv : value) (r d k : nat) : list column :=
    match rp, fv with
    | Req, v => shred s v r d k
    | Opt, VOpt None => nulls s r d
    | Opt, VOpt (Some v) => shred s v r (S d) k
    | Rpt, VList [] => nulls s r d
    | Rpt, VList (x :: l) =>
        fold_left zipapp (map (fun y => shred s y (S k) (S d) (S k)) l) (shred s x r (S d) (S k))
    | _, _ => []
    end.

  Definition field_wfn (n : nat) (rp : rep) (s : schema) (fv : value) : Prop :=
    match rp, fv with
    | Req, v => wfn n s v
    | Opt, VOpt None => True
    | Opt, VOpt (Some v) => wfn n s v
    | Rpt, VList l => length l <= n /\ Forall (wfn n s) l
    | _, _ => False
    end.

  Lemma fields_unfold n rp s fs fv vs r d k :
    wfn_fields n (FCons rp s fs) (fv :: vs) ->
    shred_fields (FCons rp s fs) (fv :: vs) r d k = field_cols rp s fv r d k ++ shred_fields fs vs r d k
    /\ field_wfn n rp s fv /\ wfn_fields n fs vs.
  Proof.
    intros H. destruct rp; cbn in H.
    - destruct H. repeat split; auto.
    - destruct fv as [| |[v|]|]; try contradiction; [destruct H|]; repeat split; auto.
    - destruct fv as [| | |l]; try contradiction. destruct H as [[Hn Hl] Hvs].
      destruct l; repeat split; auto.
  Qed.

  Lemma fold_zipapp_len (Ms : list (list column)) : forall A n,
    length A = n -> Forall (fun M => length M = n) Ms -> length (fold_left zipapp Ms A) = n.
  Proof. intros. now apply fold_zipapp_length. Qed.

  Lemma field_cols_length n rp s fv r d k :
    wf_schema s -> field_wfn n rp s fv -> length (field_cols rp s fv r d k) = nleaves s.
  Proof.
    intros Hs H. destruct rp; cbn in *.
    - apply shred_shape; auto. eapply wfn_wf; eauto.
    - destruct fv as [| |[v|]|]; try contradiction.
      + apply shred_shape; auto. eapply wfn_wf; eauto.
      + apply nulls_length.
    - destruct fv as [| | |l]; try contradiction. destruct H as [_ Hl]. destruct l as [|x l].
      + apply nulls_length.
      + inversion Hl as [|? ? Hx Hl']; subst. apply fold_zipapp_len.
        * apply shred_shape; auto. eapply wfn_wf; eauto.
        * apply Forall_forall. intros m Hm. apply in_map_iff in Hm. destruct Hm as (y & <- & Hy).
          apply shred_shape; auto. eapply wfn_wf. rewrite Forall_forall in Hl'. eauto.
  Qed.

  Lemma firstn_app_exact {A} (a b : list A) n : length a = n -> firstn n (a ++ b) = a.
  Proof. intros <-. rewrite firstn_app, Nat.sub_diag, firstn_all. cbn. apply app_nil_r. Qed.

  Lemma skipn_app_exact {A} (a b : list A) n m : length a = n -> skipn (n + m) (a ++ b) = skipn m b.
  Proof.
    intros <-. rewrite skipn_app. replace (length a + m - length a) with m by lia.
    rewrite skipn_all2 by lia. reflexivity.
  Qed.

  Lemma find_block nm n r d k : forall sfs vs off pos rp s,
    wf_nfields sfs -> wfn_fields n (erase_fields sfs) vs ->
    find_field nm sfs 0 0 = Some (off, pos, rp, s) ->
    exists fv, nth_error vs pos = Some fv /\ field_wfn n rp (erase s) fv /\
               firstn (nl s) (skipn off (shred_fields (erase_fields sfs) vs r d k))
               = field_cols rp (erase s) fv r d k /\
               off + nl s <= nlf sfs /\ wf_nschema s.
  Proof.
    induction sfs as [|m r0 s0 fs IH]; intros vs off pos rp s Hw Hv Hf; [discriminate|].
    destruct Hw as (_ & Hs0 & Hfs). cbn [erase_fields] in Hv.
    destruct vs as [|fv vs]; [destruct r0; contradiction|].
    destruct (fields_unfold _ _ _ _ _ _ r d k Hv) as (E & Hfv & Hvs).
    cbn [erase_fields]. rewrite E.
    pose proof (field_cols_length n r0 (erase s0) fv r d k (wf_erase _ Hs0) Hfv) as L.
    cbn [find_field] in Hf. destruct (N.eqb nm m).
    - inversion Hf; subst. exists fv. cbn [nth_error skipn]. repeat split; auto.
      + now apply firstn_app_exact.
      + rewrite nlf_cons. lia.
    - rewrite find_field_acc in Hf.
      destruct (find_field nm fs 0 0) as [[[[o p] r'] s']|] eqn:Ef; [|discriminate].
      inversion Hf; subst.
      destruct (IH vs o p rp s Hfs Hvs eq_refl) as (fv' & Hn & Hw' & Hb & Hle & Hs').
      exists fv'. cbn [nth_error]. repeat split; auto.
      + cbn [Nat.add]. rewrite skipn_app_exact by exact L. exact Hb.
      + rewrite nlf_cons. unfold nl in *. lia.
  Qed.

  (** ** added subtrees *)

  Lemma filter_map_none {A B} (f : A -> option B) l :
    Forall (fun x => f x = None) l -> filter_map f l = [].
  Proof. induction 1 as [|x l Hx _ IH]; cbn; [reflexivity|]. now rewrite Hx. Qed.

  Lemma nulls_group fs r d : @nulls V (Group fs) r d = repeat [(None, r, d)] (nleaves_fields fs).
  Proof. reflexivity. Qed.

  Lemma nulls_app s fs r d :
    @nulls V s r d ++ repeat [(None, r, d)] (nleaves_fields fs)
    = repeat [(None, r, d)] (nleaves s + nleaves_fields fs).
  Proof. unfold nulls. symmetry. apply repeat_app. Qed.

  Lemma nulls_app_n t fs r d :
    @nulls V (erase t) r d ++ repeat [(None, r, d)] (nlf fs) = repeat [(None, r, d)] (nl t + nlf fs).
  Proof. apply nulls_app. Qed.

  (* [pres]: the shared group is present in the entry that the template column
     contributes; then required chains get the zero value *)
  Lemma fill_plan_ok (C : list column) hold k d r d0 (pres : bool) k' :
    (forall z, run C (fill_action hold k d z) = [((if pres then z else None), r, d0)]) ->
    (forall t allreq,
       conv (fill_plan t hold k d allreq) C =
       if pres && allreq then shred (erase t) (zero_val t) r d0 k' else nulls (erase t) r d0) /\
    (forall fs allreq,
       conv (fill_plan_fields fs hold k d allreq) C =
       if pres && allreq then shred_fields (erase_fields fs) (zero_fields fs) r d0 k'
       else repeat [(None, r, d0)] (nlf fs)).
  Proof.
    intros H.
    apply (nschema_both
      (fun t => forall allreq, conv (fill_plan t hold k d allreq) C =
         if pres && allreq then shred (erase t) (zero_val t) r d0 k' else nulls (erase t) r d0)
      (fun fs => forall allreq, conv (fill_plan_fields fs hold k d allreq) C =
         if pres && allreq then shred_fields (erase_fields fs) (zero_fields fs) r d0 k'
         else repeat [(None, r, d0)] (nlf fs))).
    - intros ty allreq. cbn [Model.fill_plan]. unfold Model.conv. cbn [map]. rewrite H.
      destruct pres, allreq; reflexivity.
    - intros fs IH allreq. cbn [Model.fill_plan]. rewrite IH.
      destruct (pres && allreq); reflexivity.
    - intros allreq. destruct (pres && allreq); reflexivity.
    - intros n rp s IHs fs IHf allreq. cbn [Model.fill_plan_fields]. rewrite conv_app, IHs, IHf.
      destruct pres; cbn [andb].
      + destruct allreq; cbn [andb].
        * destruct rp; cbn [is_req erase_fields Model.zero_fields].
          -- now rewrite shred_fields_req.
          -- now rewrite shred_fields_none.
          -- now rewrite shred_fields_nil.
        * rewrite nlf_cons. apply nulls_app_n.
      + rewrite nlf_cons. apply nulls_app_n.
  Qed.

  Lemma run_fill_present (C : list column) k d r e rest z :
    nth 0 C [] = e :: rest -> e_r V e = r -> r <= k -> d <= e_d V e ->
    Forall (fun e' => k < e_r V e') rest ->
    run C (AFill 0 k d z) = [(z, r, d)].
  Proof.
    intros HC Hr Hk Hd Ht. cbn. rewrite HC. cbn [filter_map]. unfold fill_entry at 1.
    rewrite Hr. destruct (Nat.leb_spec r k); [|lia]. destruct (Nat.leb_spec d (e_d V e)); [|lia].
    rewrite filter_map_none; [reflexivity|].
    eapply Forall_impl; [|exact Ht]. intros e' He'. cbn beta in He'. unfold fill_entry.
    destruct (Nat.leb_spec (e_r V e') k); [lia|reflexivity].
  Qed.

  Lemma run_fill_absent (C : list column) k d r d0 z :
    nth 0 C [] = [(None, r, d0)] -> r <= k -> d0 < d ->
    run C (AFill 0 k d z) = [(None, r, d0)].
  Proof.
    intros HC Hk Hd. cbn. rewrite HC. cbn. unfold fill_entry. cbn.
    destruct (Nat.leb_spec r k); [|lia]. destruct (Nat.leb_spec d d0); [lia|reflexivity].
  Qed.

  (** ** indexes of a plan stay inside the source node *)

  Lemma fill_plan_index hold k d :
    (forall t allreq, Forall (fun a => act_index V a = 0) (fill_plan t hold k d allreq)) /\
    (forall fs allreq, Forall (fun a => act_index V a = 0) (fill_plan_fields fs hold k d allreq)).
  Proof.
    apply (nschema_both
      (fun t => forall allreq, Forall (fun a => act_index V a = 0) (fill_plan t hold k d allreq))
      (fun fs => forall allreq, Forall (fun a => act_index V a = 0) (fill_plan_fields fs hold k d allreq))).
    - intros; destruct hold; repeat constructor.
    - intros fs IH allreq. apply IH.
    - intros; constructor.
    - intros n r s IHs fs IHf allreq. cbn [Model.fill_plan_fields]. apply Forall_app. split; auto.
  Qed.

  Lemma find_field_bound nm : forall sfs off pos rp s,
    find_field nm sfs 0 0 = Some (off, pos, rp, s) -> wf_nfields sfs ->
    off + nl s <= nlf sfs /\ wf_nschema s.
  Proof.
    induction sfs as [|m r0 s0 fs IH]; intros off pos rp s Hf Hw; [discriminate|].
    destruct Hw as (_ & Hs0 & Hfs). cbn [find_field] in Hf. rewrite nlf_cons.
    destruct (N.eqb nm m).
    - inversion Hf; subst. split; [lia|assumption].
    - rewrite find_field_acc in Hf.
      destruct (find_field nm fs 0 0) as [[[[o p] r'] s']|] eqn:Ef; [|discriminate].
      inversion Hf; subst. destruct (IH o p rp s eq_refl Hfs). split; [lia|assumption].
  Qed.

  Lemma plan_bound :
    (forall tgt src k d, wf_nschema src -> Forall (fun a => act_index V a < nl src) (plan src tgt k d)) /\
    (forall tfs sfs k d, wf_nfields sfs -> 0 < nlf sfs ->
       Forall (fun a => act_index V a < nlf sfs) (plan_fields sfs tfs k d)).
  Proof.
    apply (nschema_both
      (fun tgt => forall src k d, wf_nschema src -> Forall (fun a => act_index V a < nl src) (plan src tgt k d))
      (fun tfs => forall sfs k d, wf_nfields sfs -> 0 < nlf sfs ->
         Forall (fun a => act_index V a < nlf sfs) (plan_fields sfs tfs k d))).
    - intros ty src k d Hs. constructor; [|constructor]. cbn. now apply nl_pos.
    - intros tfs IH [ty|sfs] k d Hs; cbn [Model.plan]; [constructor|].
      destruct Hs as [Hp Hf]. now apply IH.
    - intros; constructor.
    - intros n r t IHt tfs IHf sfs k d Hs Hp. cbn [Model.plan_fields]. apply Forall_app. split; [|now apply IHf].
      assert (Hfill : forall h b, Forall (fun a => act_index V a < nlf sfs) (fill_plan t h k d b)).
      { intros h b. eapply Forall_impl; [|apply (proj1 (fill_plan_index h k d))]. cbn. intros a ->. exact Hp. }
      destruct (find_field n sfs 0 0) as [[[[off pos] rs] s]|] eqn:Ef; [|apply Hfill].
      destruct (find_field_bound _ _ _ _ _ _ Ef Hs) as [Hle Hws].
      assert (Hsh : Forall (fun a => act_index V a < nlf sfs)
                      (map (shift V off) (plan s t (rep_k r k) (rep_d r d)))).
      { apply Forall_forall. intros a Ha. apply in_map_iff in Ha. destruct Ha as (a0 & <- & Ha0).
        pose proof (IHt s (rep_k r k) (rep_d r d) Hws) as Hb. rewrite Forall_forall in Hb.
        specialize (Hb a0 Ha0). destruct a0; cbn in *; lia. }
      destruct s, t; auto.
  Qed.
  Lemma plan_fields_cons sfs nm rp t tfs k d :
    plan_fields sfs (NCons nm rp t tfs) k d =
    (match find_field nm sfs 0 0 with
     | Some (off, _, _, s) =>
         match s, t with
         | NLeaf _, NLeaf _ | NGroup _, NGroup _ =>
             map (shift V off) (plan s t (rep_k rp k) (rep_d rp d))
         | _, _ => fill_plan t (holds sfs k d) k d (is_req rp)
         end
     | None => fill_plan t (holds sfs k d) k d (is_req rp)
     end) ++ plan_fields sfs tfs k d.
  Proof. reflexivity. Qed.

  Lemma project_fields_cons sfs vs nm rp t tfs :
    project_fields sfs vs (NCons nm rp t tfs) =
    (match find_field nm sfs 0 0 with
     | Some (_, pos, _, s) =>
         match rp, nth_error vs pos with
         | Req, Some fv => project s t fv
         | Opt, Some (VOpt None) => VOpt None
         | Opt, Some (VOpt (Some fv)) => VOpt (Some (project s t fv))
         | Rpt, Some (VList l) => VList (map (fun y => project s t y) l)
         | _, _ => field_default V zero rp t
         end
     | None => field_default V zero rp t
     end) :: project_fields sfs vs tfs.
  Proof. reflexivity. Qed.

  (** ** the placeholder action only occurs at levels (0, 0) *)

  Lemma fill_plan_no_hold k d :
    (forall t b, no_hold V (fill_plan t false k d b)) /\
    (forall fs b, no_hold V (fill_plan_fields fs false k d b)).
  Proof.
    apply (nschema_both (fun t => forall b, no_hold V (fill_plan t false k d b))
                        (fun fs => forall b, no_hold V (fill_plan_fields fs false k d b))).
    - intros; repeat constructor.
    - intros fs IH b. apply IH.
    - intros; constructor.
    - intros n r s IHs fs IHf b. cbn [Model.fill_plan_fields]. apply Forall_app.
      split; [apply IHs|apply IHf].
  Qed.

  Lemma holds_pos sfs k d : 0 < d -> holds sfs k d = false.
  Proof. intros H. unfold holds. destruct d; [lia|]. cbn. now rewrite andb_false_r. Qed.

  Lemma plan_no_hold :
    (forall t s k d, 0 < d -> no_hold V (plan s t k d)) /\
    (forall tfs sfs k d, 0 < d -> no_hold V (plan_fields sfs tfs k d)).
  Proof.
    apply (nschema_both (fun t => forall s k d, 0 < d -> no_hold V (plan s t k d))
                        (fun tfs => forall sfs k d, 0 < d -> no_hold V (plan_fields sfs tfs k d))).
    - intros; repeat constructor.
    - intros tfs IH [ty|sfs] k d Hd; cbn [Model.plan]; [constructor|now apply IH].
    - intros; constructor.
    - intros n rp t IHt tfs IHf sfs k d Hd. rewrite plan_fields_cons. apply Forall_app.
      split; [|now apply IHf]. rewrite (holds_pos sfs k d Hd).
      assert (Hsh : forall off s, no_hold V (map (shift V off) (plan s t (rep_k rp k) (rep_d rp d)))).
      { intros off s. apply Forall_forall. intros a Ha. apply in_map_iff in Ha.
        destruct Ha as (a0 & <- & Ha0).
        assert (Hd' : 0 < rep_d rp d) by (destruct rp; cbn; lia).
        pose proof (IHt s (rep_k rp k) (rep_d rp d) Hd') as Hn. unfold no_hold in Hn.
        rewrite Forall_forall in Hn. specialize (Hn a0 Ha0). destruct a0; cbn in *; auto. }
      destruct (find_field n sfs 0 0) as [[[[off pos] rs] s]|]; [|apply (proj1 (fill_plan_no_hold k d))].
      destruct s, t; try apply Hsh; apply (proj1 (fill_plan_no_hold k d)).
  Qed.

  (** ** a null ancestor: every column of the node holds one null entry *)

  Definition same_kind (s t : nschema) : bool :=
    match s, t with
    | NLeaf _, NLeaf _ | NGroup _, NGroup _ => true
    | _, _ => false
    end.

  Lemma compat_same_kind s t : compat s t = true -> same_kind s t = true.
  Proof. destruct s, t; cbn; auto. Qed.

  Lemma skipn_repeat {A} (x : A) n m : skipn m (repeat x n) = repeat x (n - m).
  Proof.
    revert n. induction m as [|m IH]; intros n; [now rewrite Nat.sub_0_r|].
    destruct n; [reflexivity|]. cbn. apply IH.
  Qed.

  Lemma firstn_repeat_le {A} (x : A) n m : m <= n -> firstn m (repeat x n) = repeat x m.
  Proof.
    revert n. induction m as [|m IH]; intros n H; [reflexivity|].
    destruct n; [lia|]. cbn. f_equal. apply IH. lia.
  Qed.

  Lemma block_repeat {A} (x : A) N off m : off + m <= N -> firstn m (skipn off (repeat x N)) = repeat x m.
  Proof. intros H. rewrite skipn_repeat. apply firstn_repeat_le. lia. Qed.

  Lemma nth0_repeat {A} (x dflt : A) n : 0 < n -> nth 0 (repeat x n) dflt = x.
  Proof. destruct n; [lia|reflexivity]. Qed.

  Lemma plan_on_nulls :
    (forall t s r d0 k d, same_kind s t = true -> wf_nschema s -> r <= k -> d0 < d ->
        conv (plan s t k d) (nulls (erase s) r d0) = nulls (erase t) r d0) /\
    (forall tfs sfs r d0 k d, wf_nfields sfs -> 0 < nlf sfs -> r <= k -> d0 < d ->
        conv (plan_fields sfs tfs k d) (repeat [(None, r, d0)] (nlf sfs)) = repeat [(None, r, d0)] (nlf tfs)).
  Proof.
    apply (nschema_both
      (fun t => forall s r d0 k d, same_kind s t = true -> wf_nschema s -> r <= k -> d0 < d ->
        conv (plan s t k d) (nulls (erase s) r d0) = nulls (erase t) r d0)
      (fun tfs => forall sfs r d0 k d, wf_nfields sfs -> 0 < nlf sfs -> r <= k -> d0 < d ->
        conv (plan_fields sfs tfs k d) (repeat [(None, r, d0)] (nlf sfs)) = repeat [(None, r, d0)] (nlf tfs))).
    - intros ty [ty'|sfs] r d0 k d Hk Hs Hr Hd; [reflexivity|discriminate].
    - intros tfs IH [ty'|sfs] r d0 k d Hk Hs Hr Hd; [discriminate|]. destruct Hs as [Hp Hs].
      cbn [Model.plan erase]. rewrite !nulls_group. now apply IH.
    - intros; reflexivity.
    - intros n rp t IHt tfs IHf sfs r d0 k d Hs Hp Hr Hd.
      rewrite plan_fields_cons, conv_app, IHf by assumption.
      rewrite nlf_cons. rewrite <- nulls_app_n. f_equal.
      set (C := repeat [(None, r, d0)] (nlf sfs)).
      rewrite (holds_pos sfs k d) by lia.
      assert (Hfill : forall b, conv (fill_plan t false k d b) C = nulls (erase t) r d0).
      { intros b.
        destruct (fill_plan_ok C false k d r d0 false 0) as [F _].
        - intros z. apply run_fill_absent; auto. subst C. now apply nth0_repeat.
        - apply F. }
      destruct (find_field n sfs 0 0) as [[[[off pos] rs] s]|] eqn:Ef; [|apply Hfill].
      destruct (find_field_bound _ _ _ _ _ _ Ef Hs) as [Hle Hws].
      assert (Hcommon : same_kind s t = true ->
                conv (map (shift V off) (plan s t (rep_k rp k) (rep_d rp d))) C = nulls (erase t) r d0).
      { intros Hk. rewrite conv_shift.
        rewrite <- (conv_firstn V _ _ (nl s)) by (apply plan_bound; exact Hws).
        subst C. rewrite block_repeat by exact Hle.
        apply (IHt s r d0); auto; destruct rp; cbn; lia. }
      destruct s, t; try apply Hfill; apply Hcommon; reflexivity.
  Qed.

  (** ** the main lemma *)

  Lemma group_cols_shape sfs vs r d k n :
    wf_nfields sfs -> 0 < nlf sfs -> wfn_fields n (erase_fields sfs) vs -> r <= k ->
    exists e rest, nth 0 (shred_fields (erase_fields sfs) vs r d k) [] = e :: rest /\
                   e_r V e = r /\ d <= e_d V e /\ Forall (fun e' => k < e_r V e') rest.
  Proof.
    intros Hs Hp Hv Hr.
    assert (Hws : wf_schema (Group (erase_fields sfs))) by (split; [exact Hp|now apply wf_erase_fields]).
    assert (Hwv : wf (Group (erase_fields sfs)) (VGroup vs)) by (apply (wfn_wf V n (Group (erase_fields sfs)) (VGroup vs)); exact Hv).
    pose proof (shred_shaped V _ Hws _ r d k Hwv Hr) as Hsh.
    destruct (shred_shape V _ Hws _ r d k Hwv) as [L _].
    rewrite shred_group in Hsh, L. cbn [nleaves] in L.
    destruct (shred_fields (erase_fields sfs) vs r d k) as [|c C]; [cbn in L; unfold nlf in Hp; lia|].
    inversion Hsh as [|? ? (e & rest & -> & H1 & H2 & H3) _]; subst.
    exists e, rest. cbn. auto.
  Qed.

  Lemma convert_shred :
    (forall tgt src v r d k n, compat src tgt = true -> wf_nschema src -> wfn n (erase src) v -> r <= k ->
        conv (plan src tgt k d) (shred (erase src) v r d k) = shred (erase tgt) (project src tgt v) r d k) /\
    (forall tfs sfs vs r d k n, compat_fields sfs tfs = true -> wf_nfields sfs -> 0 < nlf sfs ->
        wfn_fields n (erase_fields sfs) vs -> r <= k ->
        conv (plan_fields sfs tfs k d) (shred_fields (erase_fields sfs) vs r d k)
        = shred_fields (erase_fields tfs) (project_fields sfs vs tfs) r d k).
  Proof.
    apply (nschema_both
      (fun tgt => forall src v r d k n, compat src tgt = true -> wf_nschema src -> wfn n (erase src) v -> r <= k ->
        conv (plan src tgt k d) (shred (erase src) v r d k) = shred (erase tgt) (project src tgt v) r d k)
      (fun tfs => forall sfs vs r d k n, compat_fields sfs tfs = true -> wf_nfields sfs -> 0 < nlf sfs ->
        wfn_fields n (erase_fields sfs) vs -> r <= k ->
        conv (plan_fields sfs tfs k d) (shred_fields (erase_fields sfs) vs r d k)
        = shred_fields (erase_fields tfs) (project_fields sfs vs tfs) r d k)).
    - (* leaf *)
      intros ty [ty'|sfs] v r d k n Hc Hs Hv Hr; [|discriminate].
      destruct v; cbn in Hv; try contradiction. reflexivity.
    - (* group *)
      intros tfs IH [ty'|sfs] v r d k n Hc Hs Hv Hr; [discriminate|]. destruct Hs as [Hp Hs].
      destruct v as [|vs| |]; cbn in Hv; try contradiction.
      cbn [Model.plan Model.project erase]. rewrite !shred_group. eapply IH; eauto.
    - intros; reflexivity.
    - (* a target field *)
      intros nm rp t IHt tfs IHf sfs vs r d k n Hc Hs Hp Hv Hr.
      cbn [compat_fields] in Hc. apply andb_true_iff in Hc. destruct Hc as [Hc1 Hc2].
      rewrite plan_fields_cons, project_fields_cons. cbn [erase_fields]. rewrite conv_app.
      rewrite (IHf sfs vs r d k n) by assumption.
      set (C := shred_fields (erase_fields sfs) vs r d k).
      destruct (find_field nm sfs 0 0) as [[[[off pos] rs] s]|] eqn:Ef.
      + (* present in the source *)
        apply andb_true_iff in Hc1. destruct Hc1 as [Hrep Hcst].
        assert (rs = rp) by (destruct rs, rp; cbn in Hrep; congruence). subst rs.
        destruct (find_block nm n r d k sfs vs off pos rp s Hs Hv Ef) as (fv & Hnth & Hfw & Hb & Hle & Hws).
        fold C in Hb. rewrite Hnth.
        assert (Hhead : conv (map (shift V off) (plan s t (rep_k rp k) (rep_d rp d))) C
                        = conv (plan s t (rep_k rp k) (rep_d rp d)) (field_cols rp (erase s) fv r d k)).
        { rewrite conv_shift. rewrite <- (conv_firstn V _ _ (nl s)) by (apply plan_bound; exact Hws).
          now rewrite Hb. }
        assert (Hplan : (match s, t with
                         | NLeaf _, NLeaf _ | NGroup _, NGroup _ =>
                             map (shift V off) (plan s t (rep_k rp k) (rep_d rp d))
                         | _, _ => fill_plan t (holds sfs k d) k d (is_req rp)
                         end) = map (shift V off) (plan s t (rep_k rp k) (rep_d rp d))).
        { pose proof (compat_same_kind _ _ Hcst). destruct s, t; try discriminate; reflexivity. }
        rewrite Hplan, Hhead. clear Hplan Hhead.
        destruct rp; cbn [field_cols field_wfn rep_k rep_d] in *.
        * (* required *)
          rewrite shred_fields_req. f_equal. eapply IHt; eauto.
        * (* optional *)
          destruct fv as [| |[v0|]|]; try contradiction.
          -- rewrite shred_fields_some. f_equal. eapply IHt; eauto.
          -- rewrite shred_fields_none. f_equal.
             apply (proj1 plan_on_nulls); auto. now apply compat_same_kind.
        * (* repeated *)
          destruct fv as [| | |l]; try contradiction. destruct Hfw as [Hn Hl].
          destruct l as [|x l].
          -- cbn [map]. rewrite shred_fields_nil. f_equal.
             apply (proj1 plan_on_nulls); auto. now apply compat_same_kind.
          -- cbn [map]. rewrite shred_fields_cons. f_equal.
             inversion Hl as [|? ? Hx Hl']; subst.
             pose proof (wf_erase _ Hws) as Hes.
             rewrite (conv_fold_zipapp V _ _ (proj1 plan_no_hold t s (S k) (S d) (Nat.lt_0_succ d)) _ (nl s)).
             ++ rewrite (IHt s x r (S d) (S k) n) by (auto; lia).
                f_equal. rewrite !map_map. apply map_ext_in. intros y Hy.
                rewrite Forall_forall in Hl'. apply (IHt s y (S k) (S d) (S k) n); auto.
             ++ apply shred_shape; auto. eapply wfn_wf; eauto.
             ++ apply Forall_forall. intros m Hm. apply in_map_iff in Hm. destruct Hm as (y & <- & Hy).
                apply shred_shape; auto. eapply wfn_wf. rewrite Forall_forall in Hl'. eauto.
      + (* added field *)
        destruct (group_cols_shape sfs vs r d k n Hs Hp Hv Hr) as (e & rest & HC & H1 & H2 & H3).
        fold C in HC.
        destruct (fill_plan_ok C (holds sfs k d) k d r d true k) as [F _].
        { intros z. unfold Model.fill_action. destruct (holds sfs k d) eqn:Eh.
          - unfold holds in Eh. apply andb_true_iff in Eh. destruct Eh as [Eh _].
            apply andb_true_iff in Eh. destruct Eh as [Ek Ed].
            apply Nat.eqb_eq in Ek. apply Nat.eqb_eq in Ed.
            cbn. replace r with 0 by lia. replace d with 0 by lia. reflexivity.
          - eapply run_fill_present; eauto. }
        rewrite F. cbn [andb].
        destruct rp; cbn [is_req Model.field_default].
        * now rewrite shred_fields_req.
        * now rewrite shred_fields_none.
        * now rewrite shred_fields_nil.
  Qed.
  (** ** the projected value is well formed *)

  Lemma zero_wfn n :
    (forall t, wfn n (erase t) (zero_val t)) /\
    (forall fs, wfn_fields n (erase_fields fs) (zero_fields fs)).
  Proof.
    apply (nschema_both (fun t => wfn n (erase t) (zero_val t))
                        (fun fs => wfn_fields n (erase_fields fs) (zero_fields fs))).
    - intros; exact I.
    - intros fs IH. exact IH.
    - exact I.
    - intros nm rp s IHs fs IHf. destruct rp; cbn.
      + split; assumption.
      + exact IHf.
      + split; [split; [lia|constructor]|exact IHf].
  Qed.

  Lemma default_wfn n rp t fs vs :
    wfn_fields n (erase_fields fs) vs ->
    wfn_fields n (FCons rp (erase t) (erase_fields fs)) (field_default V zero rp t :: vs).
  Proof.
    intros H. destruct rp; cbn.
    - split; [apply zero_wfn|exact H].
    - exact H.
    - split; [split; [lia|constructor]|exact H].
  Qed.

  Lemma project_wfn n :
    (forall tgt src v, compat src tgt = true -> wf_nschema src -> wfn n (erase src) v ->
        wfn n (erase tgt) (project src tgt v)) /\
    (forall tfs sfs vs, compat_fields sfs tfs = true -> wf_nfields sfs ->
        wfn_fields n (erase_fields sfs) vs ->
        wfn_fields n (erase_fields tfs) (project_fields sfs vs tfs)).
  Proof.
    apply (nschema_both
      (fun tgt => forall src v, compat src tgt = true -> wf_nschema src -> wfn n (erase src) v ->
        wfn n (erase tgt) (project src tgt v))
      (fun tfs => forall sfs vs, compat_fields sfs tfs = true -> wf_nfields sfs ->
        wfn_fields n (erase_fields sfs) vs ->
        wfn_fields n (erase_fields tfs) (project_fields sfs vs tfs))).
    - intros ty [ty'|sfs] v Hc Hs Hv; [|discriminate]. exact Hv.
    - intros tfs IH [ty'|sfs] v Hc Hs Hv; [discriminate|]. destruct Hs as [Hp Hs].
      destruct v as [|vs| |]; cbn in Hv; try contradiction.
      cbn [Model.project erase]. change (wfn_fields n (erase_fields tfs) (project_fields sfs vs tfs)).
      now apply IH.
    - intros; exact I.
    - intros nm rp t IHt tfs IHf sfs vs Hc Hs Hv.
      cbn [compat_fields] in Hc. apply andb_true_iff in Hc. destruct Hc as [Hc1 Hc2].
      rewrite project_fields_cons. cbn [erase_fields].
      specialize (IHf sfs vs Hc2 Hs Hv).
      destruct (find_field nm sfs 0 0) as [[[[off pos] rs] s]|] eqn:Ef; [|now apply default_wfn].
      apply andb_true_iff in Hc1. destruct Hc1 as [Hrep Hcst].
      assert (rs = rp) by (destruct rs, rp; cbn in Hrep; congruence). subst rs.
      destruct (find_block nm n 0 0 0 sfs vs off pos rp s Hs Hv Ef) as (fv & Hnth & Hfw & _ & _ & Hws).
      rewrite Hnth. destruct rp; cbn [field_wfn] in Hfw.
      + cbn. split; [|exact IHf]. now apply IHt.
      + destruct fv as [| |[v0|]|]; try contradiction; cbn; [split; [now apply IHt|exact IHf]|exact IHf].
      + destruct fv as [| | |l]; try contradiction. destruct Hfw as [Hn Hl]. cbn. split; [|exact IHf].
        split; [now rewrite map_length|].
        apply Forall_forall. intros y Hy. apply in_map_iff in Hy. destruct Hy as (y0 & <- & Hy0).
        rewrite Forall_forall in Hl. apply IHt; auto.
  Qed.

  (** ** reading a schema through itself *)

  Inductive suffix_of (sfs : nfields) : nfields -> nat -> Prop :=
  | suf_nil : forall pos, suffix_of sfs NNil pos
  | suf_cons : forall nm rp t tfs off pos,
      find_field nm sfs 0 0 = Some (off, pos, rp, t) -> suffix_of sfs tfs (S pos) ->
      suffix_of sfs (NCons nm rp t tfs) pos.

  Lemma suffix_weaken m r s fs : forall tfs pos,
    suffix_of fs tfs pos -> has_name m tfs = false -> suffix_of (NCons m r s fs) tfs (S pos).
  Proof.
    induction 1 as [|nm rp t tfs off pos Hf _ IH]; intros Hn; [constructor|].
    cbn [has_name] in Hn. apply orb_false_iff in Hn. destruct Hn as [Hne Hn].
    apply (suf_cons _ _ _ _ _ (nl s + off)); [|now apply IH].
    cbn [find_field]. rewrite N.eqb_sym in Hne. rewrite N.eqb_sym, N.eqb_sym, Hne || rewrite Hne.
    rewrite find_field_acc, Hf. reflexivity.
  Qed.

  Lemma suffix_self fs : wf_nfields fs -> suffix_of fs fs 0.
  Proof.
    induction fs as [|m r s fs IH]; intros Hw; [constructor|].
    destruct Hw as (Hn & _ & Hfs).
    apply (suf_cons _ _ _ _ _ 0).
    - cbn. now rewrite N.eqb_refl.
    - apply suffix_weaken; auto.
  Qed.

  Lemma skipn_cons_nth {A} (l : list A) pos x rest :
    skipn pos l = x :: rest -> nth_error l pos = Some x /\ skipn (S pos) l = rest.
  Proof.
    revert l. induction pos as [|pos IH]; intros [|y l] H; cbn in *; try discriminate.
    - inversion H; subst. split; reflexivity.
    - now apply IH.
  Qed.

  Lemma project_self n :
    (forall s v, wf_nschema s -> wfn n (erase s) v -> project s s v = v) /\
    (forall tfs sfs vs pos, suffix_of sfs tfs pos -> wf_nfields tfs ->
        wfn_fields n (erase_fields tfs) (skipn pos vs) -> project_fields sfs vs tfs = skipn pos vs).
  Proof.
    apply (nschema_both
      (fun s => forall v, wf_nschema s -> wfn n (erase s) v -> project s s v = v)
      (fun tfs => forall sfs vs pos, suffix_of sfs tfs pos -> wf_nfields tfs ->
        wfn_fields n (erase_fields tfs) (skipn pos vs) -> project_fields sfs vs tfs = skipn pos vs)).
    - intros; reflexivity.
    - intros fs IH v [_ Hs] Hv. destruct v as [|vs| |]; cbn in Hv; try contradiction.
      cbn [Model.project]. f_equal. apply (IH fs vs 0); auto. now apply suffix_self.
    - intros sfs vs pos _ _ Hv. cbn in Hv. destruct (skipn pos vs); [reflexivity|contradiction].
    - intros nm rp t IHt tfs IHf sfs vs pos Hsuf Hw Hv.
      destruct Hw as (_ & Hwt & Hwf).
      inversion Hsuf as [|? ? ? ? off ? Hf Hsuf']; subst.
      rewrite project_fields_cons, Hf. cbn [erase_fields] in Hv.
      destruct (skipn pos vs) as [|fv rest] eqn:Es; [destruct rp; contradiction|].
      destruct (skipn_cons_nth _ _ _ _ Es) as [Hn Hrest]. rewrite Hn.
      destruct (fields_unfold n rp (erase t) (erase_fields tfs) fv rest 0 0 0 Hv) as (_ & Hfw & Hvs).
      rewrite <- Hrest in Hvs. rewrite (IHf sfs vs (S pos) Hsuf' Hwf Hvs), Hrest.
      f_equal. destruct rp; cbn [field_wfn] in Hfw.
      + now apply IHt.
      + destruct fv as [| |[v0|]|]; try contradiction; [|reflexivity]. now rewrite IHt.
      + destruct fv as [| | |l]; try contradiction. destruct Hfw as [_ Hl]. f_equal.
        rewrite <- (map_id l) at 2. apply map_ext_in. intros y Hy.
        rewrite Forall_forall in Hl. apply IHt; auto.
  Qed.

  Lemma compat_self :
    (forall s, wf_nschema s -> compat s s = true) /\
    (forall tfs sfs pos, suffix_of sfs tfs pos -> wf_nfields tfs -> compat_fields sfs tfs = true).
  Proof.
    apply (nschema_both
      (fun s => wf_nschema s -> compat s s = true)
      (fun tfs => forall sfs pos, suffix_of sfs tfs pos -> wf_nfields tfs -> compat_fields sfs tfs = true)).
    - intros ty _. cbn. apply N.eqb_refl.
    - intros fs IH [_ Hs]. cbn. apply (IH fs 0); auto. now apply suffix_self.
    - reflexivity.
    - intros nm rp t IHt tfs IHf sfs pos Hsuf (_ & Hwt & Hwf).
      inversion Hsuf as [|? ? ? ? off ? Hf Hsuf']; subst.
      cbn [compat_fields]. rewrite Hf, (IHf sfs (S pos) Hsuf' Hwf), (IHt Hwt).
      destruct rp; reflexivity.
  Qed.

  Lemma nschema_eqb_eq :
    (forall a b, nschema_eqb a b = true -> a = b) /\
    (forall a b, nfields_eqb a b = true -> a = b).
  Proof.
    apply (nschema_both (fun a => forall b, nschema_eqb a b = true -> a = b)
                        (fun a => forall b, nfields_eqb a b = true -> a = b)).
    - intros ty [ty'|fs] H; cbn in H; [|discriminate]. apply N.eqb_eq in H. now subst.
    - intros fs IH [ty'|fs'] H; cbn in H; [discriminate|]. f_equal. now apply IH.
    - intros [|] H; cbn in H; [reflexivity|discriminate].
    - intros n r s IHs fs IHf [|m q t fs'] H; cbn in H; [discriminate|].
      apply andb_true_iff in H. destruct H as [H H4]. apply andb_true_iff in H. destruct H as [H H3].
      apply andb_true_iff in H. destruct H as [H1 H2]. apply N.eqb_eq in H1.
      assert (r = q) by (destruct r, q; cbn in H2; congruence).
      subst. f_equal; auto.
  Qed.

  (** ** the theorems *)

  (* one row, general path *)
  Theorem convert_is_shred_project src tgt v n :
    compat src tgt = true -> wf_nschema src -> wfn n (erase src) v ->
    conv (plan src tgt 0 0) (shred_row (erase src) v) = shred_row (erase tgt) (project src tgt v).
  Proof. intros Hc Hs Hv. unfold shred_row. eapply (proj1 convert_shred); eauto. Qed.

  Theorem convert_general_is_projection src tgt v n tails :
    compat src tgt = true -> wf_nschema src -> wf_nschema tgt -> wfn n (erase src) v ->
    length tails = nl tgt -> heads_le V 0 tails ->
    asm (erase tgt) 0 0 (S n)
        (zipapp (convert_columns_general V zero src tgt (shred_row (erase src) v)) tails)
    = Some (project src tgt v, tails).
  Proof.
    intros Hc Hs Ht Hv Hl Hh. unfold convert_columns_general.
    rewrite (convert_is_shred_project src tgt v n) by assumption.
    unfold shred_row. apply asm_shred; auto.
    - now apply wf_erase.
    - eapply (proj1 (project_wfn n)); eauto.
  Qed.

  (* Convert + conversion.Convert with the identity shortcut and the rejection *)
  Theorem convert_is_projection src tgt v n tails :
    compat src tgt = true -> wf_nschema src -> wf_nschema tgt -> wfn n (erase src) v ->
    length tails = nl tgt -> heads_le V 0 tails ->
    exists cols, convert_columns V zero src tgt (shred_row (erase src) v) = Some cols /\
      asm (erase tgt) 0 0 (S n) (zipapp cols tails) = Some (project src tgt v, tails).
  Proof.
    intros Hc Hs Ht Hv Hl Hh. unfold convert_columns.
    destruct (nschema_eqb src tgt) eqn:E.
    - apply (proj1 nschema_eqb_eq) in E. subst tgt. eexists; split; [reflexivity|].
      rewrite (proj1 (project_self n)) by assumption.
      unfold shred_row. apply asm_shred; auto. now apply wf_erase.
    - rewrite Hc. eexists; split; [reflexivity|].
      now apply (convert_general_is_projection src tgt v n tails).
  Qed.

  (* every well-formed value: the fuel of the assembler is the bound of the value *)
  Theorem convert_is_projection_wf src tgt (v : value) tails :
    compat src tgt = true -> wf_nschema src -> wf_nschema tgt -> wf (erase src) v ->
    length tails = nl tgt -> heads_le V 0 tails ->
    exists fuel cols, convert_columns V zero src tgt (shred_row (erase src) v) = Some cols /\
      asm (erase tgt) 0 0 fuel (zipapp cols tails) = Some (project src tgt v, tails).
  Proof.
    intros Hc Hs Ht Hv Hl Hh.
    destruct (convert_is_projection src tgt v (vbound V v) tails Hc Hs Ht (wf_wfn V _ _ Hv) Hl Hh) as (cols & H1 & H2).
    exists (S (vbound V v)), cols. split; assumption.
  Qed.

  (* sequences of rows: count and order *)
  Definition concat_rows (width : nat) (rows : list (list column)) : list column :=
    fold_right zipapp (repeat [] width) rows.

  Lemma concat_rows_cols s (vs : list value) :
    concat_rows (nleaves s) (map (shred_row s) vs) = rows_cols V s vs.
  Proof. induction vs as [|v vs IH]; cbn; [reflexivity|]. now rewrite <- IH. Qed.

  Theorem convert_rows_preserved src tgt vs n :
    compat src tgt = true -> wf_nschema src -> wf_nschema tgt -> Forall (wfn n (erase src)) vs ->
    exists rows, convert_rows V zero src tgt (map (shred_row (erase src)) vs) = Some rows /\
      length rows = length vs /\
      asm_rows (length vs) (erase tgt) (S n) (concat_rows (nl tgt) rows)
      = Some (map (project src tgt) vs).
  Proof.
    intros Hc Hs Ht Hv.
    assert (Hrows : exists rows, convert_rows V zero src tgt (map (shred_row (erase src)) vs) = Some rows /\
                      rows = map (shred_row (erase tgt)) (map (project src tgt) vs)).
    { unfold convert_rows. destruct (nschema_eqb src tgt) eqn:E.
      - apply (proj1 nschema_eqb_eq) in E. subst tgt. eexists; split; [reflexivity|].
        rewrite map_map. apply map_ext_in. intros v Hin. rewrite Forall_forall in Hv.
        now rewrite (proj1 (project_self n)) by auto.
      - rewrite Hc. eexists; split; [reflexivity|].
        rewrite !map_map. apply map_ext_in. intros v Hin. rewrite Forall_forall in Hv.
        apply (convert_is_shred_project src tgt v n); auto. }
    destruct Hrows as (rows & E & ->). exists (map (shred_row (erase tgt)) (map (project src tgt) vs)).
    split; [exact E|]. split; [now rewrite !map_length|].
    unfold nl. rewrite concat_rows_cols.
    assert (Hp : Forall (wfn n (erase tgt)) (map (project src tgt) vs)).
    { apply Forall_forall. intros y Hy. apply in_map_iff in Hy. destruct Hy as (v & <- & Hin).
      rewrite Forall_forall in Hv. eapply (proj1 (project_wfn n)); eauto. }
    rewrite <- (map_length (project src tgt) vs).
    rewrite <- (shred_rows_eq V _ (wf_erase _ Ht)).
    - apply asm_rows_shred_rows; auto. now apply wf_erase.
    - eapply Forall_impl; [|exact Hp]. apply wfn_wf.
  Qed.

  (* the shortcut taken for equal schemas agrees with the general path *)
  Theorem convert_identity s v n :
    wf_nschema s -> wfn n (erase s) v ->
    convert_columns V zero s s (shred_row (erase s) v) = Some (shred_row (erase s) v) /\
    convert_columns_general V zero s s (shred_row (erase s) v) = shred_row (erase s) v /\
    project s s v = v.
  Proof.
    intros Hs Hv. split; [|split].
    - unfold convert_columns.
      assert (E : nschema_eqb s s = true).
      { clear. assert (H : (forall a, nschema_eqb a a = true) /\ (forall a, nfields_eqb a a = true)).
        { apply (nschema_both (fun a => nschema_eqb a a = true) (fun a => nfields_eqb a a = true)).
          - intros; cbn; apply N.eqb_refl.
          - intros fs IH; exact IH.
          - reflexivity.
          - intros n r s' IHs fs IHf. cbn. rewrite N.eqb_refl, IHs, IHf. destruct r; reflexivity. }
        apply H. }
      now rewrite E.
    - unfold convert_columns_general.
      rewrite (convert_is_shred_project s s v n); auto; [|now apply (proj1 compat_self)].
      now rewrite (proj1 (project_self n)).
    - now apply (proj1 (project_self n)).
  Qed.

  (** ** incompatible targets *)

  (* two same-named nodes that do not agree *)
  Inductive clash : nschema -> nschema -> Prop :=
  | clash_leaf_group : forall ty fs, clash (NLeaf ty) (NGroup fs)
  | clash_group_leaf : forall fs ty, clash (NGroup fs) (NLeaf ty)
  | clash_type : forall a b, a <> b -> clash (NLeaf a) (NLeaf b)
  | clash_field : forall sfs tfs, clash_fields sfs tfs -> clash (NGroup sfs) (NGroup tfs)
  with clash_fields : nfields -> nfields -> Prop :=
  | clash_here_rep : forall sfs nm rp t tfs off pos rs s,
      find_field nm sfs 0 0 = Some (off, pos, rs, s) -> rs <> rp ->
      clash_fields sfs (NCons nm rp t tfs)
  | clash_here_node : forall sfs nm rp t tfs off pos rs s,
      find_field nm sfs 0 0 = Some (off, pos, rs, s) -> clash s t ->
      clash_fields sfs (NCons nm rp t tfs)
  | clash_later : forall sfs nm rp t tfs, clash_fields sfs tfs -> clash_fields sfs (NCons nm rp t tfs).

  Scheme clash_mut := Induction for clash Sort Prop
  with clash_fields_mut := Induction for clash_fields Sort Prop.

  Lemma clash_not_compat : forall src tgt, clash src tgt -> compat src tgt = false.
  Proof.
    apply (clash_mut (fun src tgt _ => compat src tgt = false)
                     (fun sfs tfs _ => compat_fields sfs tfs = false)).
    - reflexivity.
    - reflexivity.
    - intros a b Hab. cbn. apply N.eqb_neq. congruence.
    - intros sfs tfs _ IH. exact IH.
    - intros sfs nm rp t tfs off pos rs s Hf Hne. cbn [compat_fields]. rewrite Hf.
      destruct rs, rp; try congruence; reflexivity.
    - intros sfs nm rp t tfs off pos rs s Hf _ IH. cbn [compat_fields]. rewrite Hf, IH.
      now rewrite andb_false_r.
    - intros sfs nm rp t tfs _ IH. cbn [compat_fields]. rewrite IH. apply andb_false_r.
  Qed.

  Lemma not_compat_clash :
    (forall tgt src, compat src tgt = false -> clash src tgt) /\
    (forall tfs sfs, compat_fields sfs tfs = false -> clash_fields sfs tfs).
  Proof.
    apply (nschema_both (fun tgt => forall src, compat src tgt = false -> clash src tgt)
                        (fun tfs => forall sfs, compat_fields sfs tfs = false -> clash_fields sfs tfs)).
    - intros ty [ty'|sfs] H; [|constructor]. cbn in H. apply N.eqb_neq in H. constructor. congruence.
    - intros tfs IH [ty'|sfs] H; [constructor|]. constructor. now apply IH.
    - intros sfs H. discriminate.
    - intros nm rp t IHt tfs IHf sfs H. cbn [compat_fields] in H.
      apply andb_false_iff in H. destruct H as [H|H]; [|apply clash_later; now apply IHf].
      destruct (find_field nm sfs 0 0) as [[[[off pos] rs] s]|] eqn:Ef; [|discriminate].
      apply andb_false_iff in H. destruct H as [H|H].
      + eapply clash_here_rep; [exact Ef|]. intros ->. destruct rp; discriminate.
      + eapply clash_here_node; [exact Ef|]. now apply IHt.
  Qed.

  Theorem incompatible_rejected src tgt cols :
    wf_nschema src -> clash src tgt -> convert_columns V zero src tgt cols = None.
  Proof.
    intros Hs Hc. pose proof (clash_not_compat _ _ Hc) as Hn. unfold convert_columns.
    destruct (nschema_eqb src tgt) eqn:E.
    - apply (proj1 nschema_eqb_eq) in E. subst tgt.
      rewrite (proj1 compat_self src Hs) in Hn. discriminate.
    - now rewrite Hn.
  Qed.

  Theorem rejected_only_if_clash src tgt cols :
    convert_columns V zero src tgt cols = None -> clash src tgt.
  Proof.
    unfold convert_columns. destruct (nschema_eqb src tgt); [discriminate|].
    destruct (compat src tgt) eqn:E; [discriminate|]. intros _. now apply (proj1 not_compat_clash).
  Qed.
End Proofs.
