(** The column-chunk view of a converted row group (convert.go
    ConvertRowGroup: the [columns] it builds, convertedColumnChunk,
    convertedPages, convertedPage.Slice).

    A row group is a list of rows, a row one list of entries per leaf column.
    The column chunk of column [c] holds the entries of that column, row after
    row; a page of it holds the entries of a range of rows, and Page.Slice(i, j)
    (what row-range views and seeks are made of) those of the rows i .. j-1 of
    the page.  ConvertRowGroup hands out, for a target column that the
    conversion copies from source column [i] ([ACopy i]), the chunk [i] of the
    source at place [c] (entries relabelled with the target column index: the
    label is the position in the list here).  The chunks of the columns that
    the source lacks (missingColumnChunk) are not modelled (known finding
    converted-column-chunks-levels).  No proofs here. *)
From Coq Require Import List Arith NArith.
From PQ Require Import Dremel.Model Convert.Model.
Import ListNotations.

Section Chunks.
  Variable V : Type.
  Notation column := (column V).

  (* the entries of column [c] of the rows, row after row *)
  Definition chunk_of (c : nat) (rows : list (list column)) : column :=
    concat (map (fun row => nth c row []) rows).

  (* rows i .. j-1 *)
  Definition row_slice {A : Type} (i j : nat) (l : list A) : list A :=
    firstn (j - i) (skipn i l).

  (* ConvertRowGroup(rg, conv).ColumnChunks()[c] over the rows of rg *)
  Definition chunk_view (acts : list (action V)) (c : nat) (rows : list (list column)) : option column :=
    match nth_error acts c with
    | Some (ACopy i) => Some (chunk_of i rows)
    | _ => None
    end.

  (* every column of the target, over the rows i .. j-1 of the source *)
  Definition chunk_views (acts : list (action V)) (i j : nat) (rows : list (list column)) : list (option column) :=
    map (fun c => chunk_view acts c (row_slice i j rows)) (seq 0 (length acts)).
End Chunks.

(* the oracle's instance *)
Definition chunk_views_bytes (s t : nschema) (i j : nat) (rows : list (list (column (list N)))) :=
  chunk_views (list N) (plan_bytes s t 0 0) i j rows.
