(** Schema conversion (convert.go: Convert, conversion.Convert; row.go:
    CopyRows; merge.go: MergeRowGroups; reader.go: NewReader(file, schema)).

    Named schemas on top of the positional Dremel schemas of Dremel/Model.v,
    the value-level specification [project], the decision rule [compat], and
    two column-level algorithms working on the flat row (one column stream per
    leaf, in column order):

    - [convert_columns]: target columns present in the source are copied,
      missing target columns are synthesised from the structure of the deepest
      group that both schemas share on the path of the missing leaf;
    - [convert_columns_pinned]: the algorithm of the pinned tree, statement by
      statement (closest-sibling heuristic, level translation tables), kept
      for the refutation witnesses of Properties/C12.v.

    No proofs here. *)
From Coq Require Import List Arith Bool NArith.
From PQ Require Import Dremel.Model.
Import ListNotations.

(** * Named schemas *)

Inductive nschema :=
| NLeaf (ty : N)                      (* leaf: physical+logical type tag *)
| NGroup (fs : nfields)
with nfields :=
| NNil
| NCons (name : N) (r : rep) (s : nschema) (fs : nfields).

Scheme nschema_mut := Induction for nschema Sort Prop
with nfields_mut := Induction for nfields Sort Prop.
Combined Scheme nschema_both from nschema_mut, nfields_mut.

Fixpoint erase (s : nschema) : schema :=
  match s with
  | NLeaf _ => Leaf
  | NGroup fs => Group (erase_fields fs)
  end
with erase_fields (fs : nfields) : fields :=
  match fs with
  | NNil => FNil
  | NCons _ r s fs' => FCons r (erase s) (erase_fields fs')
  end.

Definition nl (s : nschema) : nat := nleaves (erase s).
Definition nlf (fs : nfields) : nat := nleaves_fields (erase_fields fs).

Definition rep_eqb (a b : rep) : bool :=
  match a, b with
  | Req, Req | Opt, Opt | Rpt, Rpt => true
  | _, _ => false
  end.

Definition is_req (r : rep) : bool := match r with Req => true | _ => false end.

(* levels below a field of repetition [r] (applyFieldRepetitionType) *)
Definition rep_k (r : rep) (k : nat) : nat := match r with Rpt => S k | _ => k end.
Definition rep_d (r : rep) (d : nat) : nat := match r with Req => d | _ => S d end.

(** [find_field n fs off pos]: the field named [n] of [fs]: column offset of
    its first leaf (relative to the group), position, repetition, node.
    (Node.Fields() looked up by name: convert.go getFieldMap, column_mapping.go) *)
Fixpoint find_field (n : N) (fs : nfields) (off pos : nat) : option (nat * nat * rep * nschema) :=
  match fs with
  | NNil => None
  | NCons m r s fs' =>
      if N.eqb n m then Some (off, pos, r, s)
      else find_field n fs' (off + nl s) (S pos)
  end.

Fixpoint has_name (n : N) (fs : nfields) : bool :=
  match fs with
  | NNil => false
  | NCons m _ _ fs' => N.eqb n m || has_name n fs'
  end.

(* groups are not empty and field names are unique within a group *)
Fixpoint wf_nschema (s : nschema) : Prop :=
  match s with
  | NLeaf _ => True
  | NGroup fs => 0 < nlf fs /\ wf_nfields fs
  end
with wf_nfields (fs : nfields) : Prop :=
  match fs with
  | NNil => True
  | NCons n _ s fs' => has_name n fs' = false /\ wf_nschema s /\ wf_nfields fs'
  end.

Fixpoint wf_nschemab (s : nschema) : bool :=
  match s with
  | NLeaf _ => true
  | NGroup fs => (0 <? nlf fs) && wf_nfieldsb fs
  end
with wf_nfieldsb (fs : nfields) : bool :=
  match fs with
  | NNil => true
  | NCons n _ s fs' => negb (has_name n fs') && wf_nschemab s && wf_nfieldsb fs'
  end.

Fixpoint nschema_eqb (a b : nschema) : bool :=
  match a, b with
  | NLeaf x, NLeaf y => N.eqb x y
  | NGroup fa, NGroup fb => nfields_eqb fa fb
  | _, _ => false
  end
with nfields_eqb (a b : nfields) : bool :=
  match a, b with
  | NNil, NNil => true
  | NCons n r s a', NCons m q t b' => N.eqb n m && rep_eqb r q && nschema_eqb s t && nfields_eqb a' b'
  | _, _ => false
  end.

(** * The decision rule

    Same-named nodes must agree on leaf/group kind, on repetition and (for
    leaves) on the type; fields may be dropped, reordered and added freely.
    (The library itself converts between repetitions and between leaf types:
    those conversions change data by design and are outside the statement.) *)
Fixpoint compat (src tgt : nschema) {struct tgt} : bool :=
  match tgt, src with
  | NLeaf a, NLeaf b => N.eqb a b
  | NGroup tfs, NGroup sfs => compat_fields sfs tfs
  | _, _ => false
  end
with compat_fields (sfs tfs : nfields) {struct tfs} : bool :=
  match tfs with
  | NNil => true
  | NCons n r t tfs' =>
      (match find_field n sfs 0 0 with
       | Some (_, _, rs, s) => rep_eqb rs r && compat s t
       | None => true
       end) && compat_fields sfs tfs'
  end.

Section Convert.
  Variable V : Type.
  Variable zero : N -> V.       (* ZeroValue(kind) of a leaf type *)

  Notation value := (value V).
  Notation entry := (entry V).
  Notation column := (column V).

  (** * Value-level specification *)

  (* the value of an added field: null if optional, empty if repeated, the
     zero value (recursively) if required *)
  Fixpoint zero_val (t : nschema) : value :=
    match t with
    | NLeaf ty => VLeaf (zero ty)
    | NGroup fs => VGroup (zero_fields fs)
    end
  with zero_fields (fs : nfields) : list value :=
    match fs with
    | NNil => []
    | NCons _ r s fs' =>
        (match r with
         | Req => zero_val s
         | Opt => VOpt None
         | Rpt => VList []
         end) :: zero_fields fs'
    end.

  Definition field_default (r : rep) (t : nschema) : value :=
    match r with
    | Req => zero_val t
    | Opt => VOpt None
    | Rpt => VList []
    end.

  (** [project src tgt v]: for every target field the source field of the same
      name (recursively), else the default. *)
  Fixpoint project (src tgt : nschema) (v : value) {struct tgt} : value :=
    match tgt with
    | NLeaf _ => v
    | NGroup tfs =>
        match src, v with
        | NGroup sfs, VGroup vs => VGroup (project_fields sfs vs tfs)
        | _, _ => v
        end
    end
  with project_fields (sfs : nfields) (vs : list value) (tfs : nfields) {struct tfs} : list value :=
    match tfs with
    | NNil => []
    | NCons n r t tfs' =>
        (match find_field n sfs 0 0 with
         | Some (_, pos, _, s) =>
             match r, nth_error vs pos with
             | Req, Some fv => project s t fv
             | Opt, Some (VOpt None) => VOpt None
             | Opt, Some (VOpt (Some fv)) => VOpt (Some (project s t fv))
             | Rpt, Some (VList l) => VList (map (fun y => project s t y) l)
             | _, _ => field_default r t
             end
         | None => field_default r t
         end) :: project_fields sfs vs tfs'
    end.

  (** * Column-level algorithm *)

  Inductive action :=
  | ACopy (i : nat)
    (* target column = source column [i] *)
  | AFill (i k d : nat) (z : option V)
    (* missing target column below a shared group whose first leaf column is
       [i] and whose levels are (k, d): one entry per entry of column [i] with
       r <= k; [z] = the zero value when every node from that group down to
       the leaf is required *)
  | AHold (z : option V).
    (* missing target column below a shared group at levels (0, 0) that has no
       direct leaf child: no source column is read, one entry per row at
       levels (0, 0) (the placeholder the library always produced there) *)

  Definition shift (o : nat) (a : action) : action :=
    match a with
    | ACopy i => ACopy (o + i)
    | AFill i k d z => AFill (o + i) k d z
    | AHold z => AHold z
    end.

  Definition act_index (a : action) : nat :=
    match a with ACopy i => i | AFill i _ _ _ => i | AHold _ => 0 end.

  Definition is_hold (a : action) : bool :=
    match a with AHold _ => true | _ => false end.

  Fixpoint has_leaf_child (fs : nfields) : bool :=
    match fs with
    | NNil => false
    | NCons _ _ (NLeaf _) _ => true
    | NCons _ _ (NGroup _) fs' => has_leaf_child fs'
    end.

  (* the placeholder case of Convert *)
  Definition holds (sfs : nfields) (k d : nat) : bool :=
    Nat.eqb k 0 && Nat.eqb d 0 && negb (has_leaf_child sfs).

  Definition fill_action (hold : bool) (k d : nat) (z : option V) : action :=
    if hold then AHold z else AFill 0 k d z.

  (* the columns of an added subtree *)
  Fixpoint fill_plan (t : nschema) (hold : bool) (k d : nat) (allreq : bool) : list action :=
    match t with
    | NLeaf ty => [fill_action hold k d (if allreq then Some (zero ty) else None)]
    | NGroup fs => fill_plan_fields fs hold k d allreq
    end
  with fill_plan_fields (fs : nfields) (hold : bool) (k d : nat) (allreq : bool) : list action :=
    match fs with
    | NNil => []
    | NCons _ r s fs' => fill_plan s hold k d (allreq && is_req r) ++ fill_plan_fields fs' hold k d allreq
    end.

  (** [plan src tgt k d]: one action per target leaf, in target column order;
      indexes are relative to the first leaf of [src]; (k, d) are the levels
      of the node.  A same-named node of the other kind is not the same field
      (lookup by path fails): the target's subtree is filled. *)
  Fixpoint plan (src tgt : nschema) (k d : nat) {struct tgt} : list action :=
    match tgt with
    | NLeaf _ => [ACopy 0]
    | NGroup tfs =>
        match src with
        | NGroup sfs => plan_fields sfs tfs k d
        | NLeaf _ => []
        end
    end
  with plan_fields (sfs tfs : nfields) (k d : nat) {struct tfs} : list action :=
    match tfs with
    | NNil => []
    | NCons n r t tfs' =>
        (match find_field n sfs 0 0 with
         | Some (off, _, _, s) =>
             match s, t with
             | NLeaf _, NLeaf _ | NGroup _, NGroup _ =>
                 map (shift off) (plan s t (rep_k r k) (rep_d r d))
             | _, _ => fill_plan t (holds sfs k d) k d (is_req r)
             end
         | None => fill_plan t (holds sfs k d) k d (is_req r)
         end) ++ plan_fields sfs tfs' k d
    end.

  Fixpoint filter_map {A B} (f : A -> option B) (l : list A) : list B :=
    match l with
    | [] => []
    | x :: l' => match f x with Some y => y :: filter_map f l' | None => filter_map f l' end
    end.

  Definition fill_entry (k d : nat) (z : option V) (e : entry) : option entry :=
    if e_r V e <=? k then
      Some (if d <=? e_d V e then (z, e_r V e, d) else (None, e_r V e, e_d V e))
    else None.

  Definition run (cols : list column) (a : action) : column :=
    match a with
    | ACopy i => nth i cols []
    | AFill i k d z => filter_map (fill_entry k d z) (nth i cols [])
    | AHold z => [(z, 0, 0)]
    end.

  Definition conv (acts : list action) (cols : list column) : list column :=
    map (run cols) acts.

  (** Convert(to, from) then conversion.Convert on one row.  [None] is the
      error.  Equal schemas take the identity shortcut (convert.go: EqualNodes
      -> identity; row.go copyRows: no conversion at all). *)
  Definition convert_columns (src tgt : nschema) (cols : list column) : option (list column) :=
    if nschema_eqb src tgt then Some cols
    else if compat src tgt then Some (conv (plan src tgt 0 0) cols)
    else None.

  (* the general path without the shortcut and without the rejection *)
  Definition convert_columns_general (src tgt : nschema) (cols : list column) : list column :=
    conv (plan src tgt 0 0) cols.

  Definition convert_rows (src tgt : nschema) (rows : list (list column)) : option (list (list column)) :=
    if nschema_eqb src tgt then Some rows
    else if compat src tgt then Some (map (conv (plan src tgt 0 0)) rows)
    else None.

  (* specification at column level: assemble, project, shred again *)
  Definition project_columns (src tgt : nschema) (fuel : nat) (cols : list column) : option (list column) :=
    match asm (erase src) 0 0 fuel cols with
    | Some (v, _) => Some (shred_row (erase tgt) (project src tgt v))
    | None => None
    end.

  (** * The algorithm of the pinned tree (convert.go Convert ~370-530,
        conversion.Convert ~262-345, column_mapping.go lookupClosest) *)

  (* leaves of a schema in column order: path, repetitions along the path, type *)
  Fixpoint leaves_of (s : nschema) (path : list N) (reps : list rep) : list (list N * list rep * N) :=
    match s with
    | NLeaf ty => [(rev path, rev reps, ty)]
    | NGroup fs => leaves_of_fields fs path reps
    end
  with leaves_of_fields (fs : nfields) (path : list N) (reps : list rep) : list (list N * list rep * N) :=
    match fs with
    | NNil => []
    | NCons n r s fs' => leaves_of s (n :: path) (r :: reps) ++ leaves_of_fields fs' path reps
    end.

  (* sourceMapping.lookup(path): the leaf at exactly this path: column index,
     repetitions along the path *)
  Fixpoint lookup_path (p : list N) (fs : nfields) (base : nat) (reps : list rep) : option (nat * list rep * N) :=
    match p with
    | [] => None
    | n :: p' =>
        match find_field n fs 0 0 with
        | Some (off, _, r, NLeaf ty) =>
            match p' with [] => Some (base + off, rev (r :: reps), ty) | _ => None end
        | Some (off, _, r, NGroup gfs) => lookup_path p' gfs (base + off) (r :: reps)
        | None => None
        end
    end.

  (* the direct leaf child with the smallest name (names are encoded so that
     the order of N is the order of the strings) *)
  Fixpoint first_leaf_by_name (fs : nfields) (off : nat) (best : option (N * nat)) : option (N * nat) :=
    match fs with
    | NNil => best
    | NCons n _ s fs' =>
        let best' :=
          match s with
          | NLeaf _ =>
              match best with
              | Some (m, _) => if N.ltb n m then Some (n, off) else best
              | None => Some (n, off)
              end
          | NGroup _ => best
          end in
        first_leaf_by_name fs' (off + nl s) best'
    end.

  (* sourceMapping.lookupClosest(path) *)
  Fixpoint lookup_closest (p : list N) (fs : nfields) (base : nat) : option nat :=
    match p with
    | [] => None
    | n :: p' =>
        match find_field n fs 0 0 with
        | Some (off, _, _, NGroup gfs) => lookup_closest p' gfs (base + off)
        | _ => match first_leaf_by_name fs 0 None with
               | Some (_, o) => Some (base + o)
               | None => None
               end
        end
    end.

  Fixpoint max_rd (reps : list rep) (k d : nat) : nat * nat :=
    match reps with
    | [] => (k, d)
    | r :: reps' => max_rd reps' (rep_k r k) (rep_d r d)
    end.

  Fixpoint set_nth {A} (i : nat) (x : A) (l : list A) : list A :=
    match l, i with
    | [], _ => []
    | _ :: l', O => x :: l'
    | y :: l', S j => y :: set_nth j x l'
    end.

  (* the two translation tables, filled while walking down the path *)
  Fixpoint level_tables (treps sreps : list rep) (tk td sk sd : nat) (rt dt : list nat)
    : list nat * list nat * nat * nat :=
    match treps, sreps with
    | tr :: treps', sr :: sreps' =>
        let tk' := rep_k tr tk in let td' := rep_d tr td in
        let sk' := rep_k sr sk in let sd' := rep_d sr sd in
        level_tables treps' sreps' tk' td' sk' sd' (set_nth sk' tk' rt) (set_nth sd' td' dt)
    | _, _ => (rt, dt, sk, sd)
    end.

  Fixpoint is_direct (l : list nat) (i : nat) : bool :=
    match l with
    | [] => true
    | x :: l' => Nat.eqb x i && is_direct l' (S i)
    end.

  Inductive paction :=
  | PCopy (i : nat) (tabs : option (list nat * list nat)) (opt : bool) (z : V)
    (* source column i, optional level translation; [opt] = the target column
       has a positive max definition level *)
  | PSibNull (i : nat) (maxd : nat)
    (* convertToNullOptional(max definition level) applied to the sibling column *)
  | PSibZero (i : nat) (opt : bool) (z : V)
    (* convertToZero(kind) applied to the sibling column *)
  | PHold (e : option V) (opt : bool) (z : V).
    (* no sibling: one placeholder per row *)

  Definition plan_leaf_pinned (sfs : nfields) (leaf : list N * list rep * N) : paction :=
    let '(p, treps, ty) := leaf in
    let '(_, maxd) := max_rd treps 0 0 in
    let opt := 0 <? maxd in
    match lookup_path p sfs 0 [] with
    | Some (i, sreps, _) =>
        let n := S (length p) in
        let '(rt, dt, sk, sd) := level_tables treps sreps 0 0 0 0 (repeat 0 n) (repeat 0 n) in
        let rt := firstn (S sk) rt in
        let dt := firstn (S sd) dt in
        PCopy i (if is_direct rt 0 && is_direct dt 0 then None else Some (rt, dt)) opt (zero ty)
    | None =>
        let leaf_opt := match last treps Req with Opt => true | _ => false end in
        match lookup_closest p sfs 0 with
        | Some i => if leaf_opt then PSibNull i maxd else PSibZero i opt (zero ty)
        | None => PHold (if leaf_opt then None else Some (zero ty)) opt (zero ty)
        end
    end.

  Definition plan_pinned (src tgt : nschema) : list paction :=
    match src with
    | NGroup sfs => map (plan_leaf_pinned sfs) (leaves_of tgt [] [])
    | NLeaf _ => []
    end.

  (* NullValue() / ZeroValue(kind): levels 0 *)
  Definition placeholder (opt : bool) (z : V) : entry :=
    if opt then (None, 0, 0) else (Some z, 0, 0).

  (* the final loop of conversion.Convert: a null in a column without
     definition levels becomes the zero value (levels reset) *)
  Definition fixup (opt : bool) (z : V) (e : entry) : entry :=
    match e with
    | (None, _, _) => if opt then e else (Some z, 0, 0)
    | _ => e
    end.

  Definition source_values (cols : list column) (i : nat) (opt : bool) (z : V) : column :=
    match nth i cols [] with
    | [] => [placeholder opt z]
    | c => c
    end.

  Definition run_pinned (cols : list column) (a : paction) : column :=
    match a with
    | PCopy i tabs opt z =>
        let c := source_values cols i opt z in
        let c :=
          match tabs with
          | None => c
          | Some (rt, dt) =>
              map (fun e : entry =>
                     let '(x, r, d) := e in
                     if (length rt <=? r) || (length dt <=? d) then (None, 0, 0)
                     else (x, nth r rt 0, nth d dt 0)) c
          end in
        map (fixup opt z) c
    | PSibNull i maxd =>
        map (fun e : entry => let '(_, r, d) := e in (None, r, if Nat.eqb d maxd then pred d else d))
            (source_values cols i true (zero 0%N))
    | PSibZero i opt z =>
        map (fun e : entry => let '(_, r, d) := e in (Some z, r, d)) (source_values cols i opt z)
    | PHold e opt z =>
        [match e with
         | None => fixup opt z (placeholder opt z)
         | Some x => (Some x, 0, 0)
         end]
    end.

  Definition convert_columns_pinned (src tgt : nschema) (cols : list column) : list column :=
    if nschema_eqb src tgt then cols
    else map (run_pinned cols) (plan_pinned src tgt).

  (* Conversion.Column(i) of the pinned tree: -1 is encoded as None *)
  Definition pinned_column (a : paction) : option nat :=
    match a with
    | PCopy i _ _ _ | PSibNull i _ | PSibZero i _ _ => Some i
    | PHold _ _ _ => None
    end.
End Convert.

Arguments ACopy {V}.
Arguments AFill {V}.
Arguments AHold {V}.
Arguments PCopy {V}.
Arguments PSibNull {V}.
Arguments PSibZero {V}.
Arguments PHold {V}.

(** * Instance run by the oracle: leaf values are PLAIN byte strings; the low
      16 bits of a type tag give the length of its zero value. *)
Definition zero_bytes (ty : N) : list N := repeat 0%N (N.to_nat (N.modulo ty 65536)).

Definition convert_bytes := convert_columns (list N) zero_bytes.
Definition convert_general_bytes := convert_columns_general (list N) zero_bytes.
Definition convert_pinned_bytes := convert_columns_pinned (list N) zero_bytes.
Definition project_bytes := project_columns (list N) zero_bytes.
Definition plan_bytes := plan (list N) zero_bytes.
Definition plan_pinned_bytes := plan_pinned (list N) zero_bytes.
