(** Lifting the definition levels of the converted columns is shredding with
    the widened schema: [widen_columns] commutes with [shred]. *)
From Coq Require Import List Arith Bool NArith Lia.
From PQ Require Import Dremel.Model Dremel.Proofs Convert.Model Convert.Lemmas Convert.Proofs Convert.Widen.
Import ListNotations.

Section WidenProofs.
  Variable V : Type.
  Variable zero : N -> V.
  Notation value := (value V).
  Notation entry := (entry V).
  Notation column := (column V).
  Notation widen_val := (widen_val V).
  Notation widen_vals := (widen_vals V).
  Notation lift := (lift V).
  Notation lift_all := (lift_all V).
  Notation widen_columns := (widen_columns V).
  Notation widen_field := (widen_field V).
  Notation widen_top := (widen_top V).
  Notation widen_top_fields := (widen_top_fields V).
  Notation lift_top := (lift_top V).
  Notation lift_all_top := (lift_all_top V).
  Notation field_cols := (field_cols V).
  Notation project := (project V zero).
  Notation wfn := (wfn V).
  Notation wfn_fields := (wfn_fields V).

  (** ** every entry of the columns of a (sub)record is defined at least at
         the level reached so far *)
  Definition all_ge (d : nat) (cols : list column) : Prop :=
    Forall (Forall (fun e => d <= e_d V e)) cols.

  Lemma all_ge_app d a b : all_ge d a -> all_ge d b -> all_ge d (a ++ b).
  Proof. intros. apply Forall_app. now split. Qed.

  Lemma all_ge_weaken d d' cols : d' <= d -> all_ge d cols -> all_ge d' cols.
  Proof.
    intros Hd H. eapply Forall_impl; [|exact H]. intros c Hc.
    eapply Forall_impl; [|exact Hc]. cbn. intros. lia.
  Qed.

  Lemma all_ge_nulls s r d : all_ge d (@nulls V s r d).
  Proof.
    unfold nulls. apply Forall_forall. intros c Hc. apply repeat_spec in Hc. subst c.
    constructor; [cbn; lia|constructor].
  Qed.

  Lemma all_ge_zipapp d (a b : list column) : all_ge d a -> all_ge d b -> all_ge d (zipapp a b).
  Proof.
    revert b. induction a as [|x a IH]; intros [|y b] Ha Hb; cbn; try constructor.
    - inversion Ha; inversion Hb; subst. apply Forall_app. now split.
    - inversion Ha; inversion Hb; subst. now apply IH.
  Qed.

  Lemma all_ge_fold d (Ms : list (list column)) : forall A,
    all_ge d A -> Forall (all_ge d) Ms -> all_ge d (fold_left zipapp Ms A).
  Proof.
    induction Ms as [|M Ms IH]; intros A HA HM; cbn [fold_left]; [exact HA|].
    inversion HM; subst. apply IH; [|assumption]. now apply all_ge_zipapp.
  Qed.

  Lemma shred_all_ge :
    forall s (v : value) r d k, wf s v -> all_ge d (shred s v r d k).
  Proof.
    apply (schema_mut
      (fun s => forall (v : value) r d k, wf s v -> all_ge d (shred s v r d k))
      (fun fs => forall (vs : list value) r d k, wf_fields fs vs -> all_ge d (shred_fields fs vs r d k))).
    - intros [x| | |] r d k H; cbn in *; try contradiction.
      constructor; [|constructor]. constructor; [cbn; lia|constructor].
    - intros fs IH [|vs| |] r d k H; cbn in *; try contradiction. now apply IH.
    - intros [|v vs] r d k H; cbn in *; try contradiction. constructor.
    - intros rp s IHs fs IHf vs r d k H.
      destruct rp; destruct vs as [|fv vs']; cbn in H; try contradiction.
      + destruct H as [Hv Hvs]. rewrite shred_fields_req. apply all_ge_app; auto.
      + destruct fv as [| |[v|]|]; try contradiction.
        * destruct H as [Hv Hvs]. rewrite shred_fields_some. apply all_ge_app; auto.
          eapply all_ge_weaken; [|apply IHs; eauto]. lia.
        * rewrite shred_fields_none. apply all_ge_app; auto. apply all_ge_nulls.
      + destruct fv as [| | |l]; try contradiction. destruct H as [Hl Hvs].
        destruct l as [|x l].
        * rewrite shred_fields_nil. apply all_ge_app; auto. apply all_ge_nulls.
        * rewrite shred_fields_cons. apply all_ge_app; auto.
          inversion Hl as [|? ? Hx Hl']; subst.
          eapply all_ge_weaken with (d := S d); [lia|].
          apply all_ge_fold; [now apply IHs|].
          apply Forall_forall. intros m Hm. apply in_map_iff in Hm. destruct Hm as (y & <- & Hy).
          rewrite Forall_forall in Hl'. apply IHs. now apply Hl'.
  Qed.

  (** ** the tables *)

  Lemma widens_nl :
    (forall s t, widens s t = true -> nl t = nl s) /\
    (forall sfs tfs, widens_fields sfs tfs = true -> nlf tfs = nlf sfs).
  Proof.
    apply nschema_both.
    - intros ty [b|tfs] H; cbn in H; [reflexivity|discriminate].
    - intros sfs IH [b|tfs] H; cbn in H; [discriminate|]. now apply IH.
    - intros [|m q t tfs'] H; cbn in H; [reflexivity|discriminate].
    - intros n r s IHs sfs' IHf [|m q t tfs'] H; cbn in H; [discriminate|].
      apply andb_true_iff in H. destruct H as [H H4].
      apply andb_true_iff in H. destruct H as [H H3].
      rewrite !nlf_cons. now rewrite (IHs _ H3), (IHf _ H4).
  Qed.

  Lemma thr_length :
    (forall s t d, length (thr s t d) = nl s) /\
    (forall sfs tfs d, length (thr_fields sfs tfs d) = nlf sfs).
  Proof.
    apply nschema_both.
    - intros ty t d. destruct t; cbn; reflexivity.
    - intros sfs IH [b|tfs] d; cbn [thr].
      + now rewrite repeat_length.
      + apply IH.
    - intros tfs d. reflexivity.
    - intros n r s IHs sfs' IHf [|m q t tfs'] d; cbn [thr_fields]; rewrite app_length, nlf_cons.
      + now rewrite repeat_length, IHf.
      + now rewrite map_length, IHs, IHf.
  Qed.

  Definition ths_ge (d : nat) (T : list (list nat)) : Prop := Forall (Forall (fun x => d <= x)) T.

  Lemma ths_ge_repeat d n : ths_ge d (repeat [] n).
  Proof. apply Forall_forall. intros x Hx. apply repeat_spec in Hx. subst. constructor. Qed.

  Lemma ths_ge_weaken d d' T : d' <= d -> ths_ge d T -> ths_ge d' T.
  Proof.
    intros Hd H. eapply Forall_impl; [|exact H]. intros c Hc.
    eapply Forall_impl; [|exact Hc]. cbn. intros. lia.
  Qed.

  Lemma thr_ge :
    (forall s t d, ths_ge d (thr s t d)) /\
    (forall sfs tfs d, ths_ge d (thr_fields sfs tfs d)).
  Proof.
    apply nschema_both.
    - intros ty t d. destruct t; apply (ths_ge_repeat d 1).
    - intros sfs IH [b|tfs] d; cbn [thr]; [apply ths_ge_repeat|apply IH].
    - intros tfs d. constructor.
    - intros n r s IHs sfs' IHf [|m q t tfs'] d; cbn [thr_fields]; apply Forall_app; split;
        try apply IHf.
      + apply ths_ge_repeat.
      + apply Forall_forall. intros x Hx. apply in_map_iff in Hx. destruct Hx as (ths & <- & Hin).
        assert (Hg : Forall (fun x => d <= x) ths).
        { pose proof (IHs t (rep_d r d)) as H. unfold ths_ge in H. rewrite Forall_forall in H.
          eapply Forall_impl; [|apply H; exact Hin]. cbn. intros a Ha. destruct r; cbn in Ha; lia. }
        destruct (widened r q); [constructor; [lia|exact Hg]|exact Hg].
  Qed.

  (** ** algebra of [lift_all] *)

  Lemma lift_all_nil c A : lift_all c [] A = [].
  Proof. reflexivity. Qed.

  Lemma lift_all_cons c ths T (col : column) A :
    lift_all c (ths :: T) (col :: A) = map (lift c ths) col :: lift_all c T A.
  Proof. reflexivity. Qed.

  Lemma lift_all_app c T1 T2 (A B : list column) :
    length T1 = length A -> lift_all c (T1 ++ T2) (A ++ B) = lift_all c T1 A ++ lift_all c T2 B.
  Proof.
    revert A. induction T1 as [|t T1 IH]; intros [|a A] H; cbn in H; try lia; [reflexivity|].
    cbn [app]. rewrite !lift_all_cons. cbn [app]. f_equal. apply IH. lia.
  Qed.

  Lemma lift_all_zipapp c T : forall (A B : list column),
    lift_all c T (zipapp A B) = zipapp (lift_all c T A) (lift_all c T B).
  Proof.
    induction T as [|t T IH]; intros A B; [reflexivity|].
    destruct A as [|a A]; [reflexivity|]. destruct B as [|b B]; [reflexivity|].
    cbn [zipapp]. rewrite !lift_all_cons. cbn [zipapp]. now rewrite map_app, IH.
  Qed.

  Lemma lift_all_fold c T (Ms : list (list column)) : forall A,
    lift_all c T (fold_left zipapp Ms A) = fold_left zipapp (map (lift_all c T) Ms) (lift_all c T A).
  Proof.
    induction Ms as [|M Ms IH]; intros A; cbn [fold_left map]; [reflexivity|].
    now rewrite IH, lift_all_zipapp.
  Qed.

  Lemma count_le_above ths e : Forall (fun x => e < x) ths -> count_le ths e = 0.
  Proof.
    unfold count_le. induction 1 as [|x ths Hx _ IH]; [reflexivity|]. cbn.
    destruct (x <=? e) eqn:E; [apply Nat.leb_le in E; lia|exact IH].
  Qed.

  Lemma lift_all_nulls c T r d n :
    ths_ge (S d) T -> length T = n ->
    lift_all c T (repeat [(None, r, d)] n) = repeat [((None : option V), r, d + c)] n.
  Proof.
    revert n. induction T as [|t T IH]; intros [|n] Hg Hl; cbn in Hl; try lia; [reflexivity|].
    inversion Hg as [|? ? Ht Hg']; subst. cbn [repeat]. rewrite lift_all_cons. f_equal.
    - cbn. rewrite count_le_above; [now rewrite Nat.add_0_r|].
      eapply Forall_impl; [|exact Ht]. cbn. intros. lia.
    - apply IH; [exact Hg'|lia].
  Qed.

  Lemma lift_cons_ge c d ths (col : column) :
    Forall (fun e => d <= e_d V e) col -> map (lift c (d :: ths)) col = map (lift (S c) ths) col.
  Proof.
    intros H. apply map_ext_in. intros [[x r] e] Hin. rewrite Forall_forall in H.
    specialize (H _ Hin). cbn in H. unfold Widen.lift, count_le. cbn [filter].
    destruct (d <=? e) eqn:E; [|apply Nat.leb_gt in E; lia]. cbn [length]. f_equal. lia.
  Qed.

  Lemma lift_all_cons_ge c d T : forall (A : list column),
    all_ge d A -> lift_all c (map (cons d) T) A = lift_all (S c) T A.
  Proof.
    induction T as [|t T IH]; intros [|a A] H; try reflexivity.
    inversion H; subst. cbn [map]. rewrite !lift_all_cons. f_equal; [now apply lift_cons_ge|now apply IH].
  Qed.

  Lemma map_id_ext {A} (f : A -> A) l : (forall x, f x = x) -> map f l = l.
  Proof. intros H. induction l; cbn; [reflexivity|]. now rewrite H, IHl. Qed.

  (** unfolding equations (mutual fixpoints do not refold under [cbn]) *)
  Lemma widen_val_group sfs tfs (vs : list value) :
    widen_val (NGroup sfs) (NGroup tfs) (VGroup vs) = VGroup (widen_vals sfs tfs vs).
  Proof. reflexivity. Qed.
  Lemma widen_vals_req n s sfs m q t tfs (fv : value) vs :
    widen_vals (NCons n Req s sfs) (NCons m q t tfs) (fv :: vs) =
    (if widened Req q then VOpt (Some (widen_val s t fv)) else widen_val s t fv) :: widen_vals sfs tfs vs.
  Proof. reflexivity. Qed.
  Lemma widen_vals_some n s sfs m q t tfs (x : value) vs :
    widen_vals (NCons n Opt s sfs) (NCons m q t tfs) (VOpt (Some x) :: vs) =
    VOpt (Some (widen_val s t x)) :: widen_vals sfs tfs vs.
  Proof. reflexivity. Qed.
  Lemma widen_vals_none n s sfs m q t tfs (vs : list value) :
    widen_vals (NCons n Opt s sfs) (NCons m q t tfs) (VOpt None :: vs) = VOpt None :: widen_vals sfs tfs vs.
  Proof. reflexivity. Qed.
  Lemma widen_vals_list n s sfs m q t tfs (l : list value) vs :
    widen_vals (NCons n Rpt s sfs) (NCons m q t tfs) (VList l :: vs) =
    VList (map (widen_val s t) l) :: widen_vals sfs tfs vs.
  Proof. reflexivity. Qed.
  Lemma widen_vals_cons n r s sfs m q t tfs (fv : value) vs :
    widen_vals (NCons n r s sfs) (NCons m q t tfs) (fv :: vs) = widen_field r q s t fv :: widen_vals sfs tfs vs.
  Proof. reflexivity. Qed.
  Lemma thr_group sfs tfs d : thr (NGroup sfs) (NGroup tfs) d = thr_fields sfs tfs d.
  Proof. reflexivity. Qed.
  Lemma thr_fields_cons n r s sfs m q t tfs d :
    thr_fields (NCons n r s sfs) (NCons m q t tfs) d =
    map (fun ths => if widened r q then d :: ths else ths) (thr s t (rep_d r d)) ++ thr_fields sfs tfs d.
  Proof. reflexivity. Qed.

  Lemma map_same (T : list (list nat)) : map (fun ths : list nat => ths) T = T.
  Proof. apply map_id_ext. reflexivity. Qed.

  (** ** shredding the widened value with the widened schema *)
  Lemma widen_shred :
    (forall s t (v : value) r d k c, widens s t = true -> wf_nschema s -> wf (erase s) v ->
        shred (erase t) (widen_val s t v) r (d + c) k = lift_all c (thr s t d) (shred (erase s) v r d k)) /\
    (forall sfs tfs (vs : list value) r d k c, widens_fields sfs tfs = true -> wf_nfields sfs ->
        wf_fields (erase_fields sfs) vs ->
        shred_fields (erase_fields tfs) (widen_vals sfs tfs vs) r (d + c) k
        = lift_all c (thr_fields sfs tfs d) (shred_fields (erase_fields sfs) vs r d k)).
  Proof.
    apply nschema_both.
    - (* leaf *)
      intros ty [b|tfs] v r d k c Hw _ Hv; cbn in Hw; [|discriminate].
      destruct v as [x| | |]; cbn in Hv; try contradiction.
      cbn. unfold count_le. cbn. now rewrite Nat.add_0_r.
    - (* group *)
      intros sfs IH [b|tfs] v r d k c Hw [_ Hs] Hv; cbn in Hw; [discriminate|].
      destruct v as [|vs| |]; cbn in Hv; try contradiction.
      rewrite widen_val_group, thr_group. cbn [erase]. rewrite !shred_group. now apply IH.
    - (* no field *)
      intros [|m q t tfs'] vs r d k c Hw _ Hv; cbn in Hw; [|discriminate].
      destruct vs; cbn in Hv; try contradiction. reflexivity.
    - (* a field *)
      intros n rp s IHs sfs' IHf [|m q t tfs'] vs r d k c Hw [_ [Hs Hfs]] Hv; cbn in Hw; [discriminate|].
      apply andb_true_iff in Hw. destruct Hw as [Hw H4].
      apply andb_true_iff in Hw. destruct Hw as [Hw H3].
      apply andb_true_iff in Hw. destruct Hw as [_ H2].
      assert (Hes : wf_schema (erase s)) by now apply wf_erase.
      assert (Hlen : forall (x : value) r' d' k', wf (erase s) x ->
                length (thr s t d') = length (shred (erase s) x r' d' k')).
      { intros x r' d' k' Hx. rewrite (proj1 thr_length).
        now destruct (shred_shape V (erase s) Hes x r' d' k' Hx) as [-> _]. }
      cbn [erase_fields] in *.
      destruct rp; destruct vs as [|fv vs']; cbn in Hv; try contradiction.
      + (* required in the source *)
        destruct Hv as [Hv Hvs].
        destruct q; cbn in H2; try discriminate.
        * (* required in the target *)
          rewrite widen_vals_req, thr_fields_cons. cbn [widened is_req rep_eqb andb rep_d].
          rewrite !shred_fields_req, map_same.
          rewrite lift_all_app by now apply Hlen.
          f_equal; [now apply IHs|now apply IHf].
        * (* optional in the target: always present *)
          rewrite widen_vals_req, thr_fields_cons. cbn [widened is_req rep_eqb andb rep_d].
          rewrite shred_fields_some, shred_fields_req.
          rewrite lift_all_app by (rewrite map_length; now apply Hlen).
          f_equal; [|now apply IHf].
          rewrite lift_all_cons_ge by now apply shred_all_ge.
          replace (S (d + c)) with (d + S c) by lia. now apply IHs.
      + (* optional on both sides *)
        destruct q; cbn in H2; try discriminate.
        destruct fv as [| |[x|]|]; try contradiction;
          rewrite ?widen_vals_some, ?widen_vals_none, thr_fields_cons;
          cbn [widened is_req rep_eqb andb rep_d]; rewrite map_same.
        * destruct Hv as [Hv Hvs]. rewrite !shred_fields_some.
          rewrite lift_all_app by now apply Hlen.
          f_equal; [|now apply IHf].
          replace (S (d + c)) with (S d + c) by lia. now apply IHs.
        * rewrite !shred_fields_none.
          rewrite lift_all_app by (rewrite (proj1 thr_length); unfold nulls; now rewrite repeat_length).
          f_equal; [|now apply IHf].
          unfold nulls. fold (nl t) (nl s). rewrite (proj1 widens_nl _ _ H3).
          symmetry. apply lift_all_nulls; [apply (proj1 thr_ge)|apply (proj1 thr_length)].
      + (* repeated on both sides *)
        destruct q; cbn in H2; try discriminate.
        destruct fv as [| | |l]; try contradiction. destruct Hv as [Hl Hvs].
        rewrite widen_vals_list, thr_fields_cons. cbn [widened is_req rep_eqb andb rep_d]. rewrite map_same.
        destruct l as [|x l].
        * cbn [map]. rewrite !shred_fields_nil.
          rewrite lift_all_app by (rewrite (proj1 thr_length); unfold nulls; now rewrite repeat_length).
          f_equal; [|now apply IHf].
          unfold nulls. fold (nl t) (nl s). rewrite (proj1 widens_nl _ _ H3).
          symmetry. apply lift_all_nulls; [apply (proj1 thr_ge)|apply (proj1 thr_length)].
        * inversion Hl as [|? ? Hx Hl']; subst. cbn [map]. rewrite !shred_fields_cons.
          assert (Hfold : length (thr s t (S d)) =
                          length (fold_left zipapp (map (fun y => shred (erase s) y (S k) (S d) (S k)) l)
                                            (shred (erase s) x r (S d) (S k)))).
          { rewrite (proj1 thr_length). symmetry. apply fold_zipapp_length.
            - now destruct (shred_shape V (erase s) Hes x r (S d) (S k) Hx).
            - apply Forall_forall. intros M HM. apply in_map_iff in HM. destruct HM as (y & <- & Hy).
              rewrite Forall_forall in Hl'. now destruct (shred_shape V (erase s) Hes y (S k) (S d) (S k) (Hl' y Hy)). }
          rewrite lift_all_app by exact Hfold.
          f_equal; [|now apply IHf].
          rewrite lift_all_fold, !map_map.
          replace (S (d + c)) with (S d + c) by lia.
          rewrite (IHs t x r (S d) (S k) c H3 Hs Hx). f_equal.
          apply map_ext_in. intros y Hy. rewrite Forall_forall in Hl'.
          now apply IHs; [| |apply Hl'].
  Qed.

  (** one row *)
  Theorem widen_shred_row s t (v : value) :
    widens s t = true -> wf_nschema s -> wf (erase s) v ->
    shred_row (erase t) (widen_val s t v) = widen_columns s t (shred_row (erase s) v).
  Proof.
    intros Hw Hs Hv. unfold shred_row, Widen.widen_columns.
    exact (proj1 widen_shred s t v 0 0 0 0 Hw Hs Hv).
  Qed.

  (** ** one field *)

  (* the value of a field has the shape of its repetition *)
  Definition field_ok (rp : rep) (fv : value) : Prop :=
    match rp, fv with
    | Req, _ => True
    | Opt, VOpt _ => True
    | Rpt, VList _ => True
    | _, _ => False
    end.

  Definition field_wf (rp : rep) (s : schema) (fv : value) : Prop :=
    match rp, fv with
    | Req, v => wf s v
    | Opt, VOpt None => True
    | Opt, VOpt (Some v) => wf s v
    | Rpt, VList l => Forall (wf s) l
    | _, _ => False
    end.

  Lemma shred_fields_unfold rp s fs (fv : value) vs r d k :
    field_ok rp fv ->
    shred_fields (FCons rp s fs) (fv :: vs) r d k = field_cols rp s fv r d k ++ shred_fields fs vs r d k.
  Proof.
    intros H. destruct rp; cbn in H.
    - reflexivity.
    - destruct fv as [| |[x|]|]; try contradiction; reflexivity.
    - destruct fv as [| | |[|x l]]; try contradiction; reflexivity.
  Qed.

  Lemma wf_fields_cons rp s fs (fv : value) vs :
    wf_fields (FCons rp s fs) (fv :: vs) -> field_wf rp s fv /\ field_ok rp fv /\ wf_fields fs vs.
  Proof.
    intros H. destruct rp; cbn in H.
    - destruct H. repeat split; auto.
    - destruct fv as [| |[x|]|]; try contradiction; [destruct H|]; repeat split; auto.
    - destruct fv as [| | |l]; try contradiction. destruct H. repeat split; auto.
  Qed.

  Lemma field_wf_fields rp s (fv : value) : field_wf rp s fv -> wf_fields (FCons rp s FNil) [fv].
  Proof.
    intros H. destruct rp; cbn in *.
    - split; [exact H|exact I].
    - destruct fv as [| |[x|]|]; try contradiction; cbn; auto.
    - destruct fv as [| | |l]; try contradiction. cbn. auto.
  Qed.

  Lemma field_wf_ok rp s (fv : value) : field_wf rp s fv -> field_ok rp fv.
  Proof.
    destruct rp; cbn; auto.
    - destruct fv as [| |[x|]|]; auto.
    - destruct fv; auto.
  Qed.

  Lemma field_cols_len rp s (fv : value) r d k :
    wf_schema s -> field_wf rp s fv -> length (field_cols rp s fv r d k) = nleaves s.
  Proof.
    intros Hs H. destruct rp; cbn in *.
    - now apply shred_shape.
    - destruct fv as [| |[v|]|]; try contradiction; [now apply shred_shape|apply nulls_length].
    - destruct fv as [| | |l]; try contradiction. destruct l as [|x l]; [apply nulls_length|].
      inversion H as [|? ? Hx Hl']; subst. apply fold_zipapp_length.
      + now apply shred_shape.
      + apply Forall_forall. intros m Hm. apply in_map_iff in Hm. destruct Hm as (y & <- & Hy).
        apply shred_shape; auto. rewrite Forall_forall in Hl'. auto.
  Qed.

  Lemma widen_field_ok r q s t (fv : value) :
    rep_widens r q = true -> field_ok r fv -> field_ok q (widen_field r q s t fv).
  Proof.
    intros Hw H. destruct r, q; cbn in Hw; try discriminate; cbn in *; auto.
    - destruct fv as [| |[x|]|]; auto.
    - destruct fv; auto.
  Qed.

  (* the columns of one field, through the widened schema *)
  Lemma widen_field_cols s t r q (fv : value) rr d k c :
    rep_widens r q = true -> widens s t = true -> wf_nschema s -> field_wf r (erase s) fv ->
    field_cols q (erase t) (widen_field r q s t fv) rr (d + c) k
    = lift_all c (map (fun ths => if widened r q then d :: ths else ths) (thr s t (rep_d r d)))
               (field_cols r (erase s) fv rr d k).
  Proof.
    intros Hr Hw Hs Hv.
    pose proof (proj2 widen_shred (NCons 0%N r s NNil) (NCons 0%N q t NNil) [fv] rr d k c) as H.
    assert (H1 : widens_fields (NCons 0%N r s NNil) (NCons 0%N q t NNil) = true).
    { cbn. now rewrite Hr, Hw. }
    assert (H2 : wf_nfields (NCons 0%N r s NNil)) by (cbn; auto).
    specialize (H H1 H2 (field_wf_fields _ _ _ Hv)).
    rewrite widen_vals_cons, thr_fields_cons in H. cbn [erase_fields] in H.
    rewrite !shred_fields_unfold in H;
      [|now apply field_wf_ok with (s := erase s)
       |apply widen_field_ok; [exact Hr|now apply field_wf_ok with (s := erase s)]].
    change (widen_vals NNil NNil []) with (@nil value) in H.
    change (thr_fields NNil NNil d) with (@nil (list nat)) in H.
    cbn [shred_fields] in H. now rewrite !app_nil_r in H.
  Qed.

  (** ** the whole record: the outermost widened node may be null *)

  Lemma widen_top_group sfs tfs hs (vs : list value) :
    widen_top (NGroup sfs) (NGroup tfs) hs (VGroup vs) = VGroup (widen_top_fields sfs tfs hs vs).
  Proof. reflexivity. Qed.
  Lemma widen_top_fields_cons n r s sfs m q t tfs hs (fv : value) vs :
    widen_top_fields (NCons n r s sfs) (NCons m q t tfs) hs (fv :: vs) =
    (match r, q with
     | Req, Req => widen_top s t (firstn (nl s) hs) fv
     | Req, Opt => if all_true (firstn (nl s) hs) then VOpt None else widen_field r q s t fv
     | _, _ => widen_field r q s t fv
     end) :: widen_top_fields sfs tfs (skipn (nl s) hs) vs.
  Proof. reflexivity. Qed.
  Lemma thr_top_group sfs tfs hs : thr_top (NGroup sfs) (NGroup tfs) hs = thr_top_fields sfs tfs hs.
  Proof. reflexivity. Qed.
  Lemma thr_top_fields_cons n r s sfs m q t tfs hs :
    thr_top_fields (NCons n r s sfs) (NCons m q t tfs) hs =
    (match r, q with
     | Req, Req => thr_top s t (firstn (nl s) hs)
     | Req, Opt => if all_true (firstn (nl s) hs) then repeat None (nl s) else map Some (thr_field r q s t)
     | _, _ => map Some (thr_field r q s t)
     end) ++ thr_top_fields sfs tfs (skipn (nl s) hs).
  Proof. reflexivity. Qed.

  Lemma thr_field_length r q s t : length (thr_field r q s t) = nl s.
  Proof. unfold thr_field. now rewrite map_length, (proj1 thr_length). Qed.

  Lemma thr_top_length :
    (forall s t hs, length (thr_top s t hs) = nl s) /\
    (forall sfs tfs hs, length (thr_top_fields sfs tfs hs) = nlf sfs).
  Proof.
    apply nschema_both.
    - intros ty t hs. destruct t; reflexivity.
    - intros sfs IH [b|tfs] hs; cbn [thr_top]; [now rewrite repeat_length|apply IH].
    - reflexivity.
    - intros n r s IHs sfs' IHf [|m q t tfs'] hs.
      + cbn [thr_top_fields]. now rewrite app_length, repeat_length, IHf, nlf_cons.
      + rewrite thr_top_fields_cons, app_length, IHf, nlf_cons. f_equal.
        destruct r, q; try (now rewrite map_length, thr_field_length); [apply IHs|].
        destruct (all_true _); [apply repeat_length|now rewrite map_length, thr_field_length].
  Qed.

  Lemma lift_all_top_app T1 T2 (A B : list column) :
    length T1 = length A -> lift_all_top (T1 ++ T2) (A ++ B) = lift_all_top T1 A ++ lift_all_top T2 B.
  Proof.
    unfold Widen.lift_all_top.
    revert A. induction T1 as [|t T1 IH]; intros [|a A] H; cbn in H; try lia; [reflexivity|].
    cbn. f_equal. apply IH. lia.
  Qed.

  Lemma lift_all_top_some T : forall (A : list column), lift_all_top (map Some T) A = lift_all 0 T A.
  Proof.
    unfold Widen.lift_all_top, Widen.lift_all.
    induction T as [|t T IH]; intros [|a A]; cbn; try reflexivity. now rewrite IH.
  Qed.

  (* below a null node every column holds one entry at the level of the node *)
  Definition flat_at (r : nat) (os : list (option (list nat))) (cols : list column) : Prop :=
    Forall2 (fun o c => o = None -> exists x : option V, c = [(x, r, 0)]) os cols.

  Lemma Forall2_app_split {A B} (P : A -> B -> Prop) : forall a1 a2 b1 b2,
    length a1 = length b1 -> Forall2 P (a1 ++ a2) (b1 ++ b2) -> Forall2 P a1 b1 /\ Forall2 P a2 b2.
  Proof.
    induction a1 as [|x a1 IH]; intros a2 [|y b1] b2 Hl H; cbn in *; try lia.
    - split; [constructor|exact H].
    - inversion H; subst. destruct (IH a2 b1 b2) as [H1 H2]; [lia|assumption|].
      split; [now constructor|exact H2].
  Qed.

  Lemma lift_all_top_dead r n : forall (cols : list column),
    flat_at r (repeat None n) cols -> lift_all_top (repeat None n) cols = repeat [((None : option V), r, 0)] n.
  Proof.
    unfold Widen.lift_all_top.
    induction n as [|n IH]; intros cols H; cbn in *.
    - reflexivity.
    - inversion H as [|? c ? cs Hc Hcs]; subst. destruct (Hc eq_refl) as [x ->]. cbn. f_equal. now apply IH.
  Qed.

  Lemma lift_top_nil (e : entry) : lift_top (Some []) e = e.
  Proof. destruct e as [[x r] d]. cbn. unfold count_le. cbn. now rewrite !Nat.add_0_r. Qed.

  Lemma widen_top_shred :
    (forall s t hs (v : value) r k, widens s t = true -> wf_nschema s -> wf (erase s) v ->
        flat_at r (thr_top s t hs) (shred (erase s) v r 0 k) ->
        shred (erase t) (widen_top s t hs v) r 0 k = lift_all_top (thr_top s t hs) (shred (erase s) v r 0 k)) /\
    (forall sfs tfs hs (vs : list value) r k, widens_fields sfs tfs = true -> wf_nfields sfs ->
        wf_fields (erase_fields sfs) vs ->
        flat_at r (thr_top_fields sfs tfs hs) (shred_fields (erase_fields sfs) vs r 0 k) ->
        shred_fields (erase_fields tfs) (widen_top_fields sfs tfs hs vs) r 0 k
        = lift_all_top (thr_top_fields sfs tfs hs) (shred_fields (erase_fields sfs) vs r 0 k)).
  Proof.
    apply nschema_both.
    - intros ty [b|tfs] hs v r k Hw _ Hv _; cbn in Hw; [|discriminate].
      destruct v as [x| | |]; cbn in Hv; try contradiction.
      reflexivity.
    - intros sfs IH [b|tfs] hs v r k Hw [_ Hs] Hv Hf; cbn in Hw; [discriminate|].
      destruct v as [|vs| |]; cbn in Hv; try contradiction.
      rewrite widen_top_group, thr_top_group in *. cbn [erase] in *. rewrite !shred_group in *. now apply IH.
    - intros [|m q t tfs'] hs vs r k Hw _ Hv _; cbn in Hw; [|discriminate].
      destruct vs; cbn in Hv; try contradiction. reflexivity.
    - intros n rp s IHs sfs' IHf [|m q t tfs'] hs vs r k Hw [_ [Hs Hfs]] Hv Hf; cbn in Hw; [discriminate|].
      apply andb_true_iff in Hw. destruct Hw as [Hw H4].
      apply andb_true_iff in Hw. destruct Hw as [Hw H3].
      apply andb_true_iff in Hw. destruct Hw as [_ H2].
      assert (Hes : wf_schema (erase s)) by now apply wf_erase.
      cbn [erase_fields] in *.
      destruct vs as [|fv vs']; [destruct rp; cbn in Hv; contradiction|].
      destruct (wf_fields_cons _ _ _ _ _ Hv) as (Hfv & Hok & Hvs).
      rewrite (shred_fields_unfold rp) in * by exact Hok.
      rewrite widen_top_fields_cons, thr_top_fields_cons in *.
      assert (Hlen : length (field_cols rp (erase s) fv r 0 k) = nl s) by now apply field_cols_len.
      set (piece := match rp, q with
                    | Req, Req => thr_top s t (firstn (nl s) hs)
                    | Req, Opt => if all_true (firstn (nl s) hs) then repeat None (nl s) else map Some (thr_field rp q s t)
                    | _, _ => map Some (thr_field rp q s t)
                    end) in *.
      assert (Hpl : length piece = length (field_cols rp (erase s) fv r 0 k)).
      { rewrite Hlen. subst piece. destruct rp, q; try (now rewrite map_length, thr_field_length);
          [apply (proj1 thr_top_length)|].
        destruct (all_true _); [apply repeat_length|now rewrite map_length, thr_field_length]. }
      destruct (Forall2_app_split _ _ _ _ _ Hpl Hf) as [Hf1 Hf2].
      rewrite lift_all_top_app by exact Hpl.
      (* the generic case: the field is not on the top chain *)
      assert (Hgen : piece = map Some (thr_field rp q s t) ->
                shred_fields (FCons q (erase t) (erase_fields tfs')) (widen_field rp q s t fv :: widen_top_fields sfs' tfs' (skipn (nl s) hs) vs') r 0 k
                = lift_all_top piece (field_cols rp (erase s) fv r 0 k)
                  ++ lift_all_top (thr_top_fields sfs' tfs' (skipn (nl s) hs)) (shred_fields (erase_fields sfs') vs' r 0 k)).
      { intros ->. rewrite shred_fields_unfold by (apply widen_field_ok; assumption).
        f_equal; [|now apply IHf].
        rewrite lift_all_top_some. unfold thr_field.
        exact (widen_field_cols s t rp q fv r 0 k 0 H2 H3 Hs Hfv). }
      destruct rp, q; cbn in H2; try discriminate; try (apply Hgen; reflexivity).
      + (* required on both sides: still on the top chain *)
        cbn [field_cols Proofs.field_cols] in *. rewrite shred_fields_req.
        f_equal; [now apply IHs|now apply IHf].
      + (* the outermost widened node *)
        subst piece. destruct (all_true (firstn (nl s) hs)) eqn:E; [|apply Hgen; reflexivity].
        rewrite shred_fields_none. f_equal; [|now apply IHf].
        rewrite (lift_all_top_dead r) by exact Hf1.
        unfold nulls. fold (nl t). now rewrite (proj1 widens_nl _ _ H3).
  Qed.

  (* the flags say "placeholder" wherever the table says "null" *)
  Lemma firstn_skipn_len {A} (l : list A) n m : length l = n + m -> length (firstn n l) = n /\ length (skipn n l) = m.
  Proof. intros H. rewrite firstn_length, skipn_length. lia. Qed.

  Lemma all_true_forall l : all_true l = true -> Forall (fun h => h = true) l.
  Proof. unfold all_true. intros H. apply Forall_forall. intros x Hx. rewrite forallb_forall in H. now apply H. Qed.

  Lemma thr_top_flags :
    (forall s t hs, length hs = nl s -> Forall2 (fun (o : option (list nat)) h => o = None -> h = true) (thr_top s t hs) hs) /\
    (forall sfs tfs hs, length hs = nlf sfs ->
        Forall2 (fun (o : option (list nat)) h => o = None -> h = true) (thr_top_fields sfs tfs hs) hs).
  Proof.
    assert (Hsome : forall (T : list (list nat)) (hs : list bool), length T = length hs ->
              Forall2 (fun (o : option (list nat)) h => o = None -> h = true) (map Some T) hs).
    { induction T as [|x T IH]; intros [|h hs] H; cbn in H; try lia; constructor; [discriminate|apply IH; lia]. }
    assert (Hrep : forall n (hs : list bool), n = length hs ->
              Forall2 (fun (o : option (list nat)) h => o = None -> h = true) (repeat (Some []) n) hs).
    { intros n hs ->. induction hs; cbn; constructor; [discriminate|assumption]. }
    assert (Hdead : forall l : list bool, Forall (fun h => h = true) l ->
              Forall2 (fun (o : option (list nat)) h => o = None -> h = true) (repeat None (length l)) l).
    { induction 1; cbn; constructor; auto. }
    apply nschema_both.
    - intros ty t hs H. destruct t; apply (Hrep 1); cbn in H; lia.
    - intros sfs IH [b|tfs] hs H; cbn [thr_top]; [apply Hrep; now rewrite H|now apply IH].
    - intros tfs [|h hs] H; cbn in H; try discriminate. constructor.
    - intros n r s IHs sfs' IHf tfs hs H. rewrite nlf_cons in H.
      destruct (firstn_skipn_len hs _ _ H) as [L1 L2].
      rewrite <- (firstn_skipn (nl s) hs) at 2.
      destruct tfs as [|m q t tfs'].
      + cbn [thr_top_fields]. apply Forall2_app; [apply Hrep; now rewrite L1|now apply IHf].
      + rewrite thr_top_fields_cons. apply Forall2_app; [|now apply IHf].
        destruct r, q; try (apply Hsome; now rewrite thr_field_length, L1); [now apply IHs|].
        destruct (all_true (firstn (nl s) hs)) eqn:E; [|apply Hsome; now rewrite thr_field_length, L1].
        apply all_true_forall in E. rewrite <- L1 at 1. now apply Hdead.
  Qed.

  (** a schema widens itself, and nothing changes then *)
  Lemma widens_refl :
    (forall s, widens s s = true) /\ (forall fs, widens_fields fs fs = true).
  Proof.
    apply nschema_both; cbn; auto.
    - intros. apply N.eqb_refl.
    - intros n r s IHs fs IHf. rewrite N.eqb_refl, IHs, IHf.
      destruct r; reflexivity.
  Qed.

  (** ** the widened value is a well-formed value of the widened schema *)
  Lemma widen_wfn n :
    (forall s t (v : value), widens s t = true -> wfn n (erase s) v -> wfn n (erase t) (widen_val s t v)) /\
    (forall sfs tfs (vs : list value), widens_fields sfs tfs = true -> wfn_fields n (erase_fields sfs) vs ->
        wfn_fields n (erase_fields tfs) (widen_vals sfs tfs vs)).
  Proof.
    apply nschema_both.
    - intros ty [b|tfs] v Hw Hv; cbn in Hw; [|discriminate]. destruct v; cbn in *; try contradiction; auto.
    - intros sfs IH [b|tfs] v Hw Hv; cbn in Hw; [discriminate|].
      destruct v as [|vs| |]; cbn in Hv; try contradiction.
      rewrite widen_val_group. cbn [erase]. change (wfn_fields n (erase_fields tfs) (widen_vals sfs tfs vs)).
      now apply IH.
    - intros [|m q t tfs'] vs Hw Hv; cbn in Hw; [|discriminate].
      destruct vs; cbn in *; try contradiction; auto.
    - intros nm rp s IHs sfs' IHf [|m q t tfs'] vs Hw Hv; cbn in Hw; [discriminate|].
      apply andb_true_iff in Hw. destruct Hw as [Hw H4].
      apply andb_true_iff in Hw. destruct Hw as [Hw H3].
      apply andb_true_iff in Hw. destruct Hw as [_ H2].
      cbn [erase_fields] in *.
      destruct rp; destruct vs as [|fv vs']; cbn in Hv; try contradiction.
      + destruct Hv as [Hv Hvs]. rewrite widen_vals_req.
        destruct q; cbn in H2; try discriminate; cbn [widened is_req rep_eqb andb].
        * change (wfn n (erase t) (widen_val s t fv) /\ wfn_fields n (erase_fields tfs') (widen_vals sfs' tfs' vs')).
          split; auto.
        * change (wfn n (erase t) (widen_val s t fv) /\ wfn_fields n (erase_fields tfs') (widen_vals sfs' tfs' vs')).
          split; auto.
      + destruct q; cbn in H2; try discriminate.
        destruct fv as [| |[x|]|]; try contradiction.
        * destruct Hv as [Hv Hvs]. rewrite widen_vals_some.
          change (wfn n (erase t) (widen_val s t x) /\ wfn_fields n (erase_fields tfs') (widen_vals sfs' tfs' vs')).
          split; auto.
        * rewrite widen_vals_none.
          change (wfn_fields n (erase_fields tfs') (widen_vals sfs' tfs' vs')). auto.
      + destruct q; cbn in H2; try discriminate.
        destruct fv as [| | |l]; try contradiction. destruct Hv as [[Hn Hl] Hvs]. rewrite widen_vals_list.
        change ((length (map (widen_val s t) l) <= n /\ Forall (wfn n (erase t)) (map (widen_val s t) l)) /\
                wfn_fields n (erase_fields tfs') (widen_vals sfs' tfs' vs')).
        split; [split|]; auto.
        * now rewrite map_length.
        * apply Forall_forall. intros y Hy. apply in_map_iff in Hy. destruct Hy as (x & <- & Hx).
          rewrite Forall_forall in Hl. apply IHs; [exact H3|exact (Hl x Hx)].
  Qed.

  (** ** the record the target sees is a well-formed record of the target *)
  Lemma wfn_fields_split n rp s fs (fv : value) vs :
    wfn_fields n (FCons rp s fs) (fv :: vs) <-> wfn_fields n (FCons rp s FNil) [fv] /\ wfn_fields n fs vs.
  Proof.
    destruct rp; cbn.
    - tauto.
    - destruct fv as [| |[x|]|]; tauto.
    - destruct fv; tauto.
  Qed.

  Lemma widen_field_wfn n r q s t (fv : value) :
    rep_widens r q = true -> widens s t = true ->
    wfn_fields n (FCons r (erase s) FNil) [fv] -> wfn_fields n (FCons q (erase t) FNil) [widen_field r q s t fv].
  Proof.
    intros Hr Hw H.
    assert (H1 : widens_fields (NCons 0%N r s NNil) (NCons 0%N q t NNil) = true) by (cbn; now rewrite Hr, Hw).
    exact (proj2 (widen_wfn n) (NCons 0%N r s NNil) (NCons 0%N q t NNil) [fv] H1 H).
  Qed.

  Lemma widen_top_wfn n :
    (forall s t hs (v : value), widens s t = true -> wfn n (erase s) v -> wfn n (erase t) (widen_top s t hs v)) /\
    (forall sfs tfs hs (vs : list value), widens_fields sfs tfs = true -> wfn_fields n (erase_fields sfs) vs ->
        wfn_fields n (erase_fields tfs) (widen_top_fields sfs tfs hs vs)).
  Proof.
    apply nschema_both.
    - intros ty [b|tfs] hs v Hw Hv; cbn in Hw; [|discriminate]. destruct v; cbn in *; try contradiction; auto.
    - intros sfs IH [b|tfs] hs v Hw Hv; cbn in Hw; [discriminate|].
      destruct v as [|vs| |]; cbn in Hv; try contradiction.
      rewrite widen_top_group. cbn [erase].
      change (wfn_fields n (erase_fields tfs) (widen_top_fields sfs tfs hs vs)). now apply IH.
    - intros [|m q t tfs'] hs vs Hw Hv; cbn in Hw; [|discriminate].
      destruct vs; cbn in *; try contradiction; auto.
    - intros nm rp s IHs sfs' IHf [|m q t tfs'] hs vs Hw Hv; cbn in Hw; [discriminate|].
      apply andb_true_iff in Hw. destruct Hw as [Hw H4].
      apply andb_true_iff in Hw. destruct Hw as [Hw H3].
      apply andb_true_iff in Hw. destruct Hw as [_ H2].
      cbn [erase_fields] in *.
      destruct vs as [|fv vs']; [destruct rp; cbn in Hv; contradiction|].
      apply wfn_fields_split in Hv. destruct Hv as [Hv Hvs].
      rewrite widen_top_fields_cons. apply wfn_fields_split. split; [|now apply IHf].
      pose proof (widen_field_wfn n rp q s t fv H2 H3 Hv) as Hgen.
      destruct rp, q; cbn in H2; try discriminate; try exact Hgen.
      + cbn in Hv. destruct Hv as [Hv _].
        change (wfn n (erase t) (widen_top s t (firstn (nl s) hs) fv) /\ True). split; [now apply IHs|exact I].
      + destruct (all_true _); [exact I|exact Hgen].
  Qed.

  (** ** Convert + conversion.Convert through a target that reads required
         nodes of the source as optional ones *)
  Lemma conv_flat (acts : list (action V)) (C : list column) os :
    Forall2 (fun (o : option (list nat)) h => o = None -> h = true) os (map (is_hold V) acts) ->
    flat_at 0 os (conv V acts C).
  Proof.
    unfold conv. revert os. induction acts as [|a acts IH]; intros os H; cbn in H; inversion H; subst; cbn; constructor.
    - intros E. match goal with Hh : _ = None -> _ = true |- _ => specialize (Hh E) end.
      destruct a; cbn in *; try discriminate. eexists. reflexivity.
    - now apply IH.
  Qed.

  Theorem convert_widen_is_shred_project src tgtN tgt v n :
    compat src tgtN = true -> widens tgtN tgt = true ->
    wf_nschema src -> wf_nschema tgtN -> wfn n (erase src) v ->
    convert_widen_columns V zero src tgtN tgt (shred_row (erase src) v)
    = Some (shred_row (erase tgt) (project_widen V zero src tgtN tgt v)).
  Proof.
    intros Hc Hw Hs Ht Hv. unfold convert_widen_columns. rewrite Hw.
    assert (Hp : wf (erase tgtN) (project src tgtN v)).
    { eapply wfn_wf. eapply (proj1 (project_wfn V zero n)); eauto. }
    pose proof (convert_is_shred_project V zero src tgtN v n Hc Hs Hv) as Hgen.
    assert (Hout : convert_columns V zero src tgtN (shred_row (erase src) v)
                   = Some (shred_row (erase tgtN) (project src tgtN v))).
    { unfold convert_columns. destruct (nschema_eqb src tgtN) eqn:E.
      - apply (proj1 nschema_eqb_eq) in E. subst tgtN.
        now rewrite (proj1 (project_self V zero n)) by assumption.
      - now rewrite Hc, Hgen. }
    rewrite Hout. f_equal. unfold widen_columns_top, project_widen, shred_row. symmetry.
    apply (proj1 widen_top_shred); auto.
    fold (shred_row (erase tgtN) (project src tgtN v)). rewrite <- Hgen.
    apply conv_flat. apply (proj1 thr_top_flags).
    unfold hold_flags. rewrite map_length, <- (conv_length V (plan V zero src tgtN 0 0) (shred_row (erase src) v)).
    rewrite Hgen. unfold shred_row. apply shred_shape; [now apply wf_erase|exact Hp].
  Qed.

  (* assembling the converted columns with the target schema yields the
     record the target sees *)
  Theorem convert_widen_is_projection src tgtN tgt v n tails :
    compat src tgtN = true -> widens tgtN tgt = true ->
    wf_nschema src -> wf_nschema tgtN -> wf_nschema tgt -> wfn n (erase src) v ->
    length tails = nl tgt -> heads_le V 0 tails ->
    exists cols, convert_widen_columns V zero src tgtN tgt (shred_row (erase src) v) = Some cols /\
      asm (erase tgt) 0 0 (S n) (zipapp cols tails) = Some (project_widen V zero src tgtN tgt v, tails).
  Proof.
    intros Hc Hw Hs Ht Ht' Hv Hl Hh.
    eexists. split; [now apply (convert_widen_is_shred_project src tgtN tgt v n)|].
    unfold shred_row. apply asm_shred; auto.
    - now apply wf_erase.
    - unfold project_widen. apply (proj1 (widen_top_wfn n)); [exact Hw|].
      eapply (proj1 (project_wfn V zero n)); eauto.
  Qed.

  (* nothing is null when some column below every widened node is read from
     the source: then the record the target sees is the projection with the
     widened nodes present *)
  Lemma widen_top_no_hold :
    (forall s t hs (v : value), Forall (fun h => h = false) hs -> length hs = nl s -> wf_nschema s ->
        widen_top s t hs v = widen_val s t v) /\
    (forall sfs tfs hs (vs : list value), Forall (fun h => h = false) hs -> length hs = nlf sfs -> wf_nfields sfs ->
        widen_top_fields sfs tfs hs vs = widen_vals sfs tfs vs).
  Proof.
    apply nschema_both.
    - intros ty t hs v _ _ _. destruct t; reflexivity.
    - intros sfs IH [b|tfs] hs v Hh Hl [_ Hs]; [reflexivity|].
      destruct v as [|vs| |]; try reflexivity.
      rewrite widen_top_group, widen_val_group. f_equal. now apply IH.
    - intros [|m q t tfs'] hs vs _ _ _; destruct vs; reflexivity.
    - intros n r s IHs sfs' IHf [|m q t tfs'] hs vs Hh Hl [_ [Hs Hfs]]; [destruct vs; reflexivity|].
      destruct vs as [|fv vs']; [reflexivity|].
      rewrite widen_top_fields_cons, widen_vals_cons. rewrite nlf_cons in Hl.
      destruct (firstn_skipn_len hs _ _ Hl) as [L1 L2].
      pose proof Hh as Hh'. rewrite <- (firstn_skipn (nl s) hs) in Hh'.
      apply Forall_app in Hh'. destruct Hh' as [H1 H2].
      f_equal; [|now apply IHf].
      destruct r, q; try reflexivity.
      + rewrite IHs by assumption. reflexivity.
      + assert (E : all_true (firstn (nl s) hs) = false).
        { pose proof (nl_pos s Hs) as Hpos. destruct (firstn (nl s) hs) as [|h l]; [cbn in L1; lia|].
          inversion H1; subst. reflexivity. }
        now rewrite E.
  Qed.

  (** no repetition change: nothing is lifted, [convert_widen_columns] is the
      model of Convert/Model.v *)
  Lemma widened_same r : widened r r = false.
  Proof. destruct r; reflexivity. Qed.

  Lemma thr_self :
    (forall s d, thr s s d = repeat [] (nl s)) /\
    (forall fs d, thr_fields fs fs d = repeat [] (nlf fs)).
  Proof.
    apply nschema_both.
    - reflexivity.
    - intros fs IH d. cbn [thr]. apply IH.
    - reflexivity.
    - intros n r s IHs fs IHf d. cbn [thr_fields]. rewrite widened_same.
      rewrite (map_id_ext (fun ths : list nat => ths)) by reflexivity.
      rewrite IHs, IHf, nlf_cons. symmetry. apply repeat_app.
  Qed.

  Lemma lift_all_id n : forall (cols : list column), length cols = n -> lift_all 0 (repeat [] n) cols = cols.
  Proof.
    induction n as [|n IH]; intros [|c cols] H; cbn in H; try lia; [reflexivity|].
    cbn [repeat]. rewrite lift_all_cons. f_equal; [|apply IH; lia].
    apply map_id_ext. intros [[x r] d]. cbn. unfold count_le. cbn. now rewrite !Nat.add_0_r.
  Qed.

  Theorem widen_columns_self s (cols : list column) :
    length cols = nl s -> widen_columns s s cols = cols.
  Proof. intros H. unfold Widen.widen_columns. rewrite (proj1 thr_self). now apply lift_all_id. Qed.

  (** ** one action per target column *)
  Lemma fill_plan_length :
    (forall t hold k d a, length (fill_plan V zero t hold k d a) = nl t) /\
    (forall fs hold k d a, length (fill_plan_fields V zero fs hold k d a) = nlf fs).
  Proof.
    apply nschema_both.
    - reflexivity.
    - intros fs IH hold k d a. apply IH.
    - reflexivity.
    - intros n r s IHs fs IHf hold k d a.
      change (fill_plan_fields V zero (NCons n r s fs) hold k d a)
        with (fill_plan V zero s hold k d (a && is_req r) ++ fill_plan_fields V zero fs hold k d a).
      now rewrite app_length, IHs, IHf, nlf_cons.
  Qed.

  Lemma plan_length :
    (forall tgt src k d, compat src tgt = true -> length (plan V zero src tgt k d) = nl tgt) /\
    (forall tfs sfs k d, compat_fields sfs tfs = true -> length (plan_fields V zero sfs tfs k d) = nlf tfs).
  Proof.
    apply nschema_both.
    - intros ty src k d H. reflexivity.
    - intros tfs IH [b|sfs] k d H; cbn in H; [discriminate|]. now apply IH.
    - reflexivity.
    - intros n r t IHt tfs IHf sfs k d H.
      change (compat_fields sfs (NCons n r t tfs))
        with ((match find_field n sfs 0 0 with
               | Some (_, _, rs, s) => rep_eqb rs r && compat s t
               | None => true
               end) && compat_fields sfs tfs) in H.
      apply andb_true_iff in H. destruct H as [H1 H2].
      rewrite plan_fields_cons, app_length, (IHf _ _ _ H2), nlf_cons. f_equal.
      destruct (find_field n sfs 0 0) as [[[[off pos] rs] s0]|]; [|apply (proj1 fill_plan_length)].
      apply andb_true_iff in H1. destruct H1 as [_ H1].
      pose proof (compat_same_kind _ _ H1) as Hk.
      destruct s0, t; cbn in Hk; try discriminate; rewrite map_length; now apply IHt.
  Qed.

  Lemma hold_flags_length src tgtN : compat src tgtN = true -> length (hold_flags V zero src tgtN) = nl tgtN.
  Proof. intros H. unfold hold_flags. rewrite map_length. now apply (proj1 plan_length). Qed.

  (* no per-row placeholder at all: every widened node is present *)
  Theorem project_widen_present src tgtN tgt (v : value) :
    compat src tgtN = true -> wf_nschema tgtN ->
    Forall (fun h => h = false) (hold_flags V zero src tgtN) ->
    project_widen V zero src tgtN tgt v = widen_val tgtN tgt (project src tgtN v).
  Proof.
    intros Hc Ht Hh. unfold project_widen.
    apply (proj1 widen_top_no_hold); auto. now apply hold_flags_length.
  Qed.

  Lemma thr_top_self :
    (forall s hs, thr_top s s hs = repeat (Some []) (nl s)) /\
    (forall fs hs, thr_top_fields fs fs hs = repeat (Some []) (nlf fs)).
  Proof.
    apply nschema_both.
    - reflexivity.
    - intros fs IH hs. rewrite thr_top_group. apply IH.
    - reflexivity.
    - intros n r s IHs fs IHf hs. rewrite thr_top_fields_cons, IHf, nlf_cons, repeat_app. f_equal.
      assert (E : map Some (thr_field r r s s) = repeat (Some []) (nl s)).
      { unfold thr_field. rewrite widened_same, map_same, (proj1 thr_self). generalize (nl s). induction n0; cbn; [reflexivity|now f_equal]. }
      destruct r; try exact E. apply IHs.
  Qed.

  Lemma lift_all_top_id n : forall (cols : list column), length cols = n -> lift_all_top (repeat (Some []) n) cols = cols.
  Proof.
    unfold Widen.lift_all_top.
    induction n as [|n IH]; intros [|c cols] H; cbn in H; try lia; [reflexivity|].
    cbn. f_equal; [|apply IH; lia]. apply map_id_ext. apply lift_top_nil.
  Qed.

  Theorem widen_columns_top_self src s (cols : list column) :
    length cols = nl s -> widen_columns_top V zero src s s cols = cols.
  Proof. intros H. unfold widen_columns_top. rewrite (proj1 thr_top_self). now apply lift_all_top_id. Qed.
End WidenProofs.
