(** Sorting columns of a converted row group (convert.go ConvertRowGroup: the
    loop that carries rowGroup.SortingColumns() over to the converted row
    group, stopping at the first one that is not a column of the target).

    A row group sorted by the columns k1, k2, ... (lexicographically) and read
    through a target that keeps only some of them is sorted by the longest
    prefix of k1, k2, ... that the target keeps, and in general by nothing
    more: once a column is dropped, the following ones say nothing about the
    order of the rows.  No proofs here. *)
From Coq Require Import List Bool.
Import ListNotations.

Section Sorting.
  Variable K : Type.            (* sorting columns (path, direction, nulls first) *)

  (* ConvertRowGroup: `if !hasColumnPath(schema, col.Path()) { break }` *)
  Fixpoint kept_prefix (kept : K -> bool) (ks : list K) : list K :=
    match ks with
    | [] => []
    | k :: ks' => if kept k then k :: kept_prefix kept ks' else []
    end.

  (** rows are compared column by column: [cmp k a b] is the order of the rows
      [a] and [b] on the column [k] (direction and placement of nulls
      included) *)
  Variable R : Type.
  Variable cmp : K -> R -> R -> comparison.

  Fixpoint lex (ks : list K) (a b : R) : comparison :=
    match ks with
    | [] => Eq
    | k :: ks' => match cmp k a b with Eq => lex ks' a b | c => c end
    end.

  Definition le_by (ks : list K) (a b : R) : bool :=
    match lex ks a b with Gt => false | _ => true end.

  (* every row is not after the next one (what a merge relies on) *)
  Fixpoint sorted_by (ks : list K) (rows : list R) : bool :=
    match rows with
    | a :: ((b :: _) as rest) => le_by ks a b && sorted_by ks rest
    | _ => true
    end.
End Sorting.

(* the oracle's instance: one flag per sorting column of the source *)
Definition kept_count (flags : list bool) : nat := length (kept_prefix bool (fun b => b) flags).
