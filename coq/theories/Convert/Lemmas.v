(** List and column lemmas used by Convert/Proofs.v. *)
From Coq Require Import List Arith Bool NArith Lia.
From PQ Require Import Dremel.Model Dremel.Proofs Convert.Model.
Import ListNotations.

Section Lemmas.
  Variable V : Type.
  Variable zero : N -> V.
  Notation value := (value V).
  Notation entry := (entry V).
  Notation column := (column V).
  Notation action := (action V).
  Notation run := (run V).
  Notation conv := (conv V).

  Lemma filter_map_app {A B} (f : A -> option B) (a b : list A) :
    filter_map f (a ++ b) = filter_map f a ++ filter_map f b.
  Proof.
    induction a as [|x a IH]; cbn; [reflexivity|]. destruct (f x); cbn; now rewrite IH.
  Qed.

  Lemma nth_zipapp (A B : list column) i :
    length A = length B -> nth i (zipapp A B) [] = nth i A [] ++ nth i B [].
  Proof.
    revert B i. induction A as [|x A IH]; intros [|y B] i H; cbn in *; try lia.
    - now destruct i.
    - destruct i; [reflexivity|]. apply IH. lia.
  Qed.

  Lemma run_zipapp (A B : list column) a :
    is_hold V a = false -> length A = length B -> run (zipapp A B) a = run A a ++ run B a.
  Proof.
    intros Hh H. destruct a as [i|i k d z|z]; cbn; [| |discriminate].
    - now apply nth_zipapp.
    - rewrite nth_zipapp by assumption. apply filter_map_app.
  Qed.

  Definition no_hold (acts : list action) : Prop := Forall (fun a => is_hold V a = false) acts.

  Lemma conv_zipapp acts (A B : list column) :
    no_hold acts -> length A = length B -> conv acts (zipapp A B) = zipapp (conv acts A) (conv acts B).
  Proof.
    intros Hn H. unfold Model.conv. induction Hn as [|a acts Ha _ IH]; cbn; [reflexivity|].
    now rewrite run_zipapp, IH.
  Qed.

  Lemma conv_length acts (C : list column) : length (conv acts C) = length acts.
  Proof. unfold Model.conv. apply map_length. Qed.

  Lemma conv_app a1 a2 (C : list column) : conv (a1 ++ a2) C = conv a1 C ++ conv a2 C.
  Proof. unfold Model.conv. apply map_app. Qed.

  Lemma conv_fold_zipapp acts (Ms : list (list column)) : no_hold acts -> forall A n,
    length A = n -> Forall (fun M => length M = n) Ms ->
    conv acts (fold_left zipapp Ms A) = fold_left zipapp (map (conv acts) Ms) (conv acts A).
  Proof.
    intros Hn. induction Ms as [|M Ms IH]; intros A n HA HM; cbn [fold_left map]; [reflexivity|].
    inversion HM; subst.
    rewrite (IH _ (length A)); [|rewrite zipapp_length; lia|assumption].
    now rewrite conv_zipapp by (auto; lia).
  Qed.

  Lemma nth_skipn {A} (l : list A) o i dflt : nth (o + i) l dflt = nth i (skipn o l) dflt.
  Proof.
    revert l. induction o as [|o IH]; intros l; cbn; [reflexivity|].
    destruct l; [now destruct i|]. apply IH.
  Qed.

  Lemma nth_firstn {A} (l : list A) n i dflt : i < n -> nth i (firstn n l) dflt = nth i l dflt.
  Proof.
    revert l i. induction n as [|n IH]; intros l i H; [lia|].
    destruct l; cbn; [now destruct i|]. destruct i; [reflexivity|]. apply IH. lia.
  Qed.

  Lemma run_shift (C : list column) o a : run C (shift V o a) = run (skipn o C) a.
  Proof. destruct a; cbn; try reflexivity; now rewrite nth_skipn. Qed.

  Lemma conv_shift acts (C : list column) o : conv (map (shift V o) acts) C = conv acts (skipn o C).
  Proof.
    unfold Model.conv. rewrite map_map. apply map_ext. intros a. apply run_shift.
  Qed.

  Lemma run_firstn (C : list column) n a : act_index V a < n -> run (firstn n C) a = run C a.
  Proof. destruct a; cbn; intros H; try reflexivity; now rewrite nth_firstn. Qed.

  Lemma conv_firstn acts (C : list column) n :
    Forall (fun a => act_index V a < n) acts -> conv acts (firstn n C) = conv acts C.
  Proof.
    unfold Model.conv. intros H. apply map_ext_in. intros a Ha.
    rewrite Forall_forall in H. apply run_firstn. now apply H.
  Qed.

  (** columns of a (sub)record: first entry at levels (r, >= d), later
      entries repeat at a level > k *)
  Definition shaped (r d k : nat) (cols : list column) : Prop :=
    Forall (fun c => exists e rest, c = e :: rest /\ e_r V e = r /\ d <= e_d V e /\
                                    Forall (fun e' => k < e_r V e') rest) cols.

  Lemma shaped_app r d k a b : shaped r d k a -> shaped r d k b -> shaped r d k (a ++ b).
  Proof. intros. apply Forall_app. now split. Qed.

  Lemma shaped_weaken r d d' k k' cols : d' <= d -> k' <= k -> shaped r d k cols -> shaped r d' k' cols.
  Proof.
    intros Hd Hk H. eapply Forall_impl; [|exact H]. intros c (e & rest & -> & Hr & He & Ht).
    exists e, rest. repeat split; auto; [lia|]. eapply Forall_impl; [|exact Ht]. cbn. intros. lia.
  Qed.

  Lemma shaped_nulls s r d k : shaped r d k (@nulls V s r d).
  Proof.
    unfold nulls. apply Forall_forall. intros c Hc. apply repeat_spec in Hc. subst c.
    exists (None, r, d), []. cbn. repeat split; auto.
  Qed.

  Lemma shaped_zipapp r d k (a b : list column) :
    length a = length b -> shaped r d k a -> shaped (S k) d (S k) b -> shaped r d k (zipapp a b).
  Proof.
    revert b. induction a as [|x a IH]; intros [|y b] Hl Ha Hb; cbn in *; try lia; [constructor|].
    inversion Ha as [|? ? (e & rest & -> & Hr & Hd & Ht) Ha']; subst.
    inversion Hb as [|? ? (e' & rest' & -> & Hr' & Hd' & Ht') Hb']; subst.
    constructor.
    - exists e, (rest ++ e' :: rest'). repeat split; auto.
      apply Forall_app. split; [exact Ht|]. constructor; [lia|].
      eapply Forall_impl; [|exact Ht']. cbn. intros. lia.
    - apply IH; auto.
  Qed.

  Lemma shaped_fold_zipapp r d k (Ms : list (list column)) : forall A n,
    length A = n -> Forall (fun M => length M = n) Ms ->
    shaped r d k A -> Forall (shaped (S k) d (S k)) Ms ->
    shaped r d k (fold_left zipapp Ms A).
  Proof.
    induction Ms as [|M Ms IH]; intros A n HA HM HsA HsM; cbn [fold_left]; [exact HsA|].
    inversion HM; subst. inversion HsM; subst.
    apply (IH _ (length A)); auto; [rewrite zipapp_length; lia|].
    apply shaped_zipapp; auto.
  Qed.

  Lemma shred_shaped :
    forall s, wf_schema s -> forall (v : value) r d k, wf s v -> r <= k ->
      shaped r d k (shred s v r d k).
  Proof.
    apply (schema_mut
      (fun s => wf_schema s -> forall (v : value) r d k, wf s v -> r <= k -> shaped r d k (shred s v r d k))
      (fun fs => wf_schema_fields fs -> forall (vs : list value) r d k, wf_fields fs vs -> r <= k ->
                 shaped r d k (shred_fields fs vs r d k))).
    - intros _ [x| | |] r d k H Hr; cbn in *; try contradiction.
      constructor; [|constructor]. exists (Some x, r, d), []. cbn. repeat split; auto.
    - intros fs IH [_ Hs] [|vs| |] r d k H Hr; cbn in *; try contradiction. now apply IH.
    - intros _ [|v vs] r d k H Hr; cbn in *; try contradiction. constructor.
    - intros rp s IHs fs IHf [Hs Hfs] vs r d k H Hr.
      destruct rp; destruct vs as [|fv vs']; cbn in H; try contradiction.
      + destruct H as [Hv Hvs]. rewrite shred_fields_req. apply shaped_app; auto.
      + destruct fv as [| |[v|]|]; try contradiction.
        * destruct H as [Hv Hvs]. rewrite shred_fields_some. apply shaped_app; auto.
          eapply shaped_weaken; [| |apply IHs; eauto]; lia.
        * rewrite shred_fields_none. apply shaped_app; auto. apply shaped_nulls.
      + destruct fv as [| | |l]; try contradiction. destruct H as [Hl Hvs].
        destruct l as [|x l].
        * rewrite shred_fields_nil. apply shaped_app; auto. apply shaped_nulls.
        * rewrite shred_fields_cons. apply shaped_app; auto.
          inversion Hl as [|? ? Hx Hl']; subst.
          destruct (shred_shape V s Hs x r (S d) (S k) Hx) as [L1 _].
          assert (Hms : Forall (fun m => length m = nleaves s) (map (fun y => shred s y (S k) (S d) (S k)) l)).
          { apply Forall_forall. intros m Hm. apply in_map_iff in Hm. destruct Hm as (y & <- & Hy).
            rewrite Forall_forall in Hl'. now destruct (shred_shape V s Hs y (S k) (S d) (S k) (Hl' y Hy)). }
          eapply shaped_weaken with (d := S d) (k := k); [lia|lia|].
          apply (shaped_fold_zipapp _ _ _ _ _ (nleaves s) L1 Hms).
          -- eapply shaped_weaken with (d := S d) (k := S k); [lia|lia|]. apply IHs; auto.
          -- apply Forall_forall. intros m Hm. apply in_map_iff in Hm. destruct Hm as (y & <- & Hy).
             rewrite Forall_forall in Hl'. apply IHs; [exact Hs|exact (Hl' y Hy)|lia].
  Qed.

  (** every well-formed value has a bound on the lengths of its lists *)
  Fixpoint vbound (v : value) : nat :=
    match v with
    | VLeaf _ => 0
    | VGroup vs => list_max (map vbound vs)
    | VOpt None => 0
    | VOpt (Some x) => vbound x
    | VList l => Nat.max (length l) (list_max (map vbound l))
    end.

  Lemma wfn_mono n m : n <= m ->
    forall s (v : value), wfn V n s v -> wfn V m s v.
  Proof.
    intros Hnm.
    apply (schema_mut (fun s => forall v : value, wfn V n s v -> wfn V m s v)
                      (fun fs => forall vs : list value, wfn_fields V n fs vs -> wfn_fields V m fs vs)).
    - intros [x| | |] H; simpl in *; auto.
    - intros fs IH [|vs| |] H; simpl in *; auto.
    - intros [|v vs] H; simpl in *; auto.
    - intros rp s IHs fs IHf [|fv vs] H; destruct rp; simpl in *; try contradiction.
      + destruct H. split; auto.
      + destruct fv as [| |[v|]|]; try contradiction; [destruct H; split; auto|auto].
      + destruct fv as [| | |l]; try contradiction. destruct H as [[Hl Hf] Hvs]. split; [split|auto].
        * lia.
        * eapply Forall_impl; [|exact Hf]. auto.
  Qed.

  Lemma in_list_max x l : In x l -> x <= list_max l.
  Proof.
    intros H. assert (Hm : list_max l <= list_max l) by lia.
    apply list_max_le in Hm. rewrite Forall_forall in Hm. now apply Hm.
  Qed.

  Lemma list_max_cons a l : list_max (a :: l) = Nat.max a (list_max l).
  Proof. reflexivity. Qed.

  Lemma wf_wfn : forall s (v : value), wf s v -> wfn V (vbound v) s v.
  Proof.
    apply (schema_mut (fun s => forall v : value, wf s v -> wfn V (vbound v) s v)
                      (fun fs => forall vs : list value, wf_fields fs vs -> wfn_fields V (list_max (map vbound vs)) fs vs)).
    - intros [x| | |] H; simpl in *; auto.
    - intros fs IH [|vs| |] H; simpl in H; try contradiction. apply IH. exact H.
    - intros [|v vs] H; simpl in *; auto.
    - intros rp s IHs fs IHf [|fv vs] H; destruct rp; simpl in H; try contradiction.
      + destruct H as [Hv Hvs]. cbn [map]; rewrite list_max_cons. split.
        * eapply wfn_mono; [|apply IHs; exact Hv]. lia.
        * apply (wfn_mono (list_max (map vbound vs)) _ (Nat.le_max_r _ _) (Group fs) (VGroup vs)). apply IHf; exact Hvs.
      + destruct fv as [| |[v|]|]; try contradiction.
        * destruct H as [Hv Hvs]. cbn [map]; rewrite list_max_cons; cbn [vbound]. split.
          -- eapply wfn_mono; [|apply IHs; exact Hv]. lia.
          -- apply (wfn_mono (list_max (map vbound vs)) _ (Nat.le_max_r _ _) (Group fs) (VGroup vs)). apply IHf; exact Hvs.
        * cbn [map]; rewrite list_max_cons; cbn [vbound].
          apply (wfn_mono (list_max (map vbound vs)) _ (Nat.le_max_r _ _) (Group fs) (VGroup vs)). apply IHf; exact H.
      + destruct fv as [| | |l]; try contradiction. destruct H as [Hl Hvs]. cbn [map]; rewrite list_max_cons; cbn [vbound].
        split; [split|].
        * lia.
        * apply Forall_forall. intros y Hy. rewrite Forall_forall in Hl.
          eapply wfn_mono; [|apply IHs; apply Hl; exact Hy].
          pose proof (in_list_max (vbound y) (map vbound l) (in_map vbound l y Hy)). lia.
        * apply (wfn_mono (list_max (map vbound vs)) _ (Nat.le_max_r _ _) (Group fs) (VGroup vs)). apply IHf; exact Hvs.
  Qed.
End Lemmas.
