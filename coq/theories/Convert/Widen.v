(** Reading a required node as an optional one (convert.go Convert: the
    definition level tables [definitionLevels] / [fill.definitionLevels] filled
    while walking down the path of a column, applied by convertToLevels and
    conversionFill.appendValues; convert_variant.go: variantConversion.defLevels).

    A target may declare optional a node that the source declares required (a
    struct field read into a pointer field, a nullable or merged schema).  No
    value and no nesting changes: the node is present wherever its parent is.
    The library first decides everything on the structure of the SOURCE (which
    column is copied, which shared group a missing column is filled from, the
    per-row placeholder) and then translates the definition levels.  The model
    has the same two stages: [convert_columns src tgtN] for the target [tgtN] in
    which those nodes are still required (Convert/Model.v, no repetition
    change), then [widen_columns tgtN tgt] which lifts the definition levels.

    One choice is free and made the way the library makes it: the OUTERMOST
    node read as optional is NULL when no column below it says anything about
    the source, i.e. when every column below it takes the per-row placeholder
    of Convert (missing in the source, the deepest shared group sits at levels
    (0, 0) and has no column of its own: no source column is read, the value
    is produced at levels zero).  As soon as one column below it is copied or
    filled from a source column the node is present, for every column.

    No proofs here. *)
From Coq Require Import List Arith Bool NArith.
From PQ Require Import Dremel.Model Convert.Model.
Import ListNotations.

(** [widens s t]: [t] is [s] in which some required nodes are optional (same
    names, order, kinds and leaf types). *)
Definition rep_widens (r q : rep) : bool :=
  rep_eqb r q || (is_req r && rep_eqb q Opt).

(* the node is required in [s] and optional in [t] *)
Definition widened (r q : rep) : bool := is_req r && rep_eqb q Opt.

Fixpoint widens (s t : nschema) {struct s} : bool :=
  match s, t with
  | NLeaf a, NLeaf b => N.eqb a b
  | NGroup sfs, NGroup tfs => widens_fields sfs tfs
  | _, _ => false
  end
with widens_fields (sfs tfs : nfields) {struct sfs} : bool :=
  match sfs, tfs with
  | NNil, NNil => true
  | NCons n r s sfs', NCons m q t tfs' =>
      N.eqb n m && rep_widens r q && widens s t && widens_fields sfs' tfs'
  | _, _ => false
  end.

Section Widen.
  Variable V : Type.
  Variable zero : N -> V.

  Notation value := (value V).
  Notation entry := (entry V).
  Notation column := (column V).

  (** * Value level: a widened node is always present *)
  Fixpoint widen_val (s t : nschema) (v : value) {struct s} : value :=
    match s, t, v with
    | NGroup sfs, NGroup tfs, VGroup vs => VGroup (widen_vals sfs tfs vs)
    | _, _, _ => v
    end
  with widen_vals (sfs tfs : nfields) (vs : list value) {struct sfs} : list value :=
    match sfs, tfs, vs with
    | NCons _ r s sfs', NCons _ q t tfs', fv :: vs' =>
        (match r, fv with
         | Req, _ => if widened r q then VOpt (Some (widen_val s t fv)) else widen_val s t fv
         | Opt, VOpt (Some x) => VOpt (Some (widen_val s t x))
         | Rpt, VList l => VList (map (widen_val s t) l)
         | _, _ => fv
         end) :: widen_vals sfs' tfs' vs'
    | _, _, _ => []
    end.

  (* one field, below the top *)
  Definition widen_field (r q : rep) (s t : nschema) (fv : value) : value :=
    match r, fv with
    | Req, _ => if widened r q then VOpt (Some (widen_val s t fv)) else widen_val s t fv
    | Opt, VOpt (Some x) => VOpt (Some (widen_val s t x))
    | Rpt, VList l => VList (map (widen_val s t) l)
    | _, _ => fv
    end.

  Definition all_true (l : list bool) : bool := forallb (fun b => b) l.

  (** The record as the target sees it.  [hs]: for every leaf of [s] (column
      order), whether Convert took the per-row placeholder for it.  The
      recursion follows the nodes that are required on both sides (levels
      (0, 0), nothing widened above); everything else is [widen_field]. *)
  Fixpoint widen_top (s t : nschema) (hs : list bool) (v : value) {struct s} : value :=
    match s, t, v with
    | NGroup sfs, NGroup tfs, VGroup vs => VGroup (widen_top_fields sfs tfs hs vs)
    | _, _, _ => v
    end
  with widen_top_fields (sfs tfs : nfields) (hs : list bool) (vs : list value) {struct sfs} : list value :=
    match sfs, tfs, vs with
    | NCons _ r s sfs', NCons _ q t tfs', fv :: vs' =>
        (match r, q with
         | Req, Req => widen_top s t (firstn (nl s) hs) fv
         | Req, Opt => if all_true (firstn (nl s) hs) then VOpt None else widen_field r q s t fv
         | _, _ => widen_field r q s t fv
         end) :: widen_top_fields sfs' tfs' (skipn (nl s) hs) vs'
    | _, _, _ => []
    end.

  (** * Column level: the definition level tables

      For every leaf of [s] (column order): the source definition levels at
      which a widened node of its path is reached.  A widened node reached at
      source level [t] is present in an entry of definition level [e] iff
      [t <= e] (it is required in the source: present wherever its parent is),
      and every present widened node adds one level in the target.  This is the
      table [definitionLevels[sourceLevel] = targetLevel] of Convert: the entry
      of a source level is overwritten by every deeper node that has the same
      source level, so it ends as the target level of the deepest such node. *)
  Fixpoint thr (s t : nschema) (d : nat) {struct s} : list (list nat) :=
    match s, t with
    | NGroup sfs, NGroup tfs => thr_fields sfs tfs d
    | _, _ => repeat [] (nl s)
    end
  with thr_fields (sfs tfs : nfields) (d : nat) {struct sfs} : list (list nat) :=
    match sfs, tfs with
    | NNil, _ => []
    | NCons _ r s sfs', NCons _ q t tfs' =>
        map (fun ths => if widened r q then d :: ths else ths) (thr s t (rep_d r d))
          ++ thr_fields sfs' tfs' d
    | NCons _ _ s sfs', NNil => repeat [] (nl s) ++ thr_fields sfs' NNil d
    end.

  Definition count_le (ths : list nat) (e : nat) : nat :=
    length (filter (fun t => t <=? e) ths).

  (* [c]: widened ancestors that are present in every entry of the column *)
  Definition lift (c : nat) (ths : list nat) (e : entry) : entry :=
    let '(x, r, d) := e in (x, r, d + c + count_le ths d).

  Definition lift_all (c : nat) (thss : list (list nat)) (cols : list column) : list column :=
    map (fun p : list nat * column => map (lift c (fst p)) (snd p)) (combine thss cols).

  Definition widen_columns (s t : nschema) (cols : list column) : list column :=
    lift_all 0 (thr s t 0) cols.

  (* one field at levels (0, 0) *)
  Definition thr_field (r q : rep) (s t : nschema) : list (list nat) :=
    map (fun ths => if widened r q then 0 :: ths else ths) (thr s t (rep_d r 0)).

  (* per leaf: [None] below the outermost widened node when it is null (the
     entry becomes a null at the level it has), else the table *)
  Fixpoint thr_top (s t : nschema) (hs : list bool) {struct s} : list (option (list nat)) :=
    match s, t with
    | NGroup sfs, NGroup tfs => thr_top_fields sfs tfs hs
    | _, _ => repeat (Some []) (nl s)
    end
  with thr_top_fields (sfs tfs : nfields) (hs : list bool) {struct sfs} : list (option (list nat)) :=
    match sfs, tfs with
    | NNil, _ => []
    | NCons _ r s sfs', NCons _ q t tfs' =>
        (match r, q with
         | Req, Req => thr_top s t (firstn (nl s) hs)
         | Req, Opt => if all_true (firstn (nl s) hs) then repeat None (nl s) else map Some (thr_field r q s t)
         | _, _ => map Some (thr_field r q s t)
         end) ++ thr_top_fields sfs' tfs' (skipn (nl s) hs)
    | NCons _ _ s sfs', NNil => repeat (Some []) (nl s) ++ thr_top_fields sfs' NNil (skipn (nl s) hs)
    end.

  Definition lift_top (o : option (list nat)) (e : entry) : entry :=
    match o with
    | Some ths => lift 0 ths e
    | None => let '(_, r, d) := e in (None, r, d)
    end.

  Definition lift_all_top (os : list (option (list nat))) (cols : list column) : list column :=
    map (fun p : option (list nat) * column => map (lift_top (fst p)) (snd p)) (combine os cols).

  (* which target columns are per-row placeholders (plan: AHold) *)
  Definition hold_flags (src tgtN : nschema) : list bool :=
    map (is_hold V) (plan V zero src tgtN 0 0).

  Definition widen_columns_top (src tgtN tgt : nschema) (cols : list column) : list column :=
    lift_all_top (thr_top tgtN tgt (hold_flags src tgtN)) cols.

  (** * Convert(to, from) + conversion.Convert for a target [tgt] that widens
        [tgtN]; [None] is the error *)
  Definition convert_widen_columns (src tgtN tgt : nschema) (cols : list column) : option (list column) :=
    if widens tgtN tgt then
      match convert_columns V zero src tgtN cols with
      | Some out => Some (widen_columns_top src tgtN tgt out)
      | None => None
      end
    else None.

  (** The algorithm before the repairs 989a01a / f1d59c6: the level tables were
      applied to the copied and to the filled columns only; a per-row
      placeholder stayed at levels zero (with its zero value when everything
      below the shared group is required), whatever the other columns below
      the widened node said.  Kept for the refutation witness of
      Properties/C12.v. *)
  Fixpoint lift_unless_hold (hs : list bool) (thss : list (list nat)) (cols : list column) : list column :=
    match hs, thss, cols with
    | h :: hs', ths :: thss', c :: cols' =>
        (if h then c else map (lift 0 ths) c) :: lift_unless_hold hs' thss' cols'
    | _, _, _ => []
    end.

  Definition convert_widen_columns_pinned (src tgtN tgt : nschema) (cols : list column) : list column :=
    lift_unless_hold (hold_flags src tgtN) (thr tgtN tgt 0) (convert_columns_general V zero src tgtN cols).

  (* the general path, without the identity shortcut and the rejection *)
  Definition convert_widen_columns_general (src tgtN tgt : nschema) (cols : list column) : list column :=
    widen_columns_top src tgtN tgt (convert_columns_general V zero src tgtN cols).

  (* the specification at value level *)
  Definition project_widen (src tgtN tgt : nschema) (v : value) : value :=
    widen_top tgtN tgt (hold_flags src tgtN) (project V zero src tgtN v).

  (* the specification at column level: assemble, project, widen, shred *)
  Definition project_widen_columns (src tgtN tgt : nschema) (fuel : nat) (cols : list column) : option (list column) :=
    match asm (erase src) 0 0 fuel cols with
    | Some (v, _) => Some (shred_row (erase tgt) (project_widen src tgtN tgt v))
    | None => None
    end.

  (** * Conversion.Column(i): the source column a target column reads.  For a
        missing column it is the first column of the deepest shared group
        ([fillSourceIndex]), or none (-1) when the per-row placeholder is
        taken: [plan] says so for [tgtN]; below a widened node that is present
        the library takes the fill path instead of the placeholder. *)
  Fixpoint fill_index (t : nschema) (i : nat) : list nat :=
    match t with
    | NLeaf _ => [i]
    | NGroup fs => fill_index_fields fs i
    end
  with fill_index_fields (fs : nfields) (i : nat) : list nat :=
    match fs with
    | NNil => []
    | NCons _ _ s fs' => fill_index s i ++ fill_index_fields fs' i
    end.

  (* for every leaf of [tgt]: the first source column of the deepest shared group *)
  Fixpoint shared_index (src tgt : nschema) (base : nat) {struct tgt} : list nat :=
    match tgt with
    | NLeaf _ => [base]
    | NGroup tfs =>
        match src with
        | NGroup sfs => shared_index_fields sfs tfs base
        | NLeaf _ => []
        end
    end
  with shared_index_fields (sfs tfs : nfields) (base : nat) {struct tfs} : list nat :=
    match tfs with
    | NNil => []
    | NCons n _ t tfs' =>
        (match find_field n sfs 0 0 with
         | Some (off, _, _, s) =>
             match s, t with
             | NLeaf _, NLeaf _ | NGroup _, NGroup _ => shared_index s t (base + off)
             | _, _ => fill_index t base
             end
         | None => fill_index t base
         end) ++ shared_index_fields sfs tfs' base
    end.

  (* [Some i] / [None] = -1 *)
  Definition column_of (a : action V) (alive : bool) (i : nat) : option nat :=
    match a with
    | ACopy j => Some j
    | AFill j _ _ _ => Some j
    | AHold _ => if alive then Some i else None
    end.

  (* per leaf of the target: it lies below a widened node that is present *)
  Definition alive_flags (tgtN tgt : nschema) (hs : list bool) : list bool :=
    map (fun o : option (list nat) => match o with Some (_ :: _) => true | _ => false end) (thr_top tgtN tgt hs).

  Fixpoint zip3 {A B C D} (f : A -> B -> C -> D) (a : list A) (b : list B) (c : list C) : list D :=
    match a, b, c with
    | x :: a', y :: b', z :: c' => f x y z :: zip3 f a' b' c'
    | _, _, _ => []
    end.

  Definition columns_of (src tgtN tgt : nschema) : list (option nat) :=
    zip3 column_of (plan V zero src tgtN 0 0) (alive_flags tgtN tgt (hold_flags src tgtN)) (shared_index src tgtN 0).
End Widen.

Definition convert_widen_bytes := convert_widen_columns (list N) zero_bytes.
Definition project_widen_bytes := project_widen_columns (list N) zero_bytes.
Definition columns_of_bytes := columns_of (list N) zero_bytes.
