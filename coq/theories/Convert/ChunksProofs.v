(** Proofs about Convert/Chunks.v: the column-chunk view of a copied column is
    the row path (conversion.Convert on every row), column by column. *)
From Coq Require Import List Arith NArith Lia.
From PQ Require Import Dremel.Model Convert.Model Convert.Chunks.
Import ListNotations.

Section ChunksProofs.
  Variable V : Type.
  Notation column := (column V).

  Lemma nth_conv : forall (acts : list (action V)) (cols : list column) c a,
      nth_error acts c = Some a -> nth c (conv V acts cols) [] = run V cols a.
  Proof.
    intros acts cols c a H. unfold conv.
    apply nth_error_nth. now apply map_nth_error.
  Qed.

  Lemma row_slice_map : forall (A B : Type) (f : A -> B) i j (l : list A),
      row_slice i j (map f l) = map f (row_slice i j l).
  Proof.
    intros A B f i j l. unfold row_slice. now rewrite skipn_map, firstn_map.
  Qed.

  Lemma chunk_of_conv : forall (acts : list (action V)) c i (rows : list (list column)),
      nth_error acts c = Some (ACopy i) ->
      chunk_of V c (map (conv V acts) rows) = chunk_of V i rows.
  Proof.
    intros acts c i rows H. unfold chunk_of. rewrite map_map. f_equal.
    apply map_ext. intros row. exact (nth_conv acts row c _ H).
  Qed.

  (** The values of rows i .. j-1 of column chunk [c] of the converted row
      group are column [c] of the converted rows i .. j-1. *)
  Theorem chunk_view_is_row_path : forall (acts : list (action V)) c i j (rows : list (list column)) col,
      chunk_view V acts c (row_slice i j rows) = Some col ->
      col = chunk_of V c (row_slice i j (map (conv V acts) rows)).
  Proof.
    intros acts c i j rows col H. unfold chunk_view in H.
    destruct (nth_error acts c) as [a|] eqn:E; [|discriminate].
    destruct a as [k|k k0 d z|z]; try discriminate.
    injection H as <-. rewrite row_slice_map. symmetry. now apply chunk_of_conv.
  Qed.

  (** Slicing twice is slicing once. *)
  Lemma skipn_add : forall (A : Type) i x (l : list A), skipn (i + x) l = skipn x (skipn i l).
  Proof.
    intros A i. induction i as [|i IH]; intros x l; [reflexivity|].
    destruct l as [|a l]; simpl; [now rewrite skipn_nil|apply IH].
  Qed.

  Lemma row_slice_slice : forall (A : Type) i j x y (l : list A),
      i + y <= j ->
      row_slice x y (row_slice i j l) = row_slice (i + x) (i + y) l.
  Proof.
    intros A i j x y l Hj. unfold row_slice.
    rewrite skipn_firstn_comm, firstn_firstn, skipn_add.
    f_equal. lia.
  Qed.
End ChunksProofs.
