(** C16 — values handed to the caller are not changed by later library
    activity.  Statements only; the model is Conc/Ownership.v (an ownership
    heap on top of the refcount protocol of C15), the proofs
    Conc/OwnershipProofs.v.

    What is proved: for the ownership MODEL (cells tagged Live rc / Pooled /
    Detached / CallerOwned; the API calls as sequences of primitive heap
    updates that mirror row_group.go, column_chunk.go, buffer.go,
    type_byte_array.go) and for every history.  That the Go code touches memory
    only as the model says (in particular aliasing through unsafe that never
    passes a hooked pool) is explored by harness/c16 with the poison hook, not
    proved. *)
From Coq Require Import List Arith Bool Lia.
From PQ Require Import Conc.Sem Conc.SemProofs Conc.Refcount Conc.Ownership Conc.OwnershipProofs.
Import ListNotations.

Section C16.
  (* content of page p of reader r: any pure function of the files *)
  Variable pagefun : nat -> nat -> nat.

  (** Readers start without a page; a reader whose values reference page
      memory (byte array columns) detaches its pages ([readers_ok]: what
      newRowGroupRows sets up).  Then for EVERY history of primitives — hence
      every history of ReadRows (any number of page crossings), typed reads,
      clones, seeks, closes, ReadPage / Retain / Release by the caller, writes,
      and any amount of pool churn by other readers and writers — every value
      of every batch the caller is still entitled to (rows of the last
      ReadRows of a reader until the next call on that reader; page values
      while the caller holds the page; clones and Go values from Read[T]
      indefinitely) references a cell that is caller memory, detached, or a
      live retained buffer — never a pooled one — and the cell holds exactly
      the content the value had when it was handed out. *)
  Theorem C16_no_dangling : forall rds ps st b v,
    readers_ok rds ->
    run (ostep pagefun) (mkO [] rds []) ps = Some st ->
    In b (held st) -> In v (bvals b) -> not_dangling st v.
  Proof. exact (no_dangling pagefun). Qed.

  (** hence pool churn (another reader or writer, or the poison hook,
      overwriting a pooled cell) does not change what an entitled value reads *)
  Theorem C16_churn_preserves_values : forall st c w st' b v c0 x,
    OInv st -> ostep pagefun st (PChurn c w) = Some st' ->
    In b (held st) -> In v (bvals b) -> vcell v = Some c0 ->
    nth_error (heap st) c0 = Some x -> nth_error (heap st') c0 = Some x.
  Proof. exact (churn_preserves_values pagefun). Qed.

  (** no library operation — in particular no write path, which only READS
      the cells the caller passes in — modifies a cell of the caller *)
  Theorem C16_writer_reads_only : forall st l st' c x,
    OInv st -> ostep pagefun st l = Some st' ->
    nth_error (heap st) c = Some x -> ctag x = TCaller ->
    nth_error (heap st') c = Some x.
  Proof. exact (caller_cells_untouched pagefun). Qed.

  (** the invariant behind the three statements is preserved by every primitive *)
  Theorem C16_invariant_step : forall st l st', OInv st -> ostep pagefun st l = Some st' -> OInv st'.
  Proof. exact (ostep_inv pagefun). Qed.

  (** the replay run by the oracle on the harness's histories never reports a
      changed value *)
  Theorem C16_replay_all_ok : forall n ops,
    Forall (fun p => snd p = true) (replay pagefun (oinit n true) 0 ops).
  Proof.
    intros n ops. apply replay_all_ok. apply (init_oinv (readers (oinit n true))). apply oinit_ok.
  Qed.
End C16.

(** releasing a cell is the unref (and, at zero, the put) of protocol P1 *)
Theorem C16_unref_refines_refcount : forall x n o k,
  ctag x = TLive (S n) ->
  exists s', buf_step (BLive true (S n)) EUnref = Some s' /\
             tag_of_bstate s' = Some (ctag (unref_cell x o k)) /\
             (n = 0 -> buf_step s' EPut = Some BPooled).
Proof. exact unref_refines_P1. Qed.

Print Assumptions C16_no_dangling.
Print Assumptions C16_churn_preserves_values.
Print Assumptions C16_writer_reads_only.
Print Assumptions C16_invariant_step.
Print Assumptions C16_replay_all_ok.
Print Assumptions C16_unref_refines_refcount.

Definition C16_full_statement : Prop :=
  (* the property is about the memory of a Go process; the theorems are about
     the ownership model.  The tie is harness/c16 (poison hook, churn, snapshot
     comparison) and the replay of its histories by the extracted model. *)
  True.

(** * Non-vacuity *)
Definition ex_pagefun (r p : nat) : nat := (r + 1) * 100 + p.

(* two readers of byte array columns; ReadRows crossing a page, churn, clone,
   seek, close, typed read: the entitled batches after each operation *)
Definition ex_ops : list op :=
  [OReadRows 0 1; OReadRows 1 0; OChurn 7; OClone 0; OSeek 0 3; OChurn 9; OClose 1;
   OReadTyped 0 2; OChurn 3; OReadRows 0 0].

Example C16_ex_replay :
  replay ex_pagefun (oinit 2 true) 0 ex_ops =
  [([0], true); ([0; 1], true); ([0; 1], true); ([0; 1; 3], true); ([1; 3], true);
   ([1; 3], true); ([3], true); ([3; 7], true); ([3; 7], true); ([3; 7; 9], true)].
Proof. vm_compute. reflexivity. Qed.

(* the hypothesis is satisfiable and the conclusion is about real references:
   after ReadRows crossing one page the batch holds a value referencing a
   DETACHED cell and one referencing the LIVE current page *)
Example C16_ex_values :
  let st := do_op ex_pagefun (oinit 1 true) 0 (OReadRows 0 1) in
  map (fun x => (ctag x, cval x)) (heap st) = [(TDetached, 100); (TLive 1, 101)] /\
  map bvals (held st) = [[mkValue (Some 0) 100; mkValue (Some 1) 101]].
Proof. vm_compute. split; reflexivity. Qed.

(** The seeded defect "rowGroupRows does not detach byte array pages"
    (readers with rbytes = true, rdetach = false: [readers_ok] fails): the page
    crossed during ReadRows goes back to the pool and the rows just returned
    reference a pooled, poisoned cell. *)
Theorem C16_no_detach_refuted :
  exists ops, existsb (fun p => negb (snd p)) (replay ex_pagefun (oinit 1 false) 0 ops) = true.
Proof. exists [OReadRows 0 1]. vm_compute. reflexivity. Qed.

(** The value-level reader of a column chunk (column_chunk.go
    columnChunkValueReader made by NewColumnChunkValueReader: rdetach = false,
    [readers_ok] does not hold for it) is safe only because ReadValues returns at
    the end of a page: a call ends the window of the previous batch (PEnd),
    releases the page to the pool (PRelease) and loads the next one (here into
    the very cell just released); one batch never spans two pages.  Replayed
    with churn after each call: the batch of the last call is intact. *)
Example C16_ex_value_reader :
  let st1 := run_prims ex_pagefun (oinit 1 false) [PEnd 0; PLoad 0 0; PCollect 0 0] in
  let st2 := churn_all ex_pagefun st1 7 (length (heap st1)) in
  let st3 := run_prims ex_pagefun st2 [PEnd 0; PRelease 0; PLoad 0 0; PCollect 0 1] in
  let st4 := churn_all ex_pagefun st3 9 (length (heap st3)) in
  (map bid (held st2), state_ok st2) = ([0], true) /\
  (map bid (held st4), state_ok st4) = ([1], true).
Proof. vm_compute. split; reflexivity. Qed.

(** The seeded defect "the value reader tops up a batch from the following
    pages": the released page is recycled for the next page of the same call
    while the batch still references it. *)
Theorem C16_value_reader_top_up_refuted :
  let st := run_prims ex_pagefun (oinit 1 false)
              [PEnd 0; PLoad 0 0; PCollect 0 0; PRelease 0; PLoad 0 0; PCollect 0 0] in
  map bid (held st) = [0] /\ state_ok st = false.
Proof. vm_compute. split; reflexivity. Qed.

(* a write reads a caller cell and leaves it as it was *)
Example C16_ex_write :
  let st := run_prims ex_pagefun (oinit 1 true) [PLoad 0 0; PCollect 0 0; PCopy 0 1] in
  match ostep ex_pagefun st (PWrite 1 2) with
  | Some st' => nth_error (heap st') 1 = nth_error (heap st) 1 /\
                option_map ctag (nth_error (heap st) 1) = Some TCaller
  | None => False
  end.
Proof. vm_compute. split; reflexivity. Qed.
