(** C05 — statistics and page indexes bound the data they describe.
    Statements only; the proofs are in Stats/*.v.

    Values are bit patterns ([N]) for the numeric kinds and byte lists for the
    byte kinds; [cmp_num k] / [cmp_bytes] / [cmp_be128] are the orders of
    compare.go on those patterns (Stats/Order.v), [nan_num k] is math.IsNaN on
    the bits (constantly false for the non-float kinds).  "non-NaN" below is
    [nan_num k v = false]. *)
From Coq Require Import List NArith ZArith Bool Lia.
From PQ Require Import Base.Bytes Search.Model Search.Proofs
     Stats.Order Stats.OrderProofs Stats.Model Stats.Proofs Stats.Instances Stats.Kinds Stats.Decimal
     Stats.Multi Stats.MultiProofs Stats.Deprecated Stats.DeprecatedProofs.
Import ListNotations.
Open Scope Z_scope.

(** * Page bounds: page_*.go Bounds, dictionary_*.go Bounds *)

(** Every non-null non-NaN value of a page lies within [min, max] in the
    column order; min and max are values of the page; they are NaN only when
    the page holds nothing else.  All numeric kinds. *)
Theorem C05_page_bounds_sound : forall (k : numkind) (l : list N) (mn mx : N),
  bounds_num k l = Some (mn, mx) ->
  (forall v, In v l -> nan_num k v = false -> cmp_num k mn v <= 0 /\ cmp_num k v mx <= 0) /\
  In mn l /\ In mx l /\
  ((exists v, In v l /\ nan_num k v = false) -> nan_num k mn = false /\ nan_num k mx = false).
Proof. exact num_page_bounds_sound. Qed.

(** the same for dictionary-encoded pages (floatDictionary.Bounds ... after 14734b5) *)
Theorem C05_dict_page_bounds_sound : forall (k : numkind) (l : list N) (mn mx : N),
  dict_bounds_num k l = Some (mn, mx) ->
  (forall v, In v l -> nan_num k v = false -> cmp_num k mn v <= 0 /\ cmp_num k v mx <= 0) /\
  In mn l /\ In mx l /\
  ((exists v, In v l /\ nan_num k v = false) -> nan_num k mn = false /\ nan_num k mx = false).
Proof. exact num_dict_bounds_sound. Qed.

(** BYTE_ARRAY ([sw = true], the switch of byteArrayPage.bounds) and
    FIXED_LEN_BYTE_ARRAY ([sw = false], boundsFixedLenByteArray): lexicographic *)
Theorem C05_page_bounds_sound_bytes : forall (sw : bool) (l : list bytes) (mn mx : bytes),
  page_bounds cmp_bytes (fun _ => false) sw l = Some (mn, mx) ->
  (forall v, In v l -> cmp_bytes mn v <= 0 /\ cmp_bytes v mx <= 0) /\ In mn l /\ In mx l.
Proof. exact bytes_page_bounds_within. Qed.

(** 128-bit big-endian (UUID): boundsBE128 compares two uint64 halves *)
Theorem C05_page_bounds_sound_be128 : forall (l : list bytes) (mn mx : bytes),
  bounds_byte BBe128 l = Some (mn, mx) ->
  (forall v, In v l -> cmp_be128 mn v <= 0 /\ cmp_be128 v mx <= 0) /\ In mn l /\ In mx l.
Proof. exact be128_page_bounds_within. Qed.

Theorem C05_page_bounds_none_iff_empty : forall (k : numkind) (l : list N),
  bounds_num k l = None <-> l = [].
Proof. exact num_page_bounds_none. Qed.

Print Assumptions C05_page_bounds_sound.
Print Assumptions C05_dict_page_bounds_sound.
Print Assumptions C05_page_bounds_sound_bytes.
Print Assumptions C05_page_bounds_sound_be128.
Print Assumptions C05_page_bounds_none_iff_empty.

(** * Column chunk statistics: writer.go recordPageStats *)

(** For any list of pages whose recorded bounds are sound for their values
    (what the theorems above give), the folded chunk bounds are bounds of every
    non-NaN value of the chunk, are values of the chunk, are NaN only when the
    chunk holds nothing else; the value and null counts are the sums. *)
Theorem C05_chunk_stats_sound : forall (k : numkind) (pages : list (list (option N))),
  let vals := concat (map (@non_nulls N) pages) in
  let st := chunk_num k (map (page_of_values (cmp_num k) (nan_num k) false) pages) in
  match cs_bounds st with
  | None => vals = []
  | Some (mn, mx) =>
      (forall v, In v vals -> nan_num k v = false -> cmp_num k mn v <= 0 /\ cmp_num k v mx <= 0) /\
      In mn vals /\ In mx vals /\
      ((exists v, In v vals /\ nan_num k v = false) -> nan_num k mn = false /\ nan_num k mx = false)
  end.
Proof. exact num_chunk_of_values_sound. Qed.

Theorem C05_chunk_stats_sound_any_pages : forall (k : numkind) ps valss,
  Forall2 (page_sound N (cmp_num k) (nan_num k)) ps valss ->
  match cs_bounds (chunk_num k ps) with
  | None => concat valss = []
  | Some (mn, mx) =>
      within N (cmp_num k) (nan_num k) mn mx (concat valss) /\
      In mn (concat valss) /\ In mx (concat valss) /\
      (has_value N (nan_num k) (concat valss) -> nan_num k mn = false /\ nan_num k mx = false)
  end.
Proof. exact num_chunk_stats_sound. Qed.

Theorem C05_chunk_stats_sound_bytes : forall ps valss,
  Forall2 (page_sound bytes cmp_bytes (fun _ => false)) ps valss ->
  match cs_bounds (chunk_byte BBytes ps) with
  | None => concat valss = []
  | Some (mn, mx) =>
      within bytes cmp_bytes (fun _ => false) mn mx (concat valss) /\
      In mn (concat valss) /\ In mx (concat valss)
  end.
Proof. exact bytes_chunk_stats_sound. Qed.

Theorem C05_chunk_counts_exact : forall (k : numkind) ps,
  cs_num_values (chunk_num k ps) = sumZ (map (@pi_num_values N) ps) /\
  cs_null_count (chunk_num k ps) = sumZ (map (@pi_num_nulls N) ps).
Proof. exact num_chunk_counts_exact. Qed.

Print Assumptions C05_chunk_stats_sound.
Print Assumptions C05_chunk_stats_sound_any_pages.
Print Assumptions C05_chunk_stats_sound_bytes.
Print Assumptions C05_chunk_counts_exact.

(** * Deprecated min / max of the column chunk statistics: writer.go recordPageStats,
      option DeprecatedDataPageStatistics *)

(** [chunk_dep_num k dep ps] / [chunk_dep_byte k dep ps] model the fields
    Statistics.Min / Statistics.Max of a column chunk (Stats/Deprecated.v: they
    are assigned inside the branches of recordPageStats that assign
    MinValue / MaxValue).  For every list of pages - any number of pages, bounds
    moving on any page, byte strings of any length - they are the chunk's
    min_value / max_value when the option is set and absent otherwise; hence,
    for pages whose recorded bounds are sound, they are bounds of every non-NaN
    value of the chunk in the column order and values of the chunk. *)
Theorem C05_chunk_deprecated_is_min_max_value : forall (k : numkind) (dep : bool) ps,
  chunk_dep_num k dep ps = dep_of_bounds dep (cs_bounds (chunk_num k ps)).
Proof. exact chunk_dep_num_spec. Qed.

Theorem C05_chunk_deprecated_is_min_max_value_bytes : forall (k : bytekind) (dep : bool) ps,
  chunk_dep_byte k dep ps = dep_of_bounds dep (cs_bounds (chunk_byte k ps)).
Proof. exact chunk_dep_byte_spec. Qed.

Theorem C05_chunk_deprecated_stats_sound : forall (k : numkind) ps valss,
  Forall2 (page_sound N (cmp_num k) (nan_num k)) ps valss ->
  match chunk_dep_num k true ps with
  | (Some mn, Some mx) =>
      within N (cmp_num k) (nan_num k) mn mx (concat valss) /\
      In mn (concat valss) /\ In mx (concat valss) /\
      (has_value N (nan_num k) (concat valss) -> nan_num k mn = false /\ nan_num k mx = false)
  | (None, None) => concat valss = []
  | _ => False
  end.
Proof. exact num_chunk_deprecated_sound. Qed.

Theorem C05_chunk_deprecated_stats_sound_bytes : forall ps valss,
  Forall2 (page_sound bytes cmp_bytes (fun _ => false)) ps valss ->
  match chunk_dep_byte BBytes true ps with
  | (Some mn, Some mx) =>
      within bytes cmp_bytes (fun _ => false) mn mx (concat valss) /\ In mn (concat valss) /\ In mx (concat valss)
  | (None, None) => concat valss = []
  | _ => False
  end.
Proof. exact bytes_chunk_deprecated_sound. Qed.

Print Assumptions C05_chunk_deprecated_is_min_max_value.
Print Assumptions C05_chunk_deprecated_is_min_max_value_bytes.
Print Assumptions C05_chunk_deprecated_stats_sound.
Print Assumptions C05_chunk_deprecated_stats_sound_bytes.

(** non-vacuity: pages "m","m" | "zz","n" (the maximum grows in length on the
    second page), and a minimum that becomes shorter on the third page *)
Example C05_ex_deprecated_longer_max :
  chunk_dep_byte BBytes true
    [ {| pi_num_values := 2; pi_num_nulls := 0; pi_bounds := Some ([109], [109]) |};
      {| pi_num_values := 2; pi_num_nulls := 0; pi_bounds := Some ([110], [122; 122]) |} ]%N
  = (Some [109]%N, Some [122; 122]%N).
Proof. vm_compute. reflexivity. Qed.
Example C05_ex_deprecated_shorter_min :
  chunk_dep_byte BBytes true
    [ {| pi_num_values := 2; pi_num_nulls := 0; pi_bounds := Some ([109; 109], [109; 109; 109]) |};
      {| pi_num_values := 2; pi_num_nulls := 0; pi_bounds := Some ([110; 110], [110; 110]) |};
      {| pi_num_values := 2; pi_num_nulls := 0; pi_bounds := Some ([97], [110]) |} ]%N
  = (Some [97]%N, Some [110; 110]%N).
Proof. vm_compute. reflexivity. Qed.

(** * Truncation of byte-array bounds: column_index.go truncateLarge* *)

(** for every byte string and every size limit *)
Theorem C05_trunc_min_lower : forall (limit : nat) (v : bytes),
  cmp_bytes (truncate_min limit v) v <= 0.
Proof. exact truncate_min_lower. Qed.

(** ... all-0xFF prefixes included ([wf_bytes]: every byte is below 256) *)
Theorem C05_trunc_max_upper : forall (limit : nat) (v : bytes),
  wf_bytes v -> cmp_bytes v (truncate_max limit v) <= 0.
Proof. exact truncate_max_upper. Qed.

Print Assumptions C05_trunc_min_lower.
Print Assumptions C05_trunc_max_upper.

(** * The column index: column_index.go *)

(** one entry per page in each of the four lists, for every indexer and every
    page list (FIXED_LEN_BYTE_ARRAY: bounds have the size of the column) *)
Theorem C05_index_aligned : forall (k : numkind) ps,
  let ci := index_num k ps in
  length (ci_null_pages ci) = length ps /\ length (ci_null_counts ci) = length ps /\
  length (ci_min_values ci) = length ps /\ length (ci_max_values ci) = length ps.
Proof. exact num_index_aligned. Qed.

Theorem C05_index_aligned_bytes : forall (k : bytekind) (limit : Z) ps,
  byte_pages_ok k ps ->
  let ci := index_byte k limit ps in
  length (ci_null_pages ci) = length ps /\ length (ci_null_counts ci) = length ps /\
  length (ci_min_values ci) = length ps /\ length (ci_max_values ci) = length ps.
Proof. exact byte_index_aligned. Qed.

(** null counts and null-page flags are the real ones *)
Theorem C05_counts_exact : forall (k : numkind) (pages : list (list (option N))) i vals,
  nth_error pages i = Some vals ->
  let ci := index_num k (map (page_of_values (cmp_num k) (nan_num k) false) pages) in
  nth_error (ci_null_counts ci) i = Some (Z.of_nat (count_nulls vals)) /\
  exists flag, nth_error (ci_null_pages ci) i = Some flag /\
               (flag = true <-> Forall (fun o => o = None) vals).
Proof. exact num_counts_exact. Qed.

Theorem C05_counts_exact_any_pages : forall (k : bytekind) (limit : Z) ps i p,
  byte_pages_ok k ps -> nth_error ps i = Some p ->
  let ci := index_byte k limit ps in
  nth_error (ci_null_counts ci) i = Some (pi_num_nulls p) /\
  nth_error (ci_null_pages ci) i = Some (pi_num_values p =? pi_num_nulls p).
Proof. exact byte_counts_any_pages. Qed.

Theorem C05_level_histograms_exact : forall max_level column levels,
  length column = S max_level -> Forall (fun l => (l <= max_level)%nat) levels ->
  let (col, pg) := level_histograms max_level column levels in
  forall k, nth k col 0 = nth k column 0 + Z.of_nat (count_occ Nat.eq_dec levels k) /\
            nth k pg 0 = Z.of_nat (count_occ Nat.eq_dec levels k).
Proof. exact level_histograms_exact. Qed.

Print Assumptions C05_index_aligned.
Print Assumptions C05_index_aligned_bytes.
Print Assumptions C05_counts_exact.
Print Assumptions C05_counts_exact_any_pages.
Print Assumptions C05_level_histograms_exact.

(** * Boundary order *)

(** If the index claims Ascending (1) then mins and maxes are non-decreasing
    over all the stored entries (the zero entries of null pages included, which
    take part in the computation) and hence over the non-null pages;
    Descending (2) symmetrically.  Every numeric kind, for every page list
    (bounds need not come from values; NaN bounds allowed). *)
Theorem C05_boundary_order_true : forall (k : numkind) ps,
  let ci := index_num k ps in
  (ci_order ci = 1 -> ascending_nonnull N (cmp_num k) (to_search_index ci)) /\
  (ci_order ci = 2 -> ascending_nonnull N (fun a b => cmp_num k b a) (to_search_index ci)).
Proof. exact num_boundary_order_nonnull. Qed.

(** BYTE_ARRAY, FIXED_LEN_BYTE_ARRAY and be128 indexers, with truncation *)
Theorem C05_boundary_order_true_bytes : forall (k : bytekind) (limit : Z) ps,
  k <> BDecimal -> byte_pages_ok k ps ->
  let ci := index_byte k limit ps in
  (ci_order ci = 1 -> ascending_nonnull bytes cmp_bytes (to_search_index ci)) /\
  (ci_order ci = 2 -> ascending_nonnull bytes (fun a b => cmp_bytes b a) (to_search_index ci)).
Proof. exact byte_boundary_order_nonnull. Qed.

(** The hypothesis [well_formed] that C06 assumes of an index claiming
    Ascending is discharged for the indexes the writer builds. *)
Theorem C05_discharges_C06_hypothesis : forall (k : numkind) ps,
  let ci := index_num k ps in
  well_formed N (cmp_num k) (ci_order ci =? 1) (to_search_index ci).
Proof. exact num_discharges_search_hypothesis. Qed.

Theorem C05_discharges_C06_hypothesis_bytes : forall (k : bytekind) (limit : Z) ps,
  k <> BDecimal -> byte_pages_ok k ps ->
  let ci := index_byte k limit ps in
  well_formed bytes cmp_bytes (ci_order ci =? 1) (to_search_index ci).
Proof. exact byte_discharges_search_hypothesis. Qed.

Print Assumptions C05_boundary_order_true.
Print Assumptions C05_boundary_order_true_bytes.
Print Assumptions C05_discharges_C06_hypothesis.
Print Assumptions C05_discharges_C06_hypothesis_bytes.

(** * Pruning *)

(** A reader that skips page p for value v when p is a null page or v < min_p
    or v > max_p, with the stored (possibly truncated) bounds, never skips a
    page that holds v. *)
Theorem C05_skip_safe : forall (k : numkind) (pages : list (list (option N))) p vals v,
  nth_error pages p = Some vals -> In (Some v) vals -> nan_num k v = false ->
  may_skip (cmp_num k) (index_num k (map (page_of_values (cmp_num k) (nan_num k) false) pages)) p v = false.
Proof. exact num_skip_safe. Qed.

Theorem C05_skip_safe_bytes : forall (k : bytekind) (limit : Z) (pages : list (list (option bytes))) p vals v,
  k = BBytes \/ (exists size, k = BFlba size) ->
  (forall vals x, In vals pages -> In (Some x) vals -> byte_value_ok k x) ->
  nth_error pages p = Some vals -> In (Some v) vals ->
  may_skip cmp_bytes
    (index_byte k limit (map (page_of_values cmp_bytes (fun _ => false) (match k with BBytes => true | _ => false end)) pages))
    p v = false.
Proof. exact byte_skip_safe. Qed.

Theorem C05_skip_safe_be128 : forall (pages : list (list (option bytes))) p vals v,
  nth_error pages p = Some vals -> In (Some v) vals ->
  may_skip cmp_be128 (index_byte BBe128 0 (map (page_of_values cmp_be128 (fun _ => false) false) pages)) p v = false.
Proof. exact be128_skip_safe. Qed.

Print Assumptions C05_skip_safe.
Print Assumptions C05_skip_safe_bytes.
Print Assumptions C05_skip_safe_be128.

(** * The orders of the library, read arithmetically *)

(** INT96: sign test + three words from the most significant = signed 96-bit *)
Theorem C05_int96_order_is_signed : forall a b,
  (a < 2 ^ 96)%N -> (b < 2 ^ 96)%N -> cmp_i96 a b = cmpZ (sintZ 96 a) (sintZ 96 b).
Proof. exact int96_order_is_signed. Qed.

(** be128: two big-endian uint64 halves = lexicographic on the 16 bytes *)
Theorem C05_be128_order_is_lexicographic : forall a b,
  length a = 16%nat -> length b = 16%nat -> wf_bytes a -> wf_bytes b -> cmp_be128 a b = cmp_bytes a b.
Proof. exact cmp_be128_lexicographic. Qed.

(** FLOAT / DOUBLE on non-NaN bit patterns: order of the sign-magnitude keys
    (-0 and +0 compare equal, -inf below and +inf above every finite value) *)
Theorem C05_float_order_is_sign_magnitude : forall (eb mb a b : N),
  f_is_nan eb mb a = false -> f_is_nan eb mb b = false ->
  (cmp_float eb mb a b <= 0 <-> f_key eb mb a <= f_key eb mb b).
Proof. exact cmp_float_key. Qed.

Print Assumptions C05_int96_order_is_signed.
Print Assumptions C05_be128_order_is_lexicographic.
Print Assumptions C05_float_order_is_sign_magnitude.

(** * Binary DECIMAL columns (type_decimal.go) *)

(** compareDecimalByteArrays on big-endian two's-complement strings of any
    lengths (empty = 0) is the order of the integers they denote *)
Theorem C05_decimal_order_is_signed : forall a b, wf_bytes a -> wf_bytes b ->
  cmp_decimal a b = cmpZ (dec_val a) (dec_val b).
Proof. exact cmp_decimal_val. Qed.

(** decimalPage.Bounds ([sw = false]) and decimalDictionary.Bounds ([sw = true]) *)
Theorem C05_page_bounds_sound_decimal : forall (sw : bool) (l : list bytes) (mn mx : bytes),
  Forall wf_bytes l -> page_bounds cmp_decimal (fun _ => false) sw l = Some (mn, mx) ->
  (forall v, In v l -> cmp_decimal mn v <= 0 /\ cmp_decimal v mx <= 0) /\ In mn l /\ In mx l.
Proof. exact decimal_page_bounds_sound. Qed.

(** decimalColumnIndexer: never truncated, order by orderOfDecimalBytes *)
Theorem C05_boundary_order_true_decimal : forall (limit : Z) ps, Forall dec_page_ok ps ->
  let ci := index_byte BDecimal limit ps in
  (ci_order ci = 1 -> ascending_nonnull bytes cmp_decimal (to_search_index ci)) /\
  (ci_order ci = 2 -> ascending_nonnull bytes (fun a b => cmp_decimal b a) (to_search_index ci)).
Proof. exact decimal_boundary_order_nonnull. Qed.

Theorem C05_skip_safe_decimal : forall (sw : bool) (limit : Z) (pages : list (list (option bytes))) p vals v,
  (forall vs x, In vs pages -> In (Some x) vs -> wf_bytes x) ->
  nth_error pages p = Some vals -> In (Some v) vals ->
  may_skip cmp_decimal
    (index_byte BDecimal limit (map (page_of_values cmp_decimal (fun _ => false) sw) pages)) p v = false.
Proof. exact decimal_skip_safe. Qed.

Print Assumptions C05_decimal_order_is_signed.
Print Assumptions C05_page_bounds_sound_decimal.
Print Assumptions C05_boundary_order_true_decimal.
Print Assumptions C05_skip_safe_decimal.

(** * The column index of a MultiRowGroup column chunk: multi_row_group.go *)

(** The pages of the index are the pages of the chunks' indexes, one chunk
    after the other ([multi_pages]); IsAscending / IsDescending are computed by
    isOrdered ([multi_is_ordered]) from the claims of the chunks' indexes and
    from the bounds on both sides of every chunk boundary.  If the claims of the
    chunks are true (C05_boundary_order_true for the indexes the writer builds)
    and the bounds of the non-null pages are not NaN with min <= max
    ([page_ok]; true of the stored bounds by C05_page_bounds_sound, truncation
    only widens them, and an index that claims an order has no NaN bound), then
    a claim of the concatenated index is true over every pair of its non-null
    pages: across any number of chunks, and of chunks holding only null pages. *)
Theorem C05_multi_order_true : forall (k : numkind) (claims : list bool) (chunks : list (index N)),
  Forall (Forall (page_ok N (cmp_num k) (nan_num k))) chunks ->
  (Forall2 (fun (claim : bool) idx => claim = true -> ascending_nonnull N (cmp_num k) idx) claims chunks ->
   multi_is_ordered (cmp_num k) true claims chunks = true ->
   ascending_nonnull N (cmp_num k) (multi_pages chunks)) /\
  (Forall2 (fun (claim : bool) idx => claim = true -> ascending_nonnull N (fun a b => cmp_num k b a) idx) claims chunks ->
   multi_is_ordered (cmp_num k) false claims chunks = true ->
   ascending_nonnull N (fun a b => cmp_num k b a) (multi_pages chunks)).
Proof.
  intros k claims chunks Hok. split.
  - exact (multi_ascending_true N (cmp_num k) (nan_num k) (cmp_num_opp k) (cmp_num_trans k) claims chunks Hok).
  - exact (multi_descending_true N (cmp_num k) (nan_num k) (cmp_num_opp k) (cmp_num_trans k) claims chunks Hok).
Qed.

(** byte arrays, fixed length byte arrays (lexicographic order, no NaN) *)
Theorem C05_multi_order_true_bytes : forall (claims : list bool) (chunks : list (index bytes)),
  Forall (Forall (page_ok bytes cmp_bytes (fun _ => false))) chunks ->
  (Forall2 (fun (claim : bool) idx => claim = true -> ascending_nonnull bytes cmp_bytes idx) claims chunks ->
   multi_is_ordered cmp_bytes true claims chunks = true ->
   ascending_nonnull bytes cmp_bytes (multi_pages chunks)) /\
  (Forall2 (fun (claim : bool) idx => claim = true -> ascending_nonnull bytes (fun a b => cmp_bytes b a) idx) claims chunks ->
   multi_is_ordered cmp_bytes false claims chunks = true ->
   ascending_nonnull bytes (fun a b => cmp_bytes b a) (multi_pages chunks)).
Proof.
  intros claims chunks Hok. split.
  - exact (multi_ascending_true bytes cmp_bytes (fun _ => false) lex_opp lex_trans claims chunks Hok).
  - exact (multi_descending_true bytes cmp_bytes (fun _ => false) lex_opp lex_trans claims chunks Hok).
Qed.

(** The hypothesis [well_formed] that C06 assumes of an index claiming
    Ascending, for the index of a MultiRowGroup column chunk. *)
Theorem C05_multi_discharges_C06_hypothesis : forall (k : numkind) (claims : list bool) (chunks : list (index N)),
  Forall (Forall (page_ok N (cmp_num k) (nan_num k))) chunks ->
  Forall2 (fun (claim : bool) idx => claim = true -> ascending_nonnull N (cmp_num k) idx) claims chunks ->
  well_formed N (cmp_num k) (multi_is_ordered (cmp_num k) true claims chunks) (multi_pages chunks).
Proof.
  intros k claims chunks Hok Hcl Hm.
  exact (proj1 (C05_multi_order_true k claims chunks Hok) Hcl Hm).
Qed.

Print Assumptions C05_multi_order_true.
Print Assumptions C05_multi_order_true_bytes.
Print Assumptions C05_multi_discharges_C06_hypothesis.

(** * Non-vacuity *)
Definition f32 (s : bool) (e m : N) : N := ((if s then 2 ^ 31 else 0) + e * 2 ^ 23 + m)%N.
Definition nan32a : N := 0x7fc00000%N.
Definition nan32b : N := 0xffc00001%N.     (* negative, with a payload *)
Definition f_5 : N := 0x40a00000%N.
Definition f_3 : N := 0x40400000%N.
Definition f_4 : N := 0x40800000%N.
Definition f_1 : N := 0x3f800000%N.
Definition f_m0 : N := 0x80000000%N.
Definition f_minf : N := 0xff800000%N.

(* NaN first, -0, -inf: bounds -inf .. 5, NaN excluded *)
Example C05_ex_float_bounds :
  bounds_num NFloat [nan32a; f_5; nan32b; f_m0; f_minf; f_3] = Some (f_minf, f_5).
Proof. vm_compute. reflexivity. Qed.

Example C05_ex_all_nan_bounds : bounds_num NFloat [nan32b; nan32a] = Some (nan32b, nan32b).
Proof. vm_compute. reflexivity. Qed.

(* an optional int32 column: pages [-5..-1], [null, null], [6..10]; the null
   page contributes 0 to both lists and the index still claims Ascending *)
Definition ex_pages : list (list (option N)) :=
  [[Some (wrapZ 32 (-5)); Some (wrapZ 32 (-1)); None];
   [None; None];
   [Some 6%N; Some 10%N]].

Definition ex_index := index_num NInt32 (map (page_of_values (cmp_num NInt32) (nan_num NInt32) false) ex_pages).

Example C05_ex_index :
  ex_index = {| ci_null_pages := [false; true; false];
                ci_null_counts := [1; 2; 0];
                ci_min_values := [wrapZ 32 (-5); 0%N; 6%N];
                ci_max_values := [wrapZ 32 (-1); 0%N; 10%N];
                ci_order := 1 |}.
Proof. vm_compute. reflexivity. Qed.

Example C05_ex_search_index :
  to_search_index ex_index = [Some (wrapZ 32 (-5), wrapZ 32 (-1)); None; Some (6%N, 10%N)].
Proof. vm_compute. reflexivity. Qed.

Example C05_ex_claim : ascending_nonnull N (cmp_num NInt32) (to_search_index ex_index).
Proof.
  destruct (C05_boundary_order_true NInt32 (map (page_of_values (cmp_num NInt32) (nan_num NInt32) false) ex_pages))
    as [H _]. apply H. vm_compute. reflexivity.
Qed.

(* MultiRowGroup over three int32 chunks: pages [0,14] [16,30] / only null
   pages / null, [30,57] [58,65]: the chunk of null pages does not separate
   its neighbours, 30 <= 30 at the boundary: Ascending is claimed, and true *)
Definition ex_multi : list (index N) :=
  [[Some (0, 14); Some (16, 30)]; [None; None]; [None; Some (30, 57); Some (58, 65)]]%N.

Example C05_ex_multi_claims :
  multi_is_ordered (cmp_num NInt32) true [true; true; true] ex_multi = true /\
  multi_is_ordered (cmp_num NInt32) false [false; true; false] ex_multi = false.
Proof. vm_compute. split; reflexivity. Qed.

Example C05_ex_multi_true : ascending_nonnull N (cmp_num NInt32) (multi_pages ex_multi).
Proof.
  assert (Hok : Forall (Forall (page_ok N (cmp_num NInt32) (nan_num NInt32))) ex_multi).
  { repeat constructor; try (vm_compute; intros H; discriminate H). }
  apply (proj1 (C05_multi_order_true NInt32 [true; true; true] ex_multi Hok)); [|vm_compute; reflexivity].
  assert (Hc : forall idx, In idx ex_multi -> ascending_nonnull N (cmp_num NInt32) idx).
  { intros idx Hin i j mi xi mj xj Hij Hi Hj. cbn in Hin.
    destruct Hin as [<-|[<-|[<-|[]]]];
      repeat (destruct i as [|i]; cbn in Hi; try discriminate);
      repeat (destruct j as [|j]; cbn in Hj; try discriminate); try lia;
      injection Hi as <- <-; injection Hj as <- <-; vm_compute; split; discriminate. }
  repeat (apply Forall2_cons; [intros _; apply Hc; cbn; tauto|]). apply Forall2_nil.
Qed.

(* partially overlapping row groups [0,14] [16,30] [32,46] / [15,57] [58,65]:
   46 > 15 at the boundary, no order is claimed although 46 <= 57 *)
Example C05_ex_multi_overlap :
  multi_is_ordered (cmp_num NInt32) true [true; true]
    [[Some (0, 14); Some (16, 30); Some (32, 46)]; [Some (15, 57); Some (58, 65)]]%N = false.
Proof. vm_compute. reflexivity. Qed.

(* descending, across a chunk of null pages: [9,9] [5,7] / null / [2,5] [1,1];
   not when the page after the boundary reaches 6 > 5 *)
Example C05_ex_multi_descending :
  multi_is_ordered (cmp_num NInt32) false [true; true; true]
    [[Some (9, 9); Some (5, 7)]; [None]; [Some (2, 5); Some (1, 1)]]%N = true /\
  multi_is_ordered (cmp_num NInt32) false [true; true; true]
    [[Some (9, 9); Some (5, 7)]; [None]; [Some (2, 6); Some (1, 1)]]%N = false.
Proof. vm_compute. repeat split; reflexivity. Qed.

(* truncation at 2 bytes: ff ff 01 keeps its three bytes, 01 ff 07 becomes 02 00 *)
Example C05_ex_truncate_max_ff : truncate_max 2 [255; 255; 1]%N = [255; 255; 1]%N.
Proof. vm_compute. reflexivity. Qed.
Example C05_ex_truncate_max_carry : truncate_max 2 [1; 255; 7]%N = [2; 0]%N.
Proof. vm_compute. reflexivity. Qed.

(* a FIXED_LEN_BYTE_ARRAY(2) column with a null page in the middle, limit 1 *)
Definition ex_flba_pages : list (page_info bytes) :=
  [ {| pi_num_values := 3; pi_num_nulls := 0; pi_bounds := Some ([1; 2], [255; 3])%N |};
    {| pi_num_values := 3; pi_num_nulls := 3; pi_bounds := None |};
    {| pi_num_values := 3; pi_num_nulls := 1; pi_bounds := Some ([2; 2], [255; 255])%N |} ].

Example C05_ex_flba_ok : byte_pages_ok (BFlba 2) ex_flba_pages.
Proof. cbn. split; [lia|]. repeat constructor. Qed.

Example C05_ex_flba_index :
  index_byte (BFlba 2) 1 ex_flba_pages =
  {| ci_null_pages := [false; true; false];
     ci_null_counts := [0; 3; 1];
     ci_min_values := [[1]; [0]; [2]]%N;
     ci_max_values := [[255; 3]; [1]; [255; 255]]%N;
     ci_order := 0 |}.
Proof. vm_compute. reflexivity. Qed.

(* binary decimals: -1 (ff) < 0 (empty) < 1 (00 01) < 256 (01 00); a null page in between *)
Example C05_ex_decimal_index :
  index_byte BDecimal 4
    [ {| pi_num_values := 2; pi_num_nulls := 0; pi_bounds := Some ([255], [])%N |};
      {| pi_num_values := 1; pi_num_nulls := 1; pi_bounds := None |};
      {| pi_num_values := 2; pi_num_nulls := 0; pi_bounds := Some ([0; 1], [1; 0])%N |} ] =
  {| ci_null_pages := [false; true; false];
     ci_null_counts := [0; 1; 0];
     ci_min_values := [[255]; []; [0; 1]]%N;
     ci_max_values := [[]; []; [1; 0]]%N;
     ci_order := 1 |}.
Proof. vm_compute. reflexivity. Qed.

(** * The code before the repairs violates the statements *)

(** 5573cfe: max ff ff 01 with size limit 2 was stored as ff ff, below the value *)
Theorem C05_pinned_truncate_max_refuted :
  exists limit v, wf_bytes v /\ ~ cmp_bytes v (truncate_max_pinned limit v) <= 0.
Proof.
  exists 2%nat, [255; 255; 1]%N. split.
  - repeat constructor.
  - vm_compute. intros H. apply H. reflexivity.
Qed.

(** 218b949: the FIXED_LEN_BYTE_ARRAY and be128 indexers appended nothing for a
    null page: fewer min/max entries than pages *)
Theorem C05_pinned_flba_index_refuted :
  exists size limit ps, byte_pages_ok (BFlba size) ps /\
    length (ci_min_values (flba_index_pages true size limit ps)) <> length ps.
Proof.
  exists 2%nat, 0%nat, ex_flba_pages. split; [exact C05_ex_flba_ok|]. vm_compute. lia.
Qed.

Theorem C05_pinned_be128_index_refuted :
  exists ps, length (ci_min_values (be128_index_pages_pinned ps)) <> length ps /\
             length (ci_null_pages (be128_index_pages_pinned ps)) = length ps.
Proof.
  exists [ {| pi_num_values := 2; pi_num_nulls := 2; pi_bounds := None |};
           {| pi_num_values := 2; pi_num_nulls := 0; pi_bounds := Some (zeros 16, zeros 16) |} ].
  vm_compute. split; [lia|reflexivity].
Qed.

(** 6707249: bounds 5, NaN, 3, 4 were claimed Ascending *)
Theorem C05_pinned_float_order_refuted :
  exists ps, ci_order (index_num_pinned NFloat ps) = 1 /\
             ~ ascending_nonnull N (cmp_num NFloat) (to_search_index (index_num_pinned NFloat ps)).
Proof.
  exists (map (page_of_values (cmp_num NFloat) (nan_num NFloat) false)
              [[Some f_5]; [Some nan32a]; [Some f_3]; [Some f_4]]).
  split; [vm_compute; reflexivity|].
  intros H. specialize (H 0%nat 2%nat f_5 f_5 f_3 f_3 ltac:(lia) eq_refl eq_refl).
  vm_compute in H. destruct H as [H _]. apply H. reflexivity.
Qed.

Example C05_ex_float_order_now_unordered :
  ci_order (index_num NFloat (map (page_of_values (cmp_num NFloat) (nan_num NFloat) false)
              [[Some f_5]; [Some nan32a]; [Some f_3]; [Some f_4]])) = 0.
Proof. vm_compute. reflexivity. Qed.

(** 73b7e16: pages {NaN}, {1, 5} left NaN chunk bounds *)
Theorem C05_pinned_chunk_nan_refuted :
  exists pages mn mx,
    cs_bounds (chunk_num_pinned NFloat (map (page_of_values (cmp_num NFloat) (nan_num NFloat) false) pages))
      = Some (mn, mx) /\
    (exists v, In v (concat (map (@non_nulls N) pages)) /\ nan_num NFloat v = false) /\
    nan_num NFloat mn = true.
Proof.
  exists [[Some nan32a]; [Some f_1; Some f_5]], nan32a, nan32a.
  split; [vm_compute; reflexivity|]. split; [|vm_compute; reflexivity].
  exists f_1. split; [cbn; auto|vm_compute; reflexivity].
Qed.

Example C05_ex_chunk_nan_now_replaced :
  cs_bounds (chunk_num NFloat (map (page_of_values (cmp_num NFloat) (nan_num NFloat) false)
                                   [[Some nan32a]; [Some f_1; Some f_5]])) = Some (f_1, f_5).
Proof. vm_compute. reflexivity. Qed.

(** 14734b5: a dictionary page NaN, 1, 5 had NaN bounds (portable kernel) *)
Theorem C05_pinned_dict_bounds_refuted :
  exists l mn mx, dict_bounds_num_pinned NFloat l = Some (mn, mx) /\
    (exists v, In v l /\ nan_num NFloat v = false) /\ nan_num NFloat mn = true.
Proof.
  exists [nan32a; f_1; f_5], nan32a, nan32a.
  split; [vm_compute; reflexivity|]. split; [|vm_compute; reflexivity].
  exists f_1. split; [cbn; auto|vm_compute; reflexivity].
Qed.

Example C05_ex_dict_bounds_now : dict_bounds_num NFloat [nan32a; f_1; f_5] = Some (f_1, f_5).
Proof. vm_compute. reflexivity. Qed.

Print Assumptions C05_pinned_truncate_max_refuted.
Print Assumptions C05_pinned_flba_index_refuted.
Print Assumptions C05_pinned_be128_index_refuted.
Print Assumptions C05_pinned_float_order_refuted.
Print Assumptions C05_pinned_chunk_nan_refuted.
Print Assumptions C05_pinned_dict_bounds_refuted.
