(** C15 — documented concurrent use behaves like some serial execution.
    Statements only; the models are Conc/{Sem,Refcount,LazyPublish,Async,RowGroups,
    GiveBack,FillPublish}.v, the proofs Conc/*Proofs.v.

    What is proved: the LOGIC of the synchronisation protocols of the
    library, for ALL interleavings (every run = every list of scheduler
    choices) of atomic steps executed in a sequentially consistent order:
    atomics and channel operations are single steps, plain memory is touched
    only by the thread that owns it.  What is NOT a theorem (only explored by
    the stress harness, the race detector and the poison hook): that the Go
    code performs exactly these atomic steps, data races on plain memory, the
    Go runtime and scheduler. *)
From Coq Require Import List Arith Bool NArith Lia.
From PQ Require Import Conc.Sem Conc.SemProofs.
From PQ Require Import Conc.Refcount Conc.RefcountProofs.
From PQ Require Import Conc.LazyPublish Conc.LazyPublishProofs.
From PQ Require Import Conc.Async Conc.AsyncProofs.
From PQ Require Import Conc.RowGroups Conc.RowGroupsProofs.
From PQ Require Import Conc.GiveBack Conc.GiveBackProofs.
From PQ Require Import Conc.FillPublish Conc.FillPublishProofs.
Import ListNotations.

(** * P1 — reference counted pooled buffers (buffer.go) *)

(** For any number of threads running well-bracketed programs (a thread refs,
    unrefs, uses or hands over a buffer only while it holds a reference to it)
    and for every interleaving, every reachable configuration is [safe]:
    - a buffer is in the pool at most once;
    - a buffer in the pool has count 0 and no thread holds, or carries through
      a channel, a reference to it;
    - a thread about to use / ref / unref / send a buffer holds a reference to
      it, the count is >= 1 and the buffer is not in the pool (no use after put);
    - the thread about to put a buffer is the one whose unref saw 0, the count
      is 0 and nobody holds a reference;
    - the emitted get/ref/unref/put events of every buffer form a run of the
      per-buffer automaton (put exactly once per get, only after the count
      reached 0, nothing between put and the next get). *)
Theorem C15_refcount_safe : forall progs sched c,
  Forall (wb (fun _ => 0)) progs ->
  run rstep (init progs) sched = Some c -> safe c.
Proof. exact refcount_safe. Qed.

(** the trace of every such run is accepted by the extracted trace checker *)
Theorem C15_refcount_trace_accepted : forall progs sched c,
  Forall (wb (fun _ => 0)) progs ->
  run rstep (init progs) sched = Some c ->
  exists m, check_trace Nat.eqb (trace (fst c)) = inl m.
Proof. exact refcount_trace_accepted. Qed.

(** the trace checker run on the traces recorded from the Go code decides
    exactly "every buffer's own event sequence is a run of the automaton" *)
Theorem C15_trace_checker_sound : forall tr m,
  check_trace_N tr = inl m -> trace_ok N.eqb tr.
Proof. exact (check_trace_sound N N.eqb N_eqb_spec'). Qed.

Theorem C15_trace_checker_complete : forall tr,
  trace_ok N.eqb tr -> exists m, check_trace_N tr = inl m.
Proof. exact (check_trace_complete N N.eqb N_eqb_spec'). Qed.

Theorem C15_put_only_at_zero : forall s s',
  buf_step s EPut = Some s' -> s = BZero /\ s' = BPooled.
Proof. exact put_only_at_zero. Qed.

Theorem C15_zero_only_by_last_unref : forall s e,
  buf_step s e = Some BZero -> s = BLive true 1 /\ e = EUnref.
Proof. exact zero_only_by_last_unref. Qed.

Print Assumptions C15_refcount_safe.
Print Assumptions C15_refcount_trace_accepted.
Print Assumptions C15_trace_checker_sound.
Print Assumptions C15_trace_checker_complete.
Print Assumptions C15_put_only_at_zero.
Print Assumptions C15_zero_only_by_last_unref.

(** * P2 — lazy publication of per-chunk state (file.go, schema.go) *)
Section C15_lazy.
  Variable V : Type.       (* decoded index / bloom filter *)
  Variable pure : V.       (* what decoding the file's bytes yields *)

  (** Compare-and-swap publication (column index, offset index, bloom
      filter): for any number [n] of callers and every interleaving,
      - whatever is published is an object holding the pure value, allocated
        by one of the callers ([good]);
      - every call that has returned returned exactly the published object:
        all callers get the SAME pointer, never nil.
      When two callers race, both may read and decode (the work is duplicated,
      at most once per caller), exactly one compare-and-swap succeeds, and the
      loser discards its object and returns the winner's. *)
  Theorem C15_lazy_publish_agree : forall n sched c,
    run (lstep pure) (linit cas_prog n) sched = Some c ->
    (ptr (fst c) = None \/ good V pure (ptr (fst c))) /\
    (forall t r, In (t, r) (uses (fst c)) -> r = ptr (fst c) /\ good V pure r).
  Proof. exact (lazy_publish_agree V pure). Qed.

  (** once set, the published pointer never changes *)
  Theorem C15_lazy_publish_stable : forall c t c' o,
    LInv V pure c -> lstep pure c t = Some c' -> ptr (fst c) = Some o -> ptr (fst c') = Some o.
  Proof. exact (lazy_publish_stable V pure). Qed.

  (** Plain Store of an equal value (schema.go cacheMap.load): the callers
      agree on the CONTENTS (the pure value), not on the pointer. *)
  Theorem C15_lazy_store_agree : forall n sched c,
    run (lstep pure) (linit store_prog n) sched = Some c ->
    (ptr (fst c) = None \/ good V pure (ptr (fst c))) /\
    (forall t r, In (t, r) (uses (fst c)) -> good V pure r).
  Proof. exact (lazy_store_agree V pure). Qed.
End C15_lazy.

Print Assumptions C15_lazy_publish_agree.
Print Assumptions C15_lazy_publish_stable.
Print Assumptions C15_lazy_store_agree.

(** * P3 — asyncPages (page.go) *)

(** For every list of consumer calls (ReadPage / SeekToRow k / Close) and every
    interleaving of the consumer with the producer goroutine:
    - what the consumer observes satisfies [hist_ok]: after SeekToRow(k) the
      delivered pages are (k,0), (k,1), ... — page i of the sequence that
      starts at row k, in order, no gap, no stale page from before the seek
      (before any seek: the sequence starting at row 0);
    - no reachable configuration in which the consumer still has a call to
      make or to finish is a deadlock: some step is enabled. *)
Theorem C15_async_versioned : forall calls sched st,
  run astep (ainit calls) sched = Some st ->
  hist_ok 0 0 (hist (gh st)) /\
  (wants st -> exists l st', astep st l = Some st').
Proof.
  intros calls sched st H. split.
  - exact (async_versioned calls sched st H).
  - exact (async_no_deadlock calls sched st H).
Qed.

(** the send of SeekToRow on the capacity-1 channel never blocks; Close
    returns only after the producer goroutine has exited *)
Theorem C15_async_seek_send_never_blocks : forall calls sched st k,
  run astep (ainit calls) sched = Some st -> cp (co st) = CS1 k -> seekch (ch st) = None.
Proof. exact async_seek_send_never_blocks. Qed.

Theorem C15_async_close_joins_producer : forall calls sched st,
  run astep (ainit calls) sched = Some st -> read_closed (ch st) = true -> pp (pr st) = PDone.
Proof. exact async_close_joins_producer. Qed.

Print Assumptions C15_async_versioned.
Print Assumptions C15_async_seek_send_never_blocks.
Print Assumptions C15_async_close_joins_producer.

(** * P4 — row groups filled concurrently, committed serially (writer.go) *)
Section C15_rowgroups.
  Variables Row B : Type.
  Variable enc : nat -> list Row -> list B.   (* bytes of a row group holding these rows, committed at this offset *)

  (** steps of distinct writers commute *)
  Theorem C15_writers_commute : forall (c c1 c12 : rgstate Row B) t1 t2,
    t1 <> t2 ->
    gstep enc c (LW t1) = Some c1 -> gstep enc c1 (LW t2) = Some c12 ->
    exists c2, gstep enc c (LW t2) = Some c2 /\ gstep enc c2 (LW t1) = Some c12.
  Proof. exact (writers_commute Row B enc). Qed.

  (** For every interleaving of the writers (each writing its own batches
      into its own row group) followed by the serial commits: each row group
      holds exactly its writer's rows, and the file is the one obtained by
      committing, in [order], row groups filled serially — it depends on the
      batches and the commit order only. *)
  Theorem C15_rowgroups_commute : forall batches order sched c,
    NoDup order -> (forall g, In g order -> g < length batches) ->
    run (gstep enc) (ginit batches order) sched = Some c -> todo c = [] ->
    file c = commit_all enc batches order [].
  Proof. intros batches order sched c H1 H2. exact (rowgroups_commute Row B enc batches order H1 H2 sched c). Qed.

  Theorem C15_rowgroups_state_per_writer : forall batches order sched c t,
    NoDup order -> (forall g, In g order -> g < length batches) ->
    run (gstep enc) (ginit batches order) sched = Some c -> todo c = order -> t < length batches ->
    nth t (rgs c) [] ++ concat (nth t (wprogs c) []) = concat (nth t batches []).
  Proof. intros batches order sched c t H1 H2. exact (rowgroups_state_per_writer Row B enc batches order H1 H2 sched c t). Qed.
End C15_rowgroups.

Print Assumptions C15_writers_commute.
Print Assumptions C15_rowgroups_commute.
Print Assumptions C15_rowgroups_state_per_writer.

(** * P5 — what Close gives back to a process-wide pool, it gives back once (file.go) *)

(** One thread of the model is one page reader with the history of calls made
    on it: [KOpen] (pool.Get of ANY element of the pool, or a new one), reads,
    and ANY NUMBER of [KClose] calls (`defer pages.Close()` plus an explicit
    Close).  FilePages.Close puts f.rbuf back and forgets it.  For any
    histories and every interleaving:
    - nothing is in the pool twice;
    - what a reader holds is not in the pool;
    - no two readers that are open at the same time hold the same thing (two
      columns of one Rows, readers of unrelated files in other goroutines). *)
Theorem C15_close_gives_back_once : forall progs sched c,
  run (kstep true) (kinit progs) sched = Some c ->
  NoDup (kpool (fst c)) /\
  (forall t l p i, nth_error (snd c) t = Some (l, p) -> krbuf l = Some i -> ~ In i (kpool (fst c))) /\
  (forall t1 t2 i, ~ shared_by c t1 t2 i).
Proof. exact give_back_once. Qed.

Print Assumptions C15_close_gives_back_once.

(** * P6 — an entry of a copy-on-write cache is filled before it is published
    (column_buffer_reflect.go structFieldsCache) *)

(** [w] callers write a value of a struct type with [n] fields that no cache
    has met.  Each loads the cache, on a miss allocates an entry, fills it
    field by field (plain writes to its own entry), publishes it with an
    atomic Store, and then looks its columns up in the entry it has (the
    loaded one on a hit).  For every interleaving: a published entry has all
    [n] fields, and every caller found all [n] fields. *)
Theorem C15_fill_then_store_complete : forall n w sched c,
  run fstep (finit (fill_then_store n) w) sched = Some c ->
  (forall e, fcache (fst c) = Some e -> nth_error (fheap (fst c)) e = Some n) /\
  (forall t k, In (t, k) (fseen (fst c)) -> k = n).
Proof. exact fill_then_store_complete. Qed.

Print Assumptions C15_fill_then_store_complete.

(** The part of the property that is not a theorem: *)
Definition C15_full_statement : Prop :=
  (* "every documented concurrent use of the Go library produces the bytes and
     rows of some serial execution with no data race, deadlock or panic" is a
     statement about Go programs under the Go memory model; it is not
     expressible over these models.  The theorems above cover the protocols'
     logic; the rest is explored by harness/c15 (stress over GOMAXPROCS, race
     detector, trace validation).  P5 and P6 are tied to the code by outcomes
     only (scenarios K and J: no hook reports the Get/Put of the bufio reader
     pools or the Load/Store of the caches). *)
  True.

(** * Non-vacuity *)

(** P1: three threads share buffer 0: thread 0 gets it, makes two more
    references and sends them; threads 1 and 2 receive, use and release. *)
Definition ex_progs : list (list act) :=
  [ [Get 0; Use 0; Ref 0; Send 0; Ref 0; Send 0; Use 0; Unref 0; Release 0; Get 1; Use 1; Unref 1; Release 1];
    [Recv 0; Use 0; Unref 0; Release 0];
    [Recv 0; Use 0; Use 0; Unref 0; Release 0; Get 0; Use 0; Unref 0; Release 0] ].

Example C15_ex_wb : Forall (wb (fun _ => 0)) ex_progs.
Proof. repeat constructor; simpl; unfold upd; simpl; repeat split; auto. Qed.

(* a schedule in which the LAST unref is done by thread 2, which then gets
   the buffer again from the pool *)
Definition ex_sched : list nat :=
  [0;0;0;0;1;0;0;2;1;0;0;0;1;1;2;2;2;2;2;2;2;2;0;0;0;0].

Example C15_ex_run_trace :
  run_trace ex_progs ex_sched =
  Some [(EGet,0); (ERef,0); (ERef,0); (EUnref,0); (EUnref,0); (EUnref,0); (EPut,0);
        (EGet,0); (EUnref,0); (EPut,0); (EGet,1); (EUnref,1); (EPut,1)].
Proof. vm_compute. reflexivity. Qed.

Example C15_ex_trace_accepted :
  match check_trace_N [(EGet,0%N); (ERef,0%N); (EGet,1%N); (EUnref,0%N); (EUnref,1%N); (EPut,1%N); (EUnref,0%N); (EPut,0%N); (EGet,0%N)] with
  | inl _ => True | inr _ => False end.
Proof. vm_compute. exact I. Qed.

(** the checker rejects a put while a reference is still held (the seeded
    mutant "unref puts at count 1"), a use of the count after the put, and a
    second put *)
Example C15_ex_put_at_one_rejected :
  check_trace_N [(EGet,7%N); (ERef,7%N); (EUnref,7%N); (EPut,7%N)] = inr (3%N, BLive true 1).
Proof. vm_compute. reflexivity. Qed.

Example C15_ex_unref_after_put_rejected :
  check_trace_N [(EGet,7%N); (EUnref,7%N); (EPut,7%N); (EUnref,7%N)] = inr (3%N, BPooled).
Proof. vm_compute. reflexivity. Qed.

Example C15_ex_double_put_rejected :
  check_trace_N [(EGet,7%N); (EUnref,7%N); (EPut,7%N); (EPut,7%N)] = inr (3%N, BPooled).
Proof. vm_compute. reflexivity. Qed.

(** P2: two callers race: both load nil, both decode, caller 1 wins the
    compare-and-swap, caller 0 loses, reloads and returns caller 1's object. *)
Example C15_ex_lazy_race :
  match run (lstep 42) (linit cas_prog 2) [0;1;0;1;1;0;0;1;1;0] with
  | Some c => ptr (fst c) = Some (1, 42) /\ uses (fst c) = [(1, Some (1, 42)); (0, Some (1, 42))]
  | None => False
  end.
Proof. vm_compute. split; reflexivity. Qed.

(** P3: ReadPage, SeekToRow 5, ReadPage, Close.  The producer is holding
    page (0,1) of the old sequence, blocked on the read channel, when the seek
    arrives; it delivers that stale page first: the consumer discards it
    (version 0 <> 1), then gets (5,0). *)
Definition ex_calls : list cop := [CRead; CSeek 5; CRead; CRead; CClose].
Definition ex_asched : list alabel :=
  [LC; LP 0; LP 0; LP 0; LP 0;      (* ReadPage: (0,0) delivered *)
   LP 0;                            (* producer reads (0,1), now blocked in the select *)
   LC; LC; LC;                      (* SeekToRow 5: version 1, seek sent *)
   LC;                              (* ReadPage: blocked *)
   LP 0;                            (* stale (0,1) sent with version 0: discarded *)
   LP 0;                            (* producer reads (0,2) *)
   LP 1;                            (* takes the seek *)
   LP 0; LP 0; LP 0;                (* SeekToRow(5), ReadPage (5,0), deliver *)
   LC; LP 0; LP 0;                  (* ReadPage: (5,1) *)
   LC; LC; LP 0; LP 2; LP 0; LP 0; LC ].  (* Close *)

Example C15_ex_async_run :
  match run astep (ainit ex_calls) ex_asched with
  | Some st => hist (gh st) = [EvPage 0 0; EvSeek 5; EvPage 5 0; EvPage 5 1] /\
               prog (co st) = [] /\ pp (pr st) = PDone
  | None => False
  end.
Proof. vm_compute. repeat split; reflexivity. Qed.

(** without the version comparison (the seeded mutant) the same schedule
    delivers the stale page after the seek: the theorem rests on the check *)
Theorem C15_async_without_version_check_refuted :
  exists calls sched st,
    run astep_nocheck (ainit calls) sched = Some st /\ hist_okb 0 0 (hist (gh st)) = false.
Proof.
  exists ex_calls, (firstn 11 ex_asched).
  eexists. split; [vm_compute; reflexivity|vm_compute; reflexivity].
Qed.

(** P4: two writers, two interleavings, the same file *)
Definition ex_enc (off : nat) (rows : list nat) : list nat := off :: length rows :: rows.
Definition ex_batches : list (list (list nat)) := [[[1;2];[3]]; [[10];[20;30]]].

Example C15_ex_rowgroups :
  match run (gstep ex_enc) (ginit ex_batches [0;1]) [LW 0; LW 0; LW 1; LW 1; LCommit; LCommit],
        run (gstep ex_enc) (ginit ex_batches [0;1]) [LW 1; LW 0; LW 1; LW 0; LCommit; LCommit] with
  | Some a, Some b => file a = file b /\ file a = [0;3;1;2;3;5;3;10;20;30]
  | _, _ => False
  end.
Proof. vm_compute. split; reflexivity. Qed.

(* committing before every writer has finished is not a step *)
Example C15_ex_commit_needs_join :
  run (gstep ex_enc) (ginit ex_batches [0;1]) [LW 0; LW 0; LW 1; LCommit] = None.
Proof. vm_compute. reflexivity. Qed.

(** P5: reader 0 is closed twice; readers 1 and 2 are opened afterwards.  With
    the code (Close forgets what it gave back) reader 1 gets thing 0 from the
    pool and reader 2 a new one. *)
Definition ex_kprogs : list (list kact) :=
  [[KOpen 0; KRead; KClose; KClose]; [KOpen 0; KRead]; [KOpen 0; KRead]].

Example C15_ex_double_close :
  match run (kstep true) (kinit ex_kprogs) [0;0;0;0;1;2] with
  | Some c => kpool (fst c) = [] /\ map (fun th => krbuf (fst th)) (snd c) = [None; Some 0; Some 1]
  | None => False
  end.
Proof. vm_compute. split; reflexivity. Qed.

(** Without the two assignments `f.rbuf = nil; f.rbufpool = nil` the second
    Close puts thing 0 into the pool again: readers 1 and 2 are open at the
    same time on the same bufio.Reader (seeded change C15/12). *)
Theorem C15_close_without_forgetting_refuted :
  exists c, run (kstep false) (kinit ex_kprogs) [0;0;0;0;1;2] = Some c /\ shared_by c 1 2 0.
Proof.
  eexists. split; [vm_compute; reflexivity|].
  split; [discriminate|]. do 4 eexists. repeat split; reflexivity.
Qed.

(** P6: two callers, a type of three fields; caller 0 misses, fills and
    publishes; caller 1 hits and finds the three fields. *)
Example C15_ex_fill_then_store :
  match run fstep (finit (fill_then_store 3) 2) [0;0;0;0;0;0;1;1;1;1;1;1;1;0] with
  | Some c => fcache (fst c) = Some 0 /\ fheap (fst c) = [3; 0] /\ fseen (fst c) = [(1, 3); (0, 3)]
  | None => False
  end.
Proof. vm_compute. repeat split; reflexivity. Qed.

(** Publishing the entry before it is filled (seeded change C15/11): caller 1
    hits the entry when caller 0 has filled in one field of three, and writes
    the columns of the other two as zero. *)
Theorem C15_store_before_fill_refuted :
  exists c, run fstep (finit (store_then_fill 3) 2) [0;0;0;0;1;1;1;1;1;1;1;0;0;0] = Some c /\
            In (1, 1) (fseen (fst c)).
Proof. eexists. split; [vm_compute; reflexivity|]. simpl. auto. Qed.

(** Setting the "loaded" flag before the load (seeded change C15/13: the lazy
    decompression of a gzip bloom filter, bloom.go newBloomFilter, guarded by
    [loaded.CompareAndSwap(false, true)] instead of [sync.Once]) is the same
    shape with an entry of ONE field, the decompressed bits: the winner of the
    compare-and-swap publishes the flag (FStore) and only then loads (FFill);
    a caller that finds the flag set (FLoad hit) goes straight on to use the
    bits at hand (FUse) and finds 0 of 1: CheckSplitBlock over no bits answers
    (false, io.EOF) for a value that is present.  [C15_fill_then_store_complete]
    at n = 1 is the order "load, then publish"; that sync.Once makes the
    callers arriving meanwhile WAIT (instead of loading a copy of their own) is
    not modelled - harness/c15 scenario L compares every first Check with the
    serial answer. *)
Theorem C15_flag_before_load_refuted :
  exists c, run fstep (finit (store_then_fill 1) 2) [0;0;0;1;1;1;1;1;0;0] = Some c /\
            In (1, 0) (fseen (fst c)) /\ In (0, 1) (fseen (fst c)).
Proof. eexists. split; [vm_compute; reflexivity|]. simpl. auto. Qed.
