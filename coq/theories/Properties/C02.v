(** C02 — every written file is well-formed Parquet that an independent
    decoder agrees on.  Statements only.

    The independent decoder is File/SpecDecoder.v ([verify]): written from the
    format specification, it is extracted and run on the raw bytes of every
    file the harness makes the library write.  What is proved here is that this
    decoder (its level/value/page layer) inverts a writer that follows the
    specification, for every input; that the real writer produces such files
    is what the run checks (decoded streams = written streams, no discrepancy
    code). *)
From Coq Require Import List NArith ZArith Lia.
From Coq Require String.
From PQ Require Import Base.Bytes Base.BitPack Enc.Rle Enc.RleProofs Enc.DeltaBP Enc.DeltaBPProofs.
From PQ Require Import Dremel.Model File.Pipeline File.PipelineProofs File.SpecDecoder File.SpecAgreement.
From PQ Require Import Thrift.Compact Thrift.CompactProofs.
From PQ Require Import File.Layout File.LayoutProofs File.SpecDecoderProofs.
Import ListNotations.
Open Scope N_scope.

(** Levels of a page, as the specification decoder reads them (RLE/bit-packed
    hybrid at the width of the maximum level, [n] values kept), invert the
    level encoder for every level sequence. *)
Theorem C02_levels_decode : forall maxl (ls : list nat),
  Forall (fun l => (l <= maxl)%nat) ls -> N.of_nat (length ls) < 2 ^ 61 ->
  exists b, enc_levels (level_width maxl) (map N.of_nat ls) = Some b /\
            dec_hybrid (level_width maxl) b = Some (map N.of_nat ls).
Proof.
  intros maxl ls H Hl.
  apply (hybrid_roundtrip false); [|now rewrite map_length].
  apply Forall_forall. intros x Hx. apply in_map_iff in Hx. destruct Hx as (l & <- & Hin).
  rewrite Forall_forall in H. specialize (H l Hin). unfold level_width.
  eapply N.le_lt_trans; [|apply bitlen_bound]. lia.
Qed.

(** The page layer: entries -> (levels, values) -> entries, any value encoding. *)
Theorem C02_page_layer : forall (V : Type) venc vdec (vok : V -> Prop),
  (forall vs, Forall vok vs -> N.of_nat (length vs) < 2 ^ 61 -> vdec (length vs) (venc vs) = Some vs) ->
  forall maxr maxd es,
  Forall (entry_ok V vok maxr maxd) es -> N.of_nat (length es) < 2 ^ 61 ->
  Pipeline.decode_page V vdec maxr maxd (Pipeline.encode_page V venc maxr maxd es) = Some es.
Proof. exact page_roundtrip. Qed.

(** The consistency verdict means what it says: an empty list of discrepancy
    codes for a chunk implies the recomputed sums equal the footer's claims. *)
Theorem C02_check_chunk_sound : forall c, check_chunk c = [] ->
  sum (map p_nvalues (data_pages c)) = nat_of_field 5 (c_meta c) /\
  sumN (map (fun p => p_hlen p + p_comp p)%nat (c_pages c)) = n_of_field 7 (c_meta c) /\
  sumN (map (fun p => p_hlen p + p_uncomp p)%nat (c_pages c)) = n_of_field 6 (c_meta c) /\
  forallb (fun p => (p_ulen p =? p_uncomp p)%nat) (c_pages c) = true /\
  forallb p_crc_ok (c_pages c) = true.
Proof.
  intros c H. unfold check_chunk in H.
  repeat match type of H with
         | (_ ++ _) = [] => apply app_eq_nil in H; destruct H as [? H]
         end.
  repeat match goal with
         | Hc : check ?b _ = [] |- _ =>
             let E := fresh "E" in destruct b eqn:E; [clear Hc|discriminate Hc]
         end.
  repeat split; try (apply Nat.eqb_eq; assumption); try (apply N.eqb_eq; assumption); assumption.
Qed.

(** The two content checks on what a foreign reader relies on beyond the sums:
    encoding_stats must count the page headers present per (page type,
    encoding), and every data page located by an offset index must start a row.
    Both reject a chunk of one RLE_DICTIONARY and one PLAIN data page declared
    as two RLE_DICTIONARY pages / whose second page continues a row, and accept
    the correct declaration. *)
Definition ex_cpage (enc : Z) (rep : list N) : page :=
  {| p_offset := 0; p_hlen := 0; p_type := 0; p_comp := 0; p_uncomp := 0; p_ulen := 0; p_crc_present := false;
     p_crc_ok := true; p_nvalues := length rep; p_nrows := None; p_nnulls := None; p_encoding := enc;
     p_rep := rep; p_def := []; p_values := [] |}.
Definition ex_stat (ty enc n : Z) : tval := TStruct [(1%Z, TInt T_I32 ty); (2%Z, TInt T_I32 enc); (3%Z, TInt T_I32 n)].
Definition ex_cchunk (stats : list tval) (second_rep : list N) : chunk :=
  {| c_leaf := {| l_path := []; l_type := 1; l_tlen := 0; l_maxr := 1; l_maxd := 1 |};
     c_meta := TStruct [(13%Z, TList T_STRUCT stats)]; c_chunk := TStruct []; c_start := 0;
     c_pages := [ex_cpage 8 [0; 1]%N; ex_cpage 0 second_rep] |}.
Definition ex_oindex : tval :=
  TStruct [(1%Z, TList T_STRUCT [TStruct [(1%Z, TInt T_I64 0); (2%Z, TInt T_I32 0); (3%Z, TInt T_I64 0)];
                                 TStruct [(1%Z, TInt T_I64 0); (2%Z, TInt T_I32 0); (3%Z, TInt T_I64 1)]])].

Example C02_ex_encoding_stats_checked :
  encoding_stats_ok (ex_cchunk [ex_stat 0 8 2] [0]%N) = false /\
  encoding_stats_ok (ex_cchunk [ex_stat 0 8 1; ex_stat 0 0 1; ex_stat 2 0 1] [0]%N) = false /\
  encoding_stats_ok (ex_cchunk [ex_stat 0 0 1; ex_stat 0 8 1] [0]%N) = true.
Proof. vm_compute. repeat split. Qed.

Module ExCodes.
  Import Coq.Strings.String.
  Definition mid_row : String.string := "indexed_page_starts_mid_row"%string.
End ExCodes.

Example C02_ex_indexed_pages_start_rows :
  check_offset_index (ex_cchunk [] [1; 0]%N) ex_oindex = [ExCodes.mid_row] /\
  check_offset_index (ex_cchunk [] [0; 1]%N) ex_oindex = [].
Proof. vm_compute. repeat split. Qed.

(** The thrift compact layer (footer, page headers, page index): the
    specification decoder inverts the encoder on every well-formed value tree:
    any nesting, any field ids (short delta form and long form), short and
    long list headers, booleans in field headers and as list elements. *)
Theorem C02_thrift_roundtrip : forall v, CompactProofs.wf v ->
  forall fuel ty rest, (sz v <= fuel)%nat -> code_ok ty v ->
  dec_val fuel ty (encode v ++ rest) = Some (v, rest).
Proof. exact dec_val_encode. Qed.

(** The field ids and enum values the decoder takes from parquet.thrift are the
    ones the Go code uses (regenerated from format/parquet.go on every run). *)
Theorem C02_field_ids_agree_with_go : agreement = true.
Proof. exact thrift_ids_agree_with_go. Qed.

Print Assumptions C02_thrift_roundtrip.
Print Assumptions C02_field_ids_agree_with_go.
Print Assumptions C02_levels_decode.
Print Assumptions C02_page_layer.
Print Assumptions C02_check_chunk_sound.

(** Non-vacuity: a thrift struct round-trips through the compact protocol. *)
Definition ex_header : tval :=
  TStruct [(1%Z, TInt T_I32 0%Z); (2%Z, TInt T_I32 42%Z); (3%Z, TInt T_I32 42%Z); (4%Z, TInt T_I32 (-559038737)%Z);
           (5%Z, TStruct [(1%Z, TInt T_I32 10%Z); (2%Z, TInt T_I32 0%Z); (3%Z, TInt T_I32 3%Z); (4%Z, TInt T_I32 3%Z)]);
           (20%Z, TList T_BINARY [TBin [1; 2; 3]; TBin []]); (21%Z, TBool true); (40%Z, TBool false)].

Example C02_ex_thrift_wf : CompactProofs.wf ex_header.
Proof. cbn. unfold in_sint, T_I16, T_I32, T_I64, T_BINARY, T_MAP. cbn. repeat split; try lia; auto. Qed.

Example C02_ex_thrift_roundtrip : decode_struct (encode ex_header) = Some (ex_header, []).
Proof. vm_compute. reflexivity. Qed.

(** * Layout soundness

    [Layout.layout_bytes fi] is the file an abstract writer lays out for the
    page structure [fi] (row groups of column chunks of an optional dictionary
    page and data pages, each page given by its header fields and its opaque
    encoded body; bloom filter and column index sections as opaque bytes) with
    the offset accounting of /repo/writer.go (writeFileHeader, writeDataPage,
    writeDictionaryPage, recordPageStats, writeRowGroup, writeFileFooter), and
    [Layout.footer_tree fi] the FileMetaData it records.  On every run the
    harness checks that this model reproduces, byte for byte, the files the
    library writes from the page structure observed in them.

    [file_ok fi = true] is a decidable side condition (evaluated on each of
    those files): page types are dictionary / data, the opaque metadata fields
    do not use the ids of the accounted ones, every thrift tree produced
    (headers, offset indexes, footer) is encodable (integers within 64 bits,
    ...) and within the nesting depth / field count the decoder's thrift reader
    accepts, page headers are at most 4096 bytes, the footer length fits 32
    bits.  Under it the structural checks of the specification decoder pass
    for every [fi]. *)

(** The field ids the model writer puts in its trees are the Go struct tags. *)
Theorem C02_layout_ids_agree_with_go : forallb struct_agrees layout_ids = true.
Proof. exact layout_ids_agree_with_go. Qed.

(** (a) magic bytes, footer length, thrift metadata: the decoder finds the
    footer and decodes exactly the tree the accounting built. *)
Theorem C02_layout_sound_footer : forall fi, file_ok fi = true ->
  SpecDecoder.footer_of (mk_fbytes (layout_bytes fi)) = Some (footer_tree fi, footer_start fi).
Proof. exact layout_footer_found. Qed.

(** every column chunk of the input has its entry in the footer *)
Theorem C02_layout_sound_chunk_entry : forall fi i j g c,
  nth_error (fi_groups fi) i = Some g -> nth_error (gi_chunks g) j = Some c ->
  exists gt cc md, footer_chunk (footer_tree fi) i j gt cc md.
Proof. intros fi i j g c Hg Hc. eexists _, _, _. exact (footer_chunk_layout fi i j g c Hg Hc). Qed.

(** (b) for every chunk: the recorded dictionary / data page offset and
    total_compressed_size slice exactly the bytes of its pages, and walking page
    headers from there (header, compressed_page_size bytes, next header) reads
    back exactly the headers written, using up exactly total_compressed_size
    bytes ([walk_pages] only succeeds when the bytes are used up). *)
Theorem C02_layout_sound_chunk_pages : forall fi i j g c gt cc md,
  file_ok fi = true ->
  nth_error (fi_groups fi) i = Some g -> nth_error (gi_chunks g) j = Some c ->
  footer_chunk (footer_tree fi) i j gt cc md ->
  let start := chunk_start md in
  let total := nat_of_field 7 md in
  start = chunk_off fi i g j /\
  fsub (mk_fbytes (layout_bytes fi)) start total = Some (chunk_bytes c) /\
  walk_pages (S total) (chunk_bytes c) start = Some (written_pages start (all_pages c)).
Proof. exact layout_chunk_pages. Qed.

(** ... and the sums the decoder recomputes over the pages found (check_chunk:
    total_compressed_size, total_uncompressed_size, num_values over the data
    pages, data_page_offset = first data page, dictionary_page_offset = the
    dictionary page or absent) equal the chunk's metadata. *)
Theorem C02_layout_sound_chunk_sums : forall fi i j g c gt cc md,
  file_ok fi = true ->
  nth_error (fi_groups fi) i = Some g -> nth_error (gi_chunks g) j = Some c ->
  footer_chunk (footer_tree fi) i j gt cc md ->
  let ps := written_pages (chunk_start md) (all_pages c) in
  let dps := filter is_data_page ps in
  sumN (map (fun hp => (h_hlen hp + h_comp hp)%nat) ps) = n_of_field 7 md /\
  sumN (map (fun hp => (h_hlen hp + nat_of_field 2 (h_header hp))%nat) ps) = n_of_field 6 md /\
  fold_left N.add (map (fun hp => header_nvalues (h_header hp)) dps) 0 = n_of_field 5 md /\
  match dps with hp :: _ => h_offset hp = n_of_field 9 md | [] => True end /\
  match ps with
  | hp :: _ => if is_data_page hp then n_of_field 11 md = 0 else h_offset hp = n_of_field 11 md
  | [] => True
  end.
Proof. exact layout_chunk_sums. Qed.

(** (c) the offset index is where the ColumnChunk says, decodes, has one
    PageLocation per data page; each points at the header of the page it
    describes with compressed_page_size = header + body, and first_row_index =
    the rows of the pages before it. *)
Theorem C02_layout_sound_offset_index : forall fi i j g c gt cc md,
  file_ok fi = true ->
  nth_error (fi_groups fi) i = Some g -> nth_error (gi_chunks g) j = Some c ->
  footer_chunk (footer_tree fi) i j gt cc md ->
  exists raw oi locs,
    fsub (mk_fbytes (layout_bytes fi)) (n_of_field 4 cc) (nat_of_field 5 cc) = Some raw /\
    decode_thrift raw = Some (oi, []) /\
    get_list 1 oi = Some locs /\
    Forall2 loc_points_at locs (filter is_data_page (written_pages (chunk_start md) (all_pages c))) /\
    map (n_of_field 3) locs = row_starts 0 (ck_pages c).
Proof. exact layout_offset_index. Qed.

(** the column index and bloom filter sections are where the metadata says *)
Theorem C02_layout_sound_column_index : forall fi i j g c gt cc md,
  file_ok fi = true ->
  nth_error (fi_groups fi) i = Some g -> nth_error (gi_chunks g) j = Some c ->
  footer_chunk (footer_tree fi) i j gt cc md ->
  ck_cindex c <> [] ->
  fsub (mk_fbytes (layout_bytes fi)) (n_of_field 6 cc) (nat_of_field 7 cc) = Some (ck_cindex c).
Proof. exact layout_column_index. Qed.

Theorem C02_layout_sound_bloom_filter : forall fi i j g c gt cc md,
  file_ok fi = true ->
  nth_error (fi_groups fi) i = Some g -> nth_error (gi_chunks g) j = Some c ->
  footer_chunk (footer_tree fi) i j gt cc md ->
  ck_bloom c <> [] ->
  fsub (mk_fbytes (layout_bytes fi)) (n_of_field 14 md) (nat_of_field 15 md) = Some (ck_bloom c).
Proof. exact layout_bloom_filter. Qed.

(** (d) row groups: file_offset is where the bytes of the row group start (=
    the start of its first chunk), total_compressed_size / total_byte_size are
    the sums over its chunks (check_group); the file's num_rows is the sum over
    the row groups (check_file). *)
Theorem C02_layout_sound_row_group : forall fi i g gt,
  file_ok fi = true -> nth_error (fi_groups fi) i = Some g ->
  (exists gts, get_list 4 (footer_tree fi) = Some gts /\ nth_error gts i = Some gt) ->
  exists ccs, get_list 1 gt = Some ccs /\ length ccs = length (gi_chunks g) /\
    n_of_field 5 gt = group_off fi i /\
    at_offset (layout_bytes fi) (n_of_field 5 gt) (group_bytes g) /\
    (forall cc, nth_error ccs 0 = Some cc -> chunk_start (md_of cc) = n_of_field 5 gt) /\
    fold_left N.add (map (fun cc => n_of_field 7 (md_of cc)) ccs) 0 = n_of_field 6 gt /\
    fold_left N.add (map (fun cc => n_of_field 6 (md_of cc)) ccs) 0 = n_of_field 2 gt.
Proof. exact layout_row_group. Qed.

Theorem C02_layout_sound_file_rows : forall fi,
  exists gts, get_list 4 (footer_tree fi) = Some gts /\ length gts = length (fi_groups fi) /\
    fold_left N.add (map (fun gt => n_of_field 3 gt) gts) 0 = n_of_field 3 (footer_tree fi).
Proof. exact layout_file_rows. Qed.

(** The specification decoder's own page loop ([decode_pages], which also
    decodes the bodies) finds, whenever it succeeds, the pages the header walk
    finds: same offsets, header lengths, sizes, types and value counts. *)
Theorem C02_layout_sound_decoder_pages : forall ext fuel rest lf codec dict off ps,
  decode_pages ext fuel rest lf codec dict off = Some ps ->
  exists hs, walk_pages fuel rest off = Some hs /\ Forall2 page_matches ps hs.
Proof. exact decode_pages_walk. Qed.

(** [verify] itself on a laid out file: whatever it answers, every complaint
    is about page contents ([body_codes]: decompressed length, CRC, encodings
    list, v2 row / null counts and row boundaries, level ranges, column type,
    rows per column, first_row_index against the decoded levels, sorting
    declarations against the decoded levels), never about
    the layout: num_values, total_compressed_size, total_uncompressed_size,
    data_page_offset, dictionary_page_offset, row_group_total_compressed_size,
    row_group_total_byte_size, file_num_rows, offset_index_missing_locations,
    offset_index_length, page_location_offset, page_location_size,
    offset_index_unreadable cannot be raised. *)
Theorem C02_layout_sound_verify_complaints : forall ext fi f codes,
  file_ok fi = true -> verify ext (layout_bytes fi) = Some (f, codes) ->
  forall code, In code codes -> In code body_codes.
Proof. exact layout_verify_only_body_codes. Qed.

(** Hence [verify = []] as soon as the decoder accepts the page contents.
    Partial with respect to [C02_layout_full_statement]: the hypothesis
    [bodies_accepted] (the decoder decodes every page body and raises no
    content complaint) is established per file by running the extracted decoder
    on the library's files, and for a specification-following page writer by
    C02_page_layer / C02_levels_decode / the C04 encodings; the composition
    "bodies written by the page layer are accepted" is not proved here. *)
Theorem C02_layout_sound_verify_partial : forall ext fi,
  file_ok fi = true -> bodies_accepted ext fi -> exists f, verify ext (layout_bytes fi) = Some (f, []).
Proof. exact layout_verify_modulo_bodies. Qed.

(** The full statement: contents described page by page, each chunk decoded in
    isolation (not through the file), imply an empty verdict on the file. *)
Definition page_rows (lf : leaf) (p : page) : nat :=
  if (l_maxr lf =? 0)%nat then p_nvalues p else count_eq 0 (p_rep p).

Definition chunk_contents_ok (ext : ext_fn) (lf : leaf) (md : tval) (nrows : N) (c : chunk_in) : Prop :=
  exists ps,
    decode_pages ext (S (length (chunk_bytes c))) (chunk_bytes c) lf (zdef (get_int 4 md) 0) [] 0 = Some ps /\
    let ch := {| c_leaf := lf; c_meta := md; c_chunk := TStruct []; c_start := 0; c_pages := ps |} in
    (forall code, In code (check_chunk ch) -> ~ In code body_codes) /\
    map (page_rows lf) (data_pages ch) = map (fun p => N.to_nat (pg_nrows p)) (ck_pages c) /\
    chunk_rows ch = N.to_nat nrows.

Definition contents_ok (ext : ext_fn) (fi : file_in) : Prop :=
  exists schema ls, fi_schema fi = TList T_STRUCT schema /\ leaves_of schema = Some ls /\
    forall i g, nth_error (fi_groups fi) i = Some g ->
      length (gi_chunks g) = length ls /\
      forall j c lf, nth_error (gi_chunks g) j = Some c -> nth_error ls j = Some lf ->
        chunk_contents_ok ext lf (the_meta_tree fi i g j c) (group_num_rows g) c.

Definition C02_layout_full_statement : Prop :=
  forall ext fi, file_ok fi = true -> contents_ok ext fi -> exists f, verify ext (layout_bytes fi) = Some (f, []).

Print Assumptions C02_layout_ids_agree_with_go.
Print Assumptions C02_layout_sound_footer.
Print Assumptions C02_layout_sound_chunk_entry.
Print Assumptions C02_layout_sound_chunk_pages.
Print Assumptions C02_layout_sound_chunk_sums.
Print Assumptions C02_layout_sound_offset_index.
Print Assumptions C02_layout_sound_column_index.
Print Assumptions C02_layout_sound_bloom_filter.
Print Assumptions C02_layout_sound_row_group.
Print Assumptions C02_layout_sound_file_rows.
Print Assumptions C02_layout_sound_decoder_pages.
Print Assumptions C02_layout_sound_verify_complaints.
Print Assumptions C02_layout_sound_verify_partial.

(** Non-vacuity: two row groups of two columns (INT32 required): column a has a
    v1 PLAIN page and a v2 PLAIN page and a bloom filter section, column b a
    dictionary page, an RLE_DICTIONARY data page, statistics and a column index
    section.  The side condition holds and the specification decoder accepts the
    laid out file without any complaint (bodies included). *)
Definition ex_page (ty : Z) (n : N) (enc : Z) (tail : list (Z * tval)) (body : bytes) : page_in :=
  {| pg_type := ty; pg_uncomp := sizeN body; pg_crc := 0; pg_nvalues := n; pg_nnulls := 0; pg_nrows := n;
     pg_encoding := enc; pg_tail := tail; pg_body := body |}.
Definition ex_v1tail : list (Z * tval) := [(3%Z, TInt T_I32 3); (4%Z, TInt T_I32 3)].
Definition ex_v2tail : list (Z * tval) := [(5%Z, TInt T_I32 0); (6%Z, TInt T_I32 0); (7%Z, TBool false)].
Definition ex_head (name : N) (encs : list Z) : list (Z * tval) :=
  [(1%Z, TInt T_I32 1); (2%Z, TList T_I32 (map (TInt T_I32) encs)); (3%Z, TList T_BINARY [TBin [name]]);
   (4%Z, TInt T_I32 0)].
Definition ex_col_a (vals : list N) : chunk_in :=
  {| ck_dict := None;
     ck_pages := [ex_page 0 2 0 ex_v1tail (concat (map (to_le 4) (firstn 2 vals)));
                  ex_page 3 1 0 ex_v2tail (concat (map (to_le 4) (skipn 2 vals)))];
     ck_head := ex_head 97 [0; 3]%Z; ck_kv := []; ck_stats := []; ck_tail := [];
     ck_bloom := [1; 2; 3; 4; 5]; ck_cindex := [] |}.
Definition ex_col_b : chunk_in :=
  {| ck_dict := Some (ex_page 2 2 0 [] (to_le 4 10 ++ to_le 4 20));
     ck_pages := [ex_page 0 3 8 ex_v1tail [1; 3; 6]];
     ck_head := ex_head 98 [0; 3; 8]%Z; ck_kv := [];
     ck_stats := [(12%Z, TStruct [(3%Z, TInt T_I64 0)])]; ck_tail := [];
     ck_bloom := []; ck_cindex := [25; 0; 0] |}.
Definition ex_layout : file_in :=
  {| fi_groups := [ {| gi_chunks := [ex_col_a [1; 2; 3]; ex_col_b]; gi_sorting := [] |};
                    {| gi_chunks := [ex_col_a [7; 8; 9]; ex_col_b]; gi_sorting := [] |} ];
     fi_schema := TList T_STRUCT [TStruct [(4%Z, TBin [114]); (5%Z, TInt T_I32 2)];
                                  TStruct [(1%Z, TInt T_I32 1); (3%Z, TInt T_I32 0); (4%Z, TBin [97])];
                                  TStruct [(1%Z, TInt T_I32 1); (3%Z, TInt T_I32 0); (4%Z, TBin [98])]];
     fi_tail := [(6%Z, TBin [118])] |}.

Example C02_ex_layout_ok : file_ok ex_layout = true.
Proof. vm_compute. reflexivity. Qed.

Example C02_ex_layout_verify :
  (match verify no_ext (layout_bytes ex_layout) with Some (f, codes) => Some (length (f_groups f), codes) | None => None end)
  = Some (2%nat, []).
Proof. vm_compute. reflexivity. Qed.

(* so the hypothesis of C02_layout_sound_verify_partial is satisfiable *)
Example C02_ex_layout_bodies_accepted : bodies_accepted no_ext ex_layout.
Proof.
  destruct (verify no_ext (layout_bytes ex_layout)) as [[f codes]|] eqn:E.
  - assert (Hc : codes = []).
    { pose proof C02_ex_layout_verify as H. rewrite E in H. now inversion H. }
    exists f, codes. split; [exact E|]. subst codes. intros c [].
  - pose proof C02_ex_layout_verify as H. rewrite E in H. discriminate.
Qed.

Example C02_ex_layout_size : length (layout_bytes ex_layout) = 493%nat.
Proof. vm_compute. reflexivity. Qed.

(** * Codecs and sorting declarations

    The decoder [verify ext] is parametrised by a decompressor [ext] for the codecs it does
    not implement itself (GZIP, BROTLI, ZSTD, LZ4_RAW; the run instantiates it with the
    reference implementations of those codecs, which accept complete well-formed streams only
    - a section of zero bytes is a stream of none of them).  Every theorem above that mentions
    [ext] holds for every [ext]; and [ext] is never consulted for UNCOMPRESSED and SNAPPY
    sections: *)
Theorem C02_ext_only_for_foreign_codecs : forall (e1 e2 : ext_fn) codec b,
  (codec = 0 \/ codec = 1)%Z -> decompress e1 codec b = decompress e2 codec b.
Proof. exact decompress_ext_scope. Qed.

(** The complaint sorting_nulls_placement is raised exactly when the definition levels of
    the first sorting column do not split into nulls followed by non-nulls (nulls_first) /
    non-nulls followed by nulls (otherwise). *)
Theorem C02_sorting_nulls_placement : forall nf maxd defs,
  nulls_placed nf maxd defs = true <->
  exists a b, defs = a ++ b /\
    forallb (fun d => if nf then d <? maxd else negb (d <? maxd)) a = true /\
    forallb (fun d => if nf then negb (d <? maxd) else d <? maxd) b = true.
Proof. exact nulls_placed_spec. Qed.

Print Assumptions C02_ext_only_for_foreign_codecs.
Print Assumptions C02_sorting_nulls_placement.

(* non-vacuity: both answers occur; a decompressor for codec 6 is used for codec 6 only *)
Example C02_ex_nulls_placed :
  (nulls_placed true 1 [0; 0; 1; 1], nulls_placed false 1 [0; 0; 1; 1],
   nulls_placed false 2 [2; 2; 1; 0], nulls_placed true 1 [0; 1; 0]) = (true, false, true, false).
Proof. vm_compute. reflexivity. Qed.

Example C02_ex_ext :
  let e : ext_fn := fun codec b => if (codec =? 6)%Z then Some (rev b) else None in
  (decompress e 6 [1; 2], decompress e 2 [1; 2], decompress e 0 [1; 2], decompress no_ext 6 [1; 2])
  = (Some [2; 1], None, Some [1; 2], None).
Proof. vm_compute. reflexivity. Qed.

(** ** Dictionary lookup of the specification decoder

    The decoder looks dictionary indexes up in blocks of 256 values (linear time on dictionaries of 2^16 and more
    values, index bit widths 17 and 18); that is the lookup by position, for every dictionary and index. *)
Theorem C02_dictionary_lookup : forall (dict : list bytes) (i : N),
  dict_lookup (dict_blocks dict) i = nth_error dict (N.to_nat i).
Proof. exact (@dict_lookup_eq bytes). Qed.

Print Assumptions C02_dictionary_lookup.

(* non-vacuity: positions inside, at the end of and beyond a dictionary of 600 values (three blocks) *)
Example C02_ex_dictionary_lookup :
  let dict := map (fun k => [N.of_nat k mod 256; N.of_nat k / 256]) (seq 0 600) in
  (dict_lookup (dict_blocks dict) 0, dict_lookup (dict_blocks dict) 255, dict_lookup (dict_blocks dict) 256,
   dict_lookup (dict_blocks dict) 599, dict_lookup (dict_blocks dict) 600)
  = (Some [0; 0], Some [255; 0], Some [0; 1], Some [87; 2], None).
Proof. vm_compute. reflexivity. Qed.
