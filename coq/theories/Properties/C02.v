(** C02 — every written file is well-formed Parquet that an independent
    decoder agrees on.  Statements only.

    The independent decoder is File/SpecDecoder.v ([verify]): written from the
    format specification, it is extracted and run on the raw bytes of every
    file the harness makes the library write.  What is proved here is that this
    decoder (its level/value/page layer) inverts a writer that follows the
    specification, for every input; that the real writer produces such files
    is what the run checks (decoded streams = written streams, no discrepancy
    code). *)
From Coq Require Import List NArith ZArith Lia.
From PQ Require Import Base.Bytes Base.BitPack Enc.Rle Enc.RleProofs Enc.DeltaBP Enc.DeltaBPProofs.
From PQ Require Import Dremel.Model File.Pipeline File.PipelineProofs File.SpecDecoder File.SpecAgreement.
From PQ Require Import Thrift.Compact Thrift.CompactProofs.
Import ListNotations.
Open Scope N_scope.

(** Levels of a page, as the specification decoder reads them (RLE/bit-packed
    hybrid at the width of the maximum level, [n] values kept), invert the
    level encoder for every level sequence. *)
Theorem C02_levels_decode : forall maxl (ls : list nat),
  Forall (fun l => (l <= maxl)%nat) ls -> N.of_nat (length ls) < 2 ^ 61 ->
  exists b, enc_levels (level_width maxl) (map N.of_nat ls) = Some b /\
            dec_hybrid (level_width maxl) b = Some (map N.of_nat ls).
Proof.
  intros maxl ls H Hl.
  apply (hybrid_roundtrip false); [|now rewrite map_length].
  apply Forall_forall. intros x Hx. apply in_map_iff in Hx. destruct Hx as (l & <- & Hin).
  rewrite Forall_forall in H. specialize (H l Hin). unfold level_width.
  eapply N.le_lt_trans; [|apply bitlen_bound]. lia.
Qed.

(** The page layer: entries -> (levels, values) -> entries, any value encoding. *)
Theorem C02_page_layer : forall (V : Type) venc vdec (vok : V -> Prop),
  (forall vs, Forall vok vs -> N.of_nat (length vs) < 2 ^ 61 -> vdec (length vs) (venc vs) = Some vs) ->
  forall maxr maxd es,
  Forall (entry_ok V vok maxr maxd) es -> N.of_nat (length es) < 2 ^ 61 ->
  Pipeline.decode_page V vdec maxr maxd (Pipeline.encode_page V venc maxr maxd es) = Some es.
Proof. exact page_roundtrip. Qed.

(** The consistency verdict means what it says: an empty list of discrepancy
    codes for a chunk implies the recomputed sums equal the footer's claims. *)
Theorem C02_check_chunk_sound : forall c, check_chunk c = [] ->
  sum (map p_nvalues (data_pages c)) = nat_of_field 5 (c_meta c) /\
  sumN (map (fun p => p_hlen p + p_comp p)%nat (c_pages c)) = n_of_field 7 (c_meta c) /\
  sumN (map (fun p => p_hlen p + p_uncomp p)%nat (c_pages c)) = n_of_field 6 (c_meta c) /\
  forallb (fun p => (p_ulen p =? p_uncomp p)%nat) (c_pages c) = true /\
  forallb p_crc_ok (c_pages c) = true.
Proof.
  intros c H. unfold check_chunk in H.
  repeat match type of H with
         | (_ ++ _) = [] => apply app_eq_nil in H; destruct H as [? H]
         end.
  repeat match goal with
         | Hc : check ?b _ = [] |- _ =>
             let E := fresh "E" in destruct b eqn:E; [clear Hc|discriminate Hc]
         end.
  repeat split; try (apply Nat.eqb_eq; assumption); try (apply N.eqb_eq; assumption); assumption.
Qed.

(** The thrift compact layer (footer, page headers, page index): the
    specification decoder inverts the encoder on every well-formed value tree:
    any nesting, any field ids (short delta form and long form), short and
    long list headers, booleans in field headers and as list elements. *)
Theorem C02_thrift_roundtrip : forall v, CompactProofs.wf v ->
  forall fuel ty rest, (sz v <= fuel)%nat -> code_ok ty v ->
  dec_val fuel ty (encode v ++ rest) = Some (v, rest).
Proof. exact dec_val_encode. Qed.

(** The field ids and enum values the decoder takes from parquet.thrift are the
    ones the Go code uses (regenerated from format/parquet.go on every run). *)
Theorem C02_field_ids_agree_with_go : agreement = true.
Proof. exact thrift_ids_agree_with_go. Qed.

Print Assumptions C02_thrift_roundtrip.
Print Assumptions C02_field_ids_agree_with_go.
Print Assumptions C02_levels_decode.
Print Assumptions C02_page_layer.
Print Assumptions C02_check_chunk_sound.

(** Non-vacuity: a thrift struct round-trips through the compact protocol. *)
Definition ex_header : tval :=
  TStruct [(1%Z, TInt T_I32 0%Z); (2%Z, TInt T_I32 42%Z); (3%Z, TInt T_I32 42%Z); (4%Z, TInt T_I32 (-559038737)%Z);
           (5%Z, TStruct [(1%Z, TInt T_I32 10%Z); (2%Z, TInt T_I32 0%Z); (3%Z, TInt T_I32 3%Z); (4%Z, TInt T_I32 3%Z)]);
           (20%Z, TList T_BINARY [TBin [1; 2; 3]; TBin []]); (21%Z, TBool true); (40%Z, TBool false)].

Example C02_ex_thrift_wf : CompactProofs.wf ex_header.
Proof. cbn. unfold in_sint, T_I16, T_I32, T_I64, T_BINARY, T_MAP. cbn. repeat split; try lia; auto. Qed.

Example C02_ex_thrift_roundtrip : decode_struct (encode ex_header) = Some (ex_header, []).
Proof. vm_compute. reflexivity. Qed.
