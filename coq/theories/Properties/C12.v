(** C12 — reading through a different but compatible schema only adds or
    drops columns.  Statements only; proofs are in Convert/Proofs.v.

    Schemas are trees of named fields (name, repetition, leaf type tag or
    children).  [compat src tgt]: same-named nodes agree on leaf/group kind, on
    repetition and on the leaf type; apart from that the target may drop,
    reorder and add fields at any depth (inside groups and lists).
    [project src tgt v] is the value-level specification: for every target
    field the source field of the same name (recursively), else null
    (optional), the empty list (repeated) or the zero value (required, down to
    the leaves).  [convert_columns] is the column-level algorithm of
    Convert/conversion.Convert on one row (one stream of (value, repetition
    level, definition level) per leaf column).

    One repetition change keeps every value and the whole nesting: a node that
    is required in the source may be optional in the target (a struct field
    read into a pointer field, a nullable or merged schema).  [widens tgtN tgt]:
    [tgt] is [tgtN] with some required nodes optional; the conversion to such a
    target is the conversion to [tgtN] (no repetition change: [compat src
    tgtN]) followed by the translation of the definition levels
    ([widen_columns], the level tables of Convert), and its result is the
    projection in which the widened nodes are present ([widen_val]).
    Proofs of that part are in Convert/WidenProofs.v. *)
From Coq Require Import List Arith Bool NArith Lia.
From PQ Require Import Dremel.Model Dremel.Proofs Convert.Model Convert.Proofs Convert.Widen Convert.WidenProofs.
From PQ Require Import Convert.Sorting Convert.SortingProofs.
From PQ Require Import Convert.Chunks Convert.ChunksProofs.
Import ListNotations.

(** Re-assembling the converted columns of a row with the target schema yields
    the projection of the row: common columns keep their values and nesting,
    added optional columns are null, added repeated columns empty, added
    required columns zero.  [tails] are the columns of the rows that follow
    (any, as long as they start rows: repetition level 0): they are left
    untouched.  [n] bounds the lengths of the lists of the value (any value
    has such a bound). *)
Theorem C12_convert_is_projection :
  forall (V : Type) (zero : N -> V) (src tgt : nschema) (v : value V) (n : nat) (tails : list (column V)),
    compat src tgt = true -> wf_nschema src -> wf_nschema tgt -> wfn V n (erase src) v ->
    length tails = nl tgt -> heads_le V 0 tails ->
    exists cols, convert_columns V zero src tgt (shred_row (erase src) v) = Some cols /\
      asm (erase tgt) 0 0 (S n) (zipapp cols tails) = Some (project V zero src tgt v, tails).
Proof. exact convert_is_projection. Qed.

(** For every well-formed value (no bound given: the assembler's fuel is the
    bound of the value). *)
Theorem C12_convert_is_projection_wf :
  forall (V : Type) (zero : N -> V) (src tgt : nschema) (v : value V) (tails : list (column V)),
    compat src tgt = true -> wf_nschema src -> wf_nschema tgt -> wf (erase src) v ->
    length tails = nl tgt -> heads_le V 0 tails ->
    exists fuel cols, convert_columns V zero src tgt (shred_row (erase src) v) = Some cols /\
      asm (erase tgt) 0 0 fuel (zipapp cols tails) = Some (project V zero src tgt v, tails).
Proof. exact convert_is_projection_wf. Qed.

(** The same at column level: the converted columns ARE the shredding of the
    projected value with the target schema (levels included). *)
Theorem C12_converted_columns_are_shredded_projection :
  forall (V : Type) (zero : N -> V) (src tgt : nschema) (v : value V) (n : nat),
    compat src tgt = true -> wf_nschema src -> wfn V n (erase src) v ->
    conv V (plan V zero src tgt 0 0) (shred_row (erase src) v)
    = shred_row (erase tgt) (project V zero src tgt v).
Proof. exact convert_is_shred_project. Qed.

(** Sequences of rows: as many rows come out as went in, in the same order,
    each the projection of the corresponding source row. *)
Theorem C12_rows_preserved :
  forall (V : Type) (zero : N -> V) (src tgt : nschema) (vs : list (value V)) (n : nat),
    compat src tgt = true -> wf_nschema src -> wf_nschema tgt -> Forall (wfn V n (erase src)) vs ->
    exists rows, convert_rows V zero src tgt (map (shred_row (erase src)) vs) = Some rows /\
      length rows = length vs /\
      asm_rows (length vs) (erase tgt) (S n) (concat_rows V (nl tgt) rows)
      = Some (map (project V zero src tgt) vs).
Proof. exact convert_rows_preserved. Qed.

(** Equal schemas: the identity shortcut (Convert returns identity{}, CopyRows
    inserts no conversion) returns the rows unchanged, and that is what the
    general path would compute and what the specification asks for. *)
Theorem C12_identity :
  forall (V : Type) (zero : N -> V) (s : nschema) (v : value V) (n : nat),
    wf_nschema s -> wfn V n (erase s) v ->
    convert_columns V zero s s (shred_row (erase s) v) = Some (shred_row (erase s) v) /\
    convert_columns_general V zero s s (shred_row (erase s) v) = shred_row (erase s) v /\
    project V zero s s v = v.
Proof. exact convert_identity. Qed.

(** Incompatible targets are rejected: whenever two same-named nodes clash
    (leaf against group, different leaf types, different repetitions, at any
    depth) the model returns the error, and it returns the error only then. *)
Theorem C12_incompatible_rejected :
  forall (V : Type) (zero : N -> V) (src tgt : nschema) (cols : list (column V)),
    wf_nschema src -> clash src tgt -> convert_columns V zero src tgt cols = None.
Proof. exact incompatible_rejected. Qed.

Theorem C12_rejected_only_if_clash :
  forall (V : Type) (zero : N -> V) (src tgt : nschema) (cols : list (column V)),
    convert_columns V zero src tgt cols = None -> clash src tgt.
Proof. exact rejected_only_if_clash. Qed.

Theorem C12_compat_iff_no_clash :
  forall src tgt, compat src tgt = true <-> ~ clash src tgt.
Proof.
  intros src tgt. split.
  - intros H Hc. rewrite (clash_not_compat _ _ Hc) in H. discriminate.
  - intros H. destruct (compat src tgt) eqn:E; [reflexivity|].
    exfalso. apply H. now apply (proj1 not_compat_clash).
Qed.

(** A target that also reads required nodes of the source as optional ones:
    re-assembling the converted columns with the target schema yields
    [project_widen]: the projection of the row onto the target in which those
    nodes are still required, read through the target ([widen_top]): every
    widened node is present (wrapped, nothing else changes), except that the
    outermost one is null when every column below it is a per-row placeholder
    of Convert (nothing below it is read from the source: the library's
    choice). *)
Theorem C12_widened_convert_is_projection :
  forall (V : Type) (zero : N -> V) (src tgtN tgt : nschema) (v : value V) (n : nat) (tails : list (column V)),
    compat src tgtN = true -> widens tgtN tgt = true ->
    wf_nschema src -> wf_nschema tgtN -> wf_nschema tgt -> wfn V n (erase src) v ->
    length tails = nl tgt -> heads_le V 0 tails ->
    exists cols, convert_widen_columns V zero src tgtN tgt (shred_row (erase src) v) = Some cols /\
      asm (erase tgt) 0 0 (S n) (zipapp cols tails)
      = Some (project_widen V zero src tgtN tgt v, tails).
Proof. exact convert_widen_is_projection. Qed.

(** At column level: the converted columns are the shredding, with the target
    schema, of that value (levels included). *)
Theorem C12_widened_columns_are_shredded_projection :
  forall (V : Type) (zero : N -> V) (src tgtN tgt : nschema) (v : value V) (n : nat),
    compat src tgtN = true -> widens tgtN tgt = true ->
    wf_nschema src -> wf_nschema tgtN -> wfn V n (erase src) v ->
    convert_widen_columns V zero src tgtN tgt (shred_row (erase src) v)
    = Some (shred_row (erase tgt) (project_widen V zero src tgtN tgt v)).
Proof. exact convert_widen_is_shred_project. Qed.

(** When no column takes the per-row placeholder, every widened node is
    present: the record the target sees is the projection with these nodes
    wrapped. *)
Theorem C12_widened_nodes_present :
  forall (V : Type) (zero : N -> V) (src tgtN tgt : nschema) (v : value V),
    compat src tgtN = true -> wf_nschema tgtN ->
    Forall (fun h => h = false) (hold_flags V zero src tgtN) ->
    project_widen V zero src tgtN tgt v = widen_val V tgtN tgt (project V zero src tgtN v).
Proof. exact project_widen_present. Qed.

(** The translation of the definition levels alone: for every schema, every
    widening of it and every record, lifting the levels of the shredded
    columns is shredding the record (widened nodes present) with the widened
    schema. *)
Theorem C12_level_translation_is_shredding :
  forall (V : Type) (s t : nschema) (v : value V),
    widens s t = true -> wf_nschema s -> wf (erase s) v ->
    shred_row (erase t) (widen_val V s t v) = widen_columns V s t (shred_row (erase s) v).
Proof. exact widen_shred_row. Qed.

(** No node widened: nothing is translated, the conversion is the one of the
    theorems above. *)
Theorem C12_not_widened :
  forall (V : Type) (zero : N -> V) (src s : nschema) (cols : list (column V)),
    length cols = nl s -> widens s s = true /\ widen_columns_top V zero src s s cols = cols.
Proof. intros V zero src s cols H. split; [apply (proj1 widens_refl)|now apply widen_columns_top_self]. Qed.

(** What a converted row group says about the order of its rows
    (ConvertRowGroup(...).SortingColumns(), which MergeRowGroups trusts): rows
    sorted by the columns [ks], column after column ([cmp k] is the order on
    column [k], direction and nulls included), are sorted by the longest prefix
    of [ks] whose columns the target keeps, and every declared column is a
    column of the target.  (The rows keep their order: C12_rows_preserved; a
    kept column keeps its values: the theorems above.) *)
Theorem C12_converted_sorting_columns_sound :
  forall (K R : Type) (cmp : K -> R -> R -> comparison) (kept : K -> bool) (ks : list K) (rows : list R),
    sorted_by K R cmp ks rows = true ->
    sorted_by K R cmp (kept_prefix K kept ks) rows = true /\ forallb kept (kept_prefix K kept ks) = true.
Proof. exact converted_sorting_sound. Qed.

(** Declaring the kept columns that FOLLOW a dropped one is refuted: rows
    sorted by (a, b) are not sorted by b. *)
Theorem C12_sorting_after_dropped_column_refuted :
  let rows := [(1, 9); (2, 1); (3, 5)] in
  let kept := fun k : nat => negb (Nat.eqb k 0) in
  sorted_by nat (nat * nat) sx_cmp [0; 1] rows = true /\
  filter kept [0; 1] = [1] /\
  sorted_by nat (nat * nat) sx_cmp (filter kept [0; 1]) rows = false /\
  kept_prefix nat kept [0; 1] = [].
Proof. exact skipping_dropped_columns_refuted. Qed.

(** The column-chunk view of a converted row group
    (ConvertRowGroup(rg, conv).ColumnChunks(), Convert/Chunks.v): for a target
    column [c] that the conversion copies from a source column, the entries of
    the rows i .. j-1 of its chunk (a page, Page.Slice(i, j) of a page, a
    row-range view) are column [c] of the rows i .. j-1 converted through the
    row path (for which the theorems above hold); a slice of a slice is the
    slice of the sum of the offsets.  Targets that only delete and permute
    columns have copied columns only.  The chunks of the columns that the
    source lacks are not modelled (known finding
    converted-column-chunks-levels), nor are the levels of widened nodes there. *)
Theorem C12_copied_column_chunk_is_row_path :
  forall (V : Type) (zero : N -> V) (src tgt : nschema) (c i j : nat) (rows : list (list (column V))) (col : column V),
    chunk_view V (plan V zero src tgt 0 0) c (row_slice i j rows) = Some col ->
    col = chunk_of V c (row_slice i j (map (conv V (plan V zero src tgt 0 0)) rows)).
Proof. intros V zero src tgt. exact (chunk_view_is_row_path V (plan V zero src tgt 0 0)). Qed.

Theorem C12_slice_of_slice :
  forall (A : Type) (i j x y : nat) (l : list A),
    i + y <= j -> row_slice x y (row_slice i j l) = row_slice (i + x) (i + y) l.
Proof. exact row_slice_slice. Qed.

Print Assumptions C12_converted_sorting_columns_sound.
Print Assumptions C12_copied_column_chunk_is_row_path.
Print Assumptions C12_slice_of_slice.
Print Assumptions C12_sorting_after_dropped_column_refuted.
Print Assumptions C12_convert_is_projection.
Print Assumptions C12_widened_convert_is_projection.
Print Assumptions C12_widened_columns_are_shredded_projection.
Print Assumptions C12_widened_nodes_present.
Print Assumptions C12_level_translation_is_shredding.
Print Assumptions C12_not_widened.
Print Assumptions C12_convert_is_projection_wf.
Print Assumptions C12_converted_columns_are_shredded_projection.
Print Assumptions C12_rows_preserved.
Print Assumptions C12_identity.
Print Assumptions C12_incompatible_rejected.
Print Assumptions C12_rejected_only_if_clash.
Print Assumptions C12_compat_iff_no_clash.

(** What the library accepts although the statement calls it incompatible
    (recorded, not proved about the code): Convert never returns an error.  A
    same-named node of the other kind is treated as "dropped and added" (the
    model's [plan] does the same, [convert_columns] puts the rejection in
    front); repetition changes (optional -> required: nulls become zero values;
    repeated -> required: all elements land in one required column) and leaf
    type changes (convertToType) are deliberate features of the library and
    are outside the statement. *)

(** * Non-vacuity: a source with a list of groups and an optional group; the
      target drops a field, swaps two, and adds an optional leaf inside the
      list element, a required leaf inside the optional group, a repeated leaf
      and a required group at top level. *)
Definition zn (ty : N) : nat := 0.

Definition ex_src : nschema :=
  NGroup (NCons 1 Req (NLeaf 7)
         (NCons 2 Rpt (NGroup (NCons 10 Opt (NLeaf 7) (NCons 11 Req (NLeaf 8) NNil)))
         (NCons 3 Opt (NGroup (NCons 20 Req (NGroup (NCons 30 Req (NLeaf 7) NNil)) NNil))
         (NCons 4 Req (NLeaf 9) NNil)))).

Definition ex_tgt : nschema :=
  NGroup (NCons 3 Opt (NGroup (NCons 21 Req (NLeaf 8)
                              (NCons 20 Req (NGroup (NCons 30 Req (NLeaf 7) NNil)) NNil)))
         (NCons 2 Rpt (NGroup (NCons 11 Req (NLeaf 8) (NCons 12 Opt (NLeaf 9) (NCons 10 Opt (NLeaf 7) NNil))))
         (NCons 5 Rpt (NLeaf 7)
         (NCons 6 Req (NGroup (NCons 40 Req (NLeaf 7) (NCons 41 Opt (NLeaf 7) NNil)))
         (NCons 1 Req (NLeaf 7) NNil))))).

Definition ex_v : value nat :=
  VGroup [VLeaf 100;
          VList [VGroup [VOpt (Some (VLeaf 1)); VLeaf 2]; VGroup [VOpt None; VLeaf 3]];
          VOpt (Some (VGroup [VGroup [VLeaf 5]]));
          VLeaf 9].

Definition ex_v2 : value nat :=
  VGroup [VLeaf 101; VList []; VOpt None; VLeaf 9].

Example C12_ex_compat : compat ex_src ex_tgt = true.
Proof. vm_compute. reflexivity. Qed.

Example C12_ex_wf : wf_nschema ex_src /\ wf_nschema ex_tgt /\ wfn nat 2 (erase ex_src) ex_v /\ wfn nat 2 (erase ex_src) ex_v2.
Proof. cbn. repeat split; auto; try lia; repeat constructor. Qed.

Example C12_ex_project :
  project nat zn ex_src ex_tgt ex_v =
  VGroup [VOpt (Some (VGroup [VLeaf 0; VGroup [VLeaf 5]]));
          VList [VGroup [VLeaf 2; VOpt None; VOpt (Some (VLeaf 1))]; VGroup [VLeaf 3; VOpt None; VOpt None]];
          VList [];
          VGroup [VLeaf 0; VOpt None];
          VLeaf 100]
  /\ project nat zn ex_src ex_tgt ex_v2 =
  VGroup [VOpt None; VList []; VList []; VGroup [VLeaf 0; VOpt None]; VLeaf 101].
Proof. vm_compute. split; reflexivity. Qed.

Example C12_ex_convert :
  convert_columns nat zn ex_src ex_tgt (shred_row (erase ex_src) ex_v) =
  Some [ [(Some 0, 0, 1)];                       (* 3.21 added required leaf in a present optional group *)
         [(Some 5, 0, 1)];                       (* 3.20.30 *)
         [(Some 2, 0, 1); (Some 3, 1, 1)];       (* 2.11 *)
         [(None, 0, 1); (None, 1, 1)];           (* 2.12 added optional leaf: one null per element *)
         [(Some 1, 0, 2); (None, 1, 1)];         (* 2.10 *)
         [(None, 0, 0)];                         (* 5 added repeated leaf: empty *)
         [(Some 0, 0, 0)];                       (* 6.40 added required group: zero *)
         [(None, 0, 0)];                         (* 6.41 *)
         [(Some 100, 0, 0)] ]                    (* 1 *)
  /\ convert_columns nat zn ex_src ex_tgt (shred_row (erase ex_src) ex_v2) =
  Some [ [(None, 0, 0)]; [(None, 0, 0)]; [(None, 0, 0)]; [(None, 0, 0)]; [(None, 0, 0)];
         [(None, 0, 0)]; [(Some 0, 0, 0)]; [(None, 0, 0)]; [(Some 101, 0, 0)] ].
Proof. vm_compute. split; reflexivity. Qed.

Example C12_ex_reassembled :
  match convert_columns nat zn ex_src ex_tgt (shred_row (erase ex_src) ex_v) with
  | Some cols => asm (erase ex_tgt) 0 0 3 (zipapp cols (repeat [] 9))
  | None => None
  end = Some (project nat zn ex_src ex_tgt ex_v, repeat [] 9).
Proof. vm_compute. reflexivity. Qed.

(* the column-chunk view of three rows, rows 1 .. 2: the copied columns hold
   what the row path yields for them, at the place the target gives them *)
Definition ex_rows : list (list (column nat)) :=
  [shred_row (erase ex_src) ex_v; shred_row (erase ex_src) ex_v2; shred_row (erase ex_src) ex_v].

Example C12_ex_chunk_views :
  chunk_views nat (plan nat zn ex_src ex_tgt 0 0) 1 3 ex_rows =
  [ None;                                                        (* 3.21 added *)
    Some [(None, 0, 0); (Some 5, 0, 1)];                         (* 3.20.30 = source column 3 *)
    Some [(None, 0, 0); (Some 2, 0, 1); (Some 3, 1, 1)];         (* 2.11 = source column 2 *)
    None;                                                        (* 2.12 added *)
    Some [(None, 0, 0); (Some 1, 0, 2); (None, 1, 1)];           (* 2.10 = source column 1 *)
    None; None; None;
    Some [(Some 101, 0, 0); (Some 100, 0, 0)] ]                  (* 1 = source column 0 *)
  /\ map (fun c => chunk_of nat c (row_slice 1 3 (map (conv nat (plan nat zn ex_src ex_tgt 0 0)) ex_rows))) [1; 2; 4; 8] =
  [ [(None, 0, 0); (Some 5, 0, 1)]; [(None, 0, 0); (Some 2, 0, 1); (Some 3, 1, 1)];
    [(None, 0, 0); (Some 1, 0, 2); (None, 1, 1)]; [(Some 101, 0, 0); (Some 100, 0, 0)] ].
Proof. vm_compute. split; reflexivity. Qed.

(* the per-row placeholder of Convert: the deepest shared group (here the root)
   sits at levels (0, 0) and has no direct leaf child; no source column is read *)
Example C12_ex_placeholder :
  let src := NGroup (NCons 1 Req (NGroup (NCons 2 Req (NLeaf 7) NNil)) NNil) in
  let tgt := NGroup (NCons 1 Req (NGroup (NCons 2 Req (NLeaf 7) NNil))
                    (NCons 5 Opt (NLeaf 7) (NCons 6 Req (NLeaf 8) NNil))) in
  plan nat zn src tgt 0 0 = [ACopy 0; AHold None; AHold (Some 0)] /\
  convert_columns nat zn src tgt [[(Some 4, 0, 0)]] = Some [[(Some 4, 0, 0)]; [(None, 0, 0)]; [(Some 0, 0, 0)]].
Proof. vm_compute. split; reflexivity. Qed.

(* a target that reads required nodes as optional ones: the required group 3.20
   and the required leaf 4 of [ex_src] are optional, a column is added in 3.20 *)
Definition ex_tgtN : nschema :=
  NGroup (NCons 4 Req (NLeaf 9)
         (NCons 3 Opt (NGroup (NCons 20 Req (NGroup (NCons 31 Opt (NLeaf 8) (NCons 30 Req (NLeaf 7) NNil))) NNil))
         (NCons 2 Rpt (NGroup (NCons 11 Req (NLeaf 8) NNil)) NNil))).

Definition ex_tgtW : nschema :=
  NGroup (NCons 4 Opt (NLeaf 9)
         (NCons 3 Opt (NGroup (NCons 20 Opt (NGroup (NCons 31 Opt (NLeaf 8) (NCons 30 Opt (NLeaf 7) NNil))) NNil))
         (NCons 2 Rpt (NGroup (NCons 11 Opt (NLeaf 8) NNil)) NNil))).

Example C12_ex_widens :
  compat ex_src ex_tgtN = true /\ widens ex_tgtN ex_tgtW = true /\ compat ex_src ex_tgtW = false /\
  wf_nschema ex_tgtN /\ wf_nschema ex_tgtW.
Proof. split; [|split; [|split]]; try (vm_compute; reflexivity). cbn. repeat split; auto; lia. Qed.

Example C12_ex_widened_value :
  project_widen nat zn ex_src ex_tgtN ex_tgtW ex_v =
  VGroup [VOpt (Some (VLeaf 9));
          VOpt (Some (VGroup [VOpt (Some (VGroup [VOpt None; VOpt (Some (VLeaf 5))]))]));
          VList [VGroup [VOpt (Some (VLeaf 2))]; VGroup [VOpt (Some (VLeaf 3))]]].
Proof. vm_compute. reflexivity. Qed.

Example C12_ex_widened_convert :
  convert_widen_columns nat zn ex_src ex_tgtN ex_tgtW (shred_row (erase ex_src) ex_v) =
  Some [ [(Some 9, 0, 1)];                       (* 4: required -> optional, present *)
         [(None, 0, 2)];                         (* 3.20.31 added: 3 and 3.20 present, 31 null *)
         [(Some 5, 0, 3)];                       (* 3.20.30: three optional nodes on the path now *)
         [(Some 2, 0, 2); (Some 3, 1, 2)] ]      (* 2.11 *)
  /\ convert_widen_columns nat zn ex_src ex_tgtN ex_tgtW (shred_row (erase ex_src) ex_v2) =
  Some [ [(Some 9, 0, 1)]; [(None, 0, 0)]; [(None, 0, 0)]; [(None, 0, 0)] ]   (* 3 null: nothing below it is lifted *)
  /\ match convert_widen_columns nat zn ex_src ex_tgtN ex_tgtW (shred_row (erase ex_src) ex_v) with
     | Some cols => asm (erase ex_tgtW) 0 0 3 (zipapp cols (repeat [] 4))
     | None => None
     end = Some (project_widen nat zn ex_src ex_tgtN ex_tgtW ex_v, repeat [] 4).
Proof. vm_compute. repeat split; reflexivity. Qed.

(* the per-row placeholder below a widened group: the shared group 1 sits at
   levels (0, 0) of the source and has no direct leaf child, so no source
   column is read; in the target it is optional and PRESENT, the added optional
   column is null at definition level 1 and the added required one is defined *)
Example C12_ex_widened_placeholder :
  let src := NGroup (NCons 1 Req (NGroup (NCons 2 Req (NGroup (NCons 3 Req (NLeaf 7) NNil)) NNil)) NNil) in
  let tgtN := NGroup (NCons 1 Req (NGroup (NCons 5 Opt (NLeaf 7) (NCons 2 Req (NGroup (NCons 3 Req (NLeaf 7) NNil))
                                  (NCons 6 Req (NLeaf 8) NNil)))) NNil) in
  let tgt := NGroup (NCons 1 Opt (NGroup (NCons 5 Opt (NLeaf 7) (NCons 2 Req (NGroup (NCons 3 Req (NLeaf 7) NNil))
                                 (NCons 6 Req (NLeaf 8) NNil)))) NNil) in
  plan nat zn src tgtN 0 0 = [AHold None; ACopy 0; AHold (Some 0)] /\
  convert_widen_columns nat zn src tgtN tgt [[(Some 4, 0, 0)]]
  = Some [[(None, 0, 1)]; [(Some 4, 0, 1)]; [(Some 0, 0, 1)]].
Proof. vm_compute. split; reflexivity. Qed.

(* the free choice: nothing below the widened group 1 is read from the source
   (both columns are per-row placeholders): the group reads as null, also the
   required added leaf is a null at level 0; as soon as one column below it is
   copied (example above) the group is present for every column *)
Example C12_ex_widened_null :
  let src := NGroup (NCons 1 Req (NGroup (NCons 2 Req (NGroup (NCons 3 Req (NLeaf 7) NNil)) NNil))
                    (NCons 9 Req (NLeaf 7) NNil)) in
  let tgtN := NGroup (NCons 1 Req (NGroup (NCons 5 Opt (NLeaf 7) (NCons 6 Req (NLeaf 8) NNil)))
                     (NCons 9 Req (NLeaf 7) NNil)) in
  let tgt := NGroup (NCons 1 Opt (NGroup (NCons 5 Opt (NLeaf 7) (NCons 6 Req (NLeaf 8) NNil)))
                    (NCons 9 Opt (NLeaf 7) NNil)) in
  hold_flags nat zn src tgtN = [true; true; false] /\
  project_widen nat zn src tgtN tgt (VGroup [VGroup [VGroup [VLeaf 4]]; VLeaf 8])
  = VGroup [VOpt None; VOpt (Some (VLeaf 8))] /\
  convert_widen_columns nat zn src tgtN tgt [[(Some 4, 0, 0)]; [(Some 8, 0, 0)]]
  = Some [[(None, 0, 0)]; [(None, 0, 0)]; [(Some 8, 0, 1)]] /\
  columns_of nat zn src tgtN tgt = [None; None; Some 1].
Proof. vm_compute. repeat split; reflexivity. Qed.

(* Conversion.Column of a placeholder column below a widened node that is
   present: the fill path reads the first column of the shared group *)
Example C12_ex_widened_columns :
  let src := NGroup (NCons 1 Req (NGroup (NCons 2 Req (NGroup (NCons 3 Req (NLeaf 7) NNil)) NNil)) NNil) in
  let tgtN := NGroup (NCons 1 Req (NGroup (NCons 5 Opt (NLeaf 7) (NCons 2 Req (NGroup (NCons 3 Req (NLeaf 7) NNil))
                                  (NCons 6 Req (NLeaf 8) NNil)))) NNil) in
  let tgt := NGroup (NCons 1 Opt (NGroup (NCons 5 Opt (NLeaf 7) (NCons 2 Req (NGroup (NCons 3 Req (NLeaf 7) NNil))
                                 (NCons 6 Req (NLeaf 8) NNil)))) NNil) in
  columns_of nat zn src tgtN tgtN = [None; Some 0; None] /\
  columns_of nat zn src tgtN tgt = [Some 0; Some 0; Some 0].
Proof. vm_compute. split; reflexivity. Qed.

(* incompatible: field 2 is a leaf in the target, field 3 changes repetition *)
Example C12_ex_rejected :
  convert_columns nat zn ex_src (NGroup (NCons 2 Rpt (NLeaf 7) NNil)) [] = None /\
  convert_columns nat zn ex_src (NGroup (NCons 1 Opt (NLeaf 7) NNil)) [] = None /\
  convert_columns nat zn ex_src (NGroup (NCons 1 Req (NLeaf 8) NNil)) [] = None /\
  clash ex_src (NGroup (NCons 2 Rpt (NLeaf 7) NNil)).
Proof.
  repeat split; try (vm_compute; reflexivity).
  constructor. eapply clash_here_node; [vm_compute; reflexivity|]. constructor.
Qed.

(** * The algorithm of the pinned tree (closest-sibling heuristic) refutes the
      statement: the statement holds of [convert_columns] only. *)

(* an optional leaf added next to a repeated leaf: the repeated sibling's
   entries are mirrored into the new, non-repeated column *)
Definition px_src : nschema := NGroup (NCons 1 Rpt (NLeaf 7) NNil).
Definition px_tgt : nschema := NGroup (NCons 1 Rpt (NLeaf 7) (NCons 2 Opt (NLeaf 7) NNil)).
Definition px_v : value nat := VGroup [VList [VLeaf 1; VLeaf 2; VLeaf 3]].

Theorem C12_pinned_repeated_sibling_refuted :
  compat px_src px_tgt = true /\ wf_nschema px_src /\ wf_nschema px_tgt /\ wfn nat 3 (erase px_src) px_v /\
  convert_columns_pinned nat zn px_src px_tgt (shred_row (erase px_src) px_v)
  = [ [(Some 1, 0, 1); (Some 2, 1, 1); (Some 3, 1, 1)]; [(None, 0, 0); (None, 1, 0); (None, 1, 0)] ] /\
  asm (erase px_tgt) 0 0 4
      (zipapp (convert_columns_pinned nat zn px_src px_tgt (shred_row (erase px_src) px_v)) [[]; []])
  <> Some (project nat zn px_src px_tgt px_v, [[]; []]).
Proof.
  split; [vm_compute; reflexivity|]. split; [cbn; repeat split; auto; lia|].
  split; [cbn; repeat split; auto; lia|]. split; [cbn; repeat split; auto; repeat constructor|].
  split; [vm_compute; reflexivity|]. vm_compute. intros H. discriminate H.
Qed.

(* an optional leaf added to an optional group that has no direct leaf child:
   the placeholder says "group null" while the group is present *)
Definition py_src : nschema :=
  NGroup (NCons 1 Opt (NGroup (NCons 2 Req (NGroup (NCons 3 Req (NLeaf 7) NNil)) NNil)) NNil).
Definition py_tgt : nschema :=
  NGroup (NCons 1 Opt (NGroup (NCons 2 Req (NGroup (NCons 3 Req (NLeaf 7) NNil))
                              (NCons 4 Opt (NLeaf 7) NNil))) NNil).
Definition py_v : value nat := VGroup [VOpt (Some (VGroup [VGroup [VLeaf 5]]))].

Theorem C12_pinned_no_leaf_sibling_refuted :
  compat py_src py_tgt = true /\ wfn nat 0 (erase py_src) py_v /\
  convert_columns_pinned nat zn py_src py_tgt (shred_row (erase py_src) py_v)
  = [ [(Some 5, 0, 1)]; [(None, 0, 0)] ] /\
  shred_row (erase py_tgt) (project nat zn py_src py_tgt py_v) = [ [(Some 5, 0, 1)]; [(None, 0, 1)] ].
Proof. repeat split; vm_compute; auto. Qed.

(* a column added below a group that only the target makes optional, next to a
   column both sides have (repaired in 989a01a, f1d59c6): the placeholder says
   "group null", the copied column says "group present"; assembling takes the
   first column's word and the value 7 is lost *)
Definition pw_src : nschema :=
  NGroup (NCons 1 Req (NGroup (NCons 2 Req (NGroup (NCons 3 Req (NLeaf 7) NNil)) NNil)) NNil).
Definition pw_tgtN : nschema :=
  NGroup (NCons 1 Req (NGroup (NCons 4 Opt (NLeaf 7) (NCons 2 Req (NGroup (NCons 3 Req (NLeaf 7) NNil)) NNil))) NNil).
Definition pw_tgt : nschema :=
  NGroup (NCons 1 Opt (NGroup (NCons 4 Opt (NLeaf 7) (NCons 2 Req (NGroup (NCons 3 Req (NLeaf 7) NNil)) NNil))) NNil).
Definition pw_v : value nat := VGroup [VGroup [VGroup [VLeaf 7]]].

Theorem C12_pinned_placeholder_below_widened_group_refuted :
  compat pw_src pw_tgtN = true /\ widens pw_tgtN pw_tgt = true /\ wfn nat 0 (erase pw_src) pw_v /\
  convert_widen_columns_pinned nat zn pw_src pw_tgtN pw_tgt (shred_row (erase pw_src) pw_v)
  = [ [(None, 0, 0)]; [(Some 7, 0, 1)] ] /\
  convert_widen_columns nat zn pw_src pw_tgtN pw_tgt (shred_row (erase pw_src) pw_v)
  = Some [ [(None, 0, 1)]; [(Some 7, 0, 1)] ] /\
  project_widen nat zn pw_src pw_tgtN pw_tgt pw_v = VGroup [VOpt (Some (VGroup [VOpt None; VGroup [VLeaf 7]]))] /\
  asm (erase pw_tgt) 0 0 1
      (zipapp (convert_widen_columns_pinned nat zn pw_src pw_tgtN pw_tgt (shred_row (erase pw_src) pw_v)) [[]; []])
  <> Some (project_widen nat zn pw_src pw_tgtN pw_tgt pw_v, [[]; []]).
Proof.
  split; [vm_compute; reflexivity|]. split; [vm_compute; reflexivity|].
  split; [cbn; repeat split; auto|]. split; [vm_compute; reflexivity|].
  split; [vm_compute; reflexivity|]. split; [vm_compute; reflexivity|].
  vm_compute. intros H. discriminate H.
Qed.

Print Assumptions C12_pinned_repeated_sibling_refuted.
Print Assumptions C12_pinned_placeholder_below_widened_group_refuted.
Print Assumptions C12_pinned_no_leaf_sibling_refuted.
