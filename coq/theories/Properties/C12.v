(** C12 — reading through a different but compatible schema only adds or
    drops columns.  Statements only; proofs are in Convert/Proofs.v.

    Schemas are trees of named fields (name, repetition, leaf type tag or
    children).  [compat src tgt]: same-named nodes agree on leaf/group kind, on
    repetition and on the leaf type; apart from that the target may drop,
    reorder and add fields at any depth (inside groups and lists).
    [project src tgt v] is the value-level specification: for every target
    field the source field of the same name (recursively), else null
    (optional), the empty list (repeated) or the zero value (required, down to
    the leaves).  [convert_columns] is the column-level algorithm of
    Convert/conversion.Convert on one row (one stream of (value, repetition
    level, definition level) per leaf column). *)
From Coq Require Import List Arith Bool NArith Lia.
From PQ Require Import Dremel.Model Dremel.Proofs Convert.Model Convert.Proofs.
Import ListNotations.

(** Re-assembling the converted columns of a row with the target schema yields
    the projection of the row: common columns keep their values and nesting,
    added optional columns are null, added repeated columns empty, added
    required columns zero.  [tails] are the columns of the rows that follow
    (any, as long as they start rows: repetition level 0): they are left
    untouched.  [n] bounds the lengths of the lists of the value (any value
    has such a bound). *)
Theorem C12_convert_is_projection :
  forall (V : Type) (zero : N -> V) (src tgt : nschema) (v : value V) (n : nat) (tails : list (column V)),
    compat src tgt = true -> wf_nschema src -> wf_nschema tgt -> wfn V n (erase src) v ->
    length tails = nl tgt -> heads_le V 0 tails ->
    exists cols, convert_columns V zero src tgt (shred_row (erase src) v) = Some cols /\
      asm (erase tgt) 0 0 (S n) (zipapp cols tails) = Some (project V zero src tgt v, tails).
Proof. exact convert_is_projection. Qed.

(** For every well-formed value (no bound given: the assembler's fuel is the
    bound of the value). *)
Theorem C12_convert_is_projection_wf :
  forall (V : Type) (zero : N -> V) (src tgt : nschema) (v : value V) (tails : list (column V)),
    compat src tgt = true -> wf_nschema src -> wf_nschema tgt -> wf (erase src) v ->
    length tails = nl tgt -> heads_le V 0 tails ->
    exists fuel cols, convert_columns V zero src tgt (shred_row (erase src) v) = Some cols /\
      asm (erase tgt) 0 0 fuel (zipapp cols tails) = Some (project V zero src tgt v, tails).
Proof. exact convert_is_projection_wf. Qed.

(** The same at column level: the converted columns ARE the shredding of the
    projected value with the target schema (levels included). *)
Theorem C12_converted_columns_are_shredded_projection :
  forall (V : Type) (zero : N -> V) (src tgt : nschema) (v : value V) (n : nat),
    compat src tgt = true -> wf_nschema src -> wfn V n (erase src) v ->
    conv V (plan V zero src tgt 0 0) (shred_row (erase src) v)
    = shred_row (erase tgt) (project V zero src tgt v).
Proof. exact convert_is_shred_project. Qed.

(** Sequences of rows: as many rows come out as went in, in the same order,
    each the projection of the corresponding source row. *)
Theorem C12_rows_preserved :
  forall (V : Type) (zero : N -> V) (src tgt : nschema) (vs : list (value V)) (n : nat),
    compat src tgt = true -> wf_nschema src -> wf_nschema tgt -> Forall (wfn V n (erase src)) vs ->
    exists rows, convert_rows V zero src tgt (map (shred_row (erase src)) vs) = Some rows /\
      length rows = length vs /\
      asm_rows (length vs) (erase tgt) (S n) (concat_rows V (nl tgt) rows)
      = Some (map (project V zero src tgt) vs).
Proof. exact convert_rows_preserved. Qed.

(** Equal schemas: the identity shortcut (Convert returns identity{}, CopyRows
    inserts no conversion) returns the rows unchanged, and that is what the
    general path would compute and what the specification asks for. *)
Theorem C12_identity :
  forall (V : Type) (zero : N -> V) (s : nschema) (v : value V) (n : nat),
    wf_nschema s -> wfn V n (erase s) v ->
    convert_columns V zero s s (shred_row (erase s) v) = Some (shred_row (erase s) v) /\
    convert_columns_general V zero s s (shred_row (erase s) v) = shred_row (erase s) v /\
    project V zero s s v = v.
Proof. exact convert_identity. Qed.

(** Incompatible targets are rejected: whenever two same-named nodes clash
    (leaf against group, different leaf types, different repetitions, at any
    depth) the model returns the error, and it returns the error only then. *)
Theorem C12_incompatible_rejected :
  forall (V : Type) (zero : N -> V) (src tgt : nschema) (cols : list (column V)),
    wf_nschema src -> clash src tgt -> convert_columns V zero src tgt cols = None.
Proof. exact incompatible_rejected. Qed.

Theorem C12_rejected_only_if_clash :
  forall (V : Type) (zero : N -> V) (src tgt : nschema) (cols : list (column V)),
    convert_columns V zero src tgt cols = None -> clash src tgt.
Proof. exact rejected_only_if_clash. Qed.

Theorem C12_compat_iff_no_clash :
  forall src tgt, compat src tgt = true <-> ~ clash src tgt.
Proof.
  intros src tgt. split.
  - intros H Hc. rewrite (clash_not_compat _ _ Hc) in H. discriminate.
  - intros H. destruct (compat src tgt) eqn:E; [reflexivity|].
    exfalso. apply H. now apply (proj1 not_compat_clash).
Qed.

Print Assumptions C12_convert_is_projection.
Print Assumptions C12_convert_is_projection_wf.
Print Assumptions C12_converted_columns_are_shredded_projection.
Print Assumptions C12_rows_preserved.
Print Assumptions C12_identity.
Print Assumptions C12_incompatible_rejected.
Print Assumptions C12_rejected_only_if_clash.
Print Assumptions C12_compat_iff_no_clash.

(** What the library accepts although the statement calls it incompatible
    (recorded, not proved about the code): Convert never returns an error.  A
    same-named node of the other kind is treated as "dropped and added" (the
    model's [plan] does the same, [convert_columns] puts the rejection in
    front); repetition changes (optional -> required: nulls become zero values;
    repeated -> required: all elements land in one required column) and leaf
    type changes (convertToType) are deliberate features of the library and
    are outside the statement. *)

(** * Non-vacuity: a source with a list of groups and an optional group; the
      target drops a field, swaps two, and adds an optional leaf inside the
      list element, a required leaf inside the optional group, a repeated leaf
      and a required group at top level. *)
Definition zn (ty : N) : nat := 0.

Definition ex_src : nschema :=
  NGroup (NCons 1 Req (NLeaf 7)
         (NCons 2 Rpt (NGroup (NCons 10 Opt (NLeaf 7) (NCons 11 Req (NLeaf 8) NNil)))
         (NCons 3 Opt (NGroup (NCons 20 Req (NGroup (NCons 30 Req (NLeaf 7) NNil)) NNil))
         (NCons 4 Req (NLeaf 9) NNil)))).

Definition ex_tgt : nschema :=
  NGroup (NCons 3 Opt (NGroup (NCons 21 Req (NLeaf 8)
                              (NCons 20 Req (NGroup (NCons 30 Req (NLeaf 7) NNil)) NNil)))
         (NCons 2 Rpt (NGroup (NCons 11 Req (NLeaf 8) (NCons 12 Opt (NLeaf 9) (NCons 10 Opt (NLeaf 7) NNil))))
         (NCons 5 Rpt (NLeaf 7)
         (NCons 6 Req (NGroup (NCons 40 Req (NLeaf 7) (NCons 41 Opt (NLeaf 7) NNil)))
         (NCons 1 Req (NLeaf 7) NNil))))).

Definition ex_v : value nat :=
  VGroup [VLeaf 100;
          VList [VGroup [VOpt (Some (VLeaf 1)); VLeaf 2]; VGroup [VOpt None; VLeaf 3]];
          VOpt (Some (VGroup [VGroup [VLeaf 5]]));
          VLeaf 9].

Definition ex_v2 : value nat :=
  VGroup [VLeaf 101; VList []; VOpt None; VLeaf 9].

Example C12_ex_compat : compat ex_src ex_tgt = true.
Proof. vm_compute. reflexivity. Qed.

Example C12_ex_wf : wf_nschema ex_src /\ wf_nschema ex_tgt /\ wfn nat 2 (erase ex_src) ex_v /\ wfn nat 2 (erase ex_src) ex_v2.
Proof. cbn. repeat split; auto; try lia; repeat constructor. Qed.

Example C12_ex_project :
  project nat zn ex_src ex_tgt ex_v =
  VGroup [VOpt (Some (VGroup [VLeaf 0; VGroup [VLeaf 5]]));
          VList [VGroup [VLeaf 2; VOpt None; VOpt (Some (VLeaf 1))]; VGroup [VLeaf 3; VOpt None; VOpt None]];
          VList [];
          VGroup [VLeaf 0; VOpt None];
          VLeaf 100]
  /\ project nat zn ex_src ex_tgt ex_v2 =
  VGroup [VOpt None; VList []; VList []; VGroup [VLeaf 0; VOpt None]; VLeaf 101].
Proof. vm_compute. split; reflexivity. Qed.

Example C12_ex_convert :
  convert_columns nat zn ex_src ex_tgt (shred_row (erase ex_src) ex_v) =
  Some [ [(Some 0, 0, 1)];                       (* 3.21 added required leaf in a present optional group *)
         [(Some 5, 0, 1)];                       (* 3.20.30 *)
         [(Some 2, 0, 1); (Some 3, 1, 1)];       (* 2.11 *)
         [(None, 0, 1); (None, 1, 1)];           (* 2.12 added optional leaf: one null per element *)
         [(Some 1, 0, 2); (None, 1, 1)];         (* 2.10 *)
         [(None, 0, 0)];                         (* 5 added repeated leaf: empty *)
         [(Some 0, 0, 0)];                       (* 6.40 added required group: zero *)
         [(None, 0, 0)];                         (* 6.41 *)
         [(Some 100, 0, 0)] ]                    (* 1 *)
  /\ convert_columns nat zn ex_src ex_tgt (shred_row (erase ex_src) ex_v2) =
  Some [ [(None, 0, 0)]; [(None, 0, 0)]; [(None, 0, 0)]; [(None, 0, 0)]; [(None, 0, 0)];
         [(None, 0, 0)]; [(Some 0, 0, 0)]; [(None, 0, 0)]; [(Some 101, 0, 0)] ].
Proof. vm_compute. split; reflexivity. Qed.

Example C12_ex_reassembled :
  match convert_columns nat zn ex_src ex_tgt (shred_row (erase ex_src) ex_v) with
  | Some cols => asm (erase ex_tgt) 0 0 3 (zipapp cols (repeat [] 9))
  | None => None
  end = Some (project nat zn ex_src ex_tgt ex_v, repeat [] 9).
Proof. vm_compute. reflexivity. Qed.

(* the per-row placeholder of Convert: the deepest shared group (here the root)
   sits at levels (0, 0) and has no direct leaf child; no source column is read *)
Example C12_ex_placeholder :
  let src := NGroup (NCons 1 Req (NGroup (NCons 2 Req (NLeaf 7) NNil)) NNil) in
  let tgt := NGroup (NCons 1 Req (NGroup (NCons 2 Req (NLeaf 7) NNil))
                    (NCons 5 Opt (NLeaf 7) (NCons 6 Req (NLeaf 8) NNil))) in
  plan nat zn src tgt 0 0 = [ACopy 0; AHold None; AHold (Some 0)] /\
  convert_columns nat zn src tgt [[(Some 4, 0, 0)]] = Some [[(Some 4, 0, 0)]; [(None, 0, 0)]; [(Some 0, 0, 0)]].
Proof. vm_compute. split; reflexivity. Qed.

(* incompatible: field 2 is a leaf in the target, field 3 changes repetition *)
Example C12_ex_rejected :
  convert_columns nat zn ex_src (NGroup (NCons 2 Rpt (NLeaf 7) NNil)) [] = None /\
  convert_columns nat zn ex_src (NGroup (NCons 1 Opt (NLeaf 7) NNil)) [] = None /\
  convert_columns nat zn ex_src (NGroup (NCons 1 Req (NLeaf 8) NNil)) [] = None /\
  clash ex_src (NGroup (NCons 2 Rpt (NLeaf 7) NNil)).
Proof.
  repeat split; try (vm_compute; reflexivity).
  constructor. eapply clash_here_node; [vm_compute; reflexivity|]. constructor.
Qed.

(** * The algorithm of the pinned tree (closest-sibling heuristic) refutes the
      statement: the statement holds of [convert_columns] only. *)

(* an optional leaf added next to a repeated leaf: the repeated sibling's
   entries are mirrored into the new, non-repeated column *)
Definition px_src : nschema := NGroup (NCons 1 Rpt (NLeaf 7) NNil).
Definition px_tgt : nschema := NGroup (NCons 1 Rpt (NLeaf 7) (NCons 2 Opt (NLeaf 7) NNil)).
Definition px_v : value nat := VGroup [VList [VLeaf 1; VLeaf 2; VLeaf 3]].

Theorem C12_pinned_repeated_sibling_refuted :
  compat px_src px_tgt = true /\ wf_nschema px_src /\ wf_nschema px_tgt /\ wfn nat 3 (erase px_src) px_v /\
  convert_columns_pinned nat zn px_src px_tgt (shred_row (erase px_src) px_v)
  = [ [(Some 1, 0, 1); (Some 2, 1, 1); (Some 3, 1, 1)]; [(None, 0, 0); (None, 1, 0); (None, 1, 0)] ] /\
  asm (erase px_tgt) 0 0 4
      (zipapp (convert_columns_pinned nat zn px_src px_tgt (shred_row (erase px_src) px_v)) [[]; []])
  <> Some (project nat zn px_src px_tgt px_v, [[]; []]).
Proof.
  split; [vm_compute; reflexivity|]. split; [cbn; repeat split; auto; lia|].
  split; [cbn; repeat split; auto; lia|]. split; [cbn; repeat split; auto; repeat constructor|].
  split; [vm_compute; reflexivity|]. vm_compute. intros H. discriminate H.
Qed.

(* an optional leaf added to an optional group that has no direct leaf child:
   the placeholder says "group null" while the group is present *)
Definition py_src : nschema :=
  NGroup (NCons 1 Opt (NGroup (NCons 2 Req (NGroup (NCons 3 Req (NLeaf 7) NNil)) NNil)) NNil).
Definition py_tgt : nschema :=
  NGroup (NCons 1 Opt (NGroup (NCons 2 Req (NGroup (NCons 3 Req (NLeaf 7) NNil))
                              (NCons 4 Opt (NLeaf 7) NNil))) NNil).
Definition py_v : value nat := VGroup [VOpt (Some (VGroup [VGroup [VLeaf 5]]))].

Theorem C12_pinned_no_leaf_sibling_refuted :
  compat py_src py_tgt = true /\ wfn nat 0 (erase py_src) py_v /\
  convert_columns_pinned nat zn py_src py_tgt (shred_row (erase py_src) py_v)
  = [ [(Some 5, 0, 1)]; [(None, 0, 0)] ] /\
  shred_row (erase py_tgt) (project nat zn py_src py_tgt py_v) = [ [(Some 5, 0, 1)]; [(None, 0, 1)] ].
Proof. repeat split; vm_compute; auto. Qed.

Print Assumptions C12_pinned_repeated_sibling_refuted.
Print Assumptions C12_pinned_no_leaf_sibling_refuted.
