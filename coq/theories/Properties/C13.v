(** C13 — corruption inside a checksummed page is reported, never returned
    as data.  Statements only; proofs are in Crc/Proofs.v, the model
    (CRC-32/IEEE as hash/crc32 computes it, and the page loaders of file.go)
    is Crc/Model.v.

    Bit numbering of a message: bit k is bit (k mod 8), counted from the least
    significant bit, of byte (k / 8) ([msg_bit]); this is the order in which
    the reflected CRC-32 consumes the bits, and the numbering in which the
    burst guarantee holds.  Every change confined to four adjacent bytes is a
    burst of at most 32 bits in this numbering
    ([C13_four_byte_window_detected]). *)
From Coq Require Import List NArith ZArith Bool Arith Lia.
From PQ Require Import Crc.Model Crc.Proofs Crc.Consumers Crc.ConsumersProofs.
Import ListNotations.
Open Scope N_scope.

(** Main theorem.  For every message [m] and every error pattern [e] of the
    same length that is not all zero and whose set bits span at most 32
    consecutive bit positions, the checksum of the corrupted message differs.
    ([m] may be any list of numbers; [e] is a byte string.) *)
Theorem C13_crc_detects_bursts : forall m e : list N,
  length e = length m -> is_bytes e -> nonzero e -> burst_within 32 e ->
  crc32 (xor_bytes m e) <> crc32 m.
Proof. exact crc_detects_bursts. Qed.
Print Assumptions C13_crc_detects_bursts.

(** Flipping one bit of one byte of a message changes the checksum. *)
Theorem C13_single_bit_detected : forall (pre : list N) (x : N) (post : list N) (j : N),
  x < 256 -> j < 8 ->
  crc32 (pre ++ N.lxor x (N.shiftl 1 j) :: post) <> crc32 (pre ++ x :: post).
Proof. exact crc_detects_single_bit. Qed.
Print Assumptions C13_single_bit_detected.

(** Any change confined to at most four adjacent bytes changes the checksum. *)
Theorem C13_four_byte_window_detected : forall pre w w' post : list N,
  length w = length w' -> (length w <= 4)%nat -> is_bytes w -> is_bytes w' -> w <> w' ->
  crc32 (pre ++ w' ++ post) <> crc32 (pre ++ w ++ post).
Proof. exact crc_detects_window. Qed.
Print Assumptions C13_four_byte_window_detected.

(** What the reader does with it: [readPage] compares the stored checksum
    with the checksum of the body before anything is decoded.  A body written
    with its checksum and then altered by a burst is rejected -- provided the
    stored checksum is not 0: `if header.CRC != 0` treats 0 as "absent"
    (documented exclusion, see [C13_zero_stored_crc_disables_check]). *)
Theorem C13_corrupted_body_rejected : forall body e : list N,
  length e = length body -> is_bytes e -> nonzero e -> burst_within 32 e ->
  crc32 body <> 0 ->
  read_page_accepts (crc32 body) (xor_bytes body e) = false.
Proof. exact read_page_rejects. Qed.
Print Assumptions C13_corrupted_body_rejected.

Theorem C13_clean_body_accepted : forall body, read_page_accepts (crc32 body) body = true.
Proof. exact read_page_accepts_clean. Qed.
Print Assumptions C13_clean_body_accepted.

(** The exclusion, stated: a stored checksum of 0 accepts every body, and a
    body whose checksum is 0 exists (so the case is reachable, with
    probability 2^-32 per page). *)
Theorem C13_zero_stored_crc_disables_check : forall body, read_page_accepts 0 body = true.
Proof. exact read_page_zero_crc_accepts_anything. Qed.
Print Assumptions C13_zero_stored_crc_disables_check.

Example C13_zero_crc_reachable : crc32 [0x9d; 0x0a; 0xd9; 0x6d] = 0.
Proof. vm_compute. reflexivity. Qed.

(** The comparison of [readPage], characterised: a body is accepted exactly
    when the stored checksum is 0 (the exclusion above) or is the checksum of
    the body.  Hence an alteration of the STORED CHECKSUM FIELD (any non-zero
    bit pattern [e] flipped in it, as long as the result is not 0) is reported
    as well, and two bodies accepted against the same non-zero stored value
    have the same checksum: with the burst theorem, no body that differs from
    an accepted one by a burst of at most 32 bits is accepted. *)
Theorem C13_accepts_iff : forall stored body,
  read_page_accepts stored body = true <-> stored = 0 \/ stored = crc32 body.
Proof. exact read_page_accepts_iff. Qed.
Print Assumptions C13_accepts_iff.

Theorem C13_wrong_stored_checksum_rejected : forall stored body,
  stored <> 0 -> stored <> crc32 body -> read_page_accepts stored body = false.
Proof. exact read_page_rejects_wrong_stored. Qed.
Print Assumptions C13_wrong_stored_checksum_rejected.

Theorem C13_flipped_checksum_field_rejected : forall body e,
  e <> 0 -> N.lxor (crc32 body) e <> 0 ->
  read_page_accepts (N.lxor (crc32 body) e) body = false.
Proof. exact read_page_rejects_flipped_checksum. Qed.
Print Assumptions C13_flipped_checksum_field_rejected.

Theorem C13_accepted_bodies_share_checksum : forall stored body body',
  stored <> 0 -> read_page_accepts stored body = true -> read_page_accepts stored body' = true ->
  crc32 body = crc32 body'.
Proof. exact read_page_accepts_only_matching. Qed.
Print Assumptions C13_accepted_bodies_share_checksum.

(** Why the comparison has to be the full equality: for EVERY non-zero
    32-bit difference [d] there is a change of the last four bytes of the body
    (a burst of at most 32 bits, computed by [suffix_fault]: 32 inverse
    register steps of [d]) after which the checksum of the body is the old one
    xor [d].  A reader that tolerates any difference [d] between the stored
    value and the checksum of the body therefore returns an altered body as
    data.  This is the search the check runs when the stored-checksum faults
    of the harness find such a tolerance (c13DeriveBodyFault). *)
Theorem C13_suffix_fault_has_difference : forall pre w d,
  length w = 4%nat -> bounded d ->
  crc32 (pre ++ xor_bytes w (suffix_fault d)) = N.lxor (crc32 (pre ++ w)) d.
Proof. exact crc_suffix_fault. Qed.
Print Assumptions C13_suffix_fault_has_difference.

Theorem C13_weaker_comparison_lets_a_burst_through : forall pre w d,
  length w = 4%nat -> is_bytes w -> bounded d -> d <> 0 ->
  let body := pre ++ w in
  let body' := pre ++ xor_bytes w (suffix_fault d) in
  body' <> body /\ length body' = length body /\
  N.lxor (crc32 body') (crc32 body) = d.
Proof. exact weaker_comparison_lets_a_burst_through. Qed.
Print Assumptions C13_weaker_comparison_lets_a_burst_through.

Example C13_ex_suffix_fault :
  bounded 0x01000000 /\
  suffix_fault 0x01000000 <> [0; 0; 0; 0] /\
  crc32 ([1; 2; 3] ++ xor_bytes [4; 5; 6; 7] (suffix_fault 0x01000000))
  = N.lxor (crc32 [1; 2; 3; 4; 5; 6; 7]) 0x01000000.
Proof. vm_compute. repeat split; discriminate. Qed.

(* non-vacuity: a non-zero pattern in the field of a page whose checksum is not 0 *)
Example C13_ex_flipped_field :
  crc32 [1; 2; 3] <> 0 /\ N.lxor (crc32 [1; 2; 3]) 1 <> 0 /\
  read_page_accepts (N.lxor (crc32 [1; 2; 3]) 1) [1; 2; 3] = false.
Proof. vm_compute. repeat split; discriminate. Qed.

(** The step with no input is injective on 32-bit registers (the inverse
    reads bit 31, which only the polynomial sets), and linear over xor. *)
Theorem C13_step_injective : forall s t,
  s < 2 ^ 32 -> t < 2 ^ 32 -> step0 s = step0 t -> s = t.
Proof. intros s t Hs Ht. apply step0_injective; now apply bounded_lt. Qed.
Print Assumptions C13_step_injective.

Theorem C13_crc_linear : forall m e : list N, length m = length e ->
  N.lxor (crc32 (xor_bytes m e)) (crc32 m) = update 0 e.
Proof. exact crc32_diff. Qed.
Print Assumptions C13_crc_linear.

(** The model is the function the code computes: Go's table-driven loop
    equals the bitwise definition, the writer's chained Update over the three
    sections of a page body equals the checksum of the stored body, and the
    result is a 32-bit number. *)
Theorem C13_table_driven_agrees : forall bs, crc32_table bs = crc32 bs.
Proof. exact crc32_table_eq. Qed.
Print Assumptions C13_table_driven_agrees.

Theorem C13_page_crc_is_crc_of_body : forall r d p, page_crc r d p = crc32 (r ++ d ++ p).
Proof. exact page_crc_concat. Qed.
Print Assumptions C13_page_crc_is_crc_of_body.

Theorem C13_crc_is_32_bits : forall bs, is_bytes bs -> crc32 bs < 2 ^ 32.
Proof. exact crc32_bound. Qed.
Print Assumptions C13_crc_is_32_bits.

Theorem C13_header_field_roundtrip : forall c, c < 2 ^ 32 -> int32_to_crc (crc_to_int32 c) = c.
Proof. exact int32_roundtrip. Qed.
Print Assumptions C13_header_field_roundtrip.

(** Every access path of the loader state machine hands a decoder only
    bodies fetched by a loader that compares the stored CRC or opens an
    AES-GCM module (finite case analysis on the loader table, for every
    trace of events). *)
Theorem C13_all_paths_verify : forall (enc dict : bool) (evs : list event),
  trace_verified loader_check enc dict evs = true.
Proof. exact all_traces_verified. Qed.
Print Assumptions C13_all_paths_verify.

Theorem C13_every_loader_checks : forall l, loader_check l <> Unverified.
Proof. exact loader_check_verified. Qed.
Print Assumptions C13_every_loader_checks.

(** A dictionary in use always comes from a load of the dictionary page
    (skipping the dictionary page in the stream never stands in for one). *)
Theorem C13_dictionary_comes_from_a_load : forall enc dict evs,
  dict_loaded (final (init_state enc dict) evs) = true ->
  exists l, In (DictPage, l) (run (init_state enc dict) evs).
Proof. intros enc dict evs. now apply dictionary_always_loaded_from_page. Qed.
Print Assumptions C13_dictionary_comes_from_a_load.

(** The loader table of the pinned tree (before "fix: the lazy dictionary
    loader verifies the page checksum") refutes the statement: after a seek
    the dictionary is loaded by a loader that does not look at the CRC;
    the sequential path was fine. *)
Theorem C13_pinned_lazy_dictionary_refuted :
  exists evs, trace_verified loader_check_pinned false true evs = false.
Proof. exists [EvSeekToRow; EvStreamPage DataPageV2 true]. vm_compute. reflexivity. Qed.
Print Assumptions C13_pinned_lazy_dictionary_refuted.

Example C13_pinned_sequential_path_verified :
  trace_verified loader_check_pinned false true
    [EvStreamPage DictPage false; EvStreamPage DataPageV2 true] = true.
Proof. vm_compute. reflexivity. Qed.

Example C13_pinned_read_dictionary_unverified :
  path_check loader_check_pinned false true PathReadDictionary DataPageV1 DictPage = Some Unverified
  /\ path_check loader_check false true PathReadDictionary DataPageV1 DictPage = Some CrcVerified
  /\ path_check loader_check true true PathSeekThenRead DataPageV2 DictPage = Some AeadVerified.
Proof. vm_compute. repeat split. Qed.

(** The reader of a column across the row groups of a file,
    Column.Pages / PagesFrom: one FilePages per row group, read one after
    the other, sequentially or after a seek that went to the row group of the
    page or to an earlier one, with or without offset index.  The body of the
    page read, and of the dictionary page it needs, is fetched by a checking
    loader; a row group before the one the seek went to is not read. *)
Theorem C13_column_reader_verifies : forall enc dict p noindex k target,
  column_path_check loader_check enc dict p noindex k target <> Some Unverified.
Proof. exact column_path_never_unverified. Qed.
Print Assumptions C13_column_reader_verifies.

Theorem C13_column_reader_reads_the_page : forall enc dict p noindex k,
  k <> DictPage -> p <> ColSeek RgBefore ->
  column_path_check loader_check enc dict p noindex k k <> None /\
  (dict = true -> column_path_check loader_check enc dict p noindex k DictPage <> None).
Proof. exact column_path_reads_the_page. Qed.
Print Assumptions C13_column_reader_reads_the_page.

(** On the pinned tree the dictionary of a LATER row group was loaded without
    check when the file is read without offset index (SeekToRow 0 on that row
    group skips the dictionary page); with an offset index it is met in the
    stream and checked. *)
Example C13_pinned_column_reader_later_row_group :
  column_path_check loader_check_pinned false true (ColSeek RgAfter) true DataPageV2 DictPage = Some Unverified
  /\ column_path_check loader_check_pinned false true (ColSeek RgAfter) false DataPageV2 DictPage = Some CrcVerified
  /\ column_path_check loader_check false true (ColSeek RgAfter) true DataPageV2 DictPage = Some CrcVerified
  /\ column_path_check loader_check false true (ColSeek RgBefore) true DataPageV2 DataPageV2 = None.
Proof. vm_compute. repeat split. Qed.

(** Consumers.  The routines that read pages or rows on behalf of the caller
    (CopyPages, CopyRows, CopyValues, the re-encoding and the row path of
    Writer.WriteRowGroup, ReadRowsFrom, Reader.Read in a loop, Read...) are
    instances of the loop [consume]: over a source whose altered item is
    fetched by a checking loader the loop ends with the error, after handing
    on exactly the intact items in front of it; it never ends with success. *)
Theorem C13_consumer_loop_reports : forall before after c,
  checkb c = true -> consume (source before after c) = Reported before false.
Proof. exact consume_reports_checked. Qed.
Print Assumptions C13_consumer_loop_reports.

(** Every kind of consumer comes to report an alteration through a loader
    that checks: the consuming call itself when it decodes the pages, the
    reader of its output when it splices the stored bytes (the verbatim path
    of Writer.WriteRowGroup), and it does meet the page and the dictionary
    page of a column it reads. *)
Theorem C13_consumers_verify : forall enc dict kind k target,
  match consumer_check loader_check enc dict kind k target with
  | ByCall c | ByOutput c => checkb c = true
  | Untouched => True
  end.
Proof. exact consumer_check_verified. Qed.
Print Assumptions C13_consumers_verify.

Theorem C13_consumer_meets_the_page : forall enc dict kind k,
  k <> DictPage -> kind <> ProjectedAway ->
  consumer_check loader_check enc dict kind k k <> Untouched /\
  (dict = true -> consumer_check loader_check enc dict kind k DictPage <> Untouched).
Proof. exact consumer_meets_the_page. Qed.
Print Assumptions C13_consumer_meets_the_page.

(** The verbatim copy carries the stored checksum with the body: the reader of
    the copy rejects the page under the hypotheses of
    [C13_corrupted_body_rejected]. *)
Theorem C13_verbatim_copy_keeps_checksum : forall body e : list N,
  length e = length body -> is_bytes e -> nonzero e -> burst_within 32 e ->
  crc32 body <> 0 ->
  let p := splice {| sp_crc := crc32 body; sp_body := xor_bytes body e |} in
  read_page_accepts (sp_crc p) (sp_body p) = false.
Proof. exact splice_keeps_rejection. Qed.
Print Assumptions C13_verbatim_copy_keeps_checksum.

Theorem C13_write_row_group_decodes_unless_verbatim : forall same enc transparent fits,
  wrg_kind (write_row_group_path same enc transparent fits) = Verbatim <->
  (same = true /\ enc = false /\ transparent = true /\ fits = true).
Proof. exact wrg_decodes_unless_verbatim. Qed.
Print Assumptions C13_write_row_group_decodes_unless_verbatim.

(** A loop that takes a failed read for the end of its source (what a
    consumer must not do) is refuted by the same source: with an unchecked
    loader the altered page is handed on and the loop reports success. *)
Example C13_unchecked_source_is_delivered :
  consume (source 3 2 Unverified) = Done 6 true /\
  consume (source 3 2 CrcVerified) = Reported 3 false /\
  consumer_check loader_check_pinned false true Decoding DataPageV2 DictPage = ByCall CrcVerified /\
  consumer_check loader_check false true Verbatim DataPageV1 DataPageV1 = ByOutput CrcVerified /\
  consumer_check loader_check true true Decoding DataPageV1 DictPage = ByCall AeadVerified.
Proof. vm_compute. repeat split. Qed.

(** Merges (MergeRowReaders, MergeRowGroups rows; two inputs and the loser
    tree alike): the inputs are refilled in an arbitrary order [sched]; when
    one of the first k inputs holds an altered page fetched by a checking
    loader and the merge went on until none of the k inputs had anything more
    to give, it ended with the error - it did not take the failed refill for
    the end of that input. *)
Theorem C13_merge_reports : forall sched ins n alt o rest k j before after c,
  merge_run false sched ins n alt = (o, rest) ->
  (forall j, (j < k)%nat -> at_end (rest j) = true) ->
  (j < k)%nat -> ins j = source before after c -> checkb c = true ->
  exists m a, o = Reported m a.
Proof. exact merge_reports_checked. Qed.
Print Assumptions C13_merge_reports.

Definition ex_merge_inputs : inputs := fun j =>
  match j with
  | O => repeat (AItem Clean) 3 ++ [AEnd]
  | S O => source 2 2 CrcVerified
  | _ => []
  end.

(** Non-vacuity, and the variant that takes a failed refill for the end of the
    input refuted: two inputs refilled in turn, the second one fails at its
    third refill (behind the first load); the merge reports it after 5 rows,
    the lenient variant returns 5 of the 7 intact rows and no error (the rows of the
    second input from the altered page on are missing), both with every input
    at its end or failed. *)
Example C13_lenient_merge_refuted :
  fst (merge_run false [0;1;0;1;0;1;0;1;0;1]%nat ex_merge_inputs 0 false) = Reported 5 false /\
  fst (merge_run true [0;1;0;1;0;1;0;1;0;1]%nat ex_merge_inputs 0 false) = Done 5 false /\
  at_end (snd (merge_run true [0;1;0;1;0;1;0;1;0;1]%nat ex_merge_inputs 0 false) 0%nat) = true /\
  first_stop (ex_merge_inputs 1%nat) = AFail.
Proof. vm_compute. repeat split. Qed.

(** Readers that deliver rows in windows (VariantReader.Next over the leaf
    columns of a variant group): wherever the windows end relative to the
    altered page - in particular when a window ends exactly where the page
    begins, so that the page is loaded by the peek behind a window whose rows
    are all there - the read ends with the error after exactly the intact rows
    in front of the page. *)
Theorem C13_windows_report : forall sizes before after c i rem n,
  checkb c = true ->
  read_windows true sizes (source before after c) i rem n false = Reported (before + n)%nat false.
Proof. exact windows_report_checked. Qed.
Print Assumptions C13_windows_report.

(** The variant that returns the complete window and drops the failure met by
    the peek is refuted by windows that end where the altered page begins
    (windows of 3 rows, 3 intact rows in front): 6 rows and no error, the page
    skipped; with windows of 2 rows the same variant still reports. *)
Example C13_dropped_peek_error_refuted :
  read_in_windows false (fun _ => 2%nat) (source 3 3 CrcVerified) = Done 6 false /\
  read_in_windows false (fun _ => 1%nat) (source 3 3 CrcVerified) = Reported 3 false /\
  read_in_windows true (fun _ => 2%nat) (source 3 3 CrcVerified) = Reported 3 false.
Proof. vm_compute. repeat split. Qed.

(** Non-vacuity: a concrete message and a 32-bit burst that starts in the
    middle of a byte and ends in the middle of the byte four bytes later meet
    the hypotheses; the checksums are different numbers. *)
Definition ex_msg : list N := [0x50; 0x41; 0x52; 0x31; 0x00; 0xff; 0x10; 0x20].
Definition ex_burst : list N := [0x00; 0xa0; 0x5b; 0x00; 0xc3; 0x1f; 0x00; 0x00].

Example C13_ex_burst_hyps :
  length ex_burst = length ex_msg /\ is_bytes ex_burst /\ nonzero ex_burst /\ burst_within 32 ex_burst.
Proof.
  split; [reflexivity|]. split; [repeat constructor|].
  split; [exists 0xa0; split; [cbn; tauto|discriminate]|].
  exists 13%nat. intros k Hk.
  assert (Hlt : (k < 64)%nat) by (apply (msg_bit_true_lt ex_burst); exact Hk).
  do 64 (destruct k as [|k]; [try discriminate Hk; lia|]). lia.
Qed.

Example C13_ex_burst_is_wide :
  msg_bit ex_burst 13 = true /\ msg_bit ex_burst 44 = true.
Proof. vm_compute. split; reflexivity. Qed.

Example C13_ex_values :
  crc32 ex_msg = 0xc04b6cdc /\ crc32 (xor_bytes ex_msg ex_burst) = 0x922be223
  /\ crc32 [49; 50; 51; 52; 53; 54; 55; 56; 57] = 0xCBF43926.
Proof. vm_compute. repeat split. Qed.

(** The bound 32 is tight for this polynomial: the generator itself, a
    33-bit pattern, is not detected. *)
Example C13_bound_is_tight :
  exists m e, length e = length m /\ is_bytes e /\ nonzero e /\ burst_within 33 e /\
              crc32 (xor_bytes m e) = crc32 m.
Proof.
  exists [1; 2; 3; 4; 5; 6], [0; 0x41; 0x06; 0x71; 0xdb; 0x01].
  split; [reflexivity|]. split; [repeat constructor|].
  split; [exists 0x41; split; [cbn; tauto|discriminate]|].
  split; [|vm_compute; reflexivity].
  exists 8%nat. intros k Hk.
  assert (Hlt : (k < 48)%nat)
    by (apply (msg_bit_true_lt [0; 0x41; 0x06; 0x71; 0xdb; 0x01]); exact Hk).
  do 48 (destruct k as [|k]; [try discriminate Hk; lia|]). lia.
Qed.
