(** C03 — all ingestion paths shred a Go value into the same Dremel column
    streams.  Statements only; proofs are in Dremel/Proofs.v (assembly),
    Dremel/Levels.v (level facts), Dremel/NullRunsProofs.v (the 64-rows-at-a-time
    null-run scanner of the typed path) and Dremel/BatchProofs.v (column-at-a-time
    = row-at-a-time).

    Models: [shred] = the row-at-a-time reflection path (row.go
    deconstructFuncOf..., column_buffer_reflect.go writeValueFuncOf...);
    [shred_batch] = the typed path (column_buffer_write.go writeRowsFuncOf...);
    [scan] = the run scanner inside writeRowsFuncOfOptional; [asm] = re-assembly
    (row.go reconstructFuncOf...). *)
From Coq Require Import List Arith Bool NArith Lia.
From PQ Require Import Dremel.Model Dremel.Proofs Dremel.Levels Dremel.NullRuns Dremel.NullRunsProofs
  Dremel.Batch Dremel.BatchProofs Dremel.BatchScan Dremel.BatchScanProofs.
Import ListNotations.

Section C03.
  Variable V : Type.     (* leaf values: any type (bit patterns, byte strings) *)

  (** Re-assembling the shredded columns of a value yields the value, for every
      schema (groups non-empty), every well-formed value (repeated fields hold
      at most n elements; n is only the fuel of the assembly loop), every
      starting levels, and whatever columns of later rows follow ([tails],
      whose first entries are at a repetition level <= k). *)
  Theorem C03_reassembly :
    forall s, wf_schema s -> forall (v : value V) r d k n tails,
      wfn V n s v -> length tails = nleaves s -> heads_le V k tails ->
      asm s d k (S n) (zipapp (shred s v r d k) tails) = Some (v, tails).
  Proof. exact (asm_shred V). Qed.

  Theorem C03_reassembly_rows :
    forall s, wf_schema s -> forall n (rows : list (value V)),
      Forall (wfn V n s) rows ->
      asm_rows (length rows) s (S n) (shred_rows s rows) = Some rows.
  Proof. exact (asm_rows_shred_rows V). Qed.

  (** Every entry (x, r', d') of leaf column j of [shred s v r d k] has its
      levels within the bounds of that leaf, (maxr_j, maxd_j) = nth j (max_levels s 0 0). *)
  Theorem C03_levels_bounded :
    forall s (v : value V) r d k j x r' d', wf s v ->
      In (x, r', d') (nth j (shred s v r d k) []) ->
      d <= d' /\ d' <= d + snd (nth j (max_levels s 0 0) (0, 0)) /\
      r' <= Nat.max r (k + fst (nth j (max_levels s 0 0) (0, 0))).
  Proof.
    intros s v r d k j x r' d' Hw Hin.
    destruct (shred_levels_nth V s v r d k j x r' d' Hw Hin) as (A & B & C & _). auto.
  Qed.

  (** An entry is null exactly when its definition level is below the leaf's maximum. *)
  Theorem C03_null_iff_below_max_definition_level :
    forall s (v : value V) r d k j x r' d', wf s v ->
      In (x, r', d') (nth j (shred s v r d k) []) ->
      (x = None <-> d' < d + snd (nth j (max_levels s 0 0) (0, 0))).
  Proof.
    intros s v r d k j x r' d' Hw Hin.
    destruct (shred_levels_nth V s v r d k j x r' d' Hw Hin) as (_ & _ & _ & D). exact D.
  Qed.

  (** The same two facts for all columns at once, against [max_levels s k d]. *)
  Theorem C03_levels_all_columns :
    forall s (v : value V) r d k, wf s v ->
      Forall2 (fun col ml => Forall (entry_ok r d ml) col) (shred s v r d k) (max_levels s k d).
  Proof. exact (shred_levels V). Qed.

  (** In the columns of a row, the repetition level is 0 exactly for the first
      entry of each column: rows can be told apart in every column stream. *)
  Theorem C03_row_starts_at_repetition_zero :
    forall s (v : value V), wf s v ->
      Forall (fun col => exists e rest, col = e :: rest /\ e_r V e = 0 /\
                                        Forall (fun e' => 0 < e_r V e') rest)
             (shred_row s v).
  Proof. exact (shred_row_rep_zero V). Qed.

  (** Column-at-a-time shredding of a batch (each field's writer is called once
      with all rows and recurses into its children with sub-arrays, one set of
      levels per call) produces exactly the streams of shredding the rows one
      after the other — for every schema, every batch of well-formed rows and
      every way [chunks] (indexed by the path of the optional field) of cutting
      the rows of optional fields into non-empty uniform sub-arrays. *)
  Theorem C03_batch_equals_rows :
    forall (chunks : list nat -> list (value V) -> list (list (value V))),
      (forall p col, chunks_ok (chunks p col) col) ->
      forall s (rows : list (value V)), Forall (wf s) rows ->
        shred_batch chunks s rows = shred_rows s rows.
  Proof. exact (shred_batch_rows V). Qed.

  (** The two cuttings of the library: one call per row (pointers), maximal
      runs (non-pointer `optional` fields, found by the bitmap scanner). *)
  Theorem C03_batch_one_call_per_row :
    forall s (rows : list (value V)), Forall (wf s) rows ->
      shred_batch (fun _ => singletons) s rows = shred_rows s rows.
  Proof.
    intros s rows. apply (shred_batch_rows V). intros _ col. apply singletons_ok.
  Qed.

  Theorem C03_batch_maximal_runs :
    forall s (rows : list (value V)), Forall (wf s) rows ->
      shred_batch (fun _ => max_runs) s rows = shred_rows s rows.
  Proof.
    intros s rows. apply (shred_batch_rows V). intros _ col. apply max_runs_ok.
  Qed.

  (** The typed path exactly as the library runs it on non-pointer `optional`
      fields: nullIndex builds the bitmap of the field's rows, the faithful model
      of the 64-rows-at-a-time scanner ([scan], below) cuts it into runs, and
      each run is one call ([scan_chunks]). *)
  Theorem C03_batch_with_bitmap_scanner :
    forall s (rows : list (value V)), Forall (wf s) rows ->
      shred_batch (fun _ => scan_chunks) s rows = shred_rows s rows.
  Proof. exact (shred_batch_scan V). Qed.

  Theorem C03_bitmap_scanner_cutting_admissible :
    forall col : list (value V), chunks_ok (scan_chunks col) col.
  Proof. exact (scan_chunks_ok V). Qed.

  (** Which positions are null is the same on both paths. *)
  Theorem C03_null_positions_agree :
    forall (chunks : list nat -> list (value V) -> list (list (value V))),
      (forall p col, chunks_ok (chunks p col) col) ->
      forall s (rows : list (value V)), Forall (wf s) rows ->
        map (map (fun e : entry V => match fst (fst e) with None => true | Some _ => false end))
            (shred_batch chunks s rows)
        = map (map (fun e : entry V => match fst (fst e) with None => true | Some _ => false end))
              (shred_rows s rows).
  Proof. intros chunks H s rows Hr. now rewrite (shred_batch_rows V chunks H s rows Hr). Qed.
End C03.

(** The run scanner of writeRowsFuncOfOptional: for every bitmap of 64-bit
    words with at least ceil(n/64) words — the bits at positions >= n are
    arbitrary (the nullIndex kernels leave them 0) — the runs are
    consecutive from 0 to n, non-empty, and uniform (all rows of a null run
    have bit 0, all rows of a non-null run have bit 1): writing each run with a
    single definition level is right. *)
Theorem C03_null_runs_partition :
  forall bits n, wf_bitmap bits n -> runs_partition bits n (scan bits n).
Proof. exact null_runs_partition. Qed.

(** ... the runs are the maximal ones (adjacent runs differ in their flag) ... *)
Theorem C03_null_runs_maximal :
  forall bits n, wf_bitmap bits n ->
    forall r1 r2 l1 l2, scan bits n = l1 ++ r1 :: r2 :: l2 -> fst (fst r1) <> fst (fst r2).
Proof. exact null_runs_alternate. Qed.

(** ... and expanding them gives back the null flag of every row. *)
Theorem C03_null_runs_expand :
  forall bits n, wf_bitmap bits n -> expand (scan bits n) = null_flags bits n.
Proof. exact null_runs_expand. Qed.

(** The comparison of the pinned tree, (1<<y)-1 instead of (1<<(64-y))-1
    (before commit 697c643), violates the statement: 3 rows, only row 1
    non-null, gives the runs [0,1) null, [1,3) non-null although row 2 is null;
    with 130 rows, rows 2..63 are written as non-null. *)
Theorem C03_pinned_null_runs_refuted :
  exists bits n, wf_bitmap bits n /\ ~ runs_partition bits n (scan_pinned bits n).
Proof. exact pinned_null_runs_refuted. Qed.

Theorem C03_pinned_null_runs_refuted_130_rows :
  wf_bitmap [2; 0; 0]%N 130 /\ ~ runs_partition [2; 0; 0]%N 130 (scan_pinned [2; 0; 0]%N 130).
Proof. split; [exact wf_bitmap_130|exact pinned_null_runs_refuted_130]. Qed.

Print Assumptions C03_reassembly.
Print Assumptions C03_reassembly_rows.
Print Assumptions C03_levels_bounded.
Print Assumptions C03_null_iff_below_max_definition_level.
Print Assumptions C03_levels_all_columns.
Print Assumptions C03_row_starts_at_repetition_zero.
Print Assumptions C03_batch_equals_rows.
Print Assumptions C03_batch_one_call_per_row.
Print Assumptions C03_batch_maximal_runs.
Print Assumptions C03_batch_with_bitmap_scanner.
Print Assumptions C03_bitmap_scanner_cutting_admissible.
Print Assumptions C03_null_positions_agree.
Print Assumptions C03_null_runs_partition.
Print Assumptions C03_null_runs_maximal.
Print Assumptions C03_null_runs_expand.
Print Assumptions C03_pinned_null_runs_refuted.
Print Assumptions C03_pinned_null_runs_refuted_130_rows.

(** * Non-vacuity: a concrete schema, rows and bitmap meet the hypotheses. *)

(* message { optional leaf a; repeated group b { required leaf x; optional leaf y; repeated leaf z } } *)
Definition ex_schema : schema :=
  Group (FCons Opt Leaf
        (FCons Rpt (Group (FCons Req Leaf (FCons Opt Leaf (FCons Rpt Leaf FNil)))) FNil)).

Definition ex_row1 : value nat :=
  VGroup [VOpt None;
          VList [VGroup [VLeaf 1; VOpt (Some (VLeaf 2)); VList [VLeaf 5; VLeaf 6]];
                 VGroup [VLeaf 3; VOpt None; VList []]]].
Definition ex_row2 : value nat := VGroup [VOpt (Some (VLeaf 7)); VList []].
Definition ex_row3 : value nat := VGroup [VOpt (Some (VLeaf 8)); VList [VGroup [VLeaf 4; VOpt None; VList [VLeaf 9]]]].

Example C03_ex_wf_schema : wf_schema ex_schema.
Proof. cbn. repeat split; lia. Qed.

Example C03_ex_rows_wf : Forall (wfn nat 2 ex_schema) [ex_row1; ex_row2; ex_row3].
Proof. repeat constructor; cbn; repeat split; repeat constructor; lia. Qed.

Example C03_ex_rows_wf' : Forall (wf ex_schema) [ex_row1; ex_row2; ex_row3].
Proof. eapply Forall_impl; [|exact C03_ex_rows_wf]. apply wfn_wf. Qed.

Example C03_ex_streams :
  shred_rows ex_schema [ex_row1; ex_row2; ex_row3] =
  [ [(None, 0, 0); (Some 7, 0, 1); (Some 8, 0, 1)];
    [(Some 1, 0, 1); (Some 3, 1, 1); (None, 0, 0); (Some 4, 0, 1)];
    [(Some 2, 0, 2); (None, 1, 1); (None, 0, 0); (None, 0, 1)];
    [(Some 5, 0, 2); (Some 6, 2, 2); (None, 1, 1); (None, 0, 0); (Some 9, 0, 2)] ].
Proof. vm_compute. reflexivity. Qed.

Example C03_ex_batch :
  shred_batch (fun _ => max_runs) ex_schema [ex_row1; ex_row2; ex_row3]
  = shred_rows ex_schema [ex_row1; ex_row2; ex_row3].
Proof. vm_compute. reflexivity. Qed.

Example C03_ex_batch_scanner :
  shred_batch (fun _ => scan_chunks) ex_schema [ex_row1; ex_row2; ex_row3]
  = shred_rows ex_schema [ex_row1; ex_row2; ex_row3].
Proof. vm_compute. reflexivity. Qed.

Example C03_ex_reassembled :
  asm_rows 3 ex_schema 3 (shred_rows ex_schema [ex_row1; ex_row2; ex_row3]) = Some [ex_row1; ex_row2; ex_row3].
Proof. vm_compute. reflexivity. Qed.

Example C03_ex_max_levels : max_levels ex_schema 0 0 = [(0, 1); (1, 1); (1, 2); (2, 2)].
Proof. reflexivity. Qed.

(* 130 rows, only rows 1 and 65 non-null; the third word is all ones beyond row 130 *)
Example C03_ex_bitmap : wf_bitmap [2; 2; 18446744073709551612]%N 130.
Proof. split; [repeat constructor; reflexivity|vm_compute; discriminate]. Qed.

Example C03_ex_runs :
  scan [2; 2; 18446744073709551612]%N 130 =
  [(true, 0, 1); (false, 1, 2); (true, 2, 65); (false, 65, 66); (true, 66, 130)]%N.
Proof. vm_compute. reflexivity. Qed.

Example C03_ex_pinned_runs :
  scan_pinned [2; 0; 0]%N 130 = [(true, 0, 1); (false, 1, 64); (true, 64, 130)]%N.
Proof. vm_compute. reflexivity. Qed.
