(** C18 -- encrypted files round-trip, leak no plaintext and authenticate every
    module.  Statements only; proofs are in Aad/Proofs.v and Aad/Aead.v.

    What is proved, about the executable model Aad/Model.v of encrypt.go,
    writer.go and file.go:
    - the AAD of a module determines the file (for fixed lengths of the AAD
      prefix and the file identifier), the module type and its ordinals, as
      long as the ordinals fit 16 bits ([C18_aad_injective]); the Go code does
      conversion to int16 wraps ([C18_page_ordinal_wraps]) and the writer
      therefore refuses chunks of more than 32768 pages
      ([C18_writer_rejects_wrap], [C18_written_files_in_range]; the behaviour
      before that check is refuted by [C18_pinned_ordinal_wrap_refuted]);
    - for EVERY layout and EVERY reader history (sequential reads, seeks through
      the offset index or without it, explicit and lazy dictionary loads, page
      index / bloom filter / column metadata / footer readers) the type and AAD
      the reader computes for a module are those the writer sealed it with
      ([C18_ordinals_agree]);
    - CONDITIONAL on an idealised AEAD (hypotheses of the Section below, AES-GCM
      itself is not modelled): the reader recovers every plaintext
      ([C18_roundtrip]) and a module that was modified, truncated, replaced by
      another module of the same or another file, or opened with a wrong key is
      rejected ([C18_tamper_detected] and its corollaries); the streamed reader
      of pages, dictionary pages and bloom filters does the same for a module
      of any length that fits the 4-byte length field ([C18_stream_roundtrip],
      [C18_reader_accepts_written_lengths]);
    - whatever the constructor and however the options are nested in
      WriterConfig values used as options, the writer of the file uses the
      EncryptionConfig named last: one that was given is never dropped
      ([C18_options_reach_writer], [C18_encryption_not_dropped]);
    - in plaintext-footer mode the clear footer holds no column metadata
      ([C18_no_plain_stats_partial]: a statement about which ColumnChunk fields
      the model serialises; that ciphertexts do not reveal plaintext is an
      assumption about AES-GCM, not a theorem). *)
From Coq Require Import List ZArith NArith Bool Arith Lia String.
From Coq Require Import ZifyN ZifyNat ZifyBool.
From PQ Require Import Base.Bytes Generated.Consts Aad.Model Aad.Proofs Aad.Aead Aad.Keys.
Import ListNotations.

(** * AAD construction *)
Theorem C18_aad_injective : forall pfx fu pfx' fu' m m' rg col pg rg' col' pg',
  List.length pfx = List.length pfx' -> List.length fu = List.length fu' ->
  (0 <= rg < 65536)%Z -> (0 <= col < 65536)%Z -> (0 <= pg < 65536)%Z ->
  (0 <= rg' < 65536)%Z -> (0 <= col' < 65536)%Z -> (0 <= pg' < 65536)%Z ->
  make_aad pfx fu m rg col pg = make_aad pfx' fu' m' rg' col' pg' ->
  pfx = pfx' /\ fu = fu' /\ m = m' /\
  firstn (mtype_arity m) [rg; col; pg] = firstn (mtype_arity m') [rg'; col'; pg'].
Proof. exact make_aad_injective. Qed.
Print Assumptions C18_aad_injective.

(** No two modules of a file share an AAD, and modules of different files
    (different prefix or file identifier of the same lengths) never do. *)
Theorem C18_distinct_modules_distinct_aads : forall pfx fu pfx' fu' p p',
  List.length pfx = List.length pfx' -> List.length fu = List.length fu' ->
  pos_in_range p -> pos_in_range p' ->
  aad_of_pos pfx fu p = aad_of_pos pfx' fu' p' ->
  pfx = pfx' /\ fu = fu' /\ p = p'.
Proof. exact aad_of_pos_injective. Qed.
Print Assumptions C18_distinct_modules_distinct_aads.

(** File identifiers of ANY length (EncryptionConfig.FileIdentifier is used as
    it is, whatever its length: 1 byte, 8 bytes, a 16-byte UUID, a textual name):
    under one AAD prefix, the module at a given position of one file and the
    module of the same type at the same position of another file have equal
    AADs only if the two identifiers are EQUAL as byte strings -- sharing a
    prefix of 8 (or any number of) bytes is not enough, and no hypothesis on
    the lengths is needed when the positions are the same (the cross-file
    exchange the harness performs on pairs of identifiers of 1..20 bytes
    sharing 0..all of their bytes). *)
Theorem C18_identifier_binds_any_length : forall pfx fu fu' m rg col pg,
  make_aad pfx fu m rg col pg = make_aad pfx fu' m rg col pg -> fu = fu'.
Proof.
  intros pfx fu fu' m rg col pg H. unfold make_aad, make_aad_raw in H.
  apply app_inv_head in H. apply app_inv_tail in H. exact H.
Qed.
Print Assumptions C18_identifier_binds_any_length.

(** ... whereas for DIFFERENT positions the hypothesis of equal lengths in
    [C18_aad_injective] (and in [entries_ok]) cannot be dropped: identifier
    X of 8 bytes, data page body at row group 256, column 5, page 7, and
    identifier X ++ [2; 0] of 10 bytes, column metadata at row group 5,
    column 7, have the same AAD. *)
Example C18_ex_identifier_lengths_matter :
  let x := [1; 2; 3; 4; 5; 6; 7; 8]%N in
  make_aad [] x MDataBody 256 5 7 = make_aad [] (x ++ [2; 0]%N) MColMeta 5 7 0.
Proof. vm_compute. reflexivity. Qed.

(** * Keys are assigned, and resolved, by column PATH (Aad/Keys.v)

    The writer seals the modules of a column with the key ColumnKeys holds for
    its dot-joined path (else the footer key) and records the path in the
    crypto_metadata; the reader asks its retriever with that path for every
    chunk.  So a reader whose retriever answers what the configuration holds
    gets, for every column, the key the writer used ... *)
Theorem C18_reader_key_is_by_path : forall (key : Type) (m : keymap key) (footer : key) (r : retriever key) p,
  (forall q, r q = lookup_key key m (join_path q)) ->
  reader_key key r footer (snd (writer_key key m footer p)) = Some (fst (writer_key key m footer p)).
Proof.
  intros key m footer r p H. unfold writer_key.
  destruct (lookup_key key m (join_path p)) eqn:E; cbn; [rewrite H; exact E|reflexivity].
Qed.
Print Assumptions C18_reader_key_is_by_path.

(** ... and a column with its own key whose path the retriever refuses has no
    key, whatever the retriever answers for OTHER paths (a column with the same
    leaf name under another group, configured with the same key value, say). *)
Theorem C18_refused_path_has_no_key : forall (key : Type) (m : keymap key) (footer : key) (r : retriever key) p k,
  lookup_key key m (join_path p) = Some k -> r p = None ->
  reader_key key r footer (snd (writer_key key m footer p)) = None.
Proof.
  intros key m footer r p k E H. unfold writer_key. rewrite E. cbn. exact H.
Qed.
Print Assumptions C18_refused_path_has_no_key.

(* home.zip and work.zip configured with the same key 1, a retriever that holds
   home.zip only; the top-level column zip is under the footer key (0) *)
Definition ex_home_zip : path := [[104; 111; 109; 101]; [122; 105; 112]]%N.
Definition ex_work_zip : path := [[119; 111; 114; 107]; [122; 105; 112]]%N.
Definition ex_keymap : keymap N := [(join_path ex_home_zip, 1%N); (join_path ex_work_zip, 1%N)].
Definition ex_retriever : retriever N :=
  fun p => if bytes_eqb (join_path p) (join_path ex_home_zip) then Some 1%N else None.
Example C18_ex_same_leaf_name :
  reader_key N ex_retriever 0%N (snd (writer_key N ex_keymap 0%N ex_home_zip)) = Some 1%N /\
  reader_key N ex_retriever 0%N (snd (writer_key N ex_keymap 0%N ex_work_zip)) = None /\
  oracle_column_key ex_keymap [[122; 105; 112]]%N = (0%N, false).
Proof. vm_compute. repeat split. Qed.

(** Positions of a layout with at most 65536 row groups, columns per row group
    and pages per chunk are in range. *)
Theorem C18_wf_layout_in_range : forall ef lay p,
  wf_layout lay -> valid_pos ef lay p = true -> pos_in_range p.
Proof. exact valid_pos_in_range. Qed.
Print Assumptions C18_wf_layout_in_range.

(** int16 ordinals wrap silently (writer.go:2527 [int16(c.numPages)],
    file.go:1611 [int16(target)], 1544 [dataPageOrd++]). *)
Theorem C18_page_ordinal_wraps : forall pfx fu m rg col pg,
  make_aad pfx fu m rg col (pg + 65536) = make_aad pfx fu m rg col pg.
Proof. exact make_aad_page_wraps. Qed.
Print Assumptions C18_page_ordinal_wraps.

(** The writer refuses what does not fit (writer.go:2535-2540, 1503): a chunk
    of more than 32768 data pages makes the whole write fail, and every layout
    it accepts has all its ordinals in range, hence pairwise distinct AADs. *)
Theorem C18_writer_rejects_wrap : forall pfx fu ef lay rg col c,
  layout_chunk lay rg col = Some c -> (32768 < N.of_nat (c_pages c))%N ->
  write_file_chk pfx fu ef lay = None.
Proof. exact write_file_chk_rejects. Qed.
Print Assumptions C18_writer_rejects_wrap.

(** The acceptance test of the model is the check inside the page loop of
    writeDataPage ([write_data_pages_chk] returns an error exactly then). *)
Theorem C18_acceptance_is_the_page_loop : forall pfx fu rgo colo c,
  chunk_accepted c = true <-> write_data_pages_chk pfx fu rgo colo 0 (c_pages c) <> None.
Proof. intros. exact (pages_accepted_chk pfx fu rgo colo 0 (c_pages c)). Qed.
Print Assumptions C18_acceptance_is_the_page_loop.

Theorem C18_written_files_in_range : forall pfx fu ef lay wf,
  write_file_chk pfx fu ef lay = Some wf ->
  wf = write_file pfx fu ef lay /\ wf_layout lay /\
  forall p, valid_pos ef lay p = true -> pos_in_range p.
Proof.
  intros pfx fu ef lay wf H. destruct (write_file_chk_some pfx fu ef lay wf H) as [E W].
  split; [exact E|]. split; [exact W|]. intros p. exact (valid_pos_in_range ef lay p W).
Qed.
Print Assumptions C18_written_files_in_range.

(** Pinned (pre-fix) behaviour: without that check -- [write_file] is the
    writer minus the check -- a chunk of 65537 pages is written and page 0 and
    page 65536 are sealed under the same AAD: the two can be exchanged without
    the reader noticing.  Reproduced on the Go code by the harness (mutant). *)
Theorem C18_pinned_ordinal_wrap_refuted :
  exists lay p p', p <> p' /\
    forall pfx fu ef, exists m m',
      wfile_at (write_file pfx fu ef lay) p = Some m /\
      wfile_at (write_file pfx fu ef lay) p' = Some m' /\ m = m'.
Proof.
  exists [[mkChunk false (N.to_nat 65537) false]], (PDataBody 0 0 0), (PDataBody 0 0 (N.to_nat 65536)).
  split.
  - intros H. injection H. lia.
  - intros pfx fu ef.
    assert (V : forall k, (k < N.to_nat 65537)%nat ->
              valid_pos ef [[mkChunk false (N.to_nat 65537) false]] (PDataBody 0 0 k) = true).
    { intros k Hk. cbn [valid_pos layout_chunk nth_error c_pages]. now apply Nat.ltb_lt. }
    exists (mkMod MDataBody (aad_of_pos pfx fu (PDataBody 0 0 0))),
           (mkMod MDataBody (aad_of_pos pfx fu (PDataBody 0 0 (N.to_nat 65536)))).
    split; [|split].
    + apply (write_file_spec pfx fu ef _ (PDataBody 0 0 0)). apply V. lia.
    + apply (write_file_spec pfx fu ef _ (PDataBody 0 0 (N.to_nat 65536))). apply V. lia.
    + apply (f_equal (mkMod MDataBody)). unfold aad_of_pos. cbn [pos_ords pos_type].
      rewrite N_nat_Z. change (Z.of_N 65536) with (0 + 65536)%Z.
      symmetry. apply make_aad_page_wraps.
Qed.
Print Assumptions C18_pinned_ordinal_wrap_refuted.

(** * Writer and reader compute the same ordinals *)
(** The writer's state machine seals every module of the file under the
    closed-form AAD of its position. *)
Theorem C18_writer_ordinals : forall pfx fu ef lay p,
  valid_pos ef lay p = true ->
  wfile_at (write_file pfx fu ef lay) p = Some (mkMod (pos_type p) (aad_of_pos pfx fu p)).
Proof. exact write_file_spec. Qed.
Print Assumptions C18_writer_ordinals.

(** Page cursor of one chunk: for every layout of the chunk, every position of
    the chunk in the file and every history, each module read sits where the
    writer put a module of exactly the expected type and AAD. *)
Theorem C18_cursor_ordinals_agree : forall pfx fu ef rg col c (h : list rop),
  let wc := write_chunk pfx fu ef (Z.of_nat rg) (Z.of_nat col) c in
  Forall (fun e => nth_error (wc_mods wc) (ev_at e) = Some (mkMod (ev_type e) (ev_aad e)))
         (snd (rrun pfx fu (Z.of_nat rg) (Z.of_nat col) wc (rinit wc) h)).
Proof. exact cursor_agrees. Qed.
Print Assumptions C18_cursor_ordinals_agree.

(** Whole file: every layout, every sequence of accesses (footer, column
    metadata, page index, bloom filters, any number of page cursors each with
    any history): what the writer put where the reader looks is what the reader
    expects. *)
Theorem C18_ordinals_agree : forall pfx fu ef lay (h : list fop),
  forallb (fop_valid ef lay) h = true ->
  Forall (fun p => fst p = Some (snd p)) (frun pfx fu (write_file pfx fu ef lay) h).
Proof. exact file_reader_agrees. Qed.
Print Assumptions C18_ordinals_agree.

(** * Under an idealised AEAD *)
Section C18_Aead.
  Variable key : Type.
  Variable seal : key -> bytes -> bytes -> bytes -> bytes.
  Variable open_ : key -> bytes -> bytes -> bytes -> option bytes.

  (** The log of all Seal calls of the honest writers. *)
  Variable es : list (entry key).
  Let sealed := map (sealed_of_entry key) es.

  Hypothesis log_ok : entries_ok key es.
  Hypothesis seal_length : forall k n a p, List.length (seal k n a p) = (List.length p + tag_size)%nat.
  Hypothesis shapes : forall s, In s sealed -> sealed_shape key seal s.
  (* correctness of the AEAD on what was sealed *)
  Hypothesis open_seal : forall s, In s sealed ->
    open_ (s_key key s) (s_nonce key s) (s_aad key s) (s_cipher key seal s) = Some (s_plain key s).
  (* idealised authenticity: only recorded Seal outputs open, and only under
     their own key, nonce and AAD *)
  Hypothesis auth : forall k n a c p, open_ k n a c = Some p ->
    exists s, In s sealed /\ s_key key s = k /\ s_nonce key s = n /\ s_aad key s = a /\
              s_plain key s = p /\ c = s_cipher key seal s.

  Let ok : aead_ok key seal open_ sealed := conj seal_length (conj open_seal (conj auth shapes)).
  Let uniq : aad_unique key sealed := entries_aad_unique key es log_ok.

  (** The reader recovers the plaintext of every module: by
      [C18_ordinals_agree] the AAD it computes is the one of the entry. *)
  Theorem C18_roundtrip : forall e, In e es ->
    decrypt_module key open_ (e_key key e) (aad_of_pos (e_pfx key e) (e_fu key e) (e_pos key e))
      (envelope_of key seal (sealed_of_entry key e)) = Some (e_plain key e).
  Proof.
    intros e He.
    exact (decrypt_roundtrip key seal open_ sealed (sealed_of_entry key e) ok (in_map _ _ _ He)).
  Qed.

  (** If ANY bytes decrypt where module [e] is expected, with ANY key, then the
      key is [e]'s, the plaintext returned is [e]'s and the bytes start with
      [e]'s own envelope: a reader never returns data that was not sealed for
      exactly this position of this file. *)
  Theorem C18_tamper_detected : forall e k env p, In e es -> wf_bytes env ->
    decrypt_module key open_ k (aad_of_pos (e_pfx key e) (e_fu key e) (e_pos key e)) env = Some p ->
    k = e_key key e /\ p = e_plain key e /\
    exists rest, env = envelope_of key seal (sealed_of_entry key e) ++ rest.
  Proof.
    intros e k env p He.
    exact (decrypt_only_original key seal open_ sealed (sealed_of_entry key e) k env p ok uniq (in_map _ _ _ He)).
  Qed.

  (** Replaced by another module: another page, column or row group of the
      file, or a module of another file written with the same keys. *)
  Theorem C18_transplant_rejected : forall e e2 k, In e es -> In e2 es ->
    wf_bytes (envelope_of key seal (sealed_of_entry key e2)) ->
    e_nonce key e2 <> e_nonce key e ->
    decrypt_module key open_ k (aad_of_pos (e_pfx key e) (e_fu key e) (e_pos key e))
      (envelope_of key seal (sealed_of_entry key e2)) = None.
  Proof.
    intros e e2 k He He2.
    exact (transplant_fails key seal open_ sealed (sealed_of_entry key e) (sealed_of_entry key e2) k
             ok uniq (in_map _ _ _ He) (in_map _ _ _ He2)).
  Qed.

  (** Any change of the envelope bytes (length field, nonce, ciphertext, tag). *)
  Theorem C18_modified_rejected : forall e k env, In e es -> wf_bytes env ->
    List.length env = List.length (envelope_of key seal (sealed_of_entry key e)) ->
    env <> envelope_of key seal (sealed_of_entry key e) ->
    decrypt_module key open_ k (aad_of_pos (e_pfx key e) (e_fu key e) (e_pos key e)) env = None.
  Proof.
    intros e k env He.
    exact (modified_fails key seal open_ sealed (sealed_of_entry key e) k env ok uniq (in_map _ _ _ He)).
  Qed.

  Theorem C18_truncated_rejected : forall e k m, In e es ->
    wf_bytes (envelope_of key seal (sealed_of_entry key e)) ->
    (m < List.length (envelope_of key seal (sealed_of_entry key e)))%nat ->
    decrypt_module key open_ k (aad_of_pos (e_pfx key e) (e_fu key e) (e_pos key e))
      (firstn m (envelope_of key seal (sealed_of_entry key e))) = None.
  Proof.
    intros e k m He.
    exact (truncated_fails key seal open_ sealed (sealed_of_entry key e) k m ok uniq (in_map _ _ _ He)).
  Qed.

  (** The same through the streamed reader (readDecryptedEnvelopeFrom: pages,
      dictionary pages, bloom filters), whatever follows the module in the
      stream and whatever its size: the only bound is the one of the 4-byte
      length field ([shapes]: module length below 2^32). *)
  Theorem C18_stream_roundtrip : forall e rest, In e es ->
    read_envelope_from key open_ (e_key key e) (aad_of_pos (e_pfx key e) (e_fu key e) (e_pos key e))
      (envelope_of key seal (sealed_of_entry key e) ++ rest) = Some (e_plain key e, rest).
  Proof.
    intros e rest He.
    exact (stream_roundtrip key seal open_ sealed (sealed_of_entry key e) rest ok (in_map _ _ _ He)).
  Qed.

  Theorem C18_wrong_key_rejected : forall e k env, In e es -> wf_bytes env ->
    k <> e_key key e ->
    decrypt_module key open_ k (aad_of_pos (e_pfx key e) (e_fu key e) (e_pos key e)) env = None.
  Proof.
    intros e k env He.
    exact (wrong_key_fails key seal open_ sealed (sealed_of_entry key e) k env ok uniq (in_map _ _ _ He)).
  Qed.
End C18_Aead.

Print Assumptions C18_roundtrip.
Print Assumptions C18_stream_roundtrip.
Print Assumptions C18_tamper_detected.
Print Assumptions C18_transplant_rejected.
Print Assumptions C18_modified_rejected.
Print Assumptions C18_truncated_rejected.
Print Assumptions C18_wrong_key_rejected.

(** * Module sizes *)
(** The streamed reader accepts the length field of every module the writer
    can write (plaintext of any length whose module length fits the 4-byte
    field), provided the stream holds the module. *)
Theorem C18_reader_accepts_written_lengths : forall plain_len avail,
  (module_len_of_plain plain_len < 256 ^ 4)%N -> (module_len_of_plain plain_len <= avail)%N ->
  stream_accepts (len_field plain_len) avail = true.
Proof. exact stream_accepts_len_field. Qed.
Print Assumptions C18_reader_accepts_written_lengths.

(** * Writer options *)
(** Whatever the constructor (NewGenericWriter / NewWriter, or NewSortingWriter
    / Write / WriteFile which hand a WriterConfig to the writer of the file)
    and however the options are nested in WriterConfig values used as options,
    the writer of the file uses the EncryptionConfig named last; when any
    option names one, the writer encrypts. *)
Theorem C18_options_reach_writer : forall ct l,
  effective_encryption ct l = last_opt (flat_map enc_mentions l).
Proof. exact effective_encryption_spec. Qed.
Print Assumptions C18_options_reach_writer.

Theorem C18_encryption_not_dropped : forall ct l,
  flat_map enc_mentions l <> [] ->
  exists c, effective_encryption ct l = Some c /\ In c (flat_map enc_mentions l).
Proof. exact encryption_not_dropped. Qed.
Print Assumptions C18_encryption_not_dropped.

(** * Footer modes *)
(** In both modes no ColumnChunk field that carries column metadata
    (statistics, min/max, null counts, sizes, page offsets) is serialised in
    the clear: with an encrypted footer the whole FileMetaData is the plaintext
    of the footer module; with a plaintext footer [MetaData] is the zero value
    and the metadata only exists inside [EncryptedColumnMetadata].  Partial:
    this is a statement about which fields the writer model serialises (tied
    to the Go writer by the plaintext scan of the harness); it does not say
    that ciphertexts hide their plaintext. *)
Theorem C18_no_plain_stats_partial : forall ef,
  footer_fields_known ef = true /\
  clear_metadata_fields ef = [] /\
  (ef = false ->
     In ("MetaData"%string, Absent) (footer_chunk ef) /\
     In ("EncryptedColumnMetadata"%string, Sealed MColMeta) (footer_chunk ef)).
Proof.
  intros ef. split; [destruct ef; apply footer_fields_are_known|].
  split; [apply no_clear_metadata|]. intros ->. exact plaintext_footer_metadata_absent.
Qed.
Print Assumptions C18_no_plain_stats_partial.

(** The full confidentiality statement is not formalised: it needs a model of
    indistinguishability of AES-GCM ciphertexts. *)
Definition C18_full_statement : Prop :=
  forall (file_bytes : list bytes -> bytes) (plaintexts plaintexts' : list bytes),
    map (@List.length N) plaintexts = map (@List.length N) plaintexts' ->
    (* the bytes of the file computed from different plaintexts of the same
       lengths cannot be told apart -- not a Prop of this development *)
    True.

(** * Examples (non-vacuity) *)
Definition ex_lay : layout :=
  [[mkChunk true 3 true; mkChunk false 2 false]; [mkChunk true 1 false; mkChunk false 0 true]].

Example C18_ex_wf : wf_layout ex_lay.
Proof.
  split; [vm_compute; discriminate|].
  repeat constructor; vm_compute; discriminate.
Qed.

(* makeAAD("ab", "\x09\x09\x09", dataPageHeaderModule, 1, 2, 300) *)
Example C18_ex_aad :
  make_aad [97; 98]%N [9; 9; 9]%N MDataHdr 1 2 300 = [97; 98; 9; 9; 9; 3; 1; 0; 2; 0; 44; 1]%N.
Proof. vm_compute. reflexivity. Qed.

(* footer AAD has no ordinals; bloom filter AAD has two *)
Example C18_ex_aad_arity :
  make_aad [1]%N [2]%N MFooter 5 6 7 = [1; 2; 0]%N /\
  make_aad [1]%N [2]%N MBloomBits 5 6 7 = [1; 2; 7; 5; 0; 6; 0]%N.
Proof. split; vm_compute; reflexivity. Qed.

(* a history with a lazy dictionary load after a seek, a seek back without
   index and an explicit dictionary load: 23 module reads in all, every one agrees *)
Definition ex_history : list fop :=
  [FFooter; FColIndex 1 1; FOffIndex 0 1; FBloom 0 0; FBloom 1 1;
   FPages 0 0 [RSeekIndex 2 false; RNext true; RNext true; RSeekNoIndex; RNext true; RLoadDict;
               RSeekIndex 1 false; RNext true; RSeekIndex 1 true; RNext true];
   FPages 1 0 [RLoadDict; RNext true; RNext true; RNext true]].

Example C18_ex_agree :
  forallb (fop_valid true ex_lay) ex_history = true /\
  List.length (frun [1]%N [7]%N (write_file [1]%N [7]%N true ex_lay) ex_history) = 23%nat /\
  forallb pair_agrees (frun [1]%N [7]%N (write_file [1]%N [7]%N true ex_lay) ex_history) = true.
Proof. vm_compute. repeat split; reflexivity. Qed.

(* a reader that forgets to synchronise the page ordinal on a seek computes a
   different AAD: the agreement is not a tautology of the model *)
Example C18_ex_unsynced_ordinal_differs :
  make_aad [1]%N [7]%N MDataHdr 0 0 0 <> make_aad [1]%N [7]%N MDataHdr 0 0 2.
Proof. vm_compute. discriminate. Qed.

(** The AEAD hypotheses are satisfiable: the toy AEAD of Aad/Aead.v on the log
    of two files written with the same keys and schema. *)
Definition ex_k1 : bytes := [11; 11]%N.
Definition ex_k2 : bytes := [22; 22]%N.
Definition ex_nonce (i : N) : bytes := repeat i 12.
Definition ex_entries : list (entry bytes) :=
  [mkEntry bytes [1]%N [7]%N (PDataBody 0 0 0) ex_k1 (ex_nonce 1) [100; 101]%N;
   mkEntry bytes [1]%N [7]%N (PDataBody 0 0 1) ex_k1 (ex_nonce 2) [102; 103]%N;
   mkEntry bytes [1]%N [7]%N (PDataBody 0 1 0) ex_k2 (ex_nonce 3) [104; 105]%N;
   mkEntry bytes [1]%N [8]%N (PDataBody 0 0 0) ex_k1 (ex_nonce 4) [106; 107]%N].
Definition ex_sealed := map (sealed_of_entry bytes) ex_entries.

Example C18_ex_log_ok : entries_ok bytes ex_entries.
Proof.
  split; [|split].
  - intros e He. exists true, ex_lay. split; [exact C18_ex_wf|].
    repeat (destruct He as [<-|He]; [vm_compute; reflexivity|]). destruct He.
  - intros e1 e2 H1 H2.
    repeat (destruct H1 as [<-|H1]; [repeat (destruct H2 as [<-|H2]; [split; reflexivity|]); destruct H2|]).
    destruct H1.
  - intros e1 e2 H1 H2.
    repeat (destruct H1 as [<-|H1];
            [repeat (destruct H2 as [<-|H2]; [cbn; intros; try reflexivity; try discriminate|]); destruct H2|]).
    destruct H1.
Qed.

Example C18_ex_hypotheses : aead_ok bytes toy_seal (toy_open ex_sealed) ex_sealed.
Proof.
  apply toy_aead_ok.
  intros s Hs. repeat (destruct Hs as [<-|Hs]; [split; vm_compute; reflexivity|]). destruct Hs.
Qed.

(* page 0 reads back; page 1, the same page of the other column and the same
   page of the other file are all rejected in its place; so is a wrong key *)
Example C18_ex_toy_run :
  let env i := envelope_of bytes toy_seal (nth i ex_sealed (mkSealed bytes [] [] [] [])) in
  let a0 := aad_of_pos [1]%N [7]%N (PDataBody 0 0 0) in
  decrypt_module bytes (toy_open ex_sealed) ex_k1 a0 (env 0%nat) = Some [100; 101]%N /\
  decrypt_module bytes (toy_open ex_sealed) ex_k1 a0 (env 1%nat) = None /\
  decrypt_module bytes (toy_open ex_sealed) ex_k1 a0 (env 2%nat) = None /\
  decrypt_module bytes (toy_open ex_sealed) ex_k1 a0 (env 3%nat) = None /\
  decrypt_module bytes (toy_open ex_sealed) ex_k2 a0 (env 0%nat) = None /\
  decrypt_module bytes (toy_open ex_sealed) ex_k1 a0 (firstn 30 (env 0%nat)) = None.
Proof. vm_compute. repeat split; reflexivity. Qed.

(** A module of 16 MiB and one of 1 MiB + 1: the length fields, accepted. *)
Example C18_ex_big_modules :
  oracle_envelope (2 ^ 24) (2 ^ 24 + 28) = ([28; 0; 0; 1]%N, true) /\
  oracle_envelope (2 ^ 20 + 1) (2 ^ 21) = ([29; 0; 16; 0]%N, true) /\
  (* the stream ends before the module: refused *)
  snd (oracle_envelope (2 ^ 20) (2 ^ 20)) = false.
Proof. vm_compute. repeat split. Qed.

(** NewSortingWriter(out, n, WithEncryption(cfg 1), other options): encrypts with 1;
    a decoy named earlier inside a configuration is overridden. *)
Example C18_ex_options :
  effective_encryption CViaConfig [WEnc 1; WOther] = Some 1%N /\
  effective_encryption CDirect [WConf [WEnc 2; WOther]; WConf [WConf [WEnc 1]]; WOther] = Some 1%N /\
  effective_encryption CDirect [WEnc 1; WConf [WOther]] = Some 1%N /\
  effective_encryption CDirect [WOther] = None.
Proof. vm_compute. repeat split. Qed.
