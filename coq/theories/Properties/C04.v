(** C04 — page encodings are lossless and match the format specification for
    every input.  Statements only; proofs are in Enc/*Proofs.v.

    For each encoding, [enc] mirrors the Go encoder (same bytes — that is the
    correspondence checked on every run) and [dec] is a decoder written from
    Encodings.md.  The encoders take no destination buffer: the result cannot
    depend on what a reused buffer held (that the Go code behaves the same with
    a dirty [dst] is part of the correspondence run).  The agreement of Go's own
    decoders and of the CPU-specific kernels with these functions is checked
    by differential execution, not proved (see DESIGN.md, C04). *)
From Coq Require Import List NArith ZArith Lia.
From PQ Require Import Base.Bytes Base.Varint Base.BitPack.
From PQ Require Import Enc.DeltaBP Enc.DeltaBPProofs Enc.Rle Enc.RleProofs.
From PQ Require Import Enc.Plain Enc.PlainProofs Enc.ByteArrayDelta Enc.ByteArrayDeltaProofs.
Import ListNotations.
Open Scope N_scope.

(** DELTA_BINARY_PACKED, INT32 and INT64: every sequence of in-range values
    (any length, deltas that wrap around included) decodes to itself, with any
    bytes following the section left untouched. *)
Theorem C04_delta_binary_packed_int32 : forall xs tail,
  Forall (in_sint 32) xs -> N.of_nat (length xs) < 2 ^ 64 ->
  DeltaBP.dec 32 (DeltaBP.enc 32 xs ++ tail) = Some (xs, tail).
Proof. exact (fun xs tail => dec_enc 32 (or_introl eq_refl) xs tail). Qed.

Theorem C04_delta_binary_packed_int64 : forall xs tail,
  Forall (in_sint 64) xs -> N.of_nat (length xs) < 2 ^ 64 ->
  DeltaBP.dec 64 (DeltaBP.enc 64 xs ++ tail) = Some (xs, tail).
Proof. exact (fun xs tail => dec_enc 64 (or_intror eq_refl) xs tail). Qed.

(** RLE / bit-packed hybrid at every bit width: levels ([int32 = false]) and
    dictionary indexes ([int32 = true]); values must fit the width. *)
Theorem C04_rle_hybrid : forall int32 w src,
  fits w src -> N.of_nat (length src) < 2 ^ 61 ->
  exists b, enc_hybrid int32 w src = Some b /\ dec_hybrid w b = Some src.
Proof. exact hybrid_roundtrip. Qed.

(** any partition into runs decodes: the decoder does not rely on how the
    encoder chooses its runs *)
Theorem C04_rle_any_runs : forall w rs, Forall (wf_run w) rs ->
  dec_hybrid w (serialize w rs) = Some (concat (map expand rs)).
Proof. intros w rs H. unfold dec_hybrid. apply dec_runs_serialize; [exact H|lia]. Qed.

Theorem C04_rle_dictionary_indexes : forall src,
  N.of_nat (length src) < 2 ^ 61 ->
  exists b, enc_dict_indexes src = Some b /\ dec_dict_indexes b = Some src.
Proof. exact dict_indexes_roundtrip. Qed.

(** RLE booleans: [src] are the packed bytes of the page, [n] its number of values *)
Theorem C04_rle_boolean : forall src n,
  wf_bytes src -> N.of_nat (length src) < 2 ^ 26 -> (n <= 8 * length src)%nat ->
  dec_boolean_n n (enc_boolean src) = Some (firstn n (bits_of src)).
Proof. exact boolean_roundtrip. Qed.

(** PLAIN *)
Theorem C04_plain_fixed : forall k vs,
  (0 < k)%nat -> Forall (fun v => v < 256 ^ N.of_nat k) vs ->
  dec_plain_fixed k (plain_fixed k vs) = Some vs.
Proof. exact plain_fixed_roundtrip. Qed.

Theorem C04_plain_byte_array : forall vs,
  Forall (fun v => N.of_nat (length v) < 2 ^ 32) vs ->
  dec_plain_byte_array (length vs) (plain_byte_array vs) = Some vs.
Proof. intros vs H. apply plain_byte_array_roundtrip; [exact H|lia]. Qed.

Theorem C04_plain_fixed_len_byte_array : forall size vs,
  (0 < size)%nat -> Forall (fun v => length v = size) vs ->
  dec_plain_flba size (plain_flba vs) = Some vs.
Proof. exact plain_flba_roundtrip. Qed.

Theorem C04_plain_boolean : forall bits,
  Forall is_bit bits -> dec_plain_boolean (length bits) (plain_boolean bits) = Some bits.
Proof. exact plain_boolean_roundtrip. Qed.

(** BYTE_STREAM_SPLIT *)
Theorem C04_byte_stream_split : forall k vs,
  (0 < k)%nat -> Forall (fun v => length v = k) vs -> bss_dec k (bss_enc k vs) = Some vs.
Proof. exact bss_roundtrip. Qed.

Theorem C04_byte_stream_split_fixed : forall k vs,
  (0 < k)%nat -> Forall (fun v => v < 256 ^ N.of_nat k) vs ->
  bss_dec_fixed k (bss_enc_fixed k vs) = Some vs.
Proof. exact bss_fixed_roundtrip. Qed.

(** DELTA_LENGTH_BYTE_ARRAY and DELTA_BYTE_ARRAY *)
Theorem C04_delta_length_byte_array : forall vs,
  Forall short vs -> N.of_nat (length vs) < 2 ^ 64 -> dlba_dec (dlba_enc vs) = Some vs.
Proof. exact dlba_roundtrip. Qed.

Theorem C04_delta_byte_array : forall vs,
  Forall short vs -> N.of_nat (length vs) < 2 ^ 64 -> dba_dec (dba_enc vs) = Some vs.
Proof. exact dba_roundtrip. Qed.

Print Assumptions C04_delta_binary_packed_int32.
Print Assumptions C04_delta_binary_packed_int64.
Print Assumptions C04_rle_hybrid.
Print Assumptions C04_rle_any_runs.
Print Assumptions C04_rle_dictionary_indexes.
Print Assumptions C04_rle_boolean.
Print Assumptions C04_plain_fixed.
Print Assumptions C04_plain_byte_array.
Print Assumptions C04_plain_fixed_len_byte_array.
Print Assumptions C04_plain_boolean.
Print Assumptions C04_byte_stream_split.
Print Assumptions C04_byte_stream_split_fixed.
Print Assumptions C04_delta_length_byte_array.
Print Assumptions C04_delta_byte_array.

(** Non-vacuity: concrete inputs meeting the hypotheses, with extremes. *)
Example C04_ex_delta_extremes :
  DeltaBP.dec 32 (DeltaBP.enc 32 [-2147483648; 2147483647; 0; -1; 7]%Z)
  = Some ([-2147483648; 2147483647; 0; -1; 7]%Z, []).
Proof. vm_compute. reflexivity. Qed.

Example C04_ex_delta_hyp : Forall (in_sint 32) [-2147483648; 2147483647; 0; -1; 7]%Z.
Proof. repeat constructor; unfold in_sint; cbn; lia. Qed.

Example C04_ex_rle : exists b, enc_hybrid false 3 [1;1;1;1;1;1;1;1;2;3;4;5;6;7;0;1;5] = Some b
                              /\ dec_hybrid 3 b = Some [1;1;1;1;1;1;1;1;2;3;4;5;6;7;0;1;5].
Proof. eexists. split; vm_compute; reflexivity. Qed.

Example C04_ex_rle_boolean :
  dec_boolean_n 20 (enc_boolean [255; 255; 7]) = Some (firstn 20 (bits_of [255; 255; 7])).
Proof. vm_compute. reflexivity. Qed.

(** The RLE boolean encoder of the pinned tree stored the packed byte 0xFF as
    the repeated value of a run of true values: a decoder written from the
    specification reads the value 255, not 1. *)
Definition enc_boolean_pinned_all_true (nbytes : nat) : bytes :=
  let body := uvarint64 (2 * (8 * N.of_nat nbytes)) ++ [255] in
  to_le 4 (N.of_nat (length body)) ++ body.

Theorem C04_pinned_rle_boolean_refuted :
  exists nbytes n, dec_boolean_n n (enc_boolean_pinned_all_true nbytes)
                   <> Some (firstn n (bits_of (repeat 255 nbytes))).
Proof. exists 2%nat, 16%nat. vm_compute. discriminate. Qed.
