(** C04 — page encodings are lossless and match the format specification for
    every input.  Statements only; proofs are in Enc/*Proofs.v.

    For each encoding, [enc] mirrors the Go encoder (same bytes — that is the
    correspondence checked on every run) and [dec] is a decoder written from
    Encodings.md.  The encoders take no destination buffer: the result cannot
    depend on what a reused buffer held (that the Go code behaves the same with
    a dirty [dst] is part of the correspondence run).

    Go's own decoders are modelled too (Enc/GoDec*.v: the portable code of
    rle.go, delta/binary_packed.go, delta/*byte_array*.go, statement by
    statement, malformed input included) and proved to return what the
    specification decoders return -- on the encoders' output and, for the
    RLE hybrid and DELTA_BINARY_PACKED, on every byte string the specification
    decoder accepts within the limits of a 64-bit reader (theorems
    [C04_go_decoder_*] below).  The models are tied to the code by differential
    execution on Go's bytes, on malformed streams and on conforming streams
    that Go's encoders do not write; the CPU-specific kernels are compared with
    the same models by execution, not modelled (see DESIGN.md, C04). *)
From Coq Require Import List NArith ZArith Lia.
From PQ Require Import Base.Bytes Base.Varint Base.BitPack.
From PQ Require Import Enc.DeltaBP Enc.DeltaBPProofs Enc.Rle Enc.RleProofs.
From PQ Require Import Enc.Plain Enc.PlainProofs Enc.ByteArrayDelta Enc.ByteArrayDeltaProofs.
From PQ Require Import Enc.GoDecBase Enc.GoDecRle Enc.GoDecRleProofs Enc.GoDecBitsProofs.
From PQ Require Import Enc.GoDecPage Enc.GoDecPageProofs.
From PQ Require Import Enc.GoDecDelta Enc.GoDecDeltaProofs Enc.DeltaBPFast Enc.DeltaBPFastProofs Enc.PlainFast Enc.PlainFastProofs.
Import ListNotations.
Open Scope N_scope.

(** DELTA_BINARY_PACKED, INT32 and INT64: every sequence of in-range values
    (any length, deltas that wrap around included) decodes to itself, with any
    bytes following the section left untouched. *)
Theorem C04_delta_binary_packed_int32 : forall xs tail,
  Forall (in_sint 32) xs -> N.of_nat (length xs) < 2 ^ 64 ->
  DeltaBP.dec 32 (DeltaBP.enc 32 xs ++ tail) = Some (xs, tail).
Proof. exact (fun xs tail => dec_enc 32 (or_introl eq_refl) xs tail). Qed.

Theorem C04_delta_binary_packed_int64 : forall xs tail,
  Forall (in_sint 64) xs -> N.of_nat (length xs) < 2 ^ 64 ->
  DeltaBP.dec 64 (DeltaBP.enc 64 xs ++ tail) = Some (xs, tail).
Proof. exact (fun xs tail => dec_enc 64 (or_intror eq_refl) xs tail). Qed.

(** The geometry of a DELTA_BINARY_PACKED page -- values per block, mini-blocks
    per block -- is the writer's choice, written in the header (the format: a
    block size that is a multiple of 128, mini-blocks of a multiple of 32
    values; Go writes 128 / 4, parquet-rs 256 / 4 for INT64).  [DeltaBP.enc_g
    bs nmb] is the encoder at the geometry [bs] / [nmb]; Go's encoder is its
    instance at Go's constants.  The specification decoder inverts it at every
    geometry the format allows (and at every geometry with mini-blocks of a
    multiple of 8 values: [legal_geometry]). *)
Theorem C04_delta_geometry_facts :
  (forall k xs, DeltaBP.enc k xs = DeltaBP.enc_g block_size num_mini_blocks k xs)
  /\ N.of_nat block_size = 128 /\ N.of_nat num_mini_blocks = 4
  /\ (forall bs nmb, format_geometry bs nmb -> legal_geometry bs nmb)
  /\ (forall bs nmb, go_geometry bs nmb -> format_geometry bs nmb).
Proof.
  exact (conj (fun k xs => eq_refl) (conj block_size_128 (conj num_mini_blocks_4
           (conj format_geometry_legal go_geometry_format_g)))).
Qed.

Theorem C04_delta_binary_packed_any_geometry : forall bs nmb k xs tail,
  legal_geometry bs nmb -> k = 32 \/ k = 64 ->
  Forall (in_sint k) xs -> N.of_nat (length xs) < 2 ^ 64 ->
  DeltaBP.dec k (DeltaBP.enc_g bs nmb k xs ++ tail) = Some (xs, tail).
Proof. exact (fun bs nmb k xs tail Hl Hk => dec_enc_g bs nmb Hl k Hk xs tail). Qed.

(** the functions the oracle runs in place of the quadratic-time ones of the
    theorems (mini-blocks packed eight values at a time, Enc/DeltaBPFast.v;
    BYTE_STREAM_SPLIT streams consumed in step, Enc/PlainFast.v) compute the
    same results *)
Theorem C04_oracle_fast_functions : forall cap bs1 nmb1 bs2 nmb2 k xs vs,
  legal_geometry bs1 nmb1 -> legal_geometry bs2 nmb2 ->
  enc_f bs1 nmb1 k xs = DeltaBP.enc_g bs1 nmb1 k xs /\ enc_fast k xs = DeltaBP.enc k xs /\
  dlba_enc_f bs1 nmb1 vs = dlba_enc_g bs1 nmb1 vs /\ dlba_enc_fast vs = dlba_enc vs /\
  dba_enc_f cap bs1 nmb1 bs2 nmb2 vs = dba_enc_g cap bs1 nmb1 bs2 nmb2 vs /\ dba_enc_fast vs = dba_enc vs /\
  (forall size b, bss_dec_fast size b = bss_dec size b).
Proof.
  exact (fun cap bs1 nmb1 bs2 nmb2 k xs vs H1 H2 =>
           conj (enc_f_eq bs1 nmb1 H1 k xs) (conj (enc_fast_eq k xs) (conj (dlba_enc_f_eq bs1 nmb1 H1 vs) (conj (dlba_enc_fast_eq vs)
             (conj (dba_enc_f_eq cap bs1 nmb1 bs2 nmb2 vs H1 H2) (conj (dba_enc_fast_eq vs) bss_dec_fast_eq)))))).
Qed.

(** RLE / bit-packed hybrid at every bit width: levels ([int32 = false]) and
    dictionary indexes ([int32 = true]); values must fit the width. *)
Theorem C04_rle_hybrid : forall int32 w src,
  fits w src -> N.of_nat (length src) < 2 ^ 61 ->
  exists b, enc_hybrid int32 w src = Some b /\ dec_hybrid w b = Some src.
Proof. exact hybrid_roundtrip. Qed.

(** any partition into runs decodes: the decoder does not rely on how the
    encoder chooses its runs *)
Theorem C04_rle_any_runs : forall w rs, Forall (wf_run w) rs ->
  dec_hybrid w (serialize w rs) = Some (concat (map expand rs)).
Proof. intros w rs H. unfold dec_hybrid. apply dec_runs_serialize; [exact H|lia]. Qed.

Theorem C04_rle_dictionary_indexes : forall src,
  N.of_nat (length src) < 2 ^ 61 ->
  exists b, enc_dict_indexes src = Some b /\ dec_dict_indexes b = Some src.
Proof. exact dict_indexes_roundtrip. Qed.

(** RLE booleans: [src] are the packed bytes of the page, [n] its number of values *)
Theorem C04_rle_boolean : forall src n,
  wf_bytes src -> N.of_nat (length src) < 2 ^ 26 -> (n <= 8 * length src)%nat ->
  dec_boolean_n n (enc_boolean src) = Some (firstn n (bits_of src)).
Proof. exact boolean_roundtrip. Qed.

(** PLAIN *)
Theorem C04_plain_fixed : forall k vs,
  (0 < k)%nat -> Forall (fun v => v < 256 ^ N.of_nat k) vs ->
  dec_plain_fixed k (plain_fixed k vs) = Some vs.
Proof. exact plain_fixed_roundtrip. Qed.

Theorem C04_plain_byte_array : forall vs,
  Forall (fun v => N.of_nat (length v) < 2 ^ 32) vs ->
  dec_plain_byte_array (length vs) (plain_byte_array vs) = Some vs.
Proof. intros vs H. apply plain_byte_array_roundtrip; [exact H|lia]. Qed.

Theorem C04_plain_fixed_len_byte_array : forall size vs,
  (0 < size)%nat -> Forall (fun v => length v = size) vs ->
  dec_plain_flba size (plain_flba vs) = Some vs.
Proof. exact plain_flba_roundtrip. Qed.

Theorem C04_plain_boolean : forall bits,
  Forall is_bit bits -> dec_plain_boolean (length bits) (plain_boolean bits) = Some bits.
Proof. exact plain_boolean_roundtrip. Qed.

(** BYTE_STREAM_SPLIT *)
Theorem C04_byte_stream_split : forall k vs,
  (0 < k)%nat -> Forall (fun v => length v = k) vs -> bss_dec k (bss_enc k vs) = Some vs.
Proof. exact bss_roundtrip. Qed.

Theorem C04_byte_stream_split_fixed : forall k vs,
  (0 < k)%nat -> Forall (fun v => v < 256 ^ N.of_nat k) vs ->
  bss_dec_fixed k (bss_enc_fixed k vs) = Some vs.
Proof. exact bss_fixed_roundtrip. Qed.

(** DELTA_LENGTH_BYTE_ARRAY and DELTA_BYTE_ARRAY *)
Theorem C04_delta_length_byte_array : forall vs,
  Forall short vs -> N.of_nat (length vs) < 2 ^ 64 -> dlba_dec (dlba_enc vs) = Some vs.
Proof. exact dlba_roundtrip. Qed.

Theorem C04_delta_byte_array : forall vs,
  Forall short vs -> N.of_nat (length vs) < 2 ^ 64 -> dba_dec (dba_enc vs) = Some vs.
Proof. exact dba_roundtrip. Qed.

(** ... with the length sections written at any geometry, and (DELTA_BYTE_ARRAY)
    any cap on the length of the shared prefix: a conforming writer need not
    share the longest common prefix *)
Theorem C04_delta_byte_arrays_any_geometry : forall cap bs1 nmb1 bs2 nmb2 vs,
  legal_geometry bs1 nmb1 -> legal_geometry bs2 nmb2 ->
  Forall short vs -> N.of_nat (length vs) < 2 ^ 64 ->
  dlba_dec (dlba_enc_g bs1 nmb1 vs) = Some vs
  /\ dba_dec (dba_enc_g cap bs1 nmb1 bs2 nmb2 vs) = Some vs.
Proof.
  exact (fun cap bs1 nmb1 bs2 nmb2 vs H1 H2 Hs Hn =>
           conj (dlba_roundtrip_g bs1 nmb1 vs H1 Hs Hn) (dba_roundtrip_g cap bs1 nmb1 bs2 nmb2 vs H1 H2 Hs Hn)).
Qed.

Print Assumptions C04_delta_geometry_facts.
Print Assumptions C04_delta_binary_packed_any_geometry.
Print Assumptions C04_oracle_fast_functions.
Print Assumptions C04_delta_byte_arrays_any_geometry.
Print Assumptions C04_delta_binary_packed_int32.
Print Assumptions C04_delta_binary_packed_int64.
Print Assumptions C04_rle_hybrid.
Print Assumptions C04_rle_any_runs.
Print Assumptions C04_rle_dictionary_indexes.
Print Assumptions C04_rle_boolean.
Print Assumptions C04_plain_fixed.
Print Assumptions C04_plain_byte_array.
Print Assumptions C04_plain_fixed_len_byte_array.
Print Assumptions C04_plain_boolean.
Print Assumptions C04_byte_stream_split.
Print Assumptions C04_byte_stream_split_fixed.
Print Assumptions C04_delta_length_byte_array.
Print Assumptions C04_delta_byte_array.

(** Non-vacuity: concrete inputs meeting the hypotheses, with extremes. *)
Example C04_ex_delta_extremes :
  DeltaBP.dec 32 (DeltaBP.enc 32 [-2147483648; 2147483647; 0; -1; 7]%Z)
  = Some ([-2147483648; 2147483647; 0; -1; 7]%Z, []).
Proof. vm_compute. reflexivity. Qed.

(** the geometry parquet-rs uses for INT64 is a format geometry; a page of 70
    values written with it (two mini-blocks of 64 values in use) *)
Example C04_ex_delta_geometry_hyp : format_geometry 256 4 /\ legal_geometry 256 4 /\ go_geometry 256 4.
Proof.
  assert (H : go_geometry 256 4) by (unfold go_geometry; repeat split; vm_compute; try reflexivity; try lia; intros E; discriminate E).
  split; [apply go_geometry_format_g, H|]. split; [apply format_geometry_legal, go_geometry_format_g, H|exact H].
Qed.

Example C04_ex_delta_geometry :
  let xs := map (fun i => (Z.of_nat i * Z.of_nat i * 1000003 - 9223372036854775807)%Z) (seq 0 70) in
  DeltaBP.dec 64 (DeltaBP.enc_g 256 4 64 xs ++ [7]) = Some (xs, [7])
  /\ go_dbp_dec 64 (DeltaBP.enc_g 256 4 64 xs ++ [7]) = GOk (xs, [7])
  /\ enc_f 256 4 64 xs = DeltaBP.enc_g 256 4 64 xs.
Proof. vm_compute. repeat split; reflexivity. Qed.

Example C04_ex_delta_hyp : Forall (in_sint 32) [-2147483648; 2147483647; 0; -1; 7]%Z.
Proof. repeat constructor; unfold in_sint; cbn; lia. Qed.

Example C04_ex_rle : exists b, enc_hybrid false 3 [1;1;1;1;1;1;1;1;2;3;4;5;6;7;0;1;5] = Some b
                              /\ dec_hybrid 3 b = Some [1;1;1;1;1;1;1;1;2;3;4;5;6;7;0;1;5].
Proof. eexists. split; vm_compute; reflexivity. Qed.

Example C04_ex_rle_boolean :
  dec_boolean_n 20 (enc_boolean [255; 255; 7]) = Some (firstn 20 (bits_of [255; 255; 7])).
Proof. vm_compute. reflexivity. Qed.

(** The RLE boolean encoder of the pinned tree stored the packed byte 0xFF as
    the repeated value of a run of true values: a decoder written from the
    specification reads the value 255, not 1. *)
Definition enc_boolean_pinned_all_true (nbytes : nat) : bytes :=
  let body := uvarint64 (2 * (8 * N.of_nat nbytes)) ++ [255] in
  to_le 4 (N.of_nat (length body)) ++ body.

Theorem C04_pinned_rle_boolean_refuted :
  exists nbytes n, dec_boolean_n n (enc_boolean_pinned_all_true nbytes)
                   <> Some (firstn n (bits_of (repeat 255 nbytes))).
Proof. exists 2%nat, 16%nat. vm_compute. discriminate. Qed.

(** * Go's own decoders (models of the portable Go code, Enc/GoDec*.v)

    [GOk x]: Go returns [x] and a nil error; [GErr]: an error; [GPanic]: a panic. *)

(** RLE / bit-packed hybrid, levels (decodeBytes, widths 0..8) and int32
    (decodeInt32, widths 0..32): on EVERY byte string accepted by
    [dec_hybrid64] -- the specification decoder restricted to run headers of at
    most 10 bytes / 64 bits announcing 1 .. MaxInt32 values -- Go returns the
    values the specification decoder returns.  Partial with respect to "Go
    accepts everything the specification decoder accepts": see
    [C04_go_decoder_rle_accepts_spec_full_refuted]. *)
Theorem C04_go_decoder_rle_levels_accepts_spec_partial : forall w b xs,
  w <= 8 -> dec_hybrid64 w b = Some xs ->
  go_decode_levels w b = GOk xs /\ dec_hybrid w b = Some xs.
Proof. exact go_levels_refines_top. Qed.

Theorem C04_go_decoder_rle_int32_accepts_spec_partial : forall w b xs,
  w <= 32 -> dec_hybrid64 w b = Some xs ->
  go_decode_int32_top w b = GOk xs /\ dec_hybrid w b = Some xs.
Proof. exact go_int32_refines_top. Qed.

(** what the restriction leaves out is really different in Go: a run header
    announcing 0 values is skipped without reading a value *)
Definition C04_go_decoder_rle_accepts_spec_full_statement : Prop :=
  forall w b xs, w <= 8 -> dec_hybrid w b = Some xs -> go_decode_levels w b = GOk xs.

Theorem C04_go_decoder_rle_accepts_spec_full_refuted :
  ~ C04_go_decoder_rle_accepts_spec_full_statement.
Proof. exact go_levels_accepts_spec_full_refuted. Qed.

(** any partition into non-empty runs of at most MaxInt32 values -- run-length
    runs of any length, as other writers produce them -- is decoded by Go *)
Theorem C04_go_decoder_rle_levels_any_runs : forall w rs,
  w <= 8 -> Forall (wf_run w) rs -> Forall go_run_ok rs ->
  go_decode_levels w (serialize w rs) = GOk (concat (map expand rs)).
Proof. exact go_levels_any_runs. Qed.

Theorem C04_go_decoder_rle_int32_any_runs : forall w rs,
  w <= 32 -> Forall (wf_run w) rs -> Forall go_run_ok rs ->
  go_decode_int32_top w (serialize w rs) = GOk (concat (map expand rs)).
Proof. exact go_int32_any_runs. Qed.

(** Go decode (Go encode x) = x = specification decode (Go encode x) *)
Theorem C04_go_decoder_rle_levels : forall w src,
  w <= 8 -> fits w src -> N.of_nat (length src) <= max_count ->
  exists b, enc_levels w src = Some b /\ go_decode_levels w b = GOk src /\ dec_hybrid w b = Some src.
Proof. exact go_levels_roundtrip. Qed.

Theorem C04_go_decoder_rle_int32 : forall w src,
  w <= 32 -> fits w src -> N.of_nat (length src) <= max_count ->
  exists b, enc_int32 w src = Some b /\ go_decode_int32_top w b = GOk src /\ dec_hybrid w b = Some src.
Proof. exact go_int32_roundtrip. Qed.

Theorem C04_go_decoder_rle_dictionary_indexes : forall src,
  Forall (fun v => v < 2 ^ 32) src -> N.of_nat (length src) <= max_count ->
  exists b, enc_dict_indexes src = Some b /\ go_decode_dict b = GOk src /\ dec_dict_indexes b = Some src.
Proof. exact go_dict_roundtrip. Qed.

(** booleans (decodeBits, with its bit position across runs): the packed
    bytes come back; their bits are what the specification decoder returns *)
Theorem C04_go_decoder_rle_boolean : forall src,
  wf_bytes src -> N.of_nat (length src) < 2 ^ 26 ->
  go_decode_boolean (enc_boolean src) = GOk src.
Proof. exact go_boolean_roundtrip. Qed.

Theorem C04_go_decoder_rle_boolean_agrees_spec : forall src n,
  wf_bytes src -> N.of_nat (length src) < 2 ^ 26 -> (n <= 8 * length src)%nat ->
  exists packed, go_decode_boolean (enc_boolean src) = GOk packed /\
                 dec_boolean_n n (enc_boolean src) = Some (firstn n (bits_of packed)).
Proof. exact go_boolean_agrees_spec. Qed.

(** ... and every conforming RLE boolean page -- any partition of the values
    into non-empty run-length runs of ANY length (not only the multiples of 8
    that Go writes) and bit-packed runs -- is decoded by Go to packed bytes
    whose first bits are the values, which is also what the specification
    decoder returns (the property the code before 75827ad violated:
    [C04_pinned_rle_boolean_unaligned_refuted]) *)
Theorem C04_go_decoder_rle_boolean_any_runs : forall rs,
  Forall (wf_run 1) rs -> Forall go_run_ok rs -> Forall run_bit rs ->
  rs <> [] -> N.of_nat (length (serialize 1 rs)) < 2 ^ 32 ->
  let vals := concat (map expand rs) in
  let page := to_le 4 (N.of_nat (length (serialize 1 rs))) ++ serialize 1 rs in
  exists packed,
    go_decode_boolean page = GOk packed /\
    firstn (length vals) (bits_of packed) = vals /\
    dec_boolean_n (length vals) page = Some vals.
Proof. exact go_boolean_any_runs. Qed.

(** DELTA_BINARY_PACKED: on EVERY well-formed byte string accepted by [dec64]
    (the specification decoder with varints of at most 10 bytes / 64 bits and
    mini-block bit widths of at most the width of the type) whose header
    passes Go's checks, decodeInt32 / decodeInt64 return the same values and
    the same remaining input: any block size (multiple of 128, at most 65536)
    and mini-block count, any min delta, any bit widths up to 32 / 64.  Partial
    with respect to "Go accepts everything the specification decoder accepts":
    [C04_go_decoder_delta_accepts_spec_full_refuted]. *)
Theorem C04_go_decoder_delta_accepts_spec_partial : forall k b xs rest h,
  wf_bytes b -> dec64 k b = Some (xs, rest) ->
  go_dbp_header b = GOk h -> first_ok k (snd (fst h)) ->
  go_dbp_dec k b = GOk (xs, rest) /\ DeltaBP.dec k b = Some (xs, rest).
Proof.
  exact (fun k b xs rest h Hw Hd Hh Hf =>
           conj (go_dbp_refines k b xs rest h Hw Hd Hh Hf) (dec64_sound k b _ Hd)).
Qed.

Definition C04_go_decoder_delta_accepts_spec_full_statement : Prop :=
  forall k b r, (k = 32 \/ k = 64) -> wf_bytes b -> DeltaBP.dec k b = Some r -> go_dbp_dec k b = GOk r.

Theorem C04_go_decoder_delta_accepts_spec_full_refuted :
  ~ C04_go_decoder_delta_accepts_spec_full_statement.
Proof. exact go_dbp_accepts_spec_full_refuted. Qed.

(** Go decode (Go encode xs ++ tail) = (xs, tail), int32 and int64 *)
Theorem C04_go_decoder_delta_int32 : forall xs tail,
  Forall (in_sint 32) xs -> N.of_nat (length xs) <= max_int32 -> wf_bytes tail ->
  go_dbp_dec 32 (DeltaBP.enc 32 xs ++ tail) = GOk (xs, tail).
Proof. exact (go_dbp_roundtrip 32 (or_introl eq_refl)). Qed.

Theorem C04_go_decoder_delta_int64 : forall xs tail,
  Forall (in_sint 64) xs -> N.of_nat (length xs) <= max_int32 -> wf_bytes tail ->
  go_dbp_dec 64 (DeltaBP.enc 64 xs ++ tail) = GOk (xs, tail).
Proof. exact (go_dbp_roundtrip 64 (or_intror eq_refl)). Qed.

(** ... and Go decode (encode xs ++ tail) = (xs, tail) for the encoder at EVERY
    geometry that Go's header checks admit (block size a multiple of 128 and at
    most 65536, mini-blocks of a multiple of 32 values): the pages of writers
    that do not choose 128 / 4 *)
Theorem C04_go_decoder_delta_any_geometry : forall bs nmb k xs tail,
  go_geometry bs nmb -> k = 32 \/ k = 64 ->
  Forall (in_sint k) xs -> N.of_nat (length xs) <= max_int32 -> wf_bytes tail ->
  go_dbp_dec k (DeltaBP.enc_g bs nmb k xs ++ tail) = GOk (xs, tail).
Proof. exact (fun bs nmb k xs tail Hg Hk => go_dbp_roundtrip_g bs nmb Hg k Hk xs tail). Qed.

Theorem C04_go_decoder_delta_byte_arrays_any_geometry : forall cap bs1 nmb1 bs2 nmb2 vs,
  go_geometry bs1 nmb1 -> go_geometry bs2 nmb2 ->
  Forall short vs -> Forall wf_bytes vs ->
  N.of_nat (length vs) <= max_int32 -> N.of_nat (length (concat vs)) < 2 ^ 32 ->
  go_dlba_dec (dlba_enc_g bs1 nmb1 vs) = GOk (concat vs, offsets_from 0 vs)
  /\ go_dba_dec (dba_enc_g cap bs1 nmb1 bs2 nmb2 vs) = GOk vs.
Proof.
  exact (fun cap bs1 nmb1 bs2 nmb2 vs H1 H2 Hs Hw Hn Hl =>
           conj (go_dlba_roundtrip_g bs1 nmb1 vs H1 Hs Hw Hn Hl)
                (go_dba_roundtrip_g cap bs1 nmb1 bs2 nmb2 vs H1 H2 Hs Hw Hn)).
Qed.

(** DELTA_LENGTH_BYTE_ARRAY: Go returns the value bytes and the offsets that
    cut them into the values; DELTA_BYTE_ARRAY: the values *)
Theorem C04_go_decoder_delta_length_byte_array : forall vs,
  Forall short vs -> Forall wf_bytes vs ->
  N.of_nat (length vs) <= max_int32 -> N.of_nat (length (concat vs)) < 2 ^ 32 ->
  go_dlba_dec (dlba_enc vs) = GOk (concat vs, offsets_from 0 vs)
  /\ unflatten (concat vs) (offsets_from 0 vs) = vs.
Proof. exact go_dlba_roundtrip. Qed.

Theorem C04_go_decoder_delta_byte_array : forall vs,
  Forall short vs -> Forall wf_bytes vs -> N.of_nat (length vs) <= max_int32 ->
  go_dba_dec (dba_enc vs) = GOk vs.
Proof. exact go_dba_roundtrip. Qed.

Print Assumptions C04_go_decoder_rle_levels_accepts_spec_partial.
Print Assumptions C04_go_decoder_rle_int32_accepts_spec_partial.
Print Assumptions C04_go_decoder_rle_accepts_spec_full_refuted.
Print Assumptions C04_go_decoder_rle_levels_any_runs.
Print Assumptions C04_go_decoder_rle_int32_any_runs.
Print Assumptions C04_go_decoder_rle_levels.
Print Assumptions C04_go_decoder_rle_int32.
Print Assumptions C04_go_decoder_rle_dictionary_indexes.
Print Assumptions C04_go_decoder_rle_boolean.
Print Assumptions C04_go_decoder_rle_boolean_agrees_spec.
Print Assumptions C04_go_decoder_rle_boolean_any_runs.
Print Assumptions C04_go_decoder_delta_accepts_spec_partial.
Print Assumptions C04_go_decoder_delta_accepts_spec_full_refuted.
Print Assumptions C04_go_decoder_delta_int32.
Print Assumptions C04_go_decoder_delta_int64.
Print Assumptions C04_go_decoder_delta_any_geometry.
Print Assumptions C04_go_decoder_delta_byte_arrays_any_geometry.
Print Assumptions C04_go_decoder_delta_length_byte_array.
Print Assumptions C04_go_decoder_delta_byte_array.

(** Non-vacuity of the hypotheses of the [_accepts_spec_partial] theorems:
    streams that Go's encoders do not write. *)

(** levels, width 3: a run-length run of 3 values, a bit-packed group, a
    run-length run of 13 values *)
Example C04_ex_go_rle_foreign :
  dec_hybrid64 3 [6; 5; 3; 136; 198; 250; 26; 7]
  = Some [5; 5; 5; 0; 1; 2; 3; 4; 5; 6; 7; 7; 7; 7; 7; 7; 7; 7; 7; 7; 7; 7; 7; 7]
  /\ go_decode_levels 3 [6; 5; 3; 136; 198; 250; 26; 7]
     = GOk [5; 5; 5; 0; 1; 2; 3; 4; 5; 6; 7; 7; 7; 7; 7; 7; 7; 7; 7; 7; 7; 7; 7; 7].
Proof. split; vm_compute; reflexivity. Qed.

Example C04_ex_go_rle_runs_hyp :
  Forall (wf_run 3) [RunRLE 3 5; RunBP [[0; 1; 2; 3; 4; 5; 6; 7]]; RunRLE 13 7]
  /\ Forall go_run_ok [RunRLE 3 5; RunBP [[0; 1; 2; 3; 4; 5; 6; 7]]; RunRLE 13 7].
Proof.
  split; repeat constructor; vm_compute; try reflexivity; try discriminate.
Qed.

(** booleans: 10 x true as one run-length run, a bit-packed group, 3 x false *)
Example C04_ex_go_boolean_runs_hyp :
  Forall (wf_run 1) [RunRLE 10 1; RunBP [[0; 1; 1; 0; 0; 0; 0; 1]]; RunRLE 3 0]
  /\ Forall go_run_ok [RunRLE 10 1; RunBP [[0; 1; 1; 0; 0; 0; 0; 1]]; RunRLE 3 0]
  /\ Forall run_bit [RunRLE 10 1; RunBP [[0; 1; 1; 0; 0; 0; 0; 1]]; RunRLE 3 0].
Proof.
  repeat split; repeat constructor; vm_compute; try reflexivity; try discriminate.
Qed.

(** DELTA_BINARY_PACKED with block size 256, 2 mini-blocks of 128 values, a
    min delta that is not the minimum and a bit width larger than needed:
    nothing Go's encoder writes *)
Definition C04_ex_delta_foreign_stream : bytes :=
  [128; 2; 2; 3; 14] ++ [5] ++ [4; 0] ++ (1 :: repeat 0 63).

Example C04_ex_go_delta_foreign :
  dec64 32 C04_ex_delta_foreign_stream = Some ([7; 5; 2]%Z, [])
  /\ go_dbp_dec 32 C04_ex_delta_foreign_stream = GOk ([7; 5; 2]%Z, [])
  /\ exists h, go_dbp_header C04_ex_delta_foreign_stream = GOk h /\ first_ok 32 (snd (fst h)).
Proof.
  split; [vm_compute; reflexivity|]. split; [vm_compute; reflexivity|].
  eexists. split; [vm_compute; reflexivity|]. intros _. unfold in_sint. cbn. lia.
Qed.

Example C04_ex_go_delta_extremes :
  go_dbp_dec 32 (DeltaBP.enc 32 [-2147483648; 2147483647; 0; -1; 7]%Z ++ [9])
  = GOk ([-2147483648; 2147483647; 0; -1; 7]%Z, [9]).
Proof. vm_compute. reflexivity. Qed.

Example C04_ex_go_dba :
  go_dba_dec (dba_enc [[104; 101; 108; 108; 111]; [104; 101; 108; 112]; []; [104]])
  = GOk [[104; 101; 108; 108; 111]; [104; 101; 108; 112]; []; [104]].
Proof. vm_compute. reflexivity. Qed.

(** the repaired decodeBits on a conforming stream with a run-length run of 10
    values followed by a bit-packed group *)
Example C04_ex_go_boolean_unaligned :
  exists packed, go_decode_boolean [4; 0; 0; 0; 20; 1; 3; 0] = GOk packed /\
                 Some (firstn 16 (bits_of packed)) = dec_boolean_n 16 [4; 0; 0; 0; 20; 1; 3; 0].
Proof. exact go_boolean_unaligned_example. Qed.

(** Pinned (pre-repair) behaviour of Go's decoders, from the faithful models of
    the code before 70434b6 and 75827ad. *)

(** rle.decodeInt32 sliced a bit-packed run longer than the input unchecked: a
    panic (or, with spare capacity behind the slice, a decode of the bytes
    found there) where the specification decoder and the repaired code reject *)
Theorem C04_pinned_rle_int32_truncated_refuted :
  exists w b, dec_hybrid w b = None /\ go_decode_int32_pinned w b = GPanic
              /\ go_decode_int32_top w b = GErr.
Proof. exact go_int32_pinned_truncated_refuted. Qed.

(** rle.decodeBits placed every run-length run on a byte boundary: a
    conforming stream (10 x true, then a bit-packed group) decoded to other
    values than the specification decoder's, without error *)
Theorem C04_pinned_rle_boolean_unaligned_refuted :
  exists b n packed,
    go_decode_boolean_pinned b = GOk packed /\
    exists bits, dec_boolean_n n b = Some bits /\ firstn n (bits_of packed) <> bits.
Proof. exact go_boolean_pinned_unaligned_refuted. Qed.

Print Assumptions C04_pinned_rle_int32_truncated_refuted.
Print Assumptions C04_pinned_rle_boolean_unaligned_refuted.

(** RLE_DICTIONARY data pages as the page reader builds them from the decoded
    indexes and the num_values of the page header (dictionary.go,
    newIndexedPage; Enc/GoDecPage.v).  The model is a function of the page data
    and of num_values: nothing of a reused buffer can show through; the Go code
    is compared with it on pages decoded into new and into dirty reused buffers
    (harness/c04/page.go).

    A page written by the library (all the indexes present): exactly the indexes. *)
Theorem C04_go_indexed_page_roundtrip : forall src,
  Forall (fun v => v < 2 ^ 32) src -> N.of_nat (length src) <= max_count ->
  exists b, enc_dict_indexes src = Some b /\ go_indexed_page (length src) b = GOk src.
Proof. exact go_indexed_page_roundtrip. Qed.

(** any page data Go's index decoder accepts that holds at least num_values
    indexes (more: the padding of a last bit-packed group): the first
    num_values of them *)
Theorem C04_go_indexed_page_conforming : forall n data ix,
  go_decode_dict data = GOk ix -> (n <= length ix)%nat -> go_indexed_page n data = GOk (firstn n ix).
Proof. exact go_indexed_page_conforming. Qed.

(** page data holding FEWER indexes than num_values -- not a conforming page:
    Encodings.md has the data hold all the values of the page; accepted by the
    library, which reads the missing indexes as 0 *)
Theorem C04_go_indexed_page_short_streams : forall n data ix,
  go_decode_dict data = GOk ix -> (length ix <= n)%nat ->
  go_indexed_page n data = GOk (ix ++ repeat 0 (n - length ix)).
Proof. exact go_indexed_page_short. Qed.

Theorem C04_go_indexed_page_length : forall n ix, length (indexed_page_indexes n ix) = n.
Proof. exact indexed_page_length. Qed.

(** bit width 2, one run-length run of three times the index 1, num_values 10 *)
Example C04_ex_go_indexed_page_short :
  go_decode_dict [2; 6; 1] = GOk [1; 1; 1]
  /\ go_indexed_page 10 [2; 6; 1] = GOk [1; 1; 1; 0; 0; 0; 0; 0; 0; 0].
Proof. split; vm_compute; reflexivity. Qed.

Print Assumptions C04_go_indexed_page_roundtrip.
Print Assumptions C04_go_indexed_page_conforming.
Print Assumptions C04_go_indexed_page_short_streams.
Print Assumptions C04_go_indexed_page_length.
