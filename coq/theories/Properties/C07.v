(** C07 — bloom filters never answer absent for a value that was written.
    Statements only; proofs are in Bloom/FilterProofs.v, Bloom/XXHashProofs.v
    and Bloom/HashingProofs.v.  The models are Bloom/XXHash.v (XXH64, seed 0),
    Bloom/Filter.v (split-block filter, salts and block size taken from the
    generated PQ.Generated.Consts) and Bloom/Hashing.v (write-side hashing of
    page data per physical type, read-side Value.hash). *)
From Coq Require Import List NArith ZArith Bool Arith Lia.
From PQ Require Import Bloom.XXHash Bloom.Filter Bloom.Hashing
  Bloom.FilterProofs Bloom.XXHashProofs Bloom.HashingProofs Bloom.OrderProofs.
Import ListNotations.
Open Scope N_scope.

(** Every key inserted in a filter with n > 0 blocks (n below 2^31: the scale
    argument of fasthash1x64 is an int32) checks true afterwards, whatever
    the filter contained before and whatever else is inserted. *)
Theorem C07_check_after_insert : forall (hs : list N) (f : filter) (h : N),
  (0 < length f)%nat -> N.of_nat (length f) < 2 ^ 31 ->
  Forall (fun x => x < 2 ^ 64) hs -> In h hs ->
  filter_check (filter_insert_bulk f hs) h = true.
Proof. intros hs f h H0 H31. exact (check_after_insert hs f h (conj H0 H31)). Qed.
Print Assumptions C07_check_after_insert.

Theorem C07_check_after_insert_empty : forall (n : nat) (hs : list N) (h : N),
  (0 < n)%nat -> N.of_nat n < 2 ^ 31 -> Forall (fun x => x < 2 ^ 64) hs -> In h hs ->
  filter_check (filter_insert_bulk (empty_filter n) hs) h = true.
Proof. intros n hs h H0 H31. exact (check_after_insert hs _ h (blocks_ok_empty n H0 H31)). Qed.
Print Assumptions C07_check_after_insert_empty.

(** Insert never clears a bit: what checked true still checks true. *)
Theorem C07_insert_monotone : forall (f : filter) (x y : N),
  filter_check f y = true -> filter_check (filter_insert f x) y = true.
Proof. exact filter_check_insert_mono. Qed.
Print Assumptions C07_insert_monotone.

Theorem C07_insert_bulk_monotone : forall (xs : list N) (f : filter) (y : N),
  filter_check f y = true -> filter_check (filter_insert_bulk f xs) y = true.
Proof. exact filter_check_bulk_mono. Qed.
Print Assumptions C07_insert_bulk_monotone.

(** The specialised hashes are XXH64 of the K little-endian bytes. *)
Theorem C07_specialised_hash_eq :
  (forall v, v < 2 ^ 8 -> sum64uint8 v = xxh64 (le_bytes 1 v)) /\
  (forall v, v < 2 ^ 16 -> sum64uint16 v = xxh64 (le_bytes 2 v)) /\
  (forall v, v < 2 ^ 32 -> sum64uint32 v = xxh64 (le_bytes 4 v)) /\
  (forall v, v < 2 ^ 64 -> sum64uint64 v = xxh64 (le_bytes 8 v)) /\
  (forall b, length b = 16%nat -> sum64uint128 b = xxh64 b).
Proof.
  exact (conj sum64uint8_eq_le (conj sum64uint16_eq (conj sum64uint32_eq
        (conj sum64uint64_eq sum64uint128_eq)))).
Qed.
Print Assumptions C07_specialised_hash_eq.

(** Every hash the writer inserts is a uint64 (so the block index is in range). *)
Theorem C07_hashes_are_u64 : forall p, Forall (fun x => x < 2 ^ 64) (hashes_write p).
Proof. exact hashes_write_u64. Qed.
Print Assumptions C07_hashes_are_u64.

(** For every physical type: the hash the reader computes for a non-null
    value v is among the hashes the writer inserts for a page containing v. *)
Theorem C07_write_read_hash_agree : forall (t : ptype) (vs : list value) (v : value),
  Forall (typed t) vs -> In v vs ->
  In (hash_read v) (hashes_write (page_of_values t vs)).
Proof. exact write_read_hash_agree. Qed.
Print Assumptions C07_write_read_hash_agree.

(** Boolean pages that are slices at any bit offset (bits of neighbouring
    values before, padding after) still yield the key of each of their values. *)
Theorem C07_boolean_page_any_alignment : forall (pre bits post : list bool) (b : bool),
  In b bits ->
  In (hash_read (VBoolean b)) (hashes_write (PBoolean (pack (pre ++ bits ++ post)))).
Proof. exact boolean_page_agree. Qed.
Print Assumptions C07_boolean_page_any_alignment.

(** CheckSplitBlock on the serialised filter = Check on the filter in memory. *)
Theorem C07_check_through_bytes : forall (f : filter) (x : N),
  wf_filter f -> check_split_block (filter_bytes f) x = filter_check f x.
Proof. exact check_split_block_bytes. Qed.
Print Assumptions C07_check_through_bytes.

(** End to end: the filter of a column chunk is built by inserting the hashes
    of its pages (data pages one by one, or the dictionary page) in an empty
    filter of n > 0 blocks and stored as bytes; FileBloomFilter.Check of any
    value of any of those pages answers true. *)
Theorem C07_written_value_checks_true :
  forall (t : ptype) (nblocks : nat) (pages : list (list value)) (page : list value) (v : value),
  (0 < nblocks)%nat -> N.of_nat nblocks < 2 ^ 31 ->
  Forall (Forall (typed t)) pages -> In page pages -> In v page ->
  file_check (filter_bytes (chunk_filter nblocks t pages)) v = true.
Proof. exact written_value_checks_true. Qed.
Print Assumptions C07_written_value_checks_true.

(** The same when the filter is not empty to start with. *)
Theorem C07_written_value_checks_true_from :
  forall (t : ptype) (f : filter) (pages : list (list value)) (page : list value) (v : value),
  (0 < length f)%nat -> N.of_nat (length f) < 2 ^ 31 -> wf_filter f ->
  Forall (Forall (typed t)) pages -> In page pages -> In v page ->
  file_check (filter_bytes (write_pages_to_filter f (map (page_of_values t) pages))) v = true.
Proof.
  intros t f pages page v H0 H31. exact (written_value_checks_true_from t f pages page v (conj H0 H31)).
Qed.
Print Assumptions C07_written_value_checks_true_from.

(** Before the repair commit e35cc49 EncodeBoolean inserted one key per
    bit-packed byte of the page.  The faithful model of that code refutes the
    write/read agreement and the end-to-end statement: eight true values pack
    to the byte 0xFF, the reader looks up the hash of the byte 1. *)
Theorem C07_pinned_boolean_refuted :
  exists (vs : list value) (v : value),
    Forall (typed TBoolean) vs /\ In v vs /\
    ~ In (hash_read v) (hashes_write_pinned (page_of_values TBoolean vs)) /\
    file_check (filter_bytes (write_page_to_filter_pinned (empty_filter 1) (page_of_values TBoolean vs))) v = false.
Proof.
  exists pinned_witness, (VBoolean true).
  split; [repeat constructor|]. split; [left; reflexivity|].
  split; [exact pinned_boolean_hash_disagree|exact pinned_boolean_check_false].
Qed.
Print Assumptions C07_pinned_boolean_refuted.

(** Non-vacuity: concrete well-typed pages of several types; the written
    values check true, and the filters are not trivially full (an absent
    value checks false). *)
Definition ex_uuid (k : N) : value := VFixedLenByteArray (map (fun i => (k + i) mod 256) [0;1;2;3;4;5;6;7;8;9;10;11;12;13;14;15]).
Definition ex_uuid_pages : list (list value) := [[ex_uuid 1; ex_uuid 40]; [ex_uuid 200]].

Example C07_ex_uuid_typed : Forall (Forall (typed (TFixedLenByteArray 16))) ex_uuid_pages.
Proof. repeat constructor. Qed.

Example C07_ex_uuid_present :
  file_check (filter_bytes (chunk_filter 2 (TFixedLenByteArray 16) ex_uuid_pages)) (ex_uuid 200) = true.
Proof. vm_compute. reflexivity. Qed.

Example C07_ex_uuid_absent :
  file_check (filter_bytes (chunk_filter 2 (TFixedLenByteArray 16) ex_uuid_pages)) (ex_uuid 7) = false.
Proof. vm_compute. reflexivity. Qed.

Definition ex_bool_page : list value := repeat (VBoolean true) 8.

Example C07_ex_bool_typed : Forall (typed TBoolean) ex_bool_page.
Proof. repeat constructor. Qed.

Example C07_ex_bool_present :
  file_check (filter_bytes (chunk_filter 1 TBoolean [ex_bool_page])) (VBoolean true) = true.
Proof. vm_compute. reflexivity. Qed.

Example C07_ex_bool_absent :
  file_check (filter_bytes (chunk_filter 1 TBoolean [ex_bool_page])) (VBoolean false) = false.
Proof. vm_compute. reflexivity. Qed.

Definition ex_strings : list value := [VByteArray [104; 105]; VByteArray []; VByteArray (repeat 120 40)].

Example C07_ex_strings_typed : Forall (typed TByteArray) ex_strings.
Proof. repeat constructor. Qed.

Example C07_ex_strings_present :
  forallb (file_check (filter_bytes (chunk_filter 3 TByteArray [ex_strings]))) ex_strings = true.
Proof. vm_compute. reflexivity. Qed.

Example C07_ex_hashes_u64 : Forall (fun x => x < 2 ^ 64) [xxh64 []; sum64uint32 7].
Proof. repeat constructor. Qed.

(** Known digests of XXH64: "" and "a". *)
Example C07_ex_xxh64_vectors :
  xxh64 [] = 17241709254077376921 /\ xxh64 [97] = 15154266338359012955.
Proof. vm_compute. split; reflexivity. Qed.

(** File level: for every non-boolean type the stored filter is the fold of
    insert over the read-side hashes of all values of the chunk, so it depends
    only on the set of values: the page-by-page, from-dictionary and
    re-read-pages strategies, any page boundaries, any order and the
    dictionary's removal of duplicates all store the same bytes.  (Boolean
    pages may add the key of false for the padding bits of a partial byte.) *)
Theorem C07_file_level : forall (t : ptype) (n : nat) (pages : list (list value)),
  t <> TBoolean -> Forall (Forall (typed t)) pages ->
  chunk_filter n t pages = filter_insert_bulk (empty_filter n) (map hash_read (concat pages)).
Proof. exact chunk_filter_fold. Qed.
Print Assumptions C07_file_level.

Theorem C07_file_level_same_values : forall (t : ptype) (n : nat) (pages pages' : list (list value)),
  t <> TBoolean ->
  Forall (Forall (typed t)) pages -> Forall (Forall (typed t)) pages' ->
  incl (concat pages) (concat pages') -> incl (concat pages') (concat pages) ->
  chunk_filter n t pages = chunk_filter n t pages'.
Proof. exact chunk_filter_same_values. Qed.
Print Assumptions C07_file_level_same_values.

Theorem C07_insert_order_irrelevant : forall (xs ys : list N) (f : filter),
  incl xs ys -> incl ys xs -> filter_insert_bulk f xs = filter_insert_bulk f ys.
Proof. exact bulk_same_set. Qed.
Print Assumptions C07_insert_order_irrelevant.

Example C07_ex_file_level :
  chunk_filter 2 TInt32 [[VInt32 5; VInt32 9]; [VInt32 5]] = chunk_filter 2 TInt32 [[VInt32 9; VInt32 5]].
Proof. vm_compute. reflexivity. Qed.
