(** C14 — I/O failures and truncated files are always reported, never silently
    absorbed.  Statements only; proofs are in Sink/Proofs.v and
    Sink/ReaderProofs.v, the models in Sink/Model.v and Sink/Reader.v. *)
From Coq Require Import List NArith Bool Arith Lia.
From PQ Require Import Sink.Model Sink.Proofs Sink.Termination Sink.Reader Sink.ReaderProofs.
From PQ Require Import Sink.Liveness Sink.Copy Sink.CopyProofs Sink.Demand Sink.DemandProofs Sink.FullErr Sink.Bloom Sink.Once.
Import ListNotations.
Open Scope N_scope.

(** The table of write sites of Flush/Close (Sink/Model.v, [site_checked],
    extracted by hand from writer.go with the line of every check): every site's
    error is looked at by every caller up to the API.  Proved by computation, so
    that a site entered as unchecked breaks this proof and, through the
    hypothesis below, every theorem about Close. *)
Theorem C14_all_sites_checked : all_sites_checked = true.
Proof. reflexivity. Qed.

Section Writer.
  Variable A : Type.   (* bytes *)

  (** A nil error from Close (and from every Write/Flush before it): the
      destination accepted exactly the concatenation of all modules of the file —
      for every fault script, with and without the bufio layer, any buffer size,
      every way the sites cut their bytes into Write calls. *)
  Theorem C14_close_nil_means_complete :
    all_sites_checked = true ->
    forall (f : fault) (bufsize : option N) (xs : list (site A)) t' i,
    close_current A f bufsize xs = (t', ENone, i) ->
    sink_bytes A (snk t') = all_data A xs.
  Proof.
    intros H f bs xs t' i. destruct (checked_all H) as [Hk _].
    exact (close_nil_means_complete A site_checked Hk f bs xs t' i).
  Qed.

  (** A destination that fails at byte offset k inside the file (accepting the
      bytes before k): some call reports an error.  A destination that once
      returns a short count with a nil error at k: an error is reported, or the
      rest was written again and nothing is missing (bufio.Writer.Write and
      memory.Buffer.WriteTo retry); without the bufio layer, and when no module
      travels below offsetTrackingWriter through memory.Buffer.WriteTo, it is
      always reported. *)
  Theorem C14_sink_fault_surfaces :
    all_sites_checked = true ->
    forall (bufsize : option N) (xs : list (site A)) (k : N),
    k < nlen A (all_data A xs) ->
    (forall t' e i, close_current A (ErrAt k) bufsize xs = (t', e, i) -> e <> ENone) /\
    (forall t' e i, close_current A (ShortAt k) bufsize xs = (t', e, i) ->
       e <> ENone \/ sink_bytes A (snk t') = all_data A xs) /\
    (no_lower_write_to A xs ->
     forall t' e i, close_current A (ShortAt k) None xs = (t', e, i) -> e <> ENone).
  Proof.
    intros H bs xs k Hk. destruct (checked_all H) as [Hc _]. repeat split.
    - intros t' e i. exact (err_fault_surfaces A site_checked Hc k bs xs t' e i Hk).
    - intros t' e i. exact (short_fault_surfaces A site_checked Hc k bs xs t' e i).
    - intros Hn t' e i. exact (short_fault_unbuffered_reported A site_checked Hc k xs t' e i Hn Hk).
  Qed.
End Writer.

(** The fuelled loops of the model (bufio.Writer.Write/WriteString,
    memory.Buffer.WriteTo) end by their own exit condition under the fault
    model: the value the model would give on fuel exhaustion (io.ErrShortWrite)
    is never produced — an error returned by Write is the sticky error of the
    bufio.Writer, and more fuel does not change the result of WriteTo. *)
Theorem C14_model_loops_terminate : forall (A : Type),
  (forall direct (s : sink A) (b : bufw A) p s' b' n e,
     wf_sink A s -> wf_buf A b -> 1 <= b_size b ->
     bufio_write_gen A direct s b p = (s', b', n, e) -> e = b_err b') /\
  (forall w, w = otw_write A true \/ w = lower_write A ->
     forall (c : list A) (t : st A) k, wf_st A t ->
     retry A w (length c + 2) t c = retry A w (length c + 2 + k) t c).
Proof.
  intros A. split.
  - exact (bufio_write_gen_error_is_sticky A).
  - exact (write_to_fuel_enough A).
Qed.

Print Assumptions C14_all_sites_checked.
Print Assumptions C14_close_nil_means_complete.
Print Assumptions C14_sink_fault_surfaces.
Print Assumptions C14_model_loops_terminate.

(** The readAt wrapper (file.go, func readAt): for every answer (n, err) of an
    io.ReaderAt that honours its contract (n < len(p) => err != nil) the wrapper
    returns the same n; its error is nil exactly when the buffer was filled, and
    the reader's error is handed on unchanged otherwise. *)
Theorem C14_readat_never_masks : forall len r,
  readerat_ok len r ->
  fst (readat_wrap len r) = fst r /\
  (snd (readat_wrap len r) = RNone <-> fst r = len) /\
  (fst r < len -> snd (readat_wrap len r) = snd r /\ snd r <> RNone).
Proof. exact readat_never_masks. Qed.

(** File.ReadAt (file.go) over such a reader is such a reader: it never
    returns fewer bytes than asked for together with a nil error. *)
Theorem C14_file_readat_never_masks : forall size ra off len,
  (forall o l, readerat_ok l (ra o l)) -> readerat_ok len (file_readat size ra off len).
Proof. exact file_readat_ok. Qed.

(** Every strict prefix p of a file f: OpenFile fails — or p itself ends in
    footer ++ length ++ magic which decodes (OpenFile cannot tell p from a
    complete file then), and whatever that footer describes, a sequence of
    reads fails at the first range that needs a byte beyond p, while ranges
    inside p return the bytes of f. *)
Theorem C14_prefix_rejected : forall (M : Type) (decode : list byte -> option M) has_key f p q,
  f = p ++ q -> q <> [] ->
  (exists e, open_file M decode has_key p = OpenErr e) \/
  (exists m', open_file M decode has_key p = OpenOk m' /\ valid_trailer M decode p /\
     (forall rs, (exists off len, In (off, len) rs /\ 0 < len /\ flen p < off + len) -> read_all p rs = None) /\
     (forall off len, off + len <= flen p -> read_range p off len = RdOk (slice f off len))).
Proof. exact prefix_rejected. Qed.

Theorem C14_prefix_without_trailer_rejected : forall (M : Type) (decode : list byte -> option M) has_key p,
  ~ valid_trailer M decode p -> exists e, open_file M decode has_key p = OpenErr e.
Proof. exact prefix_without_trailer_rejected. Qed.

(** The same under the file options that change how OpenFile reads the ends of
    the file: SkipMagicBytes (no header stage), OptimisticRead with any
    ReadBufferSize (one read of min(ReadBufferSize, L) >= 8 bytes of the tail,
    a footer inside it is not read again).  The options that act after the
    footer was decoded (SkipPageIndex, SkipBloomFilters, PrefetchBloomFilters,
    read mode) do not change the open stages.  Without SkipMagicBytes the
    verdict is the one of the default configuration. *)
Theorem C14_prefix_rejected_under_options : forall (M : Type) (decode : list byte -> option M)
    skip_magic optimistic rbs has_key f p q,
  f = p ++ q -> q <> [] ->
  (exists e, open_file_cfg M decode skip_magic optimistic rbs has_key p = OpenErr e) \/
  (exists m', open_file_cfg M decode skip_magic optimistic rbs has_key p = OpenOk m' /\ valid_trailer M decode p /\
     (forall rs, (exists off len, In (off, len) rs /\ 0 < len /\ flen p < off + len) -> read_all p rs = None) /\
     (forall off len, off + len <= flen p -> read_range p off len = RdOk (slice f off len))).
Proof. exact prefix_rejected_cfg. Qed.

Theorem C14_prefix_without_trailer_rejected_under_options : forall (M : Type) (decode : list byte -> option M)
    skip_magic optimistic rbs has_key p,
  ~ valid_trailer M decode p -> exists e, open_file_cfg M decode skip_magic optimistic rbs has_key p = OpenErr e.
Proof. exact prefix_without_trailer_rejected_cfg. Qed.

Theorem C14_optimistic_read_same_verdict : forall (M : Type) optimistic rbs has_key L hdr tail decode_at,
  open_core_cfg M false optimistic rbs has_key L hdr tail decode_at = open_core M has_key L hdr tail decode_at.
Proof. exact open_core_cfg_tail_stages. Qed.

(** A column chunk (pages = (header length, body length)) whose source ends
    before the chunk does (anywhere: inside a header or a body, exactly between
    two pages, exactly between a header and its body) never ends with a plain
    io.EOF; a complete chunk is read to its end. *)
Theorem C14_chunk_early_end_reported : forall pages size avail,
  sumN pages = size -> avail < size ->
  snd (read_pages true size avail 0 pages) = PUnexpected.
Proof. intros. apply chunk_early_end_reported; lia. Qed.

Theorem C14_chunk_complete_read : forall pages size avail,
  sumN pages = size -> size <= avail -> (forall h b, In (h, b) pages -> 0 < h) ->
  read_pages true size avail 0 pages = (length pages, PEnd).
Proof. intros. apply chunk_complete_read; auto. Qed.

(** The same after a seek: SeekToRow then ReadPage to the end of the chunk,
    with an offset index (the stream goes to the page of the row) and without
    (SkipPageIndex or a file without page index: every page before the row is
    read and dropped).  Wherever the source ends before the chunk does --
    inside a page that is only skipped over, or later -- the sequence never
    ends with a plain io.EOF; over a complete source exactly the pages from the
    row on are returned. *)
Theorem C14_seek_early_end_reported : forall noindex size avail dict skipped rest,
  sumN dict + sumN skipped + sumN rest = size -> 0 < sumN rest -> avail < size ->
  snd (seek_read_pages true noindex size avail dict skipped rest) = PUnexpected.
Proof. exact seek_early_end_reported. Qed.
Print Assumptions C14_seek_early_end_reported.

Theorem C14_seek_complete_read : forall cur noindex size avail dict skipped rest,
  sumN dict + sumN skipped + sumN rest = size -> size <= avail ->
  (forall h b, In (h, b) (skipped ++ rest) -> 0 < h) ->
  seek_read_pages cur noindex size avail dict skipped rest = (length rest, PEnd).
Proof. exact seek_complete_read. Qed.
Print Assumptions C14_seek_complete_read.

(* source cut inside the body of the second skipped page: without offset index
   the cut is met while skipping, with one when the stream is repositioned *)
Example C14_ex_seek_cut_in_skipped_page :
  seek_read_pages true true 45 22 [(2, 3)] [(3, 7); (3, 7)] [(3, 7); (3, 7)] = (0%nat, PUnexpected)
  /\ seek_read_pages true false 45 22 [(2, 3)] [(3, 7); (3, 7)] [(3, 7); (3, 7)] = (0%nat, PUnexpected)
  /\ seek_read_pages true true 45 36 [(2, 3)] [(3, 7); (3, 7)] [(3, 7); (3, 7)] = (1%nat, PUnexpected)
  /\ seek_read_pages true true 45 45 [(2, 3)] [(3, 7); (3, 7)] [(3, 7); (3, 7)] = (2%nat, PEnd).
Proof. vm_compute. repeat split. Qed.

Print Assumptions C14_readat_never_masks.
Print Assumptions C14_file_readat_never_masks.
Print Assumptions C14_prefix_rejected.
Print Assumptions C14_prefix_without_trailer_rejected.
Print Assumptions C14_prefix_rejected_under_options.
Print Assumptions C14_prefix_without_trailer_rejected_under_options.
Print Assumptions C14_optimistic_read_same_verdict.
Print Assumptions C14_chunk_early_end_reported.
Print Assumptions C14_chunk_complete_read.

(** ** Non-vacuity *)

Definition bs (off n : nat) : list N := map (fun i => N.of_nat (i mod 251)) (seq off n).

(* a file of 8 modules, 69 bytes: magic, dictionary page (2 writes), data pages
   (2 chunks of the page buffer), a deferred bloom filter, column index and
   offset index (thrift: byte by byte and a string), footer, length + magic *)
Definition ex_file : list (site N) :=
  [ mkSite KHeader MWrite [(true, bs 0 4)];
    mkSite KDictPage MWrite [(false, bs 4 5); (false, bs 9 6)];
    mkSite KDataPages MWriteTo [(false, bs 15 12); (false, bs 27 9)];
    mkSite KBloomDeferred MLowerWriteTo [(false, bs 36 8)];
    mkSite KColumnIndex MWrite [(false, bs 44 1); (false, bs 45 1); (true, bs 46 3)];
    mkSite KOffsetIndex MWrite [(false, bs 49 1); (false, bs 50 2)];
    mkSite KFooter MWrite [(false, bs 52 1); (true, bs 53 8)];
    mkSite KFooterTail MWrite [(false, bs 61 8)] ].

Definition ex_file_unbuffered : list (site N) :=
  [ mkSite KHeader MWrite [(true, bs 0 4)];
    mkSite KDataPages MWriteTo [(false, bs 4 12); (false, bs 16 9)];
    mkSite KFooter MWrite [(false, bs 25 1); (true, bs 26 8)];
    mkSite KFooterTail MWrite [(false, bs 34 8)] ].

(* without a fault Close returns nil and the destination holds the file, for
   every buffer configuration *)
Example C14_ex_fault_free :
  forallb (fun b => let '(e, i, pos, complete) := close_verdict true NoFault b ex_file in
                    negb (is_err e) && complete && (pos =? 69))
          [None; Some 1; Some 7; Some 16; Some 100] = true.
Proof. vm_compute. reflexivity. Qed.

(* the hypotheses of C14_sink_fault_surfaces hold for every offset of the file;
   an error at offset 20 (inside the data pages) is reported by site 2 *)
Example C14_ex_total : nlen N (all_data N ex_file) = 69.
Proof. vm_compute. reflexivity. Qed.

Example C14_ex_err_reported : close_verdict true (ErrAt 20) None ex_file = (ESink, 2%nat, 20, false).
Proof. vm_compute. reflexivity. Qed.

(* with a 7 byte buffer the same failure is reported when the buffer is flushed *)
Example C14_ex_err_reported_buffered :
  close_verdict true (ErrAt 20) (Some 7) ex_file = (ESink, 2%nat, 20, false).
Proof. vm_compute. reflexivity. Qed.

(* a short count: reported as io.ErrShortWrite without buffer... *)
Example C14_ex_short_reported : close_verdict true (ShortAt 20) None ex_file = (EShort, 2%nat, 20, false).
Proof. vm_compute. reflexivity. Qed.

(* ...retried by bufio.Writer.Write (5 byte buffer: the 12 byte chunk goes directly to the
   destination): nil and complete *)
Example C14_ex_short_retried : close_verdict true (ShortAt 20) (Some 5) ex_file = (ENone, 8%nat, 69, true).
Proof. vm_compute. reflexivity. Qed.

(* ...and a short count hitting the flush of the 100 byte buffer at the very
   end is reported by the final flush of Close (index = number of sites) *)
Example C14_ex_short_final_flush : close_verdict true (ShortAt 20) (Some 100) ex_file = (EShort, 8%nat, 20, false).
Proof. vm_compute. reflexivity. Qed.

Example C14_ex_no_lower_write_to : no_lower_write_to N ex_file_unbuffered.
Proof. intros x [<-|[<-|[<-|[<-|[]]]]]; discriminate. Qed.

(** The offsetTrackingWriter of the pinned tree (before commit 1e4fc72: the
    short count of the destination was handed on with its nil error) refutes
    C14_close_nil_means_complete and the third clause of C14_sink_fault_surfaces:
    unbuffered, one short count inside the magic, Close returns nil and three
    bytes are missing. *)
Theorem C14_pinned_short_write_refuted :
  exists (xs : list (site N)) (k : N) t' i,
    k < nlen N (all_data N xs) /\ no_lower_write_to N xs /\
    close_pinned N (ShortAt k) None xs = (t', ENone, i) /\
    sink_bytes N (snk t') <> all_data N xs.
Proof.
  exists ex_file_unbuffered, 1.
  destruct (close_pinned N (ShortAt 1) None ex_file_unbuffered) as [[t' e] i] eqn:E.
  exists t', i. split; [vm_compute; reflexivity|]. split; [exact C14_ex_no_lower_write_to|].
  vm_compute in E. inversion E; subst; clear E. split; [reflexivity|].
  vm_compute. discriminate.
Qed.

(* the same input on the current model is reported *)
Example C14_ex_current_reports : close_verdict true (ShortAt 1) None ex_file_unbuffered = (EShort, 0%nat, 1, false).
Proof. vm_compute. reflexivity. Qed.

(** reader side: a 16 byte image  magic ++ body ++ footer ++ len ++ magic  whose
    footer decodes opens, none of its strict prefixes does *)
Definition ex_decode (b : list byte) : option unit := if beqb b [1; 2; 3] then Some tt else None.
Definition ex_image : list byte := magic_par1 ++ [9] ++ [1; 2; 3] ++ [3; 0; 0; 0] ++ magic_par1.

Example C14_ex_image_opens : open_file unit ex_decode false ex_image = OpenOk tt.
Proof. vm_compute. reflexivity. Qed.

Example C14_ex_prefixes_rejected :
  forallb (fun n => match open_file unit ex_decode false (firstn n ex_image) with OpenErr _ => true | OpenOk _ => false end)
          (seq 0 (length ex_image)) = true.
Proof. vm_compute. reflexivity. Qed.

(* a prefix that ends in a planted trailer passes the magic and length checks
   and is rejected by the footer decoder *)
Example C14_ex_planted_trailer :
  open_file unit ex_decode false (magic_par1 ++ [7; 7; 7; 2; 0; 0; 0] ++ magic_par1) = OpenErr OFooterDecode.
Proof. vm_compute. reflexivity. Qed.

(* every strict prefix of the example image is rejected under the options too:
   SkipMagicBytes x OptimisticRead x ReadBufferSize 1, 8, 9, 16, 4096; the whole
   image opens under all of them; the 5-byte prefix (shorter than the 8 bytes of
   length + magic) is a short tail read also with OptimisticRead *)
Example C14_ex_prefixes_rejected_under_options :
  forallb (fun '(sm, o, rbs) =>
    forallb (fun n => match open_file_cfg unit ex_decode sm o rbs false (firstn n ex_image) with OpenErr _ => true | OpenOk _ => false end)
            (seq 0 (length ex_image)) &&
    match open_file_cfg unit ex_decode sm o rbs false ex_image with OpenOk _ => true | OpenErr _ => false end)
    (list_prod (list_prod [false; true] [false; true]) [1; 8; 9; 16; 4096]) = true.
Proof. vm_compute. reflexivity. Qed.

Example C14_ex_optimistic_short_tail :
  open_file_cfg unit ex_decode false true 4096 false (firstn 5 ex_image) = OpenErr OShortTail /\
  open_file_cfg unit ex_decode true true 4096 false (firstn 3 ex_image) = OpenErr OShortTail /\
  tail_read_size true 4096 5 = 8 /\ tail_read_size true 4096 69 = 69 /\ tail_read_size true 16 69 = 16.
Proof. vm_compute. repeat split; reflexivity. Qed.

(* an encrypted footer (trailing magic "PARE") opened without keys is an error
   also when the header magic does not announce it (a corrupt or truncated file
   whose data plants such a trailer) and under SkipMagicBytes, where the header
   is not looked at; with keys the footer decoder decides *)
Example C14_ex_encrypted_trailer_needs_keys :
  let img := magic_par1 ++ [9] ++ [1; 2; 3] ++ [3; 0; 0; 0] ++ magic_pare in
  let enc := magic_pare ++ [9] ++ [1; 2; 3] ++ [3; 0; 0; 0] ++ magic_pare in
  open_file unit ex_decode false img = OpenErr ONeedDecryption /\
  open_file unit ex_decode true img = OpenOk tt /\
  open_file_cfg unit ex_decode true true 4096 false enc = OpenErr ONeedDecryption /\
  open_file_cfg unit ex_decode true false 4096 false (firstn 9 enc) = OpenErr OBadTailMagic /\
  open_file_cfg unit ex_decode false true 4096 false enc = OpenErr ONeedDecryption.
Proof. vm_compute. repeat split; reflexivity. Qed.

Example C14_ex_readat_contract : readerat_ok 10 (4, REOF) /\ readat_wrap 10 (4, REOF) = (4, REOF) /\
                                 readat_wrap 10 (10, REOF) = (10, RNone).
Proof. repeat split; cbn; try lia; discriminate. Qed.

(* a wrapper that dropped the error whenever some bytes were read would break the statement *)
Example C14_ex_lenient_wrapper_masks :
  readerat_ok 10 (4, REOF) /\ snd (readat_wrap_lenient 10 (4, REOF)) = RNone.
Proof. repeat split; cbn; try lia; discriminate. Qed.

(* three pages of 3 + 7 bytes, the source ends after the second page; after the
   header of the third *)
Example C14_ex_chunk_cut_between_pages : read_pages true 30 20 0 [(3, 7); (3, 7); (3, 7)] = (2%nat, PUnexpected).
Proof. vm_compute. reflexivity. Qed.

Example C14_ex_chunk_cut_after_header : read_pages true 30 23 0 [(3, 7); (3, 7); (3, 7)] = (2%nat, PUnexpected).
Proof. vm_compute. reflexivity. Qed.

Example C14_ex_chunk_complete : read_pages true 30 30 0 [(3, 7); (3, 7); (3, 7)] = (3%nat, PEnd).
Proof. vm_compute. reflexivity. Qed.

(** FilePages.ReadPage of the pinned tree (before commit fc42a8f and its
    follow-up) took the io.EOF met at a page boundary, and the one met between
    a page header and its body, for the end of the chunk: two of three pages
    and a plain end. *)
Theorem C14_pinned_page_boundary_eof_refuted :
  exists pages size avail1 avail2,
    sumN pages = size /\ avail1 < size /\ avail2 < size /\
    snd (read_pages false size avail1 0 pages) <> PUnexpected /\
    snd (read_pages false size avail2 0 pages) <> PUnexpected.
Proof. exists [(3, 7); (3, 7); (3, 7)], 30, 20, 23. vm_compute. repeat split; discriminate. Qed.

(** ** Liveness: a destination that never fails *)

(** For every list of write sites (any cutting of the bytes into
    Write/WriteString calls, any of the four transfer mechanisms, i.e. any page
    buffer pool), with and without the bufio layer of any size >= 1
    (WriteBufferSize(0) is the writer without bufio.Writer), on the destination
    that never fails: no site returns an error (the run reaches the end,
    i = number of sites, so the calls of every prefix of the life returned nil
    as well), the final flush of Close returns nil, and the destination holds
    exactly the concatenation of all modules.  With
    C14_close_nil_means_complete (its converse direction for the bytes) this
    is: Close = nil iff nothing failed, and then the file is complete. *)
Theorem C14_fault_free_complete :
  all_sites_checked = true ->
  forall (A : Type) (bufsize : option N) (xs : list (site A)) t' e i,
  (forall sz, bufsize = Some sz -> 1 <= sz) ->
  close_current A NoFault bufsize xs = (t', e, i) ->
  e = ENone /\ i = length xs /\ sink_bytes A (snk t') = all_data A xs.
Proof.
  intros H A bs xs t' e i Hbs. destruct (checked_all H) as [Hk Hf].
  exact (fault_free_complete A site_checked final_flush_checked Hk Hf bs xs t' e i Hbs).
Qed.

(** ** The copy path (Writer.WriteRowGroup streaming column chunks from a source) *)

(** Scripts of items (Sink/Copy.v): ordinary write sites, sections copied from
    the source straight to the output (dictionary page, data pages, bloom
    filter; copySection), bloom filters staged in deferred buffers (copied or
    built), the flush of the deferred buffers by Close.  A copied section has a
    declared length n (from the source's footer; it is what the new footer
    records) and the source delivers its first avail bytes only.
    (1) All calls returned nil: the destination holds every module with its
        declared length, and no source was short — for every fault script of
        the destination and every buffer size.
    (2) Hence a short source is always reported (by WriteRowGroup or Close).
    (3) With a destination that does not fail it is reported as
        io.ErrUnexpectedEOF by the very call that copies (or stages) the first
        short section, i.e. by WriteRowGroup. *)
Theorem C14_copy_source_short_reported :
  all_sites_checked = true ->
  forall (A : Type) (f : fault) (bufsize : option N) (xs : list (item A)),
  (forall t' i, copy_current A f bufsize xs = (t', CNil, i) ->
     sink_bytes A (snk t') = declared A [] xs /\ has_short A xs = false) /\
  (has_short A xs = true ->
     forall t' e i, copy_current A f bufsize xs = (t', e, i) -> e <> CNil) /\
  (forall k, (forall sz, bufsize = Some sz -> 1 <= sz) -> first_short A 0 xs = Some k ->
     forall t' e i, copy_current A NoFault bufsize xs = (t', e, i) -> e = CSrc /\ i = k).
Proof.
  intros H A f bs xs. destruct (checked_all H) as [Hk Hf].
  unfold copy_current. rewrite Hf. split; [|split].
  - intros t' i E. exact (copy_nil_means_complete A site_checked Hk f bs xs t' i E).
  - intros Hs t' e i. exact (copy_source_short_reported A site_checked Hk f bs xs t' e i Hs).
  - intros k Hbs Hfs t' e i E.
    exact (copy_short_reported_by_copying_call A site_checked bs xs k t' e i Hbs Hfs E).
Qed.

(** liveness and destination faults on the copy path *)
Theorem C14_copy_fault_free_complete :
  all_sites_checked = true ->
  forall (A : Type) (bufsize : option N) (xs : list (item A)) t' e i,
  (forall sz, bufsize = Some sz -> 1 <= sz) -> has_short A xs = false ->
  copy_current A NoFault bufsize xs = (t', e, i) ->
  e = CNil /\ i = length xs /\ sink_bytes A (snk t') = declared A [] xs.
Proof.
  intros H A bs xs t' e i Hbs Hs. destruct (checked_all H) as [Hk Hf].
  unfold copy_current. rewrite Hf.
  exact (copy_fault_free_complete A site_checked Hk bs xs t' e i Hbs Hs).
Qed.

Theorem C14_copy_sink_fault_surfaces :
  all_sites_checked = true ->
  forall (A : Type) (bufsize : option N) (xs : list (item A)) (k : N) t' e i,
  k < nlen A (declared A [] xs) ->
  copy_current A (ErrAt k) bufsize xs = (t', e, i) -> e <> CNil.
Proof.
  intros H A bs xs k t' e i Hk. destruct (checked_all H) as [Hc Hf].
  unfold copy_current. rewrite Hf.
  exact (copy_err_fault_surfaces A site_checked Hc k bs xs t' e i Hk).
Qed.

(** A destination that TAKES every byte of a write and returns an error with
    the full count (a quota reached by this write, a failed commit of the
    block): [FullErrAt k], the write that takes the byte before offset k,
    0 < k <= size of the file.  No byte is missing, so completeness of the
    output says nothing: the error itself has to reach the caller.  It does,
    from every write site (with or without the bufio layer, whose sticky error
    keeps it until the next operation on the buffer) and on the copy path
    (copySection looks at the error whatever the count). *)
Theorem C14_full_count_error_surfaces :
  all_sites_checked = true ->
  forall (A : Type) (bufsize : option N) (xs : list (site A)) (k : N) t' e i,
  0 < k -> k <= nlen A (all_data A xs) ->
  close_current A (FullErrAt k) bufsize xs = (t', e, i) -> e <> ENone.
Proof.
  intros H A bs xs k t' e i Hk0 Hk. destruct (checked_all H) as [Hc _].
  exact (full_err_fault_surfaces A k site_checked Hc bs xs t' e i Hk0 Hk).
Qed.

Theorem C14_copy_full_count_error_surfaces :
  all_sites_checked = true ->
  forall (A : Type) (bufsize : option N) (xs : list (item A)) (k : N) t' e i,
  0 < k -> k <= nlen A (declared A [] xs) ->
  copy_current A (FullErrAt k) bufsize xs = (t', e, i) -> e <> CNil.
Proof.
  intros H A bs xs k t' e i Hk0 Hk. destruct (checked_all H) as [Hc Hf].
  unfold copy_current. rewrite Hf.
  exact (copy_full_err_fault_surfaces A k site_checked Hc bs xs t' e i Hk0 Hk).
Qed.

(* non-vacuity: the magic written without the bufio layer, the destination
   takes its four bytes and fails: the error is reported by site 0 although
   the destination holds every byte; with a buffer of 100 bytes the final
   flush of Close (index = number of sites) reports it; a copied section
   whose last write fails the same way is reported by the item that copies it *)
Example C14_full_count_error_example :
  close_verdict true (FullErrAt 4) None [mkSite KHeader MWrite [(true, [80; 65; 82; 49])]] = (ESink, 0%nat, 4, true) /\
  close_verdict true (FullErrAt 4) (Some 100) [mkSite KHeader MWrite [(true, [80; 65; 82; 49])]] = (ESink, 1%nat, 4, true) /\
  copy_verdict true (FullErrAt 6) None
    [IPlain (mkSite KHeader MWrite [(true, [80; 65; 82; 49])]); ICopied KCopiedData [(false, [1; 2])] 2] = (CDst ESink, 1%nat, 6, true).
Proof. vm_compute. repeat split. Qed.

(** The TRANSIENT fault of the destination (Sink/Once.v [once_write]: the
    first write that reaches offset k stops there with an error, every later
    write is complete; harness fault kind "once", swept through every write
    entry point).  Up to and including the first error the destination
    returns, it is the destination [ErrAt k] write by write - same bytes
    accepted, same count, same error - and that error comes with a short
    count: this is why the verdict of the model for [ErrAt k]
    (C14_err_fault_surfaces: first reporting site) is the one the harness
    demands of the transient fault.  That no later, successful call makes the
    writer forget the error is NOT in the model (which stops at the first
    report): it is the predicate of the sweep (every call returned nil => the
    destination returned no error and holds the complete file). *)
Theorem C14_transient_error_is_err_at_until_it_strikes :
  forall (A : Type) (k : N) (s : sink A) (p : list A),
  s_flt s = ErrAt k -> s_fired s = false ->
  let '(s1, n1, e1) := sink_write A s p in
  let '(s2, n2, e2) := once_write A k s p in
  s_rev s1 = s_rev s2 /\ s_pos s1 = s_pos s2 /\ n1 = n2 /\ e1 = e2 /\ s_fired s2 = is_err e2.
Proof. exact once_write_is_err_at. Qed.

Theorem C14_transient_error_loses_bytes :
  forall (A : Type) (k : N) (s : sink A) (p : list A) s' n,
  s_fired s = false -> s_pos s <= k -> once_write A k s p = (s', n, ESink) -> n < nlen A p.
Proof. exact once_write_error_is_short. Qed.

Theorem C14_transient_error_then_healthy :
  forall (A : Type) (k : N) (s : sink A) (p : list A),
  s_fired s = true -> once_write A k s p = (sink_accept A s p true, nlen A p, ENone).
Proof. exact once_write_after. Qed.

(* non-vacuity: a write of four bytes at offset 0 with k = 2 takes two bytes
   and fails; the next write is complete *)
Example C14_transient_error_example :
  let s0 := mkSink (A:=N) [] 0 (ErrAt 2) false in
  let '(s1, n1, e1) := once_write N 2 s0 [80; 65; 82; 49] in
  (n1, e1, s_fired s1) = (2, ESink, true) /\
  snd (once_write N 2 s1 [1; 2; 3]) = ENone /\ snd (fst (once_write N 2 s1 [1; 2; 3])) = 3.
Proof. vm_compute. repeat split. Qed.

(** Bloom filter lookups over a source that fails after the file was opened
    (Sink/Bloom.v): through the filter of one column chunk or through the
    filters of several row groups seen as one (MultiRowGroup, which is what
    the readers build over a file with several row groups).  A value stored
    in some row group is never reported absent, whichever reads fail; and
    "absent" is only said when every filter was consulted and no read that
    was needed failed. *)
Theorem C14_bloom_stored_value_never_absent : forall ps,
  (exists p, In p ps /\ p_clean p = true) -> fst (lookup ps) <> Absent.
Proof. exact stored_value_never_absent. Qed.

Theorem C14_bloom_absent_means_no_failure : forall ps,
  fst (lookup ps) = Absent ->
  snd (lookup ps) = length ps /\ forall p, In p ps -> p_needs_read p && p_faulted p = false /\ load_fails p = false.
Proof. exact absent_means_no_failure. Qed.

(* non-vacuity, and the behaviour the statement excludes: three row groups,
   the value is stored in the third, the reads of the second filter fail: the
   lookup fails; a lookup that takes the failed filter for "not here" finds
   the value, but reports it absent when the failing filter is the third *)
Example C14_bloom_example :
  lookup [mkPart true false false false; mkPart true true false false; mkPart true false true false] = (Failed, 2%nat) /\
  lookup [mkPart true false false false; mkPart false true false false; mkPart true false true false] = (Maybe, 3%nat) /\
  multi_check_absorbing [Absent; Absent; Failed] = Absent /\
  fst (lookup [mkPart true false false false; mkPart true false false false; mkPart true true true false]) = Failed /\
  (* the value is in the first row group, the filter of the second one is loaded lazily and fails to load *)
  lookup [mkPart true false true true; mkPart true true false true] = (Failed, 0%nat) /\
  lookup [mkPart true false true false; mkPart true true false false] = (Maybe, 1%nat).
Proof. vm_compute. repeat split. Qed.

(* the items which are ordinary sites are the model of Sink/Model.v *)
Theorem C14_copy_model_extends_sites : forall (A : Type) cur cnt chk (xs : list (site A)) i t q,
  run_items A cur cnt chk i t q (map IPlain xs) =
  let '(t', e, j) := run_sites A cur chk i t xs in (t', if is_err e then CDst e else CNil, j).
Proof. exact run_items_plain. Qed.

Print Assumptions C14_fault_free_complete.
Print Assumptions C14_copy_source_short_reported.
Print Assumptions C14_copy_fault_free_complete.
Print Assumptions C14_copy_sink_fault_surfaces.
Print Assumptions C14_copy_model_extends_sites.
Print Assumptions C14_full_count_error_surfaces.
Print Assumptions C14_bloom_stored_value_never_absent.
Print Assumptions C14_bloom_absent_means_no_failure.
Print Assumptions C14_copy_full_count_error_surfaces.
Print Assumptions C14_transient_error_is_err_at_until_it_strikes.
Print Assumptions C14_transient_error_loses_bytes.
Print Assumptions C14_transient_error_then_healthy.

(** ** The reader's demand *)

(** The byte ranges OpenFile and a read of every page of every column chunk
    request from the io.ReaderAt, computed from the footer's chunk table
    (Sink/Demand.v: magic, trailer, footer, the two page index spans, bloom
    filter headers, and the reads of the buffered reader over every chunk):
    (1) every requested range lies inside a range the footer (with the size
        given to OpenFile) declares;
    (2) when the pages of every chunk add up to its TotalCompressedSize, a file
        image p shorter than the end of a needed declared range (magic,
        trailer, footer, page index spans, column chunks) makes some requested
        read return short: the sequence of reads fails (read_all = None, i.e.
        by C14_readat_never_masks the error of the io.ReaderAt is returned). *)
Theorem C14_full_read_needs_declared_ranges : forall t,
  1 <= ft_bufsize t ->
  (forall r, In r (full_demand t) -> exists d, In d (declared_ranges t) /\ inside r d) /\
  (chunks_tile t ->
   forall d p, In d (needed_ranges t) -> 0 < snd d -> flen p < fst d + snd d ->
   read_all p (full_demand t) = None).
Proof.
  intros t HB. split.
  - intros r. exact (demand_inside_declared t r HB).
  - intros Ht d p. exact (full_read_of_cut_file_fails t d p HB Ht).
Qed.

(* and every byte of every column chunk is requested *)
Theorem C14_full_read_requests_every_chunk_byte : forall t c x,
  1 <= ft_bufsize t -> chunks_tile t -> In c (ft_rows t) ->
  ck_start c <= x < ck_start c + ck_size c ->
  exists r, In r (read_demand t) /\ fst r <= x < fst r + snd r.
Proof. exact chunk_fully_requested. Qed.

Print Assumptions C14_full_read_needs_declared_ranges.
Print Assumptions C14_full_read_requests_every_chunk_byte.

(** ** Non-vacuity of the additions *)

(* a copy of one row group of two columns with bloom filters, 93 bytes: magic,
   copied dictionary page and data pages of column 0, copied data pages of
   column 1, the two bloom filters copied straight to the output, page index,
   footer *)
Definition ex_copy (a : N) : list (item N) :=
  [ IPlain (mkSite KHeader MWrite [(true, bs 0 4)]);
    ICopied KCopiedDict [(false, bs 4 10)] 10;
    ICopied KCopiedData [(false, bs 14 20)] a;
    ICopied KCopiedData [(false, bs 34 15)] 15;
    ICopied KCopiedBloom [(false, bs 49 12)] 12;
    ICopied KCopiedBloom [(false, bs 61 12)] 12;
    IPlain (mkSite KColumnIndex MWrite [(false, bs 73 1); (true, bs 74 3)]);
    IPlain (mkSite KOffsetIndex MWrite [(false, bs 77 2)]);
    IPlain (mkSite KFooter MWrite [(false, bs 79 1); (true, bs 80 5)]);
    IPlain (mkSite KFooterTail MWrite [(false, bs 85 8)]) ].

(* the same with the bloom filters staged in deferred buffers (the second one
   delivers b bytes) and written by Close in 8-byte chunks *)
Definition ex_copy_deferred (b : N) : list (item N) :=
  [ IPlain (mkSite KHeader MWrite [(true, bs 0 4)]);
    ICopied KCopiedDict [(false, bs 4 10)] 10;
    ICopied KCopiedData [(false, bs 14 20)] 20;
    ICopied KCopiedData [(false, bs 34 15)] 15;
    IStage [(false, bs 49 8); (false, bs 57 4)] 12;
    IStage [(false, bs 61 8); (false, bs 69 4)] b;
    IFlushDeferred MLowerWriteTo;
    IPlain (mkSite KColumnIndex MWrite [(false, bs 73 1); (true, bs 74 3)]);
    IPlain (mkSite KOffsetIndex MWrite [(false, bs 77 2)]);
    IPlain (mkSite KFooter MWrite [(false, bs 79 1); (true, bs 80 5)]);
    IPlain (mkSite KFooterTail MWrite [(false, bs 85 8)]) ].

Example C14_ex_copy_complete :
  forallb (fun b => let '(e, i, pos, complete) := copy_verdict true NoFault b (ex_copy 20) in
                    negb (is_cerr e) && complete && (pos =? 93) && Nat.eqb i 10)
          [None; Some 1; Some 7; Some 100] = true /\
  forallb (fun b => let '(e, i, pos, complete) := copy_verdict true NoFault b (ex_copy_deferred 12) in
                    negb (is_cerr e) && complete && (pos =? 93) && Nat.eqb i 11)
          [None; Some 1; Some 7; Some 100] = true.
Proof. vm_compute. split; reflexivity. Qed.

(* the source of the data pages of column 0 ends after 7 of 20 bytes: reported
   by the item that copies them (index 2), 21 bytes reached the destination *)
Example C14_ex_copy_short_reported :
  has_short N (ex_copy 7) = true /\ first_short N 0 (ex_copy 7) = Some 2%nat /\
  copy_verdict true NoFault None (ex_copy 7) = (CSrc, 2%nat, 21, false) /\
  copy_verdict true NoFault (Some 100) (ex_copy 7) = (CSrc, 2%nat, 0, false).
Proof. vm_compute. repeat split; reflexivity. Qed.

(* a short source of a deferred bloom filter is reported when it is staged *)
Example C14_ex_copy_deferred_short_reported :
  copy_verdict true NoFault None (ex_copy_deferred 5) = (CSrc, 5%nat, 49, false).
Proof. vm_compute. reflexivity. Qed.

(* a failing destination on the copy path: reported by the copying item *)
Example C14_ex_copy_sink_fault : copy_verdict true (ErrAt 40) None (ex_copy 20) = (CDst ESink, 3%nat, 40, false).
Proof. vm_compute. reflexivity. Qed.

(** The copy path of the tree before commit 9565563 (`_, err :=
    w.writer.ReadFrom(io.NewSectionReader(...))`, `_, err := io.Copy(buf,
    bloom)`: io.Copy takes the io.EOF of a source that ends early for the end
    of its input) refutes C14_copy_source_short_reported: with a destination
    that never fails every call returns nil, the footer describes 93 bytes and
    the destination holds 80 (86 in the deferred variant, where the truncated
    bloom filter is recorded with its truncated length). *)
Theorem C14_pinned_copy_short_source_refuted :
  (exists (xs : list (item N)) t' i,
     has_short N xs = true /\ copy_pinned N NoFault None xs = (t', CNil, i) /\
     sink_bytes N (snk t') <> declared N [] xs) /\
  (exists (xs : list (item N)) t' i,
     has_short N xs = true /\ copy_pinned N NoFault (Some 16) xs = (t', CNil, i) /\
     sink_bytes N (snk t') <> declared N [] xs).
Proof.
  split.
  - exists (ex_copy 7).
    destruct (copy_pinned N NoFault None (ex_copy 7)) as [[t' e] i] eqn:E.
    exists t', i. split; [vm_compute; reflexivity|].
    vm_compute in E. inversion E; subst; clear E. split; [reflexivity|].
    vm_compute. discriminate.
  - exists (ex_copy_deferred 5).
    destruct (copy_pinned N NoFault (Some 16) (ex_copy_deferred 5)) as [[t' e] i] eqn:E.
    exists t', i. split; [vm_compute; reflexivity|].
    vm_compute in E. inversion E; subst; clear E. split; [reflexivity|].
    vm_compute. discriminate.
Qed.

Example C14_ex_pinned_copy_verdicts :
  copy_verdict false NoFault None (ex_copy 7) = (CNil, 10%nat, 80, false) /\
  copy_verdict false NoFault None (ex_copy_deferred 5) = (CNil, 11%nat, 86, false).
Proof. vm_compute. split; reflexivity. Qed.

(* a file of 200 bytes: two column chunks (a dictionary page and two data pages;
   one data page), page index, one bloom filter, a footer of 40 bytes; buffered
   readers of 16 bytes *)
Definition ex_table : ftable :=
  mkTable 200 40 16
    [ mkChunk 4 60 [(5, 9); (6, 20); (6, 14)] (110, 12) (130, 8) (90, 14);
      mkChunk 64 26 [(6, 20)] (122, 8) (138, 6) (0, 0) ].

Example C14_ex_demand :
  full_demand ex_table =
    [(0, 4); (192, 8); (152, 40); (110, 20); (130, 14); (90, 16);
     (4, 16); (20, 16); (36, 16); (52, 12);
     (64, 16); (80, 10)].
Proof. vm_compute. reflexivity. Qed.

Example C14_ex_table_tiles : chunks_tile ex_table.
Proof. intros c [<-|[<-|[]]]; vm_compute; reflexivity. Qed.

(* the first chunk is a needed range: an image of 63 bytes (one byte short of
   its end) cannot be read completely, whatever it contains *)
Example C14_ex_cut_chunk_fails : forall p, flen p = 63 -> read_all p (full_demand ex_table) = None.
Proof.
  intros p Hp. destruct (C14_full_read_needs_declared_ranges ex_table) as [_ H]; [vm_compute; discriminate|].
  apply (H C14_ex_table_tiles (4, 60)); [vm_compute; tauto|cbn; lia|cbn; lia].
Qed.
