(** C06 — page search by value never misses a page that contains the value.
    Statements only; proofs are in Search/Proofs.v. *)
From Coq Require Import List ZArith Lia.
From PQ Require Import Search.Model Search.Proofs.
Import ListNotations.
Open Scope Z_scope.

Section C06.
  (* any value type with any comparison that is a total preorder, and any
     comparator (Find's last argument) that agrees with it on non-null values
     and orders null consistently on one side (CompareNullsLast / First) *)
  Variable V : Type.
  Variable cmp : V -> V -> Z.
  Hypothesis cmp_opp : forall a b, cmp a b < 0 <-> cmp b a > 0.
  Hypothesis cmp_trans : forall a b d, cmp a b <= 0 -> cmp b d <= 0 -> cmp a d <= 0.
  Variable c : val V -> val V -> Z.
  Hypothesis c_nonnull : forall a b, c (Some a) (Some b) = cmp a b.
  Hypothesis c_null_excl : forall v, ~ (c None (Some v) <= 0 /\ c (Some v) None <= 0).

  (** A value that lies within the bounds of page [p] is never searched past:
      the result is at most [p].  [well_formed asc idx] only asks that a claimed
      ascending order is true of the non-null pages. *)
  Theorem C06_find_never_misses : forall asc idx v p,
    well_formed V cmp asc idx -> contains V cmp idx p v ->
    (find c asc idx (Some v) <= p)%nat.
  Proof. exact (find_never_misses V cmp cmp_opp cmp_trans c c_nonnull c_null_excl). Qed.

  (** A result below NumPages designates a page whose bounds contain the value. *)
  Theorem C06_find_result_contains : forall asc idx v,
    well_formed V cmp asc idx -> (find c asc idx (Some v) < length idx)%nat ->
    contains V cmp idx (find c asc idx (Some v)) v.
  Proof. exact (find_result_contains V cmp cmp_opp cmp_trans c c_nonnull c_null_excl). Qed.

  (** NumPages is returned only when no page can contain the value. *)
  Theorem C06_find_n_only_if_absent : forall asc idx v,
    well_formed V cmp asc idx -> find c asc idx (Some v) = length idx ->
    forall p, ~ contains V cmp idx p v.
  Proof. exact (find_n_only_if_absent V cmp cmp_opp cmp_trans c c_nonnull c_null_excl). Qed.

  Theorem C06_find_in_range : forall asc idx v,
    well_formed V cmp asc idx -> (find c asc idx (Some v) <= length idx)%nat.
  Proof. exact (find_le_length V cmp cmp_opp cmp_trans c c_nonnull c_null_excl). Qed.
End C06.

Print Assumptions C06_find_never_misses.
Print Assumptions C06_find_result_contains.
Print Assumptions C06_find_n_only_if_absent.
Print Assumptions C06_find_in_range.

(** Instantiations the library actually uses: Search = Find with
    CompareNullsLast, integer and byte-string orders. *)
Theorem C06_search_Z_never_misses : forall nulls_first asc idx v p,
  well_formed Z cmpZ asc idx -> contains Z cmpZ idx p v ->
  (find_Z nulls_first asc idx v <= p)%nat.
Proof.
  intros [|] asc idx v p; unfold find_Z.
  - exact (find_never_misses Z cmpZ cmpZ_opp cmpZ_trans _
             (nulls_first_nonnull Z cmpZ) (nulls_first_excl Z cmpZ) asc idx v p).
  - exact (find_never_misses Z cmpZ cmpZ_opp cmpZ_trans _
             (nulls_last_nonnull Z cmpZ) (nulls_last_excl Z cmpZ) asc idx v p).
Qed.

Theorem C06_search_bytes_never_misses : forall nulls_first asc idx v p,
  well_formed (list N) cmp_bytes asc idx -> contains (list N) cmp_bytes idx p v ->
  (find_bytes nulls_first asc idx v <= p)%nat.
Proof.
  intros [|] asc idx v p; unfold find_bytes.
  - exact (find_never_misses _ cmp_bytes cmp_bytes_opp cmp_bytes_trans _
             (nulls_first_nonnull _ cmp_bytes) (nulls_first_excl _ cmp_bytes) asc idx v p).
  - exact (find_never_misses _ cmp_bytes cmp_bytes_opp cmp_bytes_trans _
             (nulls_last_nonnull _ cmp_bytes) (nulls_last_excl _ cmp_bytes) asc idx v p).
Qed.

Print Assumptions C06_search_Z_never_misses.
Print Assumptions C06_search_bytes_never_misses.

(** Non-vacuity: a concrete ascending index with a null page between ordered
    pages meets the hypotheses, and the value 6 is found in page 2. *)
Definition ex_idx : list (option (Z * Z)) := [Some (-5, -1); None; Some (6, 10)].

Example C06_ex_well_formed : well_formed Z cmpZ true ex_idx.
Proof.
  intros _ i j mi xi mj xj Hij Hi Hj.
  destruct i as [|[|[|i]]]; destruct j as [|[|[|j]]]; cbn in Hi, Hj;
    try discriminate; try lia;
    try (destruct i; discriminate); try (destruct j; discriminate);
    inversion Hi; inversion Hj; subst; cbn; lia.
Qed.

Example C06_ex_contains : contains Z cmpZ ex_idx 2 6.
Proof. exists 6, 10. cbn. repeat split; lia. Qed.

Example C06_ex_found : find_Z false true ex_idx 6 = 2%nat.
Proof. vm_compute. reflexivity. Qed.

(** The binary search of the pinned tree (before the "fix:" commit) refutes
    the statement on exactly that input: the faithful model of the old code
    answers NumPages. *)
Theorem C06_pinned_binary_search_refuted :
  exists idx v p,
    well_formed Z cmpZ true idx /\ contains Z cmpZ idx p v /\
    ~ (binary_search_pinned (cmp_nulls_last cmpZ) idx (Some v) <= p)%nat.
Proof.
  exists ex_idx, 6, 2%nat. split; [exact C06_ex_well_formed|].
  split; [exact C06_ex_contains|]. vm_compute. lia.
Qed.
