(** C06 — page search by value never misses a page that contains the value.
    Statements only; proofs are in Search/Proofs.v. *)
From Coq Require Import List ZArith Lia.
From PQ Require Import Search.Model Search.Proofs Stats.Multi Search.MultiFind Search.MultiFindProofs.
Import ListNotations.
Open Scope Z_scope.

Section C06.
  (* any value type with any comparison that is a total preorder, and any
     comparator (Find's last argument) that agrees with it on non-null values
     and orders null consistently on one side (CompareNullsLast / First) *)
  Variable V : Type.
  Variable cmp : V -> V -> Z.
  Hypothesis cmp_opp : forall a b, cmp a b < 0 <-> cmp b a > 0.
  Hypothesis cmp_trans : forall a b d, cmp a b <= 0 -> cmp b d <= 0 -> cmp a d <= 0.
  Variable c : val V -> val V -> Z.
  Hypothesis c_nonnull : forall a b, c (Some a) (Some b) = cmp a b.
  Hypothesis c_null_excl : forall v, ~ (c None (Some v) <= 0 /\ c (Some v) None <= 0).

  (** A value that lies within the bounds of page [p] is never searched past:
      the result is at most [p].  [well_formed asc idx] only asks that a claimed
      ascending order is true of the non-null pages. *)
  Theorem C06_find_never_misses : forall asc idx v p,
    well_formed V cmp asc idx -> contains V cmp idx p v ->
    (find c asc idx (Some v) <= p)%nat.
  Proof. exact (find_never_misses V cmp cmp_opp cmp_trans c c_nonnull c_null_excl). Qed.

  (** A result below NumPages designates a page whose bounds contain the value. *)
  Theorem C06_find_result_contains : forall asc idx v,
    well_formed V cmp asc idx -> (find c asc idx (Some v) < length idx)%nat ->
    contains V cmp idx (find c asc idx (Some v)) v.
  Proof. exact (find_result_contains V cmp cmp_opp cmp_trans c c_nonnull c_null_excl). Qed.

  (** NumPages is returned only when no page can contain the value. *)
  Theorem C06_find_n_only_if_absent : forall asc idx v,
    well_formed V cmp asc idx -> find c asc idx (Some v) = length idx ->
    forall p, ~ contains V cmp idx p v.
  Proof. exact (find_n_only_if_absent V cmp cmp_opp cmp_trans c c_nonnull c_null_excl). Qed.

  Theorem C06_find_in_range : forall asc idx v,
    well_formed V cmp asc idx -> (find c asc idx (Some v) <= length idx)%nat.
  Proof. exact (find_le_length V cmp cmp_opp cmp_trans c c_nonnull c_null_excl). Qed.

  (** The same for the column index of a MultiRowGroup column chunk
      (multi_row_group.go multiColumnIndex, also what a merged row group built
      on it exposes): its pages are the pages of the chunks' indexes one chunk
      after the other and the Ascending flag Find reads is the one isOrdered
      computes ([multi_find] = Find on that index).  Asked of every chunk
      ([chunk_ok]): its own index claims Ascending only when true of its
      non-null pages and the bounds of a page are ordered (min <= max); nothing
      is asked of how the chunks relate to one another: they may overlap, be
      out of order, hold only null pages. *)
  Theorem C06_multi_find_never_misses : forall (chunks : list (bool * index V)) v p,
    Forall (chunk_ok V cmp) chunks ->
    contains V cmp (multi_pages (map snd chunks)) p v ->
    (multi_find cmp c chunks (Some v) <= p)%nat.
  Proof. exact (multi_find_never_misses V cmp cmp_opp cmp_trans c c_nonnull c_null_excl). Qed.

  Theorem C06_multi_find_result_contains : forall (chunks : list (bool * index V)) v,
    Forall (chunk_ok V cmp) chunks ->
    (multi_find cmp c chunks (Some v) < length (multi_pages (map snd chunks)))%nat ->
    contains V cmp (multi_pages (map snd chunks)) (multi_find cmp c chunks (Some v)) v.
  Proof. exact (multi_find_result_contains V cmp cmp_opp cmp_trans c c_nonnull c_null_excl). Qed.
End C06.

Print Assumptions C06_find_never_misses.
Print Assumptions C06_multi_find_never_misses.
Print Assumptions C06_multi_find_result_contains.
Print Assumptions C06_find_result_contains.
Print Assumptions C06_find_n_only_if_absent.
Print Assumptions C06_find_in_range.

(** Instantiations the library actually uses: Search = Find with
    CompareNullsLast, integer and byte-string orders. *)
Theorem C06_search_Z_never_misses : forall nulls_first asc idx v p,
  well_formed Z cmpZ asc idx -> contains Z cmpZ idx p v ->
  (find_Z nulls_first asc idx v <= p)%nat.
Proof.
  intros [|] asc idx v p; unfold find_Z.
  - exact (find_never_misses Z cmpZ cmpZ_opp cmpZ_trans _
             (nulls_first_nonnull Z cmpZ) (nulls_first_excl Z cmpZ) asc idx v p).
  - exact (find_never_misses Z cmpZ cmpZ_opp cmpZ_trans _
             (nulls_last_nonnull Z cmpZ) (nulls_last_excl Z cmpZ) asc idx v p).
Qed.

Theorem C06_search_bytes_never_misses : forall nulls_first asc idx v p,
  well_formed (list N) cmp_bytes asc idx -> contains (list N) cmp_bytes idx p v ->
  (find_bytes nulls_first asc idx v <= p)%nat.
Proof.
  intros [|] asc idx v p; unfold find_bytes.
  - exact (find_never_misses _ cmp_bytes cmp_bytes_opp cmp_bytes_trans _
             (nulls_first_nonnull _ cmp_bytes) (nulls_first_excl _ cmp_bytes) asc idx v p).
  - exact (find_never_misses _ cmp_bytes cmp_bytes_opp cmp_bytes_trans _
             (nulls_last_nonnull _ cmp_bytes) (nulls_last_excl _ cmp_bytes) asc idx v p).
Qed.

Print Assumptions C06_search_Z_never_misses.
Print Assumptions C06_search_bytes_never_misses.

(** Non-vacuity: a concrete ascending index with a null page between ordered
    pages meets the hypotheses, and the value 6 is found in page 2. *)
Definition ex_idx : list (option (Z * Z)) := [Some (-5, -1); None; Some (6, 10)].

Example C06_ex_well_formed : well_formed Z cmpZ true ex_idx.
Proof.
  intros _ i j mi xi mj xj Hij Hi Hj.
  destruct i as [|[|[|i]]]; destruct j as [|[|[|j]]]; cbn in Hi, Hj;
    try discriminate; try lia;
    try (destruct i; discriminate); try (destruct j; discriminate);
    inversion Hi; inversion Hj; subst; cbn; lia.
Qed.

Example C06_ex_contains : contains Z cmpZ ex_idx 2 6.
Proof. exists 6, 10. cbn. repeat split; lia. Qed.

Example C06_ex_found : find_Z false true ex_idx 6 = 2%nat.
Proof. vm_compute. reflexivity. Qed.

(** The binary search of the pinned tree (before the "fix:" commit) refutes
    the statement on exactly that input: the faithful model of the old code
    answers NumPages. *)
Theorem C06_pinned_binary_search_refuted :
  exists idx v p,
    well_formed Z cmpZ true idx /\ contains Z cmpZ idx p v /\
    ~ (binary_search_pinned (cmp_nulls_last cmpZ) idx (Some v) <= p)%nat.
Proof.
  exists ex_idx, 6, 2%nat. split; [exact C06_ex_well_formed|].
  split; [exact C06_ex_contains|]. vm_compute. lia.
Qed.

(** The index of a MultiRowGroup, integer instance (what the oracle runs). *)
Theorem C06_multi_search_Z_never_misses : forall nulls_first chunks v p,
  Forall (chunk_ok Z cmpZ) chunks ->
  contains Z cmpZ (multi_pages (map snd chunks)) p v ->
  (multi_find_Z nulls_first chunks v <= p)%nat.
Proof.
  intros [|] chunks v p; unfold multi_find_Z.
  - exact (multi_find_never_misses Z cmpZ cmpZ_opp cmpZ_trans _
             (nulls_first_nonnull Z cmpZ) (nulls_first_excl Z cmpZ) chunks v p).
  - exact (multi_find_never_misses Z cmpZ cmpZ_opp cmpZ_trans _
             (nulls_last_nonnull Z cmpZ) (nulls_last_excl Z cmpZ) chunks v p).
Qed.

Print Assumptions C06_multi_search_Z_never_misses.

(** Non-vacuity: two ascending chunks of two pages each, the second starting
    inside the wide last page of the first (late data at the end of a row
    group): pages [0,9] [10,100] | [20,29] [30,39].  The chunks meet
    [chunk_ok]; isOrdered answers "not ascending" (100 > 20), Find scans and
    finds 50 in page 1. *)
Definition ex_chunks : list (bool * list (option (Z * Z))) :=
  [(true, [Some (0, 9); Some (10, 100)]); (true, [Some (20, 29); Some (30, 39)])].

Example C06_ex_chunks_ok : Forall (chunk_ok Z cmpZ) ex_chunks.
Proof.
  assert (A : forall a b d e, a <= b -> d <= e -> a <= d -> b <= e ->
              chunk_ok Z cmpZ (true, [Some (a, b); Some (d, e)])).
  { intros a b d e H1 H2 H3 H4. split; cbn [fst snd].
    - intros _ i j mi xi mj xj Hij Hi Hj.
      destruct i as [|[|i]]; destruct j as [|[|j]]; cbn in Hi, Hj;
        try discriminate; try lia;
        try (destruct i; discriminate); try (destruct j; discriminate).
      inversion Hi; inversion Hj; subst. split; apply cmpZ_le; lia.
    - apply Forall_cons; [apply cmpZ_le; lia|].
      apply Forall_cons; [apply cmpZ_le; lia|apply Forall_nil]. }
  apply Forall_cons; [apply A; lia|]. apply Forall_cons; [apply A; lia|apply Forall_nil].
Qed.

Example C06_ex_multi_contains : contains Z cmpZ (multi_pages (map snd ex_chunks)) 1 50.
Proof. exists 10, 100. cbn. repeat split; lia. Qed.

Example C06_ex_multi_found :
  multi_ascending_Z ex_chunks = false /\ multi_find_Z false ex_chunks 50 = 1%nat.
Proof. vm_compute. split; reflexivity. Qed.

(** Had the index claimed Ascending there (a boundary test that looks at the
    minima only), the binary search would answer NumPages for 50: the flag is
    what the statement rests on. *)
Example C06_ex_multi_wrong_flag_misses :
  find_Z false true (multi_pages (map snd ex_chunks)) 50 = 4%nat.
Proof. vm_compute. reflexivity. Qed.

(** IsAscending of the multi index before the repair c5b5a77 compared adjacent
    chunks only and skipped a pair when either side held only null pages; the
    faithful model of that code refutes the statement: [10,20] | null | [0,5]
    was claimed ascending and 15 (in page 0) was searched past. *)
Theorem C06_pinned_multi_ascending_refuted :
  exists chunks v p,
    Forall (chunk_ok Z cmpZ) chunks /\ contains Z cmpZ (multi_pages (map snd chunks)) p v /\
    ~ (multi_find_pinned cmpZ (cmp_nulls_last cmpZ) chunks (Some v) <= p)%nat.
Proof.
  exists [(true, [Some (10, 20)]); (true, [None]); (true, [Some (0, 5)])], 15, 0%nat.
  assert (A : forall p : option (Z * Z), bounds_ok Z cmpZ p -> chunk_ok Z cmpZ (true, [p])).
  { intros p Hp. split; cbn [fst snd].
    - intros _ i j mi xi mj xj Hij Hi Hj.
      destruct i as [|i]; destruct j as [|j]; cbn in Hi, Hj; try lia;
        destruct j; discriminate.
    - apply Forall_cons; [exact Hp|apply Forall_nil]. }
  split.
  - apply Forall_cons; [apply A; apply cmpZ_le; lia|].
    apply Forall_cons; [apply A; exact I|].
    apply Forall_cons; [apply A; apply cmpZ_le; lia|apply Forall_nil].
  - split; [exists 10, 20; cbn; repeat split; lia|]. vm_compute. lia.
Qed.

Print Assumptions C06_pinned_multi_ascending_refuted.
