(** C10 — sorting buffers and the sorting writer output a correctly ordered
    permutation.  Statements only; the proofs are in Sort/*.v.

    The model (Sort/Model.v) mirrors optionalColumnBuffer (row -> value map,
    definition levels, Less through nullsGoFirst/nullsGoLast, Swap, Page with
    the cyclic reorder and the renumbering), reversedColumnBuffer,
    Buffer.configure / Less / Swap / WriteRows and the row comparator of
    compare.go.  Columns are required or optional (any max definition level);
    a repeated column (Sort/Repeated.v) and the SortingWriter (Sort/Writer.v)
    have their own sections below. *)
From Coq Require Import List ZArith NArith Bool Arith Lia Permutation Sorting.Sorted.
From PQ Require Import Sort.Model Sort.ListLemmas Sort.ColProofs Sort.PageProofs
     Sort.TypedProofs Sort.CmpProofs Sort.BufProofs Sort.ViewProofs Sort.OrderProofs Sort.Instances
     Sort.Repeated Sort.RepeatedProofs Sort.Kinds.
From PQ Require Merge.Model Merge.AbstractProofs.
From PQ Require Import Sort.Writer Sort.WriterProofs Sort.WriterInstance.
Import ListNotations.

Section C10.
  (* any value type; [lt] is the Less of the base column buffer on two values,
     [cmp] the Compare of the column type: a total preorder (equivalently its
     strict part is a strict weak order), and Less is "Compare < 0" *)
  Variable V : Type.
  Variable lt : V -> V -> bool.
  Variable cmp : V -> V -> Z.
  Hypothesis lt_cmp : forall a b, lt a b = true <-> (cmp a b < 0)%Z.
  Hypothesis cmp_opp : forall a b, (cmp a b < 0 <-> cmp b a > 0)%Z.
  Hypothesis cmp_trans : forall a b d, (cmp a b <= 0 -> cmp b d <= 0 -> cmp a d <= 0)%Z.

  (** For EVERY history of operations (Write batch through WriteValues or
      through the typed run path | Swap i j | Page | Page of ONE column k, which
      is what the column-level API does: ColumnBuffers()[k].Page(), Pages(),
      ReadValuesAt with a pending reorder) on a buffer of required and
      optional columns: the logical rows (every column read through its row ->
      value map) are exactly what the same operations do to a plain list of
      whole rows — Write appends, Swap exchanges two rows, Page (of all columns
      or of one) changes nothing — and so are the rows a reader of the pages of
      the columns sees (every column read through its own Page, whether or not
      its values had been moved into row order before, which is also what the
      Page of a clone of the column holds: Clone copies every field of the
      column); they are a permutation of the rows written. *)
  Theorem C10_swaps_preserve_rows : forall schema sorting ops,
    schema <> [] -> Forall (op_ok V schema) ops ->
    buffer_rows V (reach V schema sorting ops) = spec_run V schema ops /\
    buffer_page_rows V (reach V schema sorting ops) = spec_run V schema ops /\
    Permutation (spec_run V schema ops) (written V schema ops).
  Proof. exact (swaps_preserve_rows V). Qed.

  (** Swap i j exchanges exactly rows i and j, each intact across all columns. *)
  Theorem C10_swap_exchanges_rows : forall schema sorting ops i j,
    schema <> [] -> Forall (op_ok V schema) ops ->
    buffer_rows V (reach V schema sorting (ops ++ [OSwap i j])) =
    swapl (buffer_rows V (reach V schema sorting ops)) i j.
  Proof. exact (swap_exchanges_rows V). Qed.

  Theorem C10_swapl_exchanges_exactly : forall (l : list (row V)) i j k,
    i < length l -> j < length l ->
    nth_error (swapl l i j) k = nth_error l (if Nat.eqb k i then j else if Nat.eqb k j then i else k).
  Proof. exact (@nth_error_swapl (row V)). Qed.

  (** ColumnBuffers()[k].ReadValuesAt(values[:n], off) after EVERY such history
      delivers the cells [off, off+n) of column k of the rows of the
      specification (nulls at the positions of the null rows, fewer than n
      cells at the end of the column), and leaves column k as Page leaves it. *)
  Theorem C10_read_values_at_is_window_of_rows : forall schema sorting ops k off n,
    Forall (op_ok V schema) ops -> k < length schema ->
    buffer_read_values_at V (reach V schema sorting ops) k off n
      = firstn n (skipn off (map (fun r => nth k r (dcell V)) (spec_run V schema ops))) /\
    fst (col_read_values_at V (nth k (columns (reach V schema sorting ops)) (dcol V)) off n)
      = col_page V (nth k (columns (reach V schema sorting ops)) (dcol V)).
  Proof. exact (read_values_at_rows V). Qed.

  (** After Page, in every optional column the base values are in row order:
      the non-null rows are numbered 0..k-1 in place, the column is no longer
      marked reordered, the representation invariant holds (so later writes and
      sorts stay consistent), and the page read sequentially is the logical
      content, which is the column of the rows of the specification. *)
  Theorem C10_page_puts_base_in_row_order : forall schema sorting ops k o,
    Forall (op_ok V schema) ops -> k < length schema ->
    nth k (columns (reach V schema sorting (ops ++ [OPage]))) (dcol V) = COpt o ->
    nn (rows o) = seq 0 (length (base o)) /\
    reordered o = false /\
    ocol_ok V o /\
    page_values V (maxdef o) (deflevels o) (base o) = ocol_cells V o /\
    ocol_cells V o = map (fun r => nth k r (dcell V)) (spec_run V schema ops).
  Proof. exact (page_in_row_order V). Qed.

  (** The typed write path (runs of rows sharing a level, row indexes of a
      non-null run filled by broadcastRangeInt32) leaves the column in the same
      state as WriteValues, whatever the run lengths. *)
  Theorem C10_typed_write_is_write_values : forall (c : ocol V) vs,
    write_typed V c vs = write_values V c vs.
  Proof. exact (write_typed_eq V). Qed.

  (** The decision rule of the comparator of one sorting column, outright. *)
  Theorem C10_comparator_rule : forall (desc nf : bool) (x y : V),
    cmp_col V cmp true desc nf None None = 0%Z /\
    cmp_col V cmp true desc nf None (Some y) = (if nf then -1 else 1)%Z /\
    cmp_col V cmp true desc nf (Some x) None = (if nf then 1 else -1)%Z /\
    cmp_col V cmp true desc nf (Some x) (Some y) = (if desc then - cmp x y else cmp x y)%Z /\
    cmp_col V cmp false desc nf (Some x) (Some y) = (if desc then - cmp x y else cmp x y)%Z.
  Proof. intros [|] [|] x y; repeat split; reflexivity. Qed.

  (** For every direction x nulls first/last x nullable combination: the Less
      of the column as Buffer.configure sets it up (null ordering [xorb nf desc],
      wrapped in reversedColumnBuffer when descending) is the comparator. *)
  Theorem C10_column_less_is_comparator : forall (cols : list (col V)) k md desc nf i j,
    col_ok V md (xorb nf desc) (nth k cols (dcol V)) ->
    i < col_len V (nth k cols (dcol V)) -> j < col_len V (nth k cols (dcol V)) ->
    sorted_less V lt cols (k, desc) i j =
    (cmp_col V cmp (negb (N.eqb md 0)) desc nf
             (fst (nth i (col_cells V (nth k cols (dcol V))) (dcell V)))
             (fst (nth j (col_cells V (nth k cols (dcol V))) (dcell V))) <? 0)%Z.
  Proof. exact (sorted_less_spec V lt cmp lt_cmp cmp_opp). Qed.

  (** Buffer.Less i j  <->  comparator (row i) (row j) < 0, after any history. *)
  Theorem C10_less_is_comparator : forall schema sorting ops i j,
    schema <> [] -> sorting_ok schema sorting -> Forall (op_ok V schema) ops ->
    let b := reach V schema sorting ops in
    i < buffer_len V b -> j < buffer_len V b ->
    (buffer_less V lt b i j = true <->
     (compare_rows V cmp schema sorting (buffer_row V b i) (buffer_row V b j) < 0)%Z).
  Proof. exact (less_is_comparator V lt cmp lt_cmp cmp_opp). Qed.

  (** Buffer.Less is a strict weak order on the rows of the buffer:
      irreflexive, transitive, incomparability transitive. *)
  Theorem C10_less_strict_weak_order : forall schema sorting ops,
    schema <> [] -> sorting_ok schema sorting -> Forall (op_ok V schema) ops ->
    let b := reach V schema sorting ops in less_swo V lt b (buffer_len V b).
  Proof. exact (less_strict_weak_order V lt cmp lt_cmp cmp_opp cmp_trans). Qed.

  (** Whatever exchanges a sort routine performs after any history: if the
      result has no adjacent inversion for Less, the rows are a permutation of
      the rows written and every pair i <= j is ordered by the comparator. *)
  Theorem C10_sorted_after_swaps : forall schema sorting ops l,
    schema <> [] -> sorting_ok schema sorting -> Forall (op_ok V schema) ops ->
    let b' := reach V schema sorting (ops ++ swap_ops V l) in
    sorted_by_less V lt b' (buffer_len V b') ->
    Permutation (buffer_rows V b') (buffer_rows V (reach V schema sorting ops)) /\
    Permutation (buffer_rows V b') (written V schema ops) /\
    forall i j, i <= j -> j < length (buffer_rows V b') ->
      (compare_rows V cmp schema sorting (nth i (buffer_rows V b') []) (nth j (buffer_rows V b') []) <= 0)%Z.
  Proof. exact (sorted_after_swaps V lt cmp lt_cmp cmp_opp cmp_trans). Qed.

  Section SortContract.
    (* sort.Sort only calls Len, Less and Swap; its contract: when Less is a
       strict weak order on the n elements, the exchanges it performs leave no
       adjacent inversion *)
    Variable sort_swaps : buffer V -> list (nat * nat).
    Hypothesis sort_sorts : forall b n, n = buffer_len V b -> less_swo V lt b n ->
      sorted_by_less V lt (run_ops V b (swap_ops V (sort_swaps b))) n.

    Theorem C10_sorted_after_sort : forall schema sorting ops,
      schema <> [] -> sorting_ok schema sorting -> Forall (op_ok V schema) ops ->
      let b := reach V schema sorting ops in
      let b' := run_ops V b (swap_ops V (sort_swaps b)) in
      Permutation (buffer_rows V b') (buffer_rows V b) /\
      Permutation (buffer_rows V b') (written V schema ops) /\
      forall i j, i <= j -> j < length (buffer_rows V b') ->
        (compare_rows V cmp schema sorting (nth i (buffer_rows V b') []) (nth j (buffer_rows V b') []) <= 0)%Z.
    Proof.
      exact (fun schema sorting ops =>
               sorted_after_sort V lt cmp lt_cmp cmp_opp cmp_trans sort_swaps schema sorting ops sort_sorts).
    Qed.
  End SortContract.
End C10.

Print Assumptions C10_swaps_preserve_rows.
Print Assumptions C10_swap_exchanges_rows.
Print Assumptions C10_swapl_exchanges_exactly.
Print Assumptions C10_read_values_at_is_window_of_rows.
Print Assumptions C10_page_puts_base_in_row_order.
Print Assumptions C10_typed_write_is_write_values.
Print Assumptions C10_comparator_rule.
Print Assumptions C10_column_less_is_comparator.
Print Assumptions C10_less_is_comparator.
Print Assumptions C10_less_strict_weak_order.
Print Assumptions C10_sorted_after_swaps.
Print Assumptions C10_sorted_after_sort.

(** The instantiation the library uses in the correspondence runs: INT64 and
    BYTE_ARRAY values (the hypotheses hold of them). *)
Theorem C10_sval_less_is_comparator : forall schema sorting ops i j,
  schema <> [] -> sorting_ok schema sorting -> Forall (op_ok sval schema) ops ->
  let b := reach sval schema sorting ops in
  i < buffer_len sval b -> j < buffer_len sval b ->
  (buffer_less sval lt_sval b i j = true <->
   (compare_rows sval cmp_sval schema sorting (buffer_row sval b i) (buffer_row sval b j) < 0)%Z).
Proof. exact (C10_less_is_comparator sval lt_sval cmp_sval lt_sval_cmp cmp_sval_opp). Qed.

Theorem C10_sval_sorted_after_swaps : forall schema sorting ops l,
  schema <> [] -> sorting_ok schema sorting -> Forall (op_ok sval schema) ops ->
  let b' := reach sval schema sorting (ops ++ swap_ops sval l) in
  sorted_by_less sval lt_sval b' (buffer_len sval b') ->
  Permutation (buffer_rows sval b') (buffer_rows sval (reach sval schema sorting ops)) /\
  Permutation (buffer_rows sval b') (written sval schema ops) /\
  forall i j, i <= j -> j < length (buffer_rows sval b') ->
    (compare_rows sval cmp_sval schema sorting (nth i (buffer_rows sval b') []) (nth j (buffer_rows sval b') []) <= 0)%Z.
Proof. exact (C10_sorted_after_swaps sval lt_sval cmp_sval lt_sval_cmp cmp_sval_opp cmp_sval_trans). Qed.

Print Assumptions C10_sval_less_is_comparator.
Print Assumptions C10_sval_sorted_after_swaps.

(** * The kinds of the sorting columns

    The statements above hold of every kind of sorting column whose Compare
    is the comparison of the integers its values denote (Sort/Kinds.v: BOOLEAN,
    the signed and unsigned integers of every width, DATE, TIME, TIMESTAMP,
    DECIMAL on integers and on two's complement byte strings, FLOAT and
    DOUBLE without NaN): for ANY [key] into the integers, "Compare = the sign
    of key a - key b" and "Less = key a < key b" meet the hypotheses.  (The
    byte string kinds are the [VB] values of the instance above.)  In the
    correspondence runs a column of such a kind holds the images of the
    integers the oracle's model compares under a strictly increasing map (so
    [key (emb z) ] orders as [z]); that the Go code compares each kind as its
    key says is decided there by the harness's own comparator. *)
Theorem C10_keyed_less_is_comparator : forall (V : Type) (key : V -> Z) schema sorting ops i j,
  schema <> [] -> sorting_ok schema sorting -> Forall (op_ok V schema) ops ->
  let b := reach V schema sorting ops in
  i < buffer_len V b -> j < buffer_len V b ->
  (buffer_less V (lt_key V key) b i j = true <->
   (compare_rows V (cmp_key V key) schema sorting (buffer_row V b i) (buffer_row V b j) < 0)%Z).
Proof.
  exact (fun V key => C10_less_is_comparator V (lt_key V key) (cmp_key V key) (lt_key_cmp V key) (cmp_key_opp V key)).
Qed.

Theorem C10_keyed_less_strict_weak_order : forall (V : Type) (key : V -> Z) schema sorting ops,
  schema <> [] -> sorting_ok schema sorting -> Forall (op_ok V schema) ops ->
  let b := reach V schema sorting ops in less_swo V (lt_key V key) b (buffer_len V b).
Proof.
  exact (fun V key => C10_less_strict_weak_order V (lt_key V key) (cmp_key V key)
                        (lt_key_cmp V key) (cmp_key_opp V key) (cmp_key_trans V key)).
Qed.

Theorem C10_keyed_sorted_after_swaps : forall (V : Type) (key : V -> Z) schema sorting ops l,
  schema <> [] -> sorting_ok schema sorting -> Forall (op_ok V schema) ops ->
  let b' := reach V schema sorting (ops ++ swap_ops V l) in
  sorted_by_less V (lt_key V key) b' (buffer_len V b') ->
  Permutation (buffer_rows V b') (buffer_rows V (reach V schema sorting ops)) /\
  Permutation (buffer_rows V b') (written V schema ops) /\
  forall i j, i <= j -> j < length (buffer_rows V b') ->
    (compare_rows V (cmp_key V key) schema sorting (nth i (buffer_rows V b') []) (nth j (buffer_rows V b') []) <= 0)%Z.
Proof.
  exact (fun V key => C10_sorted_after_swaps V (lt_key V key) (cmp_key V key)
                        (lt_key_cmp V key) (cmp_key_opp V key) (cmp_key_trans V key)).
Qed.

Print Assumptions C10_keyed_less_is_comparator.
Print Assumptions C10_keyed_less_strict_weak_order.
Print Assumptions C10_keyed_sorted_after_swaps.

(** The keys order values as the parquet format says where a comparison of
    the raw bits would not: INT(8|16|32, signed) keys (32 bits each) read as unsigned
    numbers put -1 above 149 (the keys say below); 2^63 as
    UINT(64) is above 1; -0.0 = +0.0 and -1.5 < 1.5 as DOUBLE; the two's
    complement bytes ff fe (-2) are below 00 01 (1) as DECIMAL. *)
Example C10_ex_kind_keys :
  (cmp_key N (key_signed 32) 4294967295%N 149%N < 0 /\ cmp_key N (key_unsigned 32) 4294967295%N 149%N > 0)%Z /\
  (cmp_key N (key_unsigned 64) 9223372036854775808%N 1%N > 0 /\ cmp_key N (key_signed 64) 9223372036854775808%N 1%N < 0)%Z /\
  (cmp_key N (key_float 64) 9223372036854775808%N 0%N = 0 /\
   cmp_key N (key_float 64) 13832806255468478464%N 4609434218613702656%N < 0)%Z /\
  (cmp_key (list N) key_decimal [255; 254]%N [0; 1]%N < 0 /\ Search.Model.cmp_bytes [255; 254]%N [0; 1]%N > 0)%Z /\
  (cmp_key bool key_bool false true < 0)%Z.
Proof. vm_compute. repeat split; reflexivity. Qed.

(** * Repeated columns (column_buffer_repeated.go)

    The model is Sort/Repeated.v (writeRow / WriteValues, Less with the
    descending flag, Swap, Page).  A value is (repetition level, definition
    level, option value); a batch handed to WriteValues is well formed
    ([batch_ok]) when every value is present exactly at the maximum definition
    level and the batch starts a row (its first value has repetition level 0:
    Buffer.WriteRows hands the column the values of whole rows).  A row of the
    column is the sequence of values from one repetition level 0 up to the
    next. *)
Section C10_repeated.
  Variable V : Type.
  Variable lt : V -> V -> bool.
  Variable cmp : V -> V -> Z.
  Hypothesis lt_cmp : forall a b, lt a b = true <-> (cmp a b < 0)%Z.
  Hypothesis cmp_opp : forall a b, (cmp a b < 0 <-> cmp b a > 0)%Z.
  Hypothesis cmp_trans : forall a b d, (cmp a b <= 0 -> cmp b d <= 0 -> cmp a d <= 0)%Z.

  (** WriteValues (the loop that cuts the values into rows and writeRow) appends
      the levels, the non-null values and one row entry (offset into the
      levels, offset into the base column) for each value of repetition level
      0 -- for every batch, well formed or not. *)
  Theorem C10_repeated_write_appends : forall (c : rcol V) vs,
    rcol_write V c vs = flat_write V c vs.
  Proof. exact (rcol_write_flat V). Qed.

  (** Swap i j exchanges exactly the rows i and j, each with all its values and
      levels, in every state. *)
  Theorem C10_repeated_swap_exchanges_rows : forall (c : rcol V) i j,
    rcol_rows V (rcol_swap V c i j) = swapl (rcol_rows V c) i j /\
    Permutation (rcol_rows V (rcol_swap V c i j)) (rcol_rows V c).
  Proof. intros. split; [apply rcol_swap_rows|apply rcol_swap_perm]. Qed.

  (** For EVERY history of operations (WriteValues of well-formed batches |
      Swap i j | Page): the logical rows (each read through its row entry) are
      what the same operations do to a plain list of rows -- a write appends
      the rows of the batch, Swap exchanges two rows, Page changes nothing --;
      so are the rows of the column rebuilt by Page and the rows a reader of the
      page sees (the page read sequentially, cut at repetition level 0): Page
      returns the rows in buffer order with all their values; and they are a
      permutation of the rows written. *)
  Theorem C10_repeated_rows_preserved : forall md desc nfo ops,
    Forall (rop_ok V md) ops ->
    rcol_rows V (rreach V md desc nfo ops) = rspec_run V ops /\
    rcol_page_rows V (rreach V md desc nfo ops) = rspec_run V ops /\
    rcol_rows V (rcol_page V (rreach V md desc nfo ops)) = rspec_run V ops /\
    Permutation (rspec_run V ops) (rwritten V ops).
  Proof. exact (repeated_rows_preserved V). Qed.

  (** The representation invariant (levels of equal length, one base value for
      each maximum definition level, every row entry at a repetition level 0
      with the base offset of its first value, entries in level order unless
      reordered) holds after every history; Page clears the reordered flag. *)
  Theorem C10_repeated_invariant : forall md desc nfo ops,
    Forall (rop_ok V md) ops ->
    rcol_ok V (rreach V md desc nfo ops) /\ cfg_is V md desc (rreach V md desc nfo ops) nfo /\
    rreordered V (rcol_page V (rreach V md desc nfo ops)) = false.
  Proof.
    intros md desc nfo ops H. destruct (reach_inv V md desc nfo ops H) as (R1 & R2 & _).
    split; [exact R1|]. split; [exact R2|]. exact (proj1 (proj2 (page_ok V _ R1))).
  Qed.

  (** Less i j = (comparator (values of row i) (values of row j) < 0), after any
      history, for every direction x nulls first/last: the comparator is the
      loop of compareRowsFuncOfColumnValues over the values of one sorting
      column -- the first pair of elements that differs decides, by Type.Compare
      negated when Descending, inside CompareNullsFirst / CompareNullsLast; then
      the shorter sequence sorts first, also when Descending.  The column is
      set up as Buffer.configure does: null ordering [xorb nf desc], descending
      flag [desc] (a repeated column is not wrapped in reversedColumnBuffer). *)
  Theorem C10_repeated_less_is_comparator : forall md nf desc ops i j,
    Forall (rop_ok V md) ops ->
    let c := rreach V md desc (xorb nf desc) ops in
    i < length (rrows V c) -> j < length (rrows V c) ->
    rcol_less V lt c i j =
    (cmp_values V (cmp_col V cmp true desc nf)
                (map (rv_val V) (nth i (rcol_rows V c) []))
                (map (rv_val V) (nth j (rcol_rows V c) [])) <? 0)%Z.
  Proof.
    intros md nf desc ops i j H c. destruct (reach_inv V md desc (xorb nf desc) ops H) as (R1 & R2 & _).
    exact (rcol_less_spec V lt cmp lt_cmp cmp_opp md nf desc c i j R1 R2).
  Qed.

  (* the decision rule of the value-sequence comparator, outright *)
  Theorem C10_repeated_comparator_rule : forall (c : option V -> option V -> Z) x y a b,
    cmp_values V c [] [] = 0%Z /\
    cmp_values V c [] (y :: b) = (-1)%Z /\
    cmp_values V c (x :: a) [] = 1%Z /\
    cmp_values V c (x :: a) (y :: b) = (if (c x y =? 0)%Z then cmp_values V c a b else c x y).
  Proof. intros. repeat split; reflexivity. Qed.

  (** Less is a strict weak order on the rows of the column. *)
  Theorem C10_repeated_less_strict_weak_order : forall md nf desc ops,
    Forall (rop_ok V md) ops ->
    let c := rreach V md desc (xorb nf desc) ops in rless_swo V lt c (length (rrows V c)).
  Proof.
    intros md nf desc ops H c. destruct (reach_inv V md desc (xorb nf desc) ops H) as (R1 & R2 & _).
    exact (rcol_less_swo V lt cmp lt_cmp cmp_opp cmp_trans md nf desc c R1 R2).
  Qed.

  (** Whatever exchanges a sort routine performs after any history: if the
      result has no adjacent inversion for Less, the rows are a permutation of
      the rows written (each intact) ordered by the comparator. *)
  Theorem C10_repeated_sorted_after_swaps : forall md nf desc ops l,
    Forall (rop_ok V md) ops ->
    let c := rreach V md desc (xorb nf desc) ops in
    let c' := rreach V md desc (xorb nf desc) (ops ++ rswap_ops V l) in
    rsorted_by_less V lt c' (length (rrows V c')) ->
    Permutation (rcol_rows V c') (rcol_rows V c) /\
    Permutation (rcol_rows V c') (rwritten V ops) /\
    forall i j, i <= j -> j < length (rcol_rows V c') ->
      (cmp_values V (cmp_col V cmp true desc nf) (row_vals V c' i) (row_vals V c' j) <= 0)%Z.
  Proof. exact (repeated_sorted_after_swaps V lt cmp lt_cmp cmp_opp cmp_trans). Qed.

  Section SortContract.
    (* the contract of sort.Sort, as for the buffers above *)
    Variable sort_swaps : rcol V -> list (nat * nat).
    Hypothesis sort_sorts : forall c n, n = length (rrows V c) -> rless_swo V lt c n ->
      rsorted_by_less V lt (fold_left (rcol_apply V) (rswap_ops V (sort_swaps c)) c) n.

    Theorem C10_repeated_sorted_after_sort : forall md nf desc ops,
      Forall (rop_ok V md) ops ->
      let c := rreach V md desc (xorb nf desc) ops in
      let c' := fold_left (rcol_apply V) (rswap_ops V (sort_swaps c)) c in
      Permutation (rcol_rows V c') (rcol_rows V c) /\
      Permutation (rcol_rows V c') (rwritten V ops) /\
      forall i j, i <= j -> j < length (rcol_rows V c') ->
        (cmp_values V (cmp_col V cmp true desc nf) (row_vals V c' i) (row_vals V c' j) <= 0)%Z.
    Proof.
      exact (fun md nf desc =>
               repeated_sorted_after_sort V lt cmp lt_cmp cmp_opp cmp_trans md nf desc sort_swaps sort_sorts).
    Qed.
  End SortContract.
End C10_repeated.

(** Buffer.Less over any mix of sorting columns (required, optional,
    repeated): when the Less of each sorting column is "its comparator < 0"
    (C10_column_less_is_comparator, C10_repeated_less_is_comparator) the walk
    over the sorting columns is the lexicographic comparator. *)
Theorem C10_buffer_less_lexicographic : forall ls cs i j,
  Forall2 (fun (l : nat -> nat -> bool) (c : nat -> nat -> Z) =>
             l i j = (c i j <? 0)%Z /\ l j i = (c j i <? 0)%Z /\
             (c i j < 0 <-> c j i > 0)%Z /\ (c j i < 0 <-> c i j > 0)%Z) ls cs ->
  less_walk ls i j = (lex_cmp cs i j <? 0)%Z.
Proof. exact less_walk_lexicographic. Qed.

Print Assumptions C10_repeated_write_appends.
Print Assumptions C10_repeated_swap_exchanges_rows.
Print Assumptions C10_repeated_rows_preserved.
Print Assumptions C10_repeated_invariant.
Print Assumptions C10_repeated_less_is_comparator.
Print Assumptions C10_repeated_less_strict_weak_order.
Print Assumptions C10_repeated_sorted_after_swaps.
Print Assumptions C10_repeated_sorted_after_sort.
Print Assumptions C10_buffer_less_lexicographic.

(** The statement that used to be kept here as unproved
    ([Definition C10_full_statement]), for the INT64 / BYTE_ARRAY values of the
    correspondence runs: proved for histories of well-formed batches. *)
Theorem C10_repeated_full_statement :
  forall (md : N) (nf desc : bool) (ops : list (rop sval)),
    Forall (rop_ok sval md) ops ->
    let c := fold_left (rcol_apply sval) ops (new_rcol sval md (xorb nf desc) desc) in
    rcol_rows sval (rcol_page sval c) = rcol_rows sval c /\
    rcol_page_rows sval c = rcol_rows sval c /\
    forall i j, i < length (rrows sval c) -> j < length (rrows sval c) ->
      rcol_less sval lt_sval c i j =
      (cmp_values sval (cmp_col sval cmp_sval true desc nf)
                  (map (rv_val sval) (nth i (rcol_rows sval c) []))
                  (map (rv_val sval) (nth j (rcol_rows sval c) [])) <? 0)%Z.
Proof.
  intros md nf desc ops H c.
  destruct (C10_repeated_rows_preserved sval md desc (xorb nf desc) ops H) as (R1 & R2 & R3 & _).
  change c with (rreach sval md desc (xorb nf desc) ops).
  split; [now rewrite R3, R1|]. split; [now rewrite R2, R1|].
  intros i j. exact (C10_repeated_less_is_comparator sval lt_sval cmp_sval lt_sval_cmp cmp_sval_opp md nf desc ops i j H).
Qed.

Print Assumptions C10_repeated_full_statement.

(** The well-formedness hypothesis is needed: a value at the maximum
    definition level that carries no value (which the writers of the library
    never produce) is read back as a null by the rows while Less looks for it in
    the base column; Less and the comparator then disagree. *)
Theorem C10_repeated_illformed_refuted :
  let ops := [RWrite [mkRval 0%N 1%N (Some (VI 5)); mkRval 0%N 1%N None]] in
  ~ Forall (rop_ok sval 1%N) ops /\
  let c := fold_left (rcol_apply sval) ops (new_rcol sval 1%N false false) in
  rcol_less sval lt_sval c 0 1 = false /\
  (cmp_values sval (cmp_col sval cmp_sval true false false)
              (map (rv_val sval) (nth 0 (rcol_rows sval c) []))
              (map (rv_val sval) (nth 1 (rcol_rows sval c) [])) <? 0)%Z = true.
Proof.
  split.
  - intros H. inversion H as [|? ? Hx _]; subst. destruct Hx as [Hv _].
    inversion Hv as [|? ? _ Hv']; subst.
    inversion Hv' as [|? ? Hb _]; subst. unfold rval_ok in Hb. simpl in Hb.
    destruct Hb as [Hb _]. now apply Hb.
  - vm_compute. split; reflexivity.
Qed.

(** What remains outside the theorems, kept visible: a row whose values are
    split over two WriteValues calls (the second batch starting at a non-zero
    repetition level) is outside [rop_ok]; and the history theorems of the
    multi-column buffer (C10_swaps_preserve_rows, C10_less_is_comparator)
    quantify over schemas of required and optional columns -- a buffer that
    also has repeated columns is covered column by column
    (C10_repeated_rows_preserved, C10_repeated_less_is_comparator) and through
    C10_buffer_less_lexicographic, not by one statement over the whole buffer: *)
Definition C10_full_statement : Prop :=
  forall (md : N) (nf desc : bool) (ops : list (rop sval)),
    (* any batches of well-formed values, rows split across batches included *)
    Forall (fun o => match o with RWrite vs => Forall (rval_ok sval md) vs | _ => True end) ops ->
    (match flat_map (fun o => match o with RWrite vs => vs | _ => [] end) ops with
     | v :: _ => rv_rep sval v = 0%N | [] => True end) ->
    let c := fold_left (rcol_apply sval) ops (new_rcol sval md (xorb nf desc) desc) in
    rcol_rows sval (rcol_page sval c) = rcol_rows sval c /\
    rcol_page_rows sval c = rcol_rows sval c /\
    forall i j, i < length (rrows sval c) -> j < length (rrows sval c) ->
      rcol_less sval lt_sval c i j =
      (cmp_values sval (cmp_col sval cmp_sval true desc nf)
                  (map (rv_val sval) (nth i (rcol_rows sval c) []))
                  (map (rv_val sval) (nth j (rcol_rows sval c) [])) <? 0)%Z.

(* the repeated model on the rows of the two repaired defects: [1 3] / [1 2]
   are ordered by their second elements; descending, the prefix [1] still
   sorts before [1 3], and the empty list last (nulls last) *)
Definition rv (r d : N) (v : option Z) : rval sval := mkRval r d (option_map VI v).
Example C10_ex_repeated :
  c10_rep 1 false false [RWrite [rv 0 1 (Some 1%Z); rv 1 1 (Some 3%Z); rv 0 1 (Some 1%Z); rv 1 1 (Some 2%Z)]] =
  ([[rv 0 1 (Some 1%Z); rv 1 1 (Some 3%Z)]; [rv 0 1 (Some 1%Z); rv 1 1 (Some 2%Z)]],
   [[rv 0 1 (Some 1%Z); rv 1 1 (Some 3%Z)]; [rv 0 1 (Some 1%Z); rv 1 1 (Some 2%Z)]],
   [[false; false]; [true; false]], [[0; 1]; [-1; 0]]%Z) /\
  snd (fst (c10_rep 1 false true [RWrite [rv 0 1 (Some 1%Z); rv 1 1 (Some 3%Z); rv 0 1 (Some 1%Z); rv 0 0 None]])) =
  [[false; false; true]; [true; false; true]; [false; false; false]].
Proof. vm_compute. split; reflexivity. Qed.

(** * Non-vacuity: a concrete buffer.  Columns: required INT64 id, optional
    INT64 (max level 1), optional BYTE_ARRAY nested in an optional group (max
    level 2); sorted by column 1 descending nulls last, then column 2 ascending
    nulls first.  History: typed write of 4 rows, the 3 exchanges a sort
    performs, Page, a second write, one more exchange. *)
Definition ex_schema : list N := [0; 1; 2]%N.
Definition ex_sorting : list sortcol := [mkSortcol 1 true false; mkSortcol 2 false true].
Definition ex_batch1 : list (list (wval sval)) :=
  [[WVal (VI 1); WVal (VI 5); WNull 1%N];
   [WVal (VI 2); WNull 0%N;   WVal (VB [97%N])];
   [WVal (VI 3); WVal (VI 7); WVal (VB [98%N])];
   [WVal (VI 4); WVal (VI 5); WNull 0%N]].
Definition ex_batch2 : list (list (wval sval)) :=
  [[WVal (VI 5); WVal (VI 9); WVal (VB [])]].
Definition ex_sort1 : list (nat * nat) := [(0, 2); (1, 2); (2, 3)].
Definition ex_ops : list (op sval) :=
  OWrite true ex_batch1 :: swap_ops sval ex_sort1 ++ [OPage; OWrite false ex_batch2].
Definition ex_sort2 : list (nat * nat) := [(0, 4); (1, 4); (2, 4); (3, 4)].

Example C10_ex_schema_ok : ex_schema <> [] /\ sorting_ok ex_schema ex_sorting.
Proof.
  split; [discriminate|]. split.
  - simpl. repeat constructor; simpl; intuition discriminate.
  - repeat constructor; simpl; lia.
Qed.

Example C10_ex_ops_ok : Forall (op_ok sval ex_schema) ex_ops.
Proof.
  unfold ex_ops, ex_batch1, ex_batch2, op_ok, wrow_ok, wv_col_ok. simpl.
  repeat constructor; simpl; try discriminate.
Qed.

(* the second sort leaves no adjacent inversion: the hypothesis of
   C10_sorted_after_swaps holds of this history *)
Example C10_ex_sorted :
  let b' := reach sval ex_schema ex_sorting (ex_ops ++ swap_ops sval ex_sort2) in
  sorted_by_less sval lt_sval b' (buffer_len sval b').
Proof.
  intros b' i Hi. assert (E : buffer_len sval b' = 5) by (vm_compute; reflexivity).
  rewrite E in Hi. destruct i as [|[|[|[|i]]]]; try lia; vm_compute; reflexivity.
Qed.

(* and its conclusion is what evaluation gives: ids 5,3,1,4,2 (rows 1 and 4
   have equal keys: value 5, then null) *)
Example C10_ex_rows :
  map (fun r => fst (nth 0 r (dcell sval)))
      (buffer_page_rows sval (reach sval ex_schema ex_sorting (ex_ops ++ swap_ops sval ex_sort2))) =
  [Some (VI 5); Some (VI 3); Some (VI 1); Some (VI 4); Some (VI 2)].
Proof. vm_compute. reflexivity. Qed.

Example C10_ex_less_matrix :
  less_matrix (reach sval ex_schema ex_sorting (ex_ops ++ swap_ops sval ex_sort2)) =
  [[false; true;  true;  true;  true];
   [false; false; true;  true;  true];
   [false; false; false; false; true];
   [false; false; false; false; true];
   [false; false; false; false; false]].
Proof. vm_compute. reflexivity. Qed.

(* ReadValuesAt on the sorted buffer of the example, before anything read it (the values of
   the optional columns are not yet in row order): 3 cells of column 1 from offset 1, and a
   destination longer than what is left of column 2 *)
Example C10_ex_read_values_at :
  let b := reach sval ex_schema ex_sorting (ex_ops ++ swap_ops sval ex_sort2) in
  buffer_read_values_at sval b 1 1 3 = [(Some (VI 7), 1%N); (Some (VI 5), 1%N); (Some (VI 5), 1%N)] /\
  buffer_read_values_at sval b 2 3 9 = [(None, 0%N); (Some (VB [97%N]), 2%N)] /\
  map (fun r => nth 1 r (dcell sval)) (spec_run sval ex_schema (ex_ops ++ swap_ops sval ex_sort2)) =
  [(Some (VI 9), 1%N); (Some (VI 7), 1%N); (Some (VI 5), 1%N); (Some (VI 5), 1%N); (None, 0%N)].
Proof. vm_compute. repeat split; reflexivity. Qed.

(** * The tree before the repairs refutes the statements *)

(** (0) before 0e9a630, ReadValuesAt of an optional column read the base values where they
    were: after the two exchanges that sort (3,30) (1,null) (2,20) by the first column, the
    levels are in the new order and the values are not: [null; 30; 20] instead of the column
    [null; 20; 30] of the rows, which C10_read_values_at_is_window_of_rows gives for the
    present code. *)
Definition rva_ops : list (op sval) :=
  [OWrite false [[WVal (VI 3); WVal (VI 30)]; [WVal (VI 1); WNull 0%N]; [WVal (VI 2); WVal (VI 20)]];
   OSwap 0 1; OSwap 1 2].

Theorem C10_read_values_at_without_page_refuted :
  let b := reach sval [0; 1]%N [mkSortcol 0 false false] rva_ops in
  let column := map (fun r => nth 1 r (dcell sval)) (spec_run sval [0; 1]%N rva_ops) in
  match nth 1 (columns b) (dcol sval) with
  | COpt o => ocol_read_values_at_pinned sval o 0 3
  | CReq _ => []
  end <> column /\
  buffer_read_values_at sval b 1 0 3 = column /\
  column = [(None, 0%N); (Some (VI 20), 1%N); (Some (VI 30), 1%N)].
Proof. vm_compute. split; [discriminate|split; reflexivity]. Qed.

(** (a) before 61e14ff, Page renumbered "rows[i] = i" at the non-null counter:
    write [v0; null; v1], one exchange (what sort.Sort does), Page, write one
    more row, the exchange sorting it to the front, Page: the logical rows and the rows read from the pages are no
    longer the rows written (row 4 comes back with the value of row 3: whole
    rows are not intact), so the statement of
    C10_swaps_preserve_rows fails for the faithful model of that code. *)
Definition pin_schema : list N := [0; 1]%N.
Definition pin_sorting : list sortcol := [mkSortcol 1 false false].
Definition pin_ops : list (op sval) :=
  [OWrite false [[WVal (VI 1); WVal (VI 5)]; [WVal (VI 2); WNull 0%N]; [WVal (VI 3); WVal (VI 3)]];
   OSwap 0 2; OPage;
   OWrite false [[WVal (VI 4); WVal (VI 1)]]; OSwap 0 3; OPage].

Theorem C10_pinned_page_renumbering_refuted :
  pin_schema <> [] /\ Forall (op_ok sval pin_schema) pin_ops /\
  let '(rs, prs, _, _) := c10_run false true pin_schema pin_sorting pin_ops in
  rs <> spec_run sval pin_schema pin_ops /\
  prs <> spec_run sval pin_schema pin_ops /\
  (exists r, In r prs /\ ~ In r (written sval pin_schema pin_ops)) /\
  (* whereas the model of the current code gives the specification *)
  let '(rs', prs', _, _) := c10_run false false pin_schema pin_sorting pin_ops in
  rs' = spec_run sval pin_schema pin_ops /\ prs' = spec_run sval pin_schema pin_ops.
Proof.
  split; [discriminate|]. split.
  - unfold pin_ops, op_ok, wrow_ok, wv_col_ok. simpl. repeat constructor; simpl; try discriminate.
  - vm_compute. split; [discriminate|]. split; [discriminate|]. split.
    + exists [(Some (VI 4), 0%N); (Some (VI 3), 1%N)]. split; [left; reflexivity|].
      intros [H|[H|[H|[H|[]]]]]; discriminate.
    + split; reflexivity.
Qed.

(** (b) before 6fbdd78, Buffer.configure handed the declared null ordering to
    the column also when it was wrapped in reversedColumnBuffer: for
    Descending + nulls last, Less puts the null row before the value row while
    the comparator orders it after: C10_less_is_comparator fails. *)
Definition pin2_sorting : list sortcol := [mkSortcol 1 true false].
Definition pin2_ops : list (op sval) :=
  [OWrite false [[WVal (VI 1); WVal (VI 5)]; [WVal (VI 2); WNull 0%N]]].

Theorem C10_pinned_null_ordering_refuted :
  pin_schema <> [] /\ sorting_ok pin_schema pin2_sorting /\ Forall (op_ok sval pin_schema) pin2_ops /\
  let b := run_ops sval (configure_pinned sval pin_schema pin2_sorting) pin2_ops in
  buffer_less sval lt_sval b 1 0 = true /\
  ~ (compare_rows sval cmp_sval pin_schema pin2_sorting (buffer_row sval b 1) (buffer_row sval b 0) < 0)%Z /\
  (* whereas the current configure agrees with the comparator *)
  let b' := reach sval pin_schema pin2_sorting pin2_ops in
  buffer_less sval lt_sval b' 1 0 = false /\ buffer_less sval lt_sval b' 0 1 = true.
Proof.
  split; [discriminate|]. split; [|split].
  - split; simpl; repeat constructor; simpl; auto.
  - unfold pin2_ops, op_ok, wrow_ok, wv_col_ok. simpl. repeat constructor; simpl; try discriminate.
  - vm_compute. split; [reflexivity|]. split; [discriminate|]. split; reflexivity.
Qed.

(** * The sorting writer (sorting.go)

    Model: Sort/Writer.v.  A history is a list of Write batch | Flush | Close |
    Reset; [sw_run] gives the rows of every file closed, [sw_written] the rows
    written to each of them (Close ends a file, Reset abandons what was written
    since).  [maxrows] is NewSortingWriter's sortRowCount.  The two contracts:

      sort_contract A cmp sortf  :=  forall l, Permutation (sortf l) l /\
                                     StronglySorted (fun a b => cmp a b <= 0) (sortf l)
        -- sort.Sort on the RowBuffer: C10_writer_sort_contract derives it from
           the exchange-level contract used for the buffers above;
      merge_contract A cmp merge :=  forall st, Forall sorted st ->
                                     exists st', sched cmp st (merge st) st' /\ all_empty st'
        -- the rows MergeRowGroups delivers are a complete run of the abstract
           merge scheduler of C09: C10_writer_merge_contract (C09_mergeK_refines +
           C09_mergeK_terminates). *)
Section C10_writer.
  Variable A : Type.
  Variable cmp : A -> A -> Z.
  Hypothesis cmp_opp : forall a b, (cmp a b < 0 <-> cmp b a > 0)%Z.
  Hypothesis cmp_trans : forall a b d, (cmp a b <= 0 -> cmp b d <= 0 -> cmp a d <= 0)%Z.

  (** Every file closed holds a sorted permutation of all the rows written to
      it -- for every size of the sort runs, every batching of the writes and
      every placement of Flush, Close and Reset. *)
  Theorem C10_sorting_writer_sorted_permutation :
    forall (sortf : list A -> list A) (merge : list (list (Merge.Model.row A)) -> list (Merge.Model.row A))
           (maxrows : nat) (keep_last : bool) (ops : list (swop A)),
    1 <= maxrows -> sort_contract A cmp sortf -> merge_contract A cmp merge ->
    Forall2 (fun out w => StronglySorted (fun a b => (cmp a b <= 0)%Z) out /\ Permutation out w)
            (sw_run A cmp sortf merge maxrows false keep_last ops) (sw_written A [] ops).
  Proof.
    intros sortf merge maxrows keep_last ops Hm Hs Hg.
    exact (sorting_writer_sorted_permutation A cmp cmp_opp cmp_trans sortf merge maxrows Hm Hs Hg keep_last ops).
  Qed.

  (** Stability, as the code has it: sort.Sort is not stable, so rows of equal
      keys inside a run come in any order; the merge keeps every run's order. *)
  Theorem C10_sorting_writer_runs_keep_order :
    forall sortf merge (maxrows : nat) (keep_last : bool) (ops : list (swop A)),
    1 <= maxrows -> sort_contract A cmp sortf -> merge_contract A cmp merge ->
    let s1 := sw_flush A cmp sortf false keep_last
                (fst (sw_exec A cmp sortf merge maxrows false keep_last ops)) in
    let m := merge (sw_runs A s1) in
    Merge.AbstractProofs.sorted A cmp m /\ Permutation (concat (sw_runs A s1)) m /\
    forall i, Merge.AbstractProofs.of_input A i m = nth i (sw_runs A s1) [].
  Proof.
    intros sortf merge maxrows keep_last ops Hm Hs Hg.
    exact (sorting_writer_runs_keep_order A cmp cmp_opp cmp_trans sortf merge maxrows Hm Hs Hg keep_last ops).
  Qed.

  (** With DropDuplicatedRows (and the code as it is: the dedupe state reset
      after each run) every file closed holds exactly one row for each key
      written to it: the rows are strictly increasing, every key written is
      represented, and every row is one of the rows written to that file --
      whatever the run size and whatever the writer wrote before (previous files
      closed, or abandoned by Reset). *)
  Theorem C10_sorting_writer_dedupe_one_per_key :
    forall sortf merge (maxrows : nat) (ops : list (swop A)),
    1 <= maxrows -> sort_contract A cmp sortf -> merge_contract A cmp merge ->
    Forall2 (fun out w =>
               StronglySorted (fun a b => (cmp a b < 0)%Z) out /\
               (forall a, In a w -> exists b, In b out /\ cmp a b = 0%Z) /\
               (forall b, In b out -> In b w))
            (sw_run A cmp sortf merge maxrows true false ops) (sw_written A [] ops).
  Proof.
    intros sortf merge maxrows ops Hm Hs Hg.
    exact (sorting_writer_dedupe_one_per_key A cmp cmp_opp cmp_trans sortf merge maxrows Hm Hs Hg ops).
  Qed.

  (** ... hence independent of the run size, of the sort and merge routines and
      of the history: files written with the same keys carry equal keys at
      equal positions. *)
  Theorem C10_sorting_writer_dedupe_independent :
    forall sortf1 merge1 maxrows1 ops1 sortf2 merge2 maxrows2 ops2,
    1 <= maxrows1 -> sort_contract A cmp sortf1 -> merge_contract A cmp merge1 ->
    1 <= maxrows2 -> sort_contract A cmp sortf2 -> merge_contract A cmp merge2 ->
    Forall2 (same_keys cmp) (sw_written A [] ops1) (sw_written A [] ops2) ->
    Forall2 (Forall2 (fun a b => cmp a b = 0%Z))
            (sw_run A cmp sortf1 merge1 maxrows1 true false ops1)
            (sw_run A cmp sortf2 merge2 maxrows2 true false ops2).
  Proof. exact (sorting_writer_dedupe_independent A cmp cmp_opp cmp_trans). Qed.

  (** The contracts hold of what the Go code runs.  sort.Sort acts on the
      RowBuffer through Less (compare < 0) and Swap: under the same exchange
      level contract as for the buffers its result is a sorted permutation. *)
  Theorem C10_writer_sort_contract : forall sort_swaps : list A -> list (nat * nat),
    (forall l, rb_swo A cmp l ->
       forall i, S i < length l -> rb_less A cmp (rb_swaps A l (sort_swaps l)) (S i) i = false) ->
    sort_contract A cmp (fun l => rb_swaps A l (sort_swaps l)).
  Proof. exact (rb_sort_contract A cmp cmp_opp cmp_trans). Qed.

  Theorem C10_writer_rowbuffer_less_swo : forall l, rb_swo A cmp l.
  Proof. exact (rb_less_swo A cmp cmp_opp cmp_trans). Qed.

  (** The merged reader of merge.go over any number of row groups, any
      chunking of the sources, read with slices of b >= 1 rows to io.EOF. *)
  Theorem C10_writer_merge_contract : forall chunks b, 1 <= b ->
    merge_contract A cmp (mergek_all cmp chunks b).
  Proof. intros chunks b Hb. exact (mergek_all_contract A cmp chunks b cmp_opp cmp_trans Hb). Qed.

  (* the sort and the merge the oracle runs *)
  Theorem C10_writer_model_contracts :
    sort_contract A cmp (isort A cmp) /\ merge_contract A cmp (Merge.Model.ref_merge_all cmp).
  Proof. split; [exact (isort_contract A cmp cmp_opp cmp_trans)|exact (ref_merge_contract A cmp cmp_opp cmp_trans)]. Qed.
End C10_writer.

Print Assumptions C10_sorting_writer_sorted_permutation.
Print Assumptions C10_sorting_writer_runs_keep_order.
Print Assumptions C10_sorting_writer_dedupe_one_per_key.
Print Assumptions C10_sorting_writer_dedupe_independent.
Print Assumptions C10_writer_sort_contract.
Print Assumptions C10_writer_rowbuffer_less_swo.
Print Assumptions C10_writer_merge_contract.
Print Assumptions C10_writer_model_contracts.

(** The model the oracle runs ([sw_model]: rows of INT64 / BYTE_ARRAY cells
    with the index of their arrival, the comparator of the sorting columns,
    insertion sort, reference merge): no hypothesis left. *)
Theorem C10_sval_sorting_writer_sorted_permutation : forall sorting maxrows keep_last ops,
  1 <= maxrows ->
  Forall2 (fun out w => StronglySorted (fun a b => (cmpW sorting a b <= 0)%Z) out /\ Permutation out w)
          (sw_model sorting maxrows false keep_last ops) (sw_written witem [] ops).
Proof. exact sw_model_sorted_permutation. Qed.

Theorem C10_sval_sorting_writer_dedupe_one_per_key : forall sorting maxrows ops,
  1 <= maxrows ->
  Forall2 (fun out w =>
             StronglySorted (fun a b => (cmpW sorting a b < 0)%Z) out /\
             (forall a, In a w -> exists b, In b out /\ cmpW sorting a b = 0%Z) /\
             (forall b, In b out -> In b w))
          (sw_model sorting maxrows true false ops) (sw_written witem [] ops).
Proof. exact sw_model_dedupe_one_per_key. Qed.

(* its comparator is the row comparator of compare.go (the model of
   Schema.Comparator above) on rows whose required sorting cells hold values,
   and a total preorder on all rows *)
Theorem C10_sval_writer_comparator : forall schema sorting (a b : witem),
  row_wf sval schema sorting (snd a) -> row_wf sval schema sorting (snd b) ->
  cmpW sorting a b = compare_rows sval cmp_sval schema sorting (snd a) (snd b).
Proof. exact cmpW_is_comparator. Qed.

Theorem C10_sval_writer_comparator_total_preorder : forall sorting,
  (forall a b, (cmpW sorting a b < 0 <-> cmpW sorting b a > 0)%Z) /\
  (forall a b d, (cmpW sorting a b <= 0 -> cmpW sorting b d <= 0 -> cmpW sorting a d <= 0)%Z).
Proof. intros sorting. split; [exact (cmpW_opp sorting)|exact (cmpW_trans sorting)]. Qed.

Print Assumptions C10_sval_sorting_writer_sorted_permutation.
Print Assumptions C10_sval_sorting_writer_dedupe_one_per_key.
Print Assumptions C10_sval_writer_comparator.
Print Assumptions C10_sval_writer_comparator_total_preorder.

(** Non-vacuity: one writer, sort runs of 4 rows, two files.  First file: keys
    5 3 7 3 1 7 9 2; second file (after Close and Reset): 12 9 10 | Flush | 12
    11 10 -- its smallest key, 9, is the greatest key of the last run of the
    first file.  Rows are (index of arrival, key). *)
Definition wi (id : nat) (k : Z) : witem := (id, [(Some (VI k), 0%N)]).
Definition ex_w_sorting : list sortcol := [mkSortcol 0 false false].
Definition ex_w_ops : list (swop witem) :=
  [SWWrite [wi 0 5; wi 1 3; wi 2 7; wi 3 3; wi 4 1; wi 5 7; wi 6 9; wi 7 2]; SWClose; SWReset;
   SWWrite [wi 8 12; wi 9 9; wi 10 10]; SWFlush; SWWrite [wi 11 12; wi 12 11; wi 13 10]; SWClose].

Example C10_ex_sorting_writer :
  c10_sw ex_w_sorting 4 false false ex_w_ops = [[4; 7; 1; 3; 0; 2; 5; 6]; [9; 10; 13; 12; 8; 11]] /\
  c10_sw ex_w_sorting 4 true false ex_w_ops = [[4; 7; 1; 0; 2; 6]; [9; 10; 12; 8]] /\
  c10_sw ex_w_sorting 1 true false ex_w_ops = [[4; 7; 1; 0; 2; 6]; [9; 10; 12; 8]] /\
  c10_sw ex_w_sorting 100 true false ex_w_ops = [[4; 7; 1; 0; 2; 6]; [9; 10; 12; 8]] /\
  map (map (@fst nat (row sval))) (sw_written witem [] ex_w_ops) =
    [[0; 1; 2; 3; 4; 5; 6; 7]; [8; 9; 10; 11; 12; 13]].
Proof. vm_compute. repeat split; reflexivity. Qed.

(** Without "defer w.dedupe.reset()" in sortAndWriteBufferedRows ([keep_last] =
    true: the last key kept by the deduplication of a run survives into the
    next run, also across Close and Reset) the statement of
    C10_sorting_writer_dedupe_one_per_key fails for the faithful model of that
    code: the row with key 9 of the second file is dropped as a duplicate of
    the last row of the first file, and no row with its key remains. *)
Theorem C10_sorting_writer_no_reset_refuted :
  let outs := sw_model ex_w_sorting 4 true true ex_w_ops in
  map (map fst) outs = [[4; 7; 1; 0; 2; 6]; [10; 12; 8]] /\
  ~ Forall2 (fun out w => forall a, In a w -> exists b, In b out /\ cmpW ex_w_sorting a b = 0%Z)
            outs (sw_written witem [] ex_w_ops).
Proof.
  split; [vm_compute; reflexivity|].
  intros H. vm_compute in H.
  inversion H as [|? ? ? ? _ H2]; subst. inversion H2 as [|? ? ? ? H3 _]; subst.
  destruct (H3 (wi 9 9)) as [b [Hb Eb]]; [right; left; reflexivity|].
  destruct Hb as [<-|[<-|[<-|[]]]]; vm_compute in Eb; discriminate.
Qed.

Print Assumptions C10_sorting_writer_no_reset_refuted.
Print Assumptions C10_read_values_at_without_page_refuted.
