(** C01 — write then read returns exactly the rows that were written.
    Statements only; proofs are in Dremel/Proofs.v, File/PipelineProofs.v and
    Enc/*Proofs.v.

    The pipeline is layout-parametric: the page cuts of every column are an
    arbitrary input, so every choice a writer can make (page size limits, row
    group limits, Flush calls between Write calls, dictionary fallback — which
    only changes the value encoding of later pages) is covered by one theorem.
    Leaf values are bit patterns / byte strings and are never interpreted, so
    NaN payloads, -0 and extreme integers are ordinary values. *)
From Coq Require Import List NArith ZArith Lia.
From PQ Require Import Base.Bytes Base.BitPack Enc.DeltaBP Enc.DeltaBPProofs Enc.Plain Enc.PlainProofs.
From PQ Require Import Dremel.Model Dremel.Proofs File.Pipeline File.PipelineProofs File.PipelineFull.
Import ListNotations.
Open Scope N_scope.

Section C01.
  Variable V : Type.
  (* any value encoding that round-trips on the values it accepts (C04 provides
     them: PLAIN, DELTA_*, BYTE_STREAM_SPLIT, RLE_DICTIONARY indexes) *)
  Variable venc : list V -> bytes.
  Variable vdec : nat -> bytes -> option (list V).
  Variable vok : V -> Prop.
  Hypothesis v_roundtrip : forall vs, Forall vok vs -> N.of_nat (length vs) < 2 ^ 61 ->
                                      vdec (length vs) (venc vs) = Some vs.

  (** Re-assembly inverts shredding, for every schema and value (nulls, empty
      lists and nesting preserved), whatever columns of later rows follow. *)
  Theorem C01_assemble_shred : forall s, wf_schema s -> forall v r d k n tails,
    wfn V n s v -> length tails = nleaves s -> heads_le V k tails ->
    asm s d k (S n) (zipapp (shred s v r d k) tails) = Some (v, tails).
  Proof. exact (asm_shred V). Qed.

  (** A page (levels + values) decodes to the entries it was built from. *)
  Theorem C01_page_roundtrip : forall maxr maxd es,
    Forall (entry_ok V vok maxr maxd) es -> N.of_nat (length es) < 2 ^ 61 ->
    decode_page V vdec maxr maxd (encode_page V venc maxr maxd es) = Some es.
  Proof. exact (page_roundtrip V venc vdec vok v_roundtrip). Qed.

  (** Any cut of a column into pages reads back as the column. *)
  Theorem C01_column_roundtrip_all_layouts : forall maxr maxd layout col,
    Forall (entry_ok V vok maxr maxd) col -> N.of_nat (length col) < 2 ^ 61 ->
    read_column V vdec maxr maxd (write_column V venc maxr maxd layout col) = Some col.
  Proof. exact (column_roundtrip V venc vdec vok v_roundtrip). Qed.

  (** The whole pipeline: for every schema, every sequence of well-formed
      records whose leaf values the value encoding accepts ([leaves_ok]) and
      every page layout of every column, reading the written file returns the
      records in order.  The only size condition is the format's: a column
      holds fewer than 2^61 entries. *)
  Theorem C01_roundtrip_all_layouts : forall s, wf_schema s -> forall n rows layouts,
    Forall (wfn V n s) rows -> Forall (leaves_ok V vok) rows ->
    Forall (fun c : column V => N.of_nat (length c) < 2 ^ 61) (shred_rows s rows) ->
    read_file V vdec s (length rows) (S n) (write_file V venc s layouts rows) = Some rows.
  Proof. exact (read_write_file_full V vok venc vdec v_roundtrip). Qed.

  (** The same with the column conditions explicit (level bounds and value
      placement of the shredded entries), for columns that do not come from
      [shred_rows]. *)
  Theorem C01_roundtrip_columns : forall s, wf_schema s -> forall n rows layouts,
    Forall (wfn V n s) rows ->
    cols_ok V vok (max_levels s 0 0) (shred_rows s rows) ->
    read_file V vdec s (length rows) (S n) (write_file V venc s layouts rows) = Some rows.
  Proof. exact (read_write_file V venc vdec vok v_roundtrip). Qed.
End C01.

Print Assumptions C01_assemble_shred.
Print Assumptions C01_page_roundtrip.
Print Assumptions C01_column_roundtrip_all_layouts.
Print Assumptions C01_roundtrip_all_layouts.
Print Assumptions C01_roundtrip_columns.

(** The value-encoding hypothesis is satisfiable: DELTA_BINARY_PACKED on int64
    and PLAIN on fixed-width patterns are instances. *)
Definition delta64_dec (n : nat) (b : bytes) : option (list Z) :=
  match DeltaBP.dec 64 b with
  | Some (xs, _) => if Nat.eqb (length xs) n then Some xs else None
  | None => None
  end.

Theorem C01_delta64_is_a_value_encoding : forall vs,
  Forall (in_sint 64) vs -> N.of_nat (length vs) < 2 ^ 61 ->
  delta64_dec (length vs) (DeltaBP.enc 64 vs) = Some vs.
Proof.
  intros vs Hv Hl. unfold delta64_dec.
  pose proof (dec_enc 64 (or_intror eq_refl) vs [] Hv) as H. rewrite app_nil_r in H.
  rewrite H by (eapply N.lt_trans; [exact Hl|reflexivity]). now rewrite Nat.eqb_refl.
Qed.

Theorem C01_plain_fixed_is_a_value_encoding : forall k vs, (0 < k)%nat ->
  Forall (fun v => v < 256 ^ N.of_nat k) vs ->
  dec_plain_fixed k (plain_fixed k vs) = Some vs.
Proof. intros k vs Hk Hv. now apply plain_fixed_roundtrip. Qed.

Print Assumptions C01_delta64_is_a_value_encoding.

(** Non-vacuity: a record with an optional field, a repeated field holding an
    empty list and a nested repeated group, written with a layout that cuts
    columns in the middle of the record sequence. *)
Definition ex_schema : schema :=
  Group (FCons Req Leaf (FCons Opt Leaf (FCons Rpt Leaf
        (FCons Rpt (Group (FCons Req Leaf (FCons Rpt Leaf FNil))) FNil)))).

Definition ex_rows : list (value Z) :=
  [ VGroup [VLeaf 1%Z; VOpt None; VList []; VList []];
    VGroup [VLeaf (-2)%Z; VOpt (Some (VLeaf 7%Z)); VList [VLeaf 3%Z; VLeaf 4%Z];
            VList [VGroup [VLeaf 5%Z; VList []]; VGroup [VLeaf 6%Z; VList [VLeaf 8%Z; VLeaf 9%Z]]]];
    VGroup [VLeaf 9223372036854775807%Z; VOpt (Some (VLeaf (-9223372036854775808)%Z)); VList [VLeaf 0%Z]; VList []] ].

Example C01_ex_roundtrip :
  read_file Z delta64_dec ex_schema 3 5
    (write_file Z (DeltaBP.enc 64) ex_schema [[1;2]; [2]; [1;1;2]; [3]; [2;2]]%nat ex_rows) = Some ex_rows.
Proof. vm_compute. reflexivity. Qed.

Example C01_ex_wf : wf_schema ex_schema /\ Forall (wfn Z 4 ex_schema) ex_rows /\
                    Forall (leaves_ok Z (in_sint 64)) ex_rows.
Proof.
  split; [cbn; repeat split; lia|]. split; [|repeat constructor; cbn; unfold in_sint; repeat split; lia].
  repeat constructor; cbn; repeat split; try lia; repeat constructor; cbn; repeat split; try lia;
    repeat constructor; cbn; auto.
Qed.
