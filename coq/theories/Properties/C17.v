(** C17 — output bytes are a function of input and options only.
    Statements only; the model is Reset/Model.v (an abstract, executable state
    machine of the file writer: which state flows into the emitted bytes, what
    Reset clears and what it keeps), the classification of the fields of the Go
    structs is Reset/Classification.v, proofs are in Reset/Proofs.v.

    The row encoding is a parameter ([encode]: encoding in force, dictionary
    contents, rows of the page): the theorems hold for every encoding.  That the
    real encoders are functions of exactly these inputs (no hidden state, both
    builds) is tied by differential execution (harness/c17: sha256 of files). *)
From Coq Require Import List NArith Bool String Permutation Sorted.
From PQ Require Import Generated.StateFields Reset.Classification Reset.Model Reset.Proofs.
Import ListNotations.
Open Scope N_scope.

Section C17.
  Variable encode : enc -> list N -> list N -> list N.

  (** For EVERY history [h] of the previous life -- any operations: writes,
      flushes, Close, earlier Resets, a sink that failed in the middle of a row
      group ([FailWrite]), a life abandoned without Close ([Abandon]),
      dictionary fallback, WriteRowGroup, SetKeyValueMetadata -- and every
      operation list [ops] of the next life, the writer reused through Reset
      emits what a fresh writer emits.  Unbounded: induction over [ops] with the
      simulation relation "equal on all non-scratch fields". *)
  Theorem C17_reset_equiv_init : forall cfg md h ops,
    observe (run encode (reset encode (run encode (init cfg md) h)) ops)
    = observe (run encode (init cfg md) ops).
  Proof. exact (reset_equiv_init encode). Qed.

  (** ... for the bytes, whatever the serialisation of the emitted structures *)
  Theorem C17_reset_equiv_init_bytes : forall (B : Type) (ser : event -> list B) cfg md h ops,
    observe_bytes ser (run encode (reset encode (run encode (init cfg md) h)) ops)
    = observe_bytes ser (run encode (init cfg md) ops).
  Proof. exact (reset_equiv_init_bytes encode). Qed.

  (** with Reset as an operation inside one history: nothing before it matters *)
  Theorem C17_history_before_reset_irrelevant : forall cfg md h1 h2 ops,
    observe (run encode (init cfg md) (h1 ++ Reset :: ops))
    = observe (run encode (init cfg md) (h2 ++ Reset :: ops)).
  Proof. exact (history_before_reset_irrelevant encode). Qed.

  (** Two states that differ only in scratch (page buffers, header buffer,
      staging slices: arbitrary garbage) and in the retained capacity of the
      truncated footer slices (any number of cleared elements) produce the
      same bytes for every operation list. *)
  Theorem C17_scratch_irrelevant : forall s1 s2 ops,
    st_l s1 = st_l s2 -> caps_ok (st_caps s1) -> caps_ok (st_caps s2) ->
    observe (run encode s1 ops) = observe (run encode s2 ops).
  Proof. exact (scratch_irrelevant encode). Qed.

  (** The key/value metadata of the configuration is a Go map: whatever order
      its iteration produces, the writer starts from the same list, sorted by
      key (then value); every footer of a file written without
      SetKeyValueMetadata carries exactly that sorted list (also after any
      number of Resets); and the emitted bytes do not depend on the order. *)
  Theorem C17_kv_sorted : forall cfg m1 m2 ops,
    Permutation m1 m2 ->
    sort_kv m1 = sort_kv m2
    /\ StronglySorted kv_le (sort_kv m1)
    /\ Permutation m1 (sort_kv m1)
    /\ (existsb is_setkv ops = false ->
        Forall (footer_kv (sort_kv m1)) (observe (run encode (init_of_map encode cfg m2) ops)))
    /\ observe (run encode (init_of_map encode cfg m1) ops) = observe (run encode (init_of_map encode cfg m2) ops).
  Proof.
    intros cfg m1 m2 ops P. repeat split.
    - exact (sort_kv_perm m1 m2 P).
    - exact (sort_kv_sorted m1).
    - exact (sort_kv_perm_self m1).
    - intros H. unfold init_of_map. rewrite <- (sort_kv_perm m1 m2 P).
      exact (footers_carry_metadata encode cfg (sort_kv m1) ops H).
    - exact (kv_order_irrelevant encode cfg m1 m2 ops P).
  Qed.
End C17.

Print Assumptions C17_reset_equiv_init.
Print Assumptions C17_reset_equiv_init_bytes.
Print Assumptions C17_history_before_reset_irrelevant.
Print Assumptions C17_scratch_irrelevant.
Print Assumptions C17_kv_sorted.

(** Every field of the stateful Go structs (lists regenerated from writer.go and
    the column buffers on every run) is classified, no table entry is stale, and
    every field classified "reset" of the three writer structs is named by a
    component of the model.  A field added to one of the structs turns the
    first conjunct into [false = true]. *)
Theorem C17_classification_total :
  classification_total = true /\ classification_no_stale = true /\ reset_fields_modelled = true
  /\ forallb (fun f => is_some (classify "writer" (fst f))) fields_writer = true
  /\ forallb (fun f => is_some (classify "ColumnWriter" (fst f))) fields_ColumnWriter = true
  /\ forallb (fun f => is_some (classify "ConcurrentRowGroupWriter" (fst f))) fields_ConcurrentRowGroupWriter = true.
Proof. vm_compute. repeat split; reflexivity. Qed.

Print Assumptions C17_classification_total.

(** ---------- non-vacuity: concrete instances ---------- *)
Definition ex_cfg : config :=
  mk_config [mk_colcfg [1; 2] true 2 true; mk_colcfg [3] false 0 false] 5 3 false 7.
Definition ex_cfg_enc : config :=
  mk_config [mk_colcfg [1; 2] true 2 true; mk_colcfg [3] false 0 false] 5 3 true 7.

(* a previous life with an automatic row group split, a dictionary fallback, a
   failed sink, more writes on the broken writer, a key set on the file *)
Definition ex_history : list op :=
  [Write (iota 0 12); Flush; SetKV 9 9; Write (iota 12 2); FailWrite (iota 20 4) 2; Write [30]; Close].
Definition ex_ops : list op := [Write (iota 0 7); Flush; Write (iota 7 2); Close].

Example C17_ex_history_is_not_trivial :
  structure (observe (run_ids ex_cfg [(2, 1); (1, 5)] [Write (iota 0 12); Flush; Write (iota 12 2); Close]))
  = [[5; 5; 2; 2]]
  /\ count_pages (observe (run_ids ex_cfg [(2, 1); (1, 5)] ex_ops)) = 6
  /\ l_broken (st_l (run_ids ex_cfg [(2, 1); (1, 5)] ex_history)) = true
  /\ List.length (st_caps (reset encode_ids (run_ids ex_cfg [] [Write (iota 0 12); Close]))) = 3%nat
  /\ st_scratch (run_ids ex_cfg [] ex_history) <> [].
Proof. vm_compute. repeat split; try reflexivity. discriminate. Qed.

Example C17_ex_reset_equiv :
  observe (run encode_ids (reset encode_ids (run_ids ex_cfg [(2, 1); (1, 5)] ex_history)) ex_ops)
  = observe (run_ids ex_cfg [(2, 1); (1, 5)] ex_ops)
  /\ structure (observe (run_ids ex_cfg [(2, 1); (1, 5)] ex_ops)) = [[5; 2; 2]]
  /\ match last_footer (observe (run_ids ex_cfg [(2, 1); (1, 5)] ex_ops)) None with
     | Some f => ft_kv f = [(1, 5); (2, 1)] /\ ft_rows f = 9
     | None => False
     end.
Proof. vm_compute. repeat split; reflexivity. Qed.

Example C17_ex_kv : sort_kv [(2, 1); (1, 5); (1, 4)] = [(1, 4); (1, 5); (2, 1)]
  /\ sort_kv [(1, 4); (2, 1); (1, 5)] = [(1, 4); (1, 5); (2, 1)].
Proof. vm_compute. split; reflexivity. Qed.

Example C17_ex_classification :
  classify "writer" "rowGroups" = Some ResetC /\ classify "ColumnWriter" "filter" = Some Scratch
  /\ classify "ColumnWriter" "columnPath" = Some Config /\ classify "writer" "buffer" = Some Carried
  /\ classify "writer" "noSuchField" = None /\ unclassified = [].
Proof. vm_compute. repeat split; reflexivity. Qed.

(** ---------- the pinned (pre-fix) resets violate the statement ---------- *)

(** before 120fe51: clearing the finished footer structs also cleared
    path_in_schema of the live column writers (shared backing array): after a
    life that finished a row group, the next file has empty path strings *)
Theorem C17_pinned_reset_aliasing_refuted :
  exists cfg md h ops,
    observe (run_gen encode_ids (lreset_pinned) (step_gen encode_ids lreset_pinned (run_gen encode_ids lreset_pinned (init cfg md) h) Reset) ops)
    <> observe (run encode_ids (init cfg md) ops).
Proof.
  exists ex_cfg, [(1, 5)], [Write [1]; Close], [Write [1]; Close].
  vm_compute. intros H. discriminate H.
Qed.

(** before 949139e: an encrypting writer kept the row group ordinal of the
    previous file, so the modules of the next file were sealed with the wrong
    additional authenticated data (the file could not be read back) *)
Theorem C17_pinned_encrypted_ordinal_refuted :
  exists cfg md h ops,
    observe (run_gen encode_ids lreset_pinned_ordinal (step_gen encode_ids lreset_pinned_ordinal (run_gen encode_ids lreset_pinned_ordinal (init cfg md) h) Reset) ops)
    <> observe (run encode_ids (init cfg md) ops).
Proof.
  exists ex_cfg_enc, [], [Write [1]; Close], [Write [1]; Close].
  vm_compute. intros H. discriminate H.
Qed.

(** before cd20a46: pairs set with SetKeyValueMetadata leaked into the next file *)
Theorem C17_pinned_kv_survives_reset_refuted :
  exists cfg md h ops,
    observe (run_gen encode_ids lreset_pinned_kv (step_gen encode_ids lreset_pinned_kv (run_gen encode_ids lreset_pinned_kv (init cfg md) h) Reset) ops)
    <> observe (run encode_ids (init cfg md) ops).
Proof.
  exists ex_cfg, [(1, 5)], [SetKV 9 9; Write [1]; Close], [Write [1]; Close].
  vm_compute. intros H. discriminate H.
Qed.

(* values per column chunk in the last footer *)
Definition footer_values (evs : list event) : list (list N) :=
  match last_footer evs None with
  | Some f => map (fun r => map cm_nvalues (rg_cols r)) (ft_rgs f)
  | None => []
  end.

(** before 2943698: rows buffered after a dictionary fallback, in a file that was
    abandoned, came back in the next file as soon as its column fell back again *)
Theorem C17_pinned_plain_buffer_refuted :
  exists cfg md h ops,
    observe (run_gen encode_ids lreset_pinned_plain (step_gen encode_ids lreset_pinned_plain (run_gen encode_ids lreset_pinned_plain (init cfg md) h) Reset) ops)
    <> observe (run encode_ids (init cfg md) ops)
    /\ footer_values (observe (run_gen encode_ids lreset_pinned_plain (init cfg md) (h ++ Reset :: ops))) = [[6; 5]]
    /\ footer_values (observe (run encode_ids (init cfg md) ops)) = [[5; 5]].
Proof.
  exists ex_cfg, [], [Write (iota 0 4); Write [7]; Abandon], [Write (iota 0 4); Write [8]; Close].
  vm_compute. repeat split; try reflexivity. intros H. discriminate H.
Qed.

(** ... while the current reset passes on the same witnesses *)
Example C17_current_reset_on_the_witnesses :
  observe (run encode_ids (reset encode_ids (run encode_ids (init ex_cfg [(1, 5)]) [SetKV 9 9; Write [1]; Close])) [Write [1]; Close])
  = observe (run encode_ids (init ex_cfg [(1, 5)]) [Write [1]; Close])
  /\ observe (run encode_ids (reset encode_ids (run encode_ids (init ex_cfg_enc []) [Write [1]; Close])) [Write [1]; Close])
  = observe (run encode_ids (init ex_cfg_enc []) [Write [1]; Close])
  /\ observe (run encode_ids (reset encode_ids (run encode_ids (init ex_cfg []) [Write (iota 0 4); Write [7]; Abandon])) [Write (iota 0 4); Write [8]; Close])
  = observe (run encode_ids (init ex_cfg []) [Write (iota 0 4); Write [8]; Close]).
Proof. vm_compute. repeat split; reflexivity. Qed.

Print Assumptions C17_pinned_reset_aliasing_refuted.
Print Assumptions C17_pinned_encrypted_ordinal_refuted.
Print Assumptions C17_pinned_kv_survives_reset_refuted.
Print Assumptions C17_pinned_plain_buffer_refuted.

(** ---------- column state below the abstract machine: the accumulator of the
    geospatial statistics, the integer conversions of the typed writer ---------- *)
From Coq Require Import ZArith.
From PQ Require Import Reset.Geo Reset.GeoProofs Reset.Ints Reset.IntsProofs.

(** Geospatial statistics (GEOMETRY / GEOGRAPHY columns; [a_stats] of the state
    machine above): whatever the accumulator of the column writer went through
    -- any row groups [h] of any earlier life, from any state [a] -- after the
    reset the footer of every row group carries the statistics of the values of
    that row group alone. *)
Theorem C17_geo_stats_history_irrelevant : forall a h rgs,
  fst (life_stats (gacc_reset (snd (life_stats a h))) rgs) = map row_group_stats rgs.
Proof. intros. apply life_stats_own_values. Qed.

(** ... and within one life nothing flows from a row group to the next ones *)
Theorem C17_geo_stats_row_groups_independent : forall a h rgs,
  fst (life_stats (gacc_reset a) (h ++ rgs)%list) = (map row_group_stats h ++ map row_group_stats rgs)%list.
Proof. intros. apply life_stats_app. Qed.

(** [gacc_reset] has no statement to spare: a reset that left any one of the
    flags or the type set alone would show in the footer of a later row group *)
Definition geo_xy (x y : Z) : gvalue := GGeom (mk_geometry 1 false (Some (x, x)) (Some (y, y)) None None).
Definition geo_xyzm (x y z m : Z) : gvalue :=
  GGeom (mk_geometry 3001 false (Some (x, x)) (Some (y, y)) (Some (Some (z, z))) (Some (Some (m, m)))).
Definition geo_empty_line : gvalue := GGeom (mk_geometry 2 true None None None None).

Theorem C17_geo_every_reset_statement_needed :
  forall k : N, In k [1; 2; 3; 4; 5; 6]%N ->
  exists before after,
    gacc_stats (gacc_values (gacc_reset_keeping k (gacc_values gacc_new before)) after) <> row_group_stats after.
Proof.
  intros k H. simpl in H.
  destruct H as [<-|[<-|[<-|[<-|[<-|[<-|[]]]]]]].
  - exists [geo_xy 1 2], [geo_empty_line]. vm_compute. discriminate.
  - exists [geo_xy 1 2], []. vm_compute. discriminate.
  - exists [GBad], [geo_xy 1 2]. vm_compute. discriminate.
  - exists [geo_xyzm 1 2 3 4], [geo_xy 1 2]. vm_compute. discriminate.
  - exists [geo_xyzm 1 2 3 4], [geo_xy 1 2]. vm_compute. discriminate.
  - exists [geo_xyzm 1 2 3 4], [geo_xy 1 2]. vm_compute. discriminate.
Qed.

Example C17_ex_geo :
  row_group_stats [geo_xyzm 5 (-2) 7 100; geo_xy (-1) 6; geo_empty_line]
  = Some (mk_gstats [1; 2; 3001] (Some (mk_bbox (-1, 5)%Z (-2, 6)%Z (Some (7, 7)%Z) (Some (100, 100)%Z))))
  /\ row_group_stats [geo_xy 1 2; GBad; geo_xy 3 4] = None
  /\ row_group_stats [geo_empty_line] = Some (mk_gstats [2] None)
  /\ fst (life_stats gacc_new [[geo_xyzm 1 2 3 4]; [geo_xy 1 2]])
     = [Some (mk_gstats [3001] (Some (mk_bbox (1, 1)%Z (2, 2)%Z (Some (3, 3)%Z) (Some (4, 4)%Z))));
        Some (mk_gstats [1] (Some (mk_bbox (1, 1)%Z (2, 2)%Z None None)))].
Proof. vm_compute. repeat split; reflexivity. Qed.

(** Integer fields of typed rows, for every (Go kind, width tag) combination:
    the pattern stored in the INT32 / INT64 column is [widen] of the field, a
    function of the field alone (no scratch memory, no other field); when the
    column is at least as wide as the kind it is lossless, and it denotes the
    Go value at the signedness of the kind. *)
Theorem C17_int_store_lossless : forall signed bits phys raw,
  (0 < bits <= phys)%Z -> (0 <= raw < 2 ^ bits)%Z ->
  read_back bits (widen signed bits phys raw) = raw
  /\ go_value signed phys (widen signed bits phys raw) = go_value signed bits raw
  /\ (0 <= widen signed bits phys raw < 2 ^ phys)%Z.
Proof.
  intros signed bits phys raw Hb Hr. repeat split.
  - now apply widen_read_back.
  - now apply widen_value.
  - apply widen_range. apply Z.lt_le_incl, Z.lt_le_trans with bits; tauto.
  - apply widen_range. apply Z.lt_le_incl, Z.lt_le_trans with bits; tauto.
Qed.

Theorem C17_int_store_injective : forall signed bits phys r1 r2,
  (0 < bits <= phys)%Z -> (0 <= r1 < 2 ^ bits)%Z -> (0 <= r2 < 2 ^ bits)%Z ->
  widen signed bits phys r1 = widen signed bits phys r2 -> r1 = r2.
Proof. exact widen_injective. Qed.

Example C17_ex_ints :
  widen true 8 64 255 = 18446744073709551615%Z        (* int8(-1), int(64) / uint(64) *)
  /\ widen false 16 64 65535 = 65535%Z                (* uint16, uint(64) *)
  /\ widen true 16 32 32768 = 4294934528%Z            (* int16(-32768), INT32 *)
  /\ widen false 64 32 4294967301 = 5%Z               (* uint64(2^32+5), int(32): truncated *)
  /\ widen_column true 32 64 [1; 2147483648]%Z = [1; 18446744071562067968]%Z.
Proof. vm_compute. repeat split; reflexivity. Qed.

Print Assumptions C17_geo_stats_history_irrelevant.
Print Assumptions C17_geo_stats_row_groups_independent.
Print Assumptions C17_geo_every_reset_statement_needed.
Print Assumptions C17_int_store_lossless.
Print Assumptions C17_int_store_injective.

(** ---------- the bloom filter location of the live column chunk metadata
    (Reset/BloomLoc.v): row groups that went through the column writer, with a
    filter or (an optional dictionary column holding only nulls) without one,
    and row groups copied verbatim from a file by WriteRowGroup ---------- *)
From PQ Require Import Reset.BloomLoc Reset.BloomLocProofs.

(** whatever the column writer went through -- any row groups [h], built or
    copied, of any earlier life, from any state [a] -- after the reset every row
    group records the location of its own filter, or none *)
Theorem C17_bloom_location_history_irrelevant : forall bits a h rgs,
  fst (blife breset bits (breset (snd (blife breset bits a h))) rgs) = map (own_loc bits) rgs.
Proof. intros. apply blife_own. Qed.

(** a reset that forgets the location only together with a filter the column
    writer built itself is told apart (the location of a copied chunk survives
    into a chunk that has no filter) *)
Theorem C17_pinned_bloom_location_after_copy_refuted : exists bits h rgs,
  fst (blife breset_pinned bits (breset_pinned (snd (blife breset_pinned bits bnew h))) rgs)
  <> fst (blife breset_pinned bits (breset_pinned bnew) rgs).
Proof. exact breset_pinned_refuted. Qed.

Example C17_ex_bloom_location :
  fst (blife breset 10 (breset (snd (blife breset 10 bnew [(4, Copied 47); (100, Built 3)]%N))) [(4, Built 0); (60, Built 30); (200, Copied 47)]%N)
  = [(0, 0); (60, 64); (200, 47)]%N.
Proof. vm_compute. reflexivity. Qed.

Print Assumptions C17_bloom_location_history_irrelevant.
Print Assumptions C17_pinned_bloom_location_after_copy_refuted.
