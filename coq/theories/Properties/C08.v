(** C08 — seeking to a row then reading equals skipping to that row
    sequentially.  Statements only; proofs are in Cursor/Proofs.v and
    Cursor/Rows.v.

    The theorems are about the executable model of the page cursor
    (Cursor/Model.v: FilePages.ReadPage / SeekToRow with and without an offset
    index, rowGroupRows.ReadRows / SeekToRow / Reset on top), for EVERY chunk
    layout with non-empty pages and EVERY finite history.  The abstract
    specification (Cursor/Spec.v) is a single row position.

    Above the page cursor (Cursor/Multi.v, Cursor/AsyncPages.v): rowGroupRows
    over several columns with different page layouts, multiPages (the
    concatenation of the row groups), columnPages (Cursor/ColumnPages.v: the
    pages of a column of a file, one page cursor per row group), reader /
    Reader / GenericReader, and asyncPages under every interleaving of its two
    goroutines.

    Beside the page cursor (Cursor/Forward.v): the row readers that seek
    forward only by reading and dropping rows of the reader underneath
    (forwardRowSeeker behind ConvertRowReader, mergedRowGroupRows and
    concatenatingRowsWrapper behind the Rows() of merged row groups), for every
    way the reader underneath cuts its batches short; and the row window of the
    columnar variant reader over leaf columns that are opened lazily
    (Cursor/VariantLeaves.v). *)
From Coq Require Import List Arith Bool Lia.
From PQ Require Import Conc.Sem Conc.Async.
From PQ Require Import Cursor.Model Cursor.Spec Cursor.Proofs Cursor.Rows.
From PQ Require Import Cursor.Multi Cursor.MultiProofs Cursor.AsyncPages Cursor.AsyncPagesProofs.
From PQ Require Import Cursor.Nested Cursor.NestedProofs.
From PQ Require Import Cursor.ColumnPages Cursor.ColumnPagesProofs.
From PQ Require Import Cursor.Forward Cursor.ForwardProofs.
From PQ Require Import Cursor.VariantLeaves Cursor.VariantLeavesProofs.
From PQ Require Import Cursor.Copy Cursor.CopyProofs.
Import ListNotations.

(** ** Page cursor with an offset index *)

Theorem C08_cursor_refines_position : forall pages ops,
  positive pages -> run_indexed pages ops = run_spec pages ops.
Proof. exact indexed_refines. Qed.

(** After SeekToRow k, whatever happened before, the pages returned by the
    following reads hold exactly the rows k, k+1, ... : a prefix of the rows of
    the chunk from k on, all of them once io.EOF is returned; every returned
    page is non-empty. *)
Theorem C08_seek_then_read_rows_from_k : forall pages h k m,
  positive pages ->
  let after := skipn (S (length h)) (run_indexed pages (h ++ SeekToRow k :: repeat ReadPage m)) in
  let rows := concat (map out_rows after) in
  rows = firstn (length rows) (skipn k (seq 0 (total_rows pages))) /\
  (In EOF after -> rows = skipn k (seq 0 (total_rows pages))) /\
  Forall good_out after.
Proof. exact indexed_seek_then_read. Qed.

(** The same, stated against a fresh cursor that reads the chunk sequentially
    to the end and drops the first k rows. *)
Theorem C08_seek_then_read_equals_sequential_skip : forall pages h k m m',
  positive pages ->
  let after := skipn (S (length h)) (run_indexed pages (h ++ SeekToRow k :: repeat ReadPage m)) in
  let fresh := run_indexed pages (repeat ReadPage m') in
  In EOF fresh ->
  let rows := concat (map out_rows after) in
  rows = firstn (length rows) (skipn k (concat (map out_rows fresh))) /\
  (In EOF after -> rows = skipn k (concat (map out_rows fresh))).
Proof. exact indexed_seek_equals_sequential_skip. Qed.

Theorem C08_sequential_read_returns_all_rows : forall pages m,
  positive pages ->
  let outs := run_indexed pages (repeat ReadPage m) in
  let rows := concat (map out_rows outs) in
  rows = firstn (length rows) (seq 0 (total_rows pages)) /\
  (In EOF outs -> rows = seq 0 (total_rows pages)).
Proof. exact indexed_sequential. Qed.

(** ** Page cursor without an offset index (with or without dictionary page) *)

Theorem C08_cursor_noindex_refines_position : forall pages ops,
  positive pages -> run_noindex pages ops = run_spec_noindex pages ops.
Proof. exact noindex_refines. Qed.

Theorem C08_noindex_seek_then_read_rows_from_k : forall pages h k m,
  positive pages ->
  let after := skipn (S (length h)) (run_noindex pages (h ++ SeekToRow k :: repeat ReadPage m)) in
  let rows := concat (map out_rows after) in
  rows = firstn (length rows) (skipn k (seq 0 (total_rows pages))) /\
  (In EOF after -> rows = skipn k (seq 0 (total_rows pages))) /\
  Forall good_out after.
Proof. exact noindex_seek_then_read. Qed.

(** ** Offset index loaded in the middle of a history (SkipPageIndex)

    Every chunk, with or without a dictionary page: the index-less seek leaves
    the page counter at the first data page (file.go:1565-1568). *)
Theorem C08_lazy_index_refines_position : forall pages ops,
  positive pages -> run_lazy pages ops = run_spec_lazy pages ops.
Proof. exact lazy_refines. Qed.

(** ** Batch row reader (one column) over either cursor: every history of
    ReadRows (any batch sizes), SeekToRow and Reset *)

Theorem C08_rows_reader_refines_position : forall pages ops,
  positive pages -> run_rows_indexed pages ops = run_rspec true pages ops.
Proof. exact rows_indexed_refines. Qed.

Theorem C08_rows_reader_noindex_refines_position : forall pages ops,
  positive pages -> run_rows_noindex pages ops = run_rspec false pages ops.
Proof. exact rows_noindex_refines. Qed.

(** After SeekToRow k, reads of any batch sizes n1, n2, ... return exactly the
    first n1 + n2 + ... rows of the chunk from k on. *)
Theorem C08_rows_reader_seek_then_read : forall pages h k ns,
  positive pages ->
  concat (map rout_rows (skipn (S (length h))
    (run_rows_indexed pages (h ++ RSeek k :: map RRead ns)))) =
  firstn (list_sum ns) (skipn k (seq 0 (total_rows pages))).
Proof. exact rows_indexed_seek_then_read. Qed.

Theorem C08_rows_reader_noindex_seek_then_read : forall pages h k ns,
  positive pages ->
  concat (map rout_rows (skipn (S (length h))
    (run_rows_noindex pages (h ++ RSeek k :: map RRead ns)))) =
  firstn (list_sum ns) (skipn k (seq 0 (total_rows pages))).
Proof. exact rows_noindex_seek_then_read. Qed.

Print Assumptions C08_cursor_refines_position.
Print Assumptions C08_seek_then_read_rows_from_k.
Print Assumptions C08_seek_then_read_equals_sequential_skip.
Print Assumptions C08_sequential_read_returns_all_rows.
Print Assumptions C08_cursor_noindex_refines_position.
Print Assumptions C08_noindex_seek_then_read_rows_from_k.
Print Assumptions C08_lazy_index_refines_position.
Print Assumptions C08_rows_reader_refines_position.
Print Assumptions C08_rows_reader_noindex_refines_position.
Print Assumptions C08_rows_reader_seek_then_read.
Print Assumptions C08_rows_reader_noindex_seek_then_read.

(** ** Non-vacuity: a concrete layout and history *)

Definition ex_pages : chunk := [4; 4; 4; 4; 4; 4; 4].
Definition ex_history : list op := [ReadPage; SeekToRow 21; SeekToRow 2; ReadPage; ReadPage].

Example C08_ex_positive : positive ex_pages.
Proof. repeat constructor. Qed.

Example C08_ex_run :
  run_indexed ex_pages ex_history = [Rows 0 4; SeekOk; SeekOk; Rows 2 2; Rows 4 4].
Proof. vm_compute. reflexivity. Qed.

Example C08_ex_spec : run_spec ex_pages ex_history = run_indexed ex_pages ex_history.
Proof. vm_compute. reflexivity. Qed.

(** seeks at, and beyond, the end succeed and the reads return io.EOF; a
    backward seek afterwards works *)
Example C08_ex_end :
  run_indexed ex_pages [SeekToRow 28; ReadPage; SeekToRow 40; ReadPage; ReadPage; SeekToRow 27; ReadPage; ReadPage]
  = [SeekOk; EOF; SeekOk; EOF; EOF; SeekOk; Rows 27 1; EOF].
Proof. vm_compute. reflexivity. Qed.

(** a chunk without pages rejects every row but 0 *)
Example C08_ex_empty :
  run_indexed [] [SeekToRow 0; ReadPage; SeekToRow 1] = [SeekOk; EOF; OutOfRange].
Proof. vm_compute. reflexivity. Qed.

Example C08_ex_rows :
  run_rows_indexed ex_pages [RRead 3; RSeek 26; RRead 5; RSeek 6; RRead 3]
  = [RRows [0; 1; 2] false; RSeekOk; RRows [26; 27] true; RSeekOk; RRows [6; 7; 8] false].
Proof. vm_compute. reflexivity. Qed.

Example C08_ex_after_eof : In EOF (run_indexed ex_pages (repeat ReadPage 8)).
Proof. vm_compute. tauto. Qed.

(** ** The pinned tree (before b7bb510) refutes the property

    The faithful model of the old SeekToRow (the cached page is served again
    whenever the target is the last returned page, a pending re-serve is never
    cancelled) returns page 5 instead of page 1 on the history
    ReadPage; SeekToRow(row in page 5); SeekToRow(2); ReadPage; ReadPage. *)
Theorem C08_pinned_refuted :
  exists pages ops, positive pages /\ run_pinned pages ops <> run_spec pages ops.
Proof.
  exists ex_pages, ex_history. split; [exact C08_ex_positive|]. vm_compute. discriminate.
Qed.

Example C08_pinned_run :
  run_pinned ex_pages ex_history = [Rows 0 4; SeekOk; SeekOk; Rows 2 2; Rows 20 4].
Proof. vm_compute. reflexivity. Qed.

(** Before 5c1fea6 the index-less seek restarted f.index at 1 on a chunk with
    a dictionary page while the stream was at data page 0; once the offset
    index was loaded the "already positioned at the target page" shortcut
    believed it.  The faithful model of that code violates the statement. *)
Theorem C08_lazy_index_dictionary_pinned_refuted :
  exists pages ops, positive pages /\ run_lazy_pinned true pages ops <> run_spec_lazy pages ops.
Proof.
  exists [4; 4; 4], [Op (SeekToRow 0); LoadIndex; Op (SeekToRow 4); Op ReadPage].
  split; [repeat constructor|]. vm_compute. discriminate.
Qed.

(** Before 3b258db rowGroupRows.Reset rewound the columns but kept r.rowIndex,
    so a SeekToRow to the row the reader was at before the Reset was skipped. *)
Theorem C08_rows_reader_reset_pinned_refuted :
  exists pages ops, positive pages /\ run_rows_indexed_pinned pages ops <> run_rspec true pages ops.
Proof.
  exists [4; 4; 4], [RRead 5; RReset; RSeek 5; RRead 2].
  split; [repeat constructor|]. vm_compute. discriminate.
Qed.

(** the same histories on the current code *)
Example C08_ex_lazy_dictionary :
  run_lazy [4; 4; 4] [Op (SeekToRow 0); LoadIndex; Op (SeekToRow 4); Op ReadPage]
  = [SeekOk; Done; SeekOk; Rows 4 4].
Proof. vm_compute. reflexivity. Qed.

Example C08_ex_reset :
  run_rows_indexed [4; 4; 4] [RRead 5; RReset; RSeek 5; RRead 2]
  = [RRows [0; 1; 2; 3; 4] false; RDone; RSeekOk; RRows [5; 6] false].
Proof. vm_compute. reflexivity. Qed.

Print Assumptions C08_pinned_refuted.
Print Assumptions C08_lazy_index_dictionary_pinned_refuted.
Print Assumptions C08_rows_reader_reset_pinned_refuted.

(** * The layers above the page cursor *)

(** ** rowGroupRows over SEVERAL columns with DIFFERENT page layouts

    [layout_ok N cols]: at least one column, every column chunk has non-empty
    pages and [N] rows.  Every column is read through its own page cursor (the
    cursor of the theorems above); rows are assembled by reading from every
    column; a seek positions every column; r.rowIndex is advanced by every
    batch, also the one that comes back with io.EOF.  For every history of
    ReadRows (any batch sizes) / SeekToRow / Reset the outputs are those of one
    row position, and every assembled row holds the same row of every column. *)
Theorem C08_rows_multi_column : forall N cols ops,
  layout_ok N cols -> run_mrows_indexed cols ops = run_mspec true (length cols) N ops.
Proof. exact mrows_indexed_refines. Qed.

Theorem C08_rows_multi_column_noindex : forall N cols ops,
  layout_ok N cols -> run_mrows_noindex cols ops = run_mspec false (length cols) N ops.
Proof. exact mrows_noindex_refines. Qed.

Theorem C08_rows_multi_column_seek_then_read : forall N cols h k ns,
  layout_ok N cols ->
  concat (map mout_rows (skipn (S (length h))
    (run_mrows_indexed cols (h ++ RSeek k :: map RRead ns)))) =
  widen (length cols) (firstn (list_sum ns) (skipn k (seq 0 N))).
Proof. exact mrows_indexed_seek_then_read. Qed.

(** the column reader of the multi-column model is the one-column reader of
    the theorems above *)
Theorem C08_column_reader_same : forall cstep fuel,
  @gread_rows state cstep fuel = read_rows cstep fuel.
Proof. reflexivity. Qed.

(** The stale-position defect class (seeded: r.rowIndex not advanced when the
    final batch comes back with io.EOF, so that a later SeekToRow to the row at
    which that batch started is skipped) violates the statement. *)
Theorem C08_rows_multi_column_stale_rowindex_refuted :
  exists N cols ops, layout_ok N cols /\
    run_mrows_indexed_stale cols ops <> run_mspec true (length cols) N ops.
Proof.
  exists 12, [[4; 4; 4]; [5; 7]; [12]], [RSeek 10; RRead 5; RSeek 10; RRead 1].
  split; [split; [discriminate|repeat constructor]|]. vm_compute. discriminate.
Qed.

(** ** multiPages: the page cursor of a column over several row groups

    [mp_locate]: the global row number -> (row group, row within it) of
    multiPages.SeekToRow. *)
Theorem C08_global_row_to_row_group : forall chunks k idx k',
  mp_locate (map total_rows chunks) 0 k = (idx, k') ->
  idx <= length chunks /\ k = mp_offset chunks idx + k' /\
  (idx < length chunks -> k' < total_rows (nth idx chunks [])).
Proof. exact mp_locate_global. Qed.

Theorem C08_multi_pages_refines_position : forall chunks ops,
  Forall positive chunks ->
  run_mpages_indexed chunks ops = run_spec_noindex (concat chunks) ops.
Proof. exact mpages_indexed_refines. Qed.

Theorem C08_multi_pages_noindex_refines_position : forall chunks ops,
  Forall positive chunks ->
  run_mpages_noindex chunks ops = run_spec_noindex (concat chunks) ops.
Proof. exact mpages_noindex_refines. Qed.

(** ** MultiRowGroup over multi row groups (Cursor/Nested.v)

    [t] is an expression of applications of parquet.MultiRowGroup to row groups
    of files, nested to any depth ([rg_wf]: every application has an argument);
    [rg_eval false t] is the value multiRowGroup.init builds.  When it is a
    multi row group, its flattened chunks are the chunks of the files in the
    order of the expression and rowCounts holds the number of rows of each of
    them; the pages of its column then behave as one row position over the
    concatenation of the row groups, for every history. *)
Theorem C08_nested_flattening : forall t ch cnt gs,
  rg_wf t -> rg_eval false t = VMulti ch cnt gs ->
  ch = rg_leaves t /\ cnt = map total_rows ch.
Proof.
  intros t ch cnt gs Hwf E. destruct (nested_flatten t Hwf) as [Hc Ho]. rewrite E in *.
  cbn in Hc, Ho. split; [exact Hc|exact (proj1 Ho)].
Qed.

Theorem C08_nested_multi_pages_refines_position : forall t ch cnt gs ops,
  rg_wf t -> rg_eval false t = VMulti ch cnt gs -> Forall positive (rg_leaves t) ->
  run_nested_indexed t ops = run_spec_noindex (concat (rg_leaves t)) ops.
Proof. exact nested_indexed_refines. Qed.

Theorem C08_nested_multi_pages_noindex_refines_position : forall t ch cnt gs ops,
  rg_wf t -> rg_eval false t = VMulti ch cnt gs -> Forall positive (rg_leaves t) ->
  run_nested_noindex t ops = run_spec_noindex (concat (rg_leaves t)) ops.
Proof. exact nested_noindex_refines. Qed.

(** ** The pages of a column of a file, Column.Pages() (Cursor/ColumnPages.v)

    columnPages keeps one page cursor per row group for the life of the
    reader; [chunks] is the page layout of the chunk of the column in every row
    group.  For every history of ReadPage / SeekToRow, backward seeks out of a
    row group that has been partly read included, the outputs are those of one
    row position over the concatenation of the row groups: SeekToRow rewinds
    every row group after the target. *)
Theorem C08_column_pages_refines_position : forall chunks ops,
  Forall positive chunks ->
  run_cpages_indexed chunks ops = run_spec_noindex (concat chunks) ops.
Proof. exact cpages_indexed_refines. Qed.

Theorem C08_column_pages_noindex_refines_position : forall chunks ops,
  Forall positive chunks ->
  run_cpages_noindex chunks ops = run_spec_noindex (concat chunks) ops.
Proof. exact cpages_noindex_refines. Qed.

(** The seeded defect class: a SeekToRow that leaves the row group that was
    being read where the reads left it does not have the property. *)
Theorem C08_column_pages_upto_last_refuted :
  exists chunks ops, Forall positive chunks /\
    run_cpages_upto_last chunks ops <> run_spec_noindex (concat chunks) ops.
Proof.
  exists [[2; 2]; [3; 3]], [SeekToRow 4; ReadPage; SeekToRow 3; ReadPage; ReadPage].
  split; [repeat constructor|]. vm_compute. discriminate.
Qed.

(** ** Reader / GenericReader / the rows of a multiRowGroup

    [file_ok rg_rows cols]: [cols] gives, for every column, the page layout of
    its chunk in every row group; every chunk has non-empty pages and the
    chunks of row group j have [nth j rg_rows] rows.  For every history of
    ReadRows / Reader.Read / GenericReader.Read / SeekToRow / Reset, seeks
    across row groups, reads spanning a boundary and reads after the end
    included, the outputs are those of one row position over the
    concatenation of the row groups. *)
Theorem C08_rows_multi_row_group : forall rg_rows cols ops,
  file_ok rg_rows cols ->
  run_mgrows_indexed cols ops = run_mspec false (length cols) (list_sum rg_rows) ops.
Proof. exact mgrows_indexed_refines. Qed.

Theorem C08_reader_multi_row_group : forall rg_rows cols ops,
  file_ok rg_rows cols ->
  run_reader_indexed cols ops = run_xspec (length cols) (list_sum rg_rows) ops.
Proof. exact reader_indexed_refines. Qed.

Theorem C08_reader_multi_row_group_noindex : forall rg_rows cols ops,
  file_ok rg_rows cols ->
  run_reader_noindex cols ops = run_xspec (length cols) (list_sum rg_rows) ops.
Proof. exact reader_noindex_refines. Qed.

(** a file with one row group is read through the row group itself *)
Theorem C08_reader_one_row_group : forall N cols ops,
  layout_ok N cols -> 0 < N ->
  run_reader1_indexed cols ops = run_xspec (length cols) N ops.
Proof. exact reader1_indexed_refines. Qed.

Theorem C08_reader_one_row_group_noindex : forall N cols ops,
  layout_ok N cols -> run_reader1_noindex cols ops = run_xspec (length cols) N ops.
Proof. exact reader1_noindex_refines. Qed.

Theorem C08_reader_seek_then_read : forall rg_rows cols h k ns,
  file_ok rg_rows cols ->
  concat (map mout_rows (skipn (S (length h))
    (run_reader_indexed cols (h ++ XSeek k :: map XReadRows ns)))) =
  widen (length cols) (firstn (list_sum ns) (skipn k (seq 0 (list_sum rg_rows)))).
Proof. exact reader_indexed_seek_then_read. Qed.

(** ** parquet.CopyRows as an operation of the histories of a row reader

    Cursor/Copy.v: CopyRows(dst, reader) over a reader without a bulk shortcut
    is ReadRows(42) until io.EOF ([copy_loop], row.go copyRows /
    Writer.ReadRowsFrom); [run_k]: histories of reader operations and copies.
    The copy is defined on the run function of the reader model, so every
    refinement theorem above carries over to histories with copies
    ([C08_copy_histories_*]); and over one row position the copy hands over
    exactly the rows from the position to the end, ends on io.EOF and leaves
    the reader at the end ([C08_copy_hands_over_the_rest*]): the reads that
    follow return no row, a seek back followed by reads returns the rows from
    there.  The readers that take a shortcut (rowBufferRows.WriteRowsTo) have
    no model of their own: they are compared by execution with [run_k] over the
    rowGroupRows model of one-page columns. *)
Theorem C08_copy_histories_rows_multi_column : forall N cols fuel ops,
  layout_ok N cols -> run_mrows_indexed_k cols fuel ops = run_mspec_k true (length cols) N fuel ops.
Proof. exact mrows_indexed_k_refines. Qed.

Theorem C08_copy_histories_rows_multi_column_noindex : forall N cols fuel ops,
  layout_ok N cols -> run_mrows_noindex_k cols fuel ops = run_mspec_k false (length cols) N fuel ops.
Proof. exact mrows_noindex_k_refines. Qed.

Theorem C08_copy_histories_rows_multi_row_group : forall rg_rows cols fuel ops,
  file_ok rg_rows cols ->
  run_mgrows_indexed_k cols fuel ops = run_mspec_k false (length cols) (list_sum rg_rows) fuel ops.
Proof. exact mgrows_indexed_k_refines. Qed.

Theorem C08_copy_histories_reader : forall rg_rows cols fuel ops,
  file_ok rg_rows cols ->
  run_reader_indexed_k cols fuel ops = run_xspec_k (length cols) (list_sum rg_rows) fuel ops.
Proof. exact reader_indexed_k_refines. Qed.

Theorem C08_copy_histories_reader_noindex : forall rg_rows cols fuel ops,
  file_ok rg_rows cols ->
  run_reader_noindex_k cols fuel ops = run_xspec_k (length cols) (list_sum rg_rows) fuel ops.
Proof. exact reader_noindex_k_refines. Qed.

Theorem C08_copy_histories_reader_one_row_group : forall N cols fuel ops,
  layout_ok N cols -> 0 < N ->
  run_reader1_indexed_k cols fuel ops = run_xspec_k (length cols) N fuel ops.
Proof. exact reader1_indexed_k_refines. Qed.

Theorem C08_copy_hands_over_the_rest : forall strict ncols N fuel pre,
  N < copy_batch * fuel ->
  let pos := exec (mspec_step strict ncols N) 0 pre in
  exists pre', copy_loop RRead (run_mspec strict ncols N) fuel pre [] =
                 (pre', MRows (wide ncols (seq pos (N - pos))) true)
               /\ exec (mspec_step strict ncols N) 0 pre' = Nat.max pos N.
Proof. exact mspec_copy. Qed.

Theorem C08_copy_hands_over_the_rest_reader : forall ncols N fuel pre,
  N < copy_batch * fuel ->
  let pos := exec (xspec_step ncols N) 0 pre in
  exists pre', copy_loop XReadRows (run_xspec ncols N) fuel pre [] =
                 (pre', MRows (wide ncols (seq pos (N - pos))) true)
               /\ exec (xspec_step ncols N) 0 pre' = Nat.max pos N.
Proof. exact xspec_copy. Qed.

Print Assumptions C08_copy_histories_rows_multi_column.
Print Assumptions C08_copy_histories_reader.
Print Assumptions C08_copy_hands_over_the_rest.
Print Assumptions C08_copy_hands_over_the_rest_reader.

(** non-vacuity: 10 rows in two columns (pages 4+6 and 10), SeekToRow(6), a
    copy, a read: rows 6..9 are handed over, then nothing is left *)
Example C08_copy_example :
  run_mrows_indexed_k [[4; 6]; [10]] 3 [KOp (RSeek 6); KCopy; KOp (RRead 3)] =
  [MSeekOk; MRows [[6; 6]; [7; 7]; [8; 8]; [9; 9]] true; MRows [] true].
Proof. vm_compute. reflexivity. Qed.

(** ** asyncPages: every interleaving of the consumer and the producer goroutine

    [axstep]: the protocol of Conc/Async.v (channels, version counter) running
    next to a real page cursor.  For every program of ReadPage / SeekToRow
    calls and EVERY schedule: what the calls returned so far is a prefix of
    what the synchronous cursor returns for the program, all of it once the
    consumer has finished; and as long as the consumer has a call to make or to
    finish some step is enabled (no deadlock).  Uses [async_versioned] and
    [async_no_deadlock] of property C15. *)
Theorem C08_async_equals_sync : forall pages calls sched x,
  positive pages -> pages <> [] -> Forall noclose calls ->
  Sem.run (axstep (step_indexed pages)) (axinit init calls) sched = Some x ->
  let sync := run_indexed pages (map op_of_call calls) in
  xouts x = firstn (length (xouts x)) sync /\
  (ax_finished x = true -> xouts x = sync) /\
  (wants (xa x) -> exists l x', axstep (step_indexed pages) x l = Some x').
Proof. exact async_indexed_equals_sync. Qed.

Theorem C08_async_noindex_equals_sync : forall pages calls sched x,
  positive pages -> Forall noclose calls ->
  Sem.run (axstep (step_noindex false pages)) (axinit init calls) sched = Some x ->
  let sync := run_noindex pages (map op_of_call calls) in
  xouts x = firstn (length (xouts x)) sync /\
  (ax_finished x = true -> xouts x = sync) /\
  (wants (xa x) -> exists l x', axstep (step_noindex false pages) x l = Some x').
Proof. exact async_noindex_equals_sync. Qed.

Print Assumptions C08_rows_multi_column.
Print Assumptions C08_rows_multi_column_noindex.
Print Assumptions C08_rows_multi_column_seek_then_read.
Print Assumptions C08_rows_multi_column_stale_rowindex_refuted.
Print Assumptions C08_global_row_to_row_group.
Print Assumptions C08_multi_pages_refines_position.
Print Assumptions C08_multi_pages_noindex_refines_position.
Print Assumptions C08_nested_flattening.
Print Assumptions C08_nested_multi_pages_refines_position.
Print Assumptions C08_nested_multi_pages_noindex_refines_position.
Print Assumptions C08_column_pages_refines_position.
Print Assumptions C08_column_pages_noindex_refines_position.
Print Assumptions C08_column_pages_upto_last_refuted.
Print Assumptions C08_rows_multi_row_group.
Print Assumptions C08_reader_multi_row_group.
Print Assumptions C08_reader_multi_row_group_noindex.
Print Assumptions C08_reader_one_row_group.
Print Assumptions C08_reader_one_row_group_noindex.
Print Assumptions C08_reader_seek_then_read.
Print Assumptions C08_async_equals_sync.
Print Assumptions C08_async_noindex_equals_sync.

(** ** Non-vacuity of the new hypotheses and statements *)

Definition ex_cols : list chunk := [[4; 4; 4]; [5; 7]; [12]; [1; 1; 10]].

Example C08_ex_layout_ok : layout_ok 12 ex_cols.
Proof. split; [discriminate|repeat constructor]. Qed.

(* the final batch comes back with io.EOF; the seek to the row at which it
   started is honoured *)
Example C08_ex_multi_column :
  run_mrows_indexed ex_cols [RRead 3; RSeek 10; RRead 5; RSeek 10; RRead 1; RSeek 6; RRead 2; RReset; RRead 1]
  = [MRows [[0;0;0;0]; [1;1;1;1]; [2;2;2;2]] false; MSeekOk;
     MRows [[10;10;10;10]; [11;11;11;11]] true; MSeekOk; MRows [[10;10;10;10]] false; MSeekOk;
     MRows [[6;6;6;6]; [7;7;7;7]] false; MDone; MRows [[0;0;0;0]] false].
Proof. vm_compute. reflexivity. Qed.

Example C08_ex_multi_column_stale :
  run_mrows_indexed_stale ex_cols [RSeek 10; RRead 5; RSeek 10; RRead 1]
  = [MSeekOk; MRows [[10;10;10;10]; [11;11;11;11]] true; MSeekOk; MRows [] true].
Proof. vm_compute. reflexivity. Qed.

(* two columns, three row groups of 8, 6 and 3 rows *)
Definition ex_file : list (list chunk) := [[[4; 4]; [3; 3]; [3]]; [[8]; [1; 5]; [2; 1]]].

Example C08_ex_file_ok : file_ok [8; 6; 3] ex_file.
Proof. split; [discriminate|repeat constructor]. Qed.

Example C08_ex_multi_pages :
  run_mpages_indexed [[4; 4]; [3; 3]; [3]]
    [ReadPage; ReadPage; ReadPage; SeekToRow 15; ReadPage; ReadPage; SeekToRow 9; ReadPage; SeekToRow 40; ReadPage]
  = [Rows 0 4; Rows 4 4; Rows 8 3; SeekOk; Rows 15 2; EOF; SeekOk; Rows 9 2; SeekOk; EOF].
Proof. vm_compute. reflexivity. Qed.

(* Column.Pages(): a backward seek out of the second row group after one of its
   pages was read, a seek to the last row of a row group, a seek to the number
   of rows of the first row group (it stops at the end of that row group) *)
Example C08_ex_column_pages :
  run_cpages_indexed [[4; 4]; [3; 3]; [3]]
    [SeekToRow 8; ReadPage; SeekToRow 7; ReadPage; ReadPage; ReadPage; SeekToRow 8; ReadPage; SeekToRow 40; ReadPage; SeekToRow 0; ReadPage]
  = [SeekOk; Rows 8 3; SeekOk; Rows 7 1; Rows 8 3; Rows 11 3; SeekOk; Rows 8 3; SeekOk; EOF; SeekOk; Rows 0 4].
Proof. vm_compute. reflexivity. Qed.

Example C08_ex_column_pages_upto_last :
  run_cpages_upto_last [[4; 4]; [3; 3]; [3]] [SeekToRow 8; ReadPage; SeekToRow 7; ReadPage; ReadPage]
  = [SeekOk; Rows 8 3; SeekOk; Rows 7 1; Rows 11 3].
Proof. vm_compute. reflexivity. Qed.

(* four row groups of 3, 4, 2 and 5 rows combined three levels deep: the
   flattened chunks and their row counts, and a history with a seek to every
   row group boundary; had init taken the row counts from the row groups of the
   nested multi row group ([rg_eval true], counts 7, 2, 5 for four chunks), the
   seeks would land in the wrong chunk *)
Definition ex_nest : rgtree :=
  RGNode [RGNode [RGNode [RGLeaf [2; 1]; RGLeaf [4]]; RGLeaf [1; 1]]; RGLeaf [3; 2]].

Example C08_ex_nested_wf : rg_wf ex_nest /\ Forall positive (rg_leaves ex_nest).
Proof. split; [cbn; repeat split; discriminate|repeat constructor]. Qed.

Example C08_ex_nested_value :
  exists gs, rg_eval false ex_nest = VMulti [[2; 1]; [4]; [1; 1]; [3; 2]] [3; 4; 2; 5] gs.
Proof. eexists. vm_compute. reflexivity. Qed.

Example C08_ex_nested_run :
  run_nested_indexed ex_nest [SeekToRow 3; ReadPage; SeekToRow 7; ReadPage; SeekToRow 10; ReadPage; SeekToRow 14; ReadPage]
  = [SeekOk; Rows 3 4; SeekOk; Rows 7 1; SeekOk; Rows 10 2; SeekOk; EOF].
Proof. vm_compute. reflexivity. Qed.

Example C08_ex_nested_children_counts_differ :
  (exists gs, rg_eval true ex_nest = VMulti [[2; 1]; [4]; [1; 1]; [3; 2]] [7; 2; 5] gs) /\
  run_nested_children_counts ex_nest [SeekToRow 7; ReadPage] = [SeekOk; Rows 3 4].
Proof. split; [eexists|]; vm_compute; reflexivity. Qed.

Example C08_ex_locate : mp_locate (map total_rows [[4; 4]; [3; 3]; [3]]) 0 15 = (2, 1).
Proof. vm_compute. reflexivity. Qed.

(* a read spanning two boundaries, a seek into the last row group, Read after
   the end, a backward seek across a boundary *)
Example C08_ex_reader :
  run_reader_indexed ex_file
    [XReadRows 3; XRead1; XSeek 7; XGRead 8; XSeek 15; XReadRows 5; XRead1; XSeek 7; XRead1; XReset; XReadRows 1]
  = [MRows [[0;0]; [1;1]; [2;2]] false; MRows [[3;3]] false; MSeekOk;
     MRows [[7;7]; [8;8]; [9;9]; [10;10]; [11;11]; [12;12]; [13;13]; [14;14]] false; MSeekOk;
     MRows [[15;15]; [16;16]] true; MRows [] true; MSeekOk; MRows [[7;7]] false; MDone;
     MRows [[0;0]] false].
Proof. vm_compute. reflexivity. Qed.

(* a complete schedule of the two goroutines for the history that exhibited
   the repaired defect, found by the executable scheduler *)
Definition ex_calls : list cop := [CRead; CSeek 21; CSeek 2; CRead; CRead].
Definition ex_sched : list alabel :=
  snd (ax_sched (step_indexed ex_pages)
         [3;1;4;1;5;9;2;6;5;3;5;8;9;7;9;3;2;3;8;4;6;2;6;4;3;3;8;3;2;7;9;5;0;2;8;8;4;1;9;7;1;6;9;3;9;9;3;7;5;1;0;5;8;2;0;9;7;4;9;4]
         (axinit init ex_calls)).

Example C08_ex_async :
  exists x, Sem.run (axstep (step_indexed ex_pages)) (axinit init ex_calls) ex_sched = Some x /\
            ax_finished x = true /\
            xouts x = [Rows 0 4; SeekOk; SeekOk; Rows 2 2; Rows 4 4] /\
            xouts x = run_indexed ex_pages (map op_of_call ex_calls).
Proof. vm_compute. eexists. repeat split. Qed.

Example C08_ex_noclose : Forall noclose ex_calls.
Proof. repeat constructor; discriminate. Qed.

(** ** Readers that seek forward only (Cursor/Forward.v)

    forwardRowSeeker (ConvertRowReader), mergedRowGroupRows and
    concatenatingRowsWrapper (the Rows() of the row groups MergeRowGroups
    returns) satisfy SeekToRow by reading rows of the reader underneath and
    dropping them: inside ReadRows, skipping whole batches and the head of the
    batch the target lies in (forwardRowSeeker), in a loop in front of the read
    (mergedRowGroupRows), or at once in SeekToRow, 64 rows at a time
    (concatenatingRowsWrapper).  For EVERY number of rows, EVERY policy of the
    reader underneath (the c-th call returns at most [pol c] rows; io.EOF with
    the last rows or after them) and EVERY finite history of ReadRows(n) and
    SeekToRow(k), the outputs are [sound]: every batch starts at the row
    position (the target of the last successful seek plus the rows read since)
    and stays within the rows, a read of n > 0 rows returns rows unless the
    position is at or past the end, io.EOF only comes with or after the last
    row, a seek is only refused when it goes backward, and only fails with
    io.EOF when its target is the end or beyond. *)
Theorem C08_forward_row_seeker_sound : forall N eofl pol ops,
  sound N 0 ops (run_fws N eofl pol ops).
Proof. exact fws_sound. Qed.

Theorem C08_merged_rows_sound : forall N eofl pol ops,
  sound N 0 ops (run_lz N eofl pol ops).
Proof. exact lz_sound. Qed.

Theorem C08_concatenating_rows_sound : forall N eofl pol ops,
  sound N 0 ops (run_eg N eofl pol ops).
Proof. exact eg_sound. Qed.

(** The statement in the words of the property: after any history, a seek to
    k that succeeds followed by a read that returns rows returns rows from k
    on. *)
Theorem C08_forward_seek_then_read : forall N ops outs pos k n f c e,
  sound N pos (ops ++ [FSeek k; FRead n]) (outs ++ [FSeekOk; FRows f c e]) ->
  length ops = length outs ->
  0 < c -> f = k /\ k + c <= N.
Proof. exact sound_app_seek_read. Qed.

(** mergedRowGroupRows.ReadRows with one conditional read in place of the
    loop drops at most one batch: a seek farther than the next batch is not
    honoured. *)
Theorem C08_merged_rows_drop_once_refuted :
  ~ sound 10 0 [FSeek 5; FRead 2] (run_lz_once 10 false (fun _ => 0) [FSeek 5; FRead 2]).
Proof. exact lz_once_refuted. Qed.

Print Assumptions C08_forward_row_seeker_sound.
Print Assumptions C08_merged_rows_sound.
Print Assumptions C08_concatenating_rows_sound.
Print Assumptions C08_forward_seek_then_read.
Print Assumptions C08_merged_rows_drop_once_refuted.

(* 10 rows, batches cut to 4, 1, 3, 4, 1, ... rows, io.EOF with the last rows:
   a seek into the second batch, a refused seek backward, a seek accepted
   because the rows before it were only skipped, a seek beyond the end *)
Example C08_ex_forward_row_seeker :
  run_fws 10 true (cycle [4; 1; 3]) [FSeek 5; FRead 8; FSeek 2; FRead 1; FSeek 9; FSeek 8; FRead 3; FSeek 12; FRead 1]
  = [FSeekOk; FRows 5 3 false; FRefused; FRows 8 1 false; FSeekOk; FRefused; FRows 9 1 true; FSeekOk; FRows 10 0 true].
Proof. vm_compute. reflexivity. Qed.

Example C08_ex_merged_rows :
  run_lz 10 false (cycle [4; 1; 3]) [FSeek 7; FSeek 5; FRead 2; FRead 8; FSeek 12; FRead 1] =
  [FSeekOk; FSeekOk; FRows 5 2 false; FRows 7 1 false; FSeekOk; FRows 0 0 true] /\
  run_lz_once 10 false (fun _ => 0) [FSeek 5; FRead 2] = [FSeekOk; FRows 2 2 false].
Proof. split; vm_compute; reflexivity. Qed.

Example C08_ex_concatenating_rows :
  run_eg 10 true (fun _ => 0) [FRead 2; FSeek 1; FSeek 6; FRead 8; FSeek 10; FSeek 12] =
  [FRows 0 2 false; FRefused; FSeekOk; FRows 6 4 true; FSeekOk; FSeekEOF].
Proof. vm_compute. reflexivity. Qed.

(** ** The row window of the columnar variant reader (Cursor/VariantLeaves.v)

    VariantReader keeps one row offset for all cursors; the page reader of a
    leaf column is opened the first time a cursor that needs it takes part in
    Next, and SeekToRow is recorded per open leaf and applied at its next
    window.  For EVERY number of leaf columns, EVERY number of rows and EVERY
    finite history of cursor creations, Next(n) and SeekToRow(k), the windows
    are those of one row offset and every leaf that is read delivers the rows
    of the window, wherever in the history its cursor was created (before the
    first Next, after reads, between a SeekToRow and the next Next). *)
Theorem C08_variant_window_refines_offset : forall nleaves N ops,
  run_variant nleaves N ops = run_vspec nleaves N ops.
Proof. exact variant_refines. Qed.

(** Had SeekToRow marked the leaves that are not open yet and open() not
    positioned the page reader at the offset of the reader, a leaf whose
    cursor is created after the reader advanced would read from row 0. *)
Theorem C08_variant_late_leaf_seeded_refuted :
  run_variant_seeded 2 20 [VCreate 0; VNext 10; VCreate 1; VNext 5]
  <> run_vspec 2 20 [VCreate 0; VNext 10; VCreate 1; VNext 5].
Proof. exact variant_seeded_refuted. Qed.

Print Assumptions C08_variant_window_refines_offset.
Print Assumptions C08_variant_late_leaf_seeded_refuted.

(* a cursor created after a Next, another between SeekToRow and Next, a seek
   beyond the rows, the end of the rows *)
Example C08_ex_variant :
  run_variant 3 20 [VCreate 0; VNext 8; VCreate 1; VNext 4; VSeek 15; VCreate 2; VNext 9; VNext 1; VSeek 21; VSeek 3; VNext 2]
  = [VDone; VWindow 0 8 [Some 0; None; None]; VDone; VWindow 8 4 [Some 8; Some 8; None]; VSeekOk; VDone;
     VWindow 15 5 [Some 15; Some 15; Some 15]; VEOF; VOutOfRange; VSeekOk; VWindow 3 2 [Some 3; Some 3; Some 3]].
Proof. vm_compute. reflexivity. Qed.

Example C08_ex_variant_seeded :
  run_variant_seeded 2 20 [VCreate 0; VNext 10; VCreate 1; VNext 5]
  = [VDone; VWindow 0 10 [Some 0; None]; VDone; VWindow 10 5 [Some 10; Some 0]].
Proof. vm_compute. reflexivity. Qed.
