(** C08 — seeking to a row then reading equals skipping to that row
    sequentially.  Statements only; proofs are in Cursor/Proofs.v and
    Cursor/Rows.v.

    The theorems are about the executable model of the page cursor
    (Cursor/Model.v: FilePages.ReadPage / SeekToRow with and without an offset
    index, rowGroupRows.ReadRows / SeekToRow / Reset on top), for EVERY chunk
    layout with non-empty pages and EVERY finite history.  The abstract
    specification (Cursor/Spec.v) is a single row position. *)
From Coq Require Import List Arith Bool Lia.
From PQ Require Import Cursor.Model Cursor.Spec Cursor.Proofs Cursor.Rows.
Import ListNotations.

(** ** Page cursor with an offset index *)

Theorem C08_cursor_refines_position : forall pages ops,
  positive pages -> run_indexed pages ops = run_spec pages ops.
Proof. exact indexed_refines. Qed.

(** After SeekToRow k, whatever happened before, the pages returned by the
    following reads hold exactly the rows k, k+1, ... : a prefix of the rows of
    the chunk from k on, all of them once io.EOF is returned; every returned
    page is non-empty. *)
Theorem C08_seek_then_read_rows_from_k : forall pages h k m,
  positive pages ->
  let after := skipn (S (length h)) (run_indexed pages (h ++ SeekToRow k :: repeat ReadPage m)) in
  let rows := concat (map out_rows after) in
  rows = firstn (length rows) (skipn k (seq 0 (total_rows pages))) /\
  (In EOF after -> rows = skipn k (seq 0 (total_rows pages))) /\
  Forall good_out after.
Proof. exact indexed_seek_then_read. Qed.

(** The same, stated against a fresh cursor that reads the chunk sequentially
    to the end and drops the first k rows. *)
Theorem C08_seek_then_read_equals_sequential_skip : forall pages h k m m',
  positive pages ->
  let after := skipn (S (length h)) (run_indexed pages (h ++ SeekToRow k :: repeat ReadPage m)) in
  let fresh := run_indexed pages (repeat ReadPage m') in
  In EOF fresh ->
  let rows := concat (map out_rows after) in
  rows = firstn (length rows) (skipn k (concat (map out_rows fresh))) /\
  (In EOF after -> rows = skipn k (concat (map out_rows fresh))).
Proof. exact indexed_seek_equals_sequential_skip. Qed.

Theorem C08_sequential_read_returns_all_rows : forall pages m,
  positive pages ->
  let outs := run_indexed pages (repeat ReadPage m) in
  let rows := concat (map out_rows outs) in
  rows = firstn (length rows) (seq 0 (total_rows pages)) /\
  (In EOF outs -> rows = seq 0 (total_rows pages)).
Proof. exact indexed_sequential. Qed.

(** ** Page cursor without an offset index (with or without dictionary page) *)

Theorem C08_cursor_noindex_refines_position : forall pages ops,
  positive pages -> run_noindex pages ops = run_spec_noindex pages ops.
Proof. exact noindex_refines. Qed.

Theorem C08_noindex_seek_then_read_rows_from_k : forall pages h k m,
  positive pages ->
  let after := skipn (S (length h)) (run_noindex pages (h ++ SeekToRow k :: repeat ReadPage m)) in
  let rows := concat (map out_rows after) in
  rows = firstn (length rows) (skipn k (seq 0 (total_rows pages))) /\
  (In EOF after -> rows = skipn k (seq 0 (total_rows pages))) /\
  Forall good_out after.
Proof. exact noindex_seek_then_read. Qed.

(** ** Offset index loaded in the middle of a history (SkipPageIndex)

    Every chunk, with or without a dictionary page: the index-less seek leaves
    the page counter at the first data page (file.go:1565-1568). *)
Theorem C08_lazy_index_refines_position : forall pages ops,
  positive pages -> run_lazy pages ops = run_spec_lazy pages ops.
Proof. exact lazy_refines. Qed.

(** ** Batch row reader (one column) over either cursor: every history of
    ReadRows (any batch sizes), SeekToRow and Reset *)

Theorem C08_rows_reader_refines_position : forall pages ops,
  positive pages -> run_rows_indexed pages ops = run_rspec true pages ops.
Proof. exact rows_indexed_refines. Qed.

Theorem C08_rows_reader_noindex_refines_position : forall pages ops,
  positive pages -> run_rows_noindex pages ops = run_rspec false pages ops.
Proof. exact rows_noindex_refines. Qed.

(** After SeekToRow k, reads of any batch sizes n1, n2, ... return exactly the
    first n1 + n2 + ... rows of the chunk from k on. *)
Theorem C08_rows_reader_seek_then_read : forall pages h k ns,
  positive pages ->
  concat (map rout_rows (skipn (S (length h))
    (run_rows_indexed pages (h ++ RSeek k :: map RRead ns)))) =
  firstn (list_sum ns) (skipn k (seq 0 (total_rows pages))).
Proof. exact rows_indexed_seek_then_read. Qed.

Theorem C08_rows_reader_noindex_seek_then_read : forall pages h k ns,
  positive pages ->
  concat (map rout_rows (skipn (S (length h))
    (run_rows_noindex pages (h ++ RSeek k :: map RRead ns)))) =
  firstn (list_sum ns) (skipn k (seq 0 (total_rows pages))).
Proof. exact rows_noindex_seek_then_read. Qed.

Print Assumptions C08_cursor_refines_position.
Print Assumptions C08_seek_then_read_rows_from_k.
Print Assumptions C08_seek_then_read_equals_sequential_skip.
Print Assumptions C08_sequential_read_returns_all_rows.
Print Assumptions C08_cursor_noindex_refines_position.
Print Assumptions C08_noindex_seek_then_read_rows_from_k.
Print Assumptions C08_lazy_index_refines_position.
Print Assumptions C08_rows_reader_refines_position.
Print Assumptions C08_rows_reader_noindex_refines_position.
Print Assumptions C08_rows_reader_seek_then_read.
Print Assumptions C08_rows_reader_noindex_seek_then_read.

(** ** Non-vacuity: a concrete layout and history *)

Definition ex_pages : chunk := [4; 4; 4; 4; 4; 4; 4].
Definition ex_history : list op := [ReadPage; SeekToRow 21; SeekToRow 2; ReadPage; ReadPage].

Example C08_ex_positive : positive ex_pages.
Proof. repeat constructor. Qed.

Example C08_ex_run :
  run_indexed ex_pages ex_history = [Rows 0 4; SeekOk; SeekOk; Rows 2 2; Rows 4 4].
Proof. vm_compute. reflexivity. Qed.

Example C08_ex_spec : run_spec ex_pages ex_history = run_indexed ex_pages ex_history.
Proof. vm_compute. reflexivity. Qed.

(** seeks at, and beyond, the end succeed and the reads return io.EOF; a
    backward seek afterwards works *)
Example C08_ex_end :
  run_indexed ex_pages [SeekToRow 28; ReadPage; SeekToRow 40; ReadPage; ReadPage; SeekToRow 27; ReadPage; ReadPage]
  = [SeekOk; EOF; SeekOk; EOF; EOF; SeekOk; Rows 27 1; EOF].
Proof. vm_compute. reflexivity. Qed.

(** a chunk without pages rejects every row but 0 *)
Example C08_ex_empty :
  run_indexed [] [SeekToRow 0; ReadPage; SeekToRow 1] = [SeekOk; EOF; OutOfRange].
Proof. vm_compute. reflexivity. Qed.

Example C08_ex_rows :
  run_rows_indexed ex_pages [RRead 3; RSeek 26; RRead 5; RSeek 6; RRead 3]
  = [RRows [0; 1; 2] false; RSeekOk; RRows [26; 27] true; RSeekOk; RRows [6; 7; 8] false].
Proof. vm_compute. reflexivity. Qed.

Example C08_ex_after_eof : In EOF (run_indexed ex_pages (repeat ReadPage 8)).
Proof. vm_compute. tauto. Qed.

(** ** The pinned tree (before b7bb510) refutes the property

    The faithful model of the old SeekToRow (the cached page is served again
    whenever the target is the last returned page, a pending re-serve is never
    cancelled) returns page 5 instead of page 1 on the history
    ReadPage; SeekToRow(row in page 5); SeekToRow(2); ReadPage; ReadPage. *)
Theorem C08_pinned_refuted :
  exists pages ops, positive pages /\ run_pinned pages ops <> run_spec pages ops.
Proof.
  exists ex_pages, ex_history. split; [exact C08_ex_positive|]. vm_compute. discriminate.
Qed.

Example C08_pinned_run :
  run_pinned ex_pages ex_history = [Rows 0 4; SeekOk; SeekOk; Rows 2 2; Rows 20 4].
Proof. vm_compute. reflexivity. Qed.

(** Before 5c1fea6 the index-less seek restarted f.index at 1 on a chunk with
    a dictionary page while the stream was at data page 0; once the offset
    index was loaded the "already positioned at the target page" shortcut
    believed it.  The faithful model of that code violates the statement. *)
Theorem C08_lazy_index_dictionary_pinned_refuted :
  exists pages ops, positive pages /\ run_lazy_pinned true pages ops <> run_spec_lazy pages ops.
Proof.
  exists [4; 4; 4], [Op (SeekToRow 0); LoadIndex; Op (SeekToRow 4); Op ReadPage].
  split; [repeat constructor|]. vm_compute. discriminate.
Qed.

(** Before 3b258db rowGroupRows.Reset rewound the columns but kept r.rowIndex,
    so a SeekToRow to the row the reader was at before the Reset was skipped. *)
Theorem C08_rows_reader_reset_pinned_refuted :
  exists pages ops, positive pages /\ run_rows_indexed_pinned pages ops <> run_rspec true pages ops.
Proof.
  exists [4; 4; 4], [RRead 5; RReset; RSeek 5; RRead 2].
  split; [repeat constructor|]. vm_compute. discriminate.
Qed.

(** the same histories on the current code *)
Example C08_ex_lazy_dictionary :
  run_lazy [4; 4; 4] [Op (SeekToRow 0); LoadIndex; Op (SeekToRow 4); Op ReadPage]
  = [SeekOk; Done; SeekOk; Rows 4 4].
Proof. vm_compute. reflexivity. Qed.

Example C08_ex_reset :
  run_rows_indexed [4; 4; 4] [RRead 5; RReset; RSeek 5; RRead 2]
  = [RRows [0; 1; 2; 3; 4] false; RDone; RSeekOk; RRows [5; 6] false].
Proof. vm_compute. reflexivity. Qed.

Print Assumptions C08_pinned_refuted.
Print Assumptions C08_lazy_index_dictionary_pinned_refuted.
Print Assumptions C08_rows_reader_reset_pinned_refuted.
