(** C20 — compression codecs are lossless whatever was compressed before.
    Statements only; proofs are in Codec/Proofs.v, Codec/DecoderProofs.v,
    Codec/Instance.v.

    WHAT IS PROVED FOR EVERY HISTORY: the pooled wrappers of compress/compress.go
    (and the un-reset pools of compress/zstd) answer the next Encode/Decode call
    exactly as a fresh codec value would, after any sequence of earlier calls
    (valid or failing inputs, any dst buffers, any behaviour of sync.Pool, GC).

    HYPOTHESES-AS-CONTRACT (third-party streams; Section hypotheses below, NOT
    proved, validated only by the differential runs of harness/c20):
      Hr_new_ok Hr_reset_ok Hr_read_ok Hr_reset_fresh   readers: Reset of a usable
          reader makes it observationally fresh whatever it processed before;
          nothing is assumed after a Reset that failed NOR after a Read that
          reported an error (the wrapper drops such readers)
      Hw_new_ok Hw_reset_ok Hw_write_ok Hw_close_ok Hw_reset_fresh   writers
      Hw_enc Hr_dec enc_nonempty     the abstract codec is lossless: a fresh reader
          on [enc x] yields [x]  (C20_roundtrip_after_any_history only)
      Hz_new Hz_keep Hz_stateless    zstd EncodeAll/DecodeAll do not depend on
          what the encoder/decoder object processed before

    The full property also quantifies over the real third-party algorithms and
    over goroutine schedules; those parts are explored by the harness only
    (see [C20_full_statement]). *)
From Coq Require Import List NArith Bool Arith Lia.
From PQ Require Import Codec.Model Codec.Snappy Codec.Lz4 Codec.Proofs Codec.DecoderProofs Codec.Instance.
Import ListNotations.

Section C20.
  Variable R : Type.
  Variable rd_new : bytes -> R * bool.
  Variable rd_reset : R -> option bytes -> R * bool.
  Variable rd_read : R -> nat -> (bytes * rstatus) * R.
  Variable W : Type.
  Variable wr_new : W * bool.
  Variable wr_reset : W -> bool -> W.
  Variable wr_write : W -> bytes -> (bytes * bool) * W.
  Variable wr_close : W -> (bytes * bool) * W.
  Variable fuel : nat.

  Notation step := (step R rd_new rd_reset rd_read W wr_new wr_reset wr_write wr_close fuel).
  Notation run_history := (run_history R rd_new rd_reset rd_read W wr_new wr_reset wr_write wr_close fuel).
  Notation fresh_result := (fresh_result R rd_new rd_reset rd_read W wr_new wr_reset wr_write wr_close fuel).
  Notation init := (init R W).
  Notation wrun := (wrun W wr_write wr_close).
  Notation obs_eq := (obs_eq R rd_read).
  Notation yields := (yields R rd_read).

  (** the growth loop of Decompressor.Decode needs no contract at all: it
      returns exactly dst followed by the chunks the reader handed out, in
      order; and it ends with the data when the reader makes progress *)
  Theorem C20_decode_growth_terminates_and_preserves_prefix :
    (forall f s dst cap out e,
       fst (fst (grow_loop R rd_read f s dst cap)) = Done out e ->
       out = dst ++ concat (snd (grow_loop R rd_read f s dst cap))) /\
    (forall k f s y dst cap,
       yields k s y -> (k <= f)%nat -> (length dst < cap)%nat ->
       fst (fst (grow_loop R rd_read f s dst cap)) = Done (dst ++ y) false).
  Proof. exact (conj (grow_loop_chunks R rd_read) (grow_loop_yields R rd_read)). Qed.

  (** ---- contract of the third-party streams ---- *)
  Variable r_ok : R -> Prop.
  Variable w_ok : W -> Prop.
  Hypothesis Hr_new_ok : forall src, snd (rd_new src) = false -> r_ok (fst (rd_new src)).
  Hypothesis Hr_reset_ok : forall s o, r_ok s -> snd (rd_reset s o) = false -> r_ok (fst (rd_reset s o)).
  Hypothesis Hr_read_ok : forall s n, r_ok s -> snd (fst (rd_read s n)) <> Err -> r_ok (snd (rd_read s n)).
  Hypothesis Hr_reset_fresh : forall s src, r_ok s ->
    snd (rd_reset s (Some src)) = snd (rd_new src) /\
    (snd (rd_new src) = false -> obs_eq (fst (rd_reset s (Some src))) (fst (rd_new src))).
  Hypothesis Hw_new_ok : snd wr_new = false -> w_ok (fst wr_new).
  Hypothesis Hw_reset_ok : forall w b, w_ok w -> w_ok (wr_reset w b).
  Hypothesis Hw_write_ok : forall w src, w_ok w -> w_ok (snd (wr_write w src)).
  Hypothesis Hw_close_ok : forall w, w_ok w -> w_ok (snd (wr_close w)).
  Hypothesis Hw_reset_fresh : forall w out0 src, w_ok w -> snd wr_new = false ->
    fst (wrun (wr_reset w true) out0 src) = fst (wrun (fst wr_new) out0 src).

  (** for EVERY history the next call answers what a fresh codec value answers *)
  Theorem C20_history_independent : forall (h : list event) (ev : event),
    fst (step (run_history init h) ev) = fresh_result (ev_no_pick ev).
  Proof.
    exact (history_independent R rd_new rd_reset rd_read W wr_new wr_reset wr_write wr_close fuel
             r_ok w_ok Hr_new_ok Hr_reset_ok Hr_read_ok Hr_reset_fresh
             Hw_new_ok Hw_reset_ok Hw_write_ok Hw_close_ok Hw_reset_fresh).
  Qed.

  (** the pool invariant behind it: every pooled object is usable *)
  Theorem C20_pool_invariant : forall (h : list event),
    inv R W wr_new r_ok w_ok (run_history init h).
  Proof.
    intros h.
    exact (run_history_inv R rd_new rd_reset rd_read W wr_new wr_reset wr_write wr_close fuel
             r_ok w_ok Hr_new_ok Hr_reset_ok Hr_read_ok Hr_reset_fresh
             Hw_new_ok Hw_reset_ok Hw_write_ok Hw_close_ok Hw_reset_fresh h init
             (inv_init R W wr_new r_ok w_ok)).
  Qed.

  (** the bytes already in dst never reach the output *)
  Theorem C20_dst_contents_irrelevant : forall h pick dst dst' src,
    length dst = length dst' ->
    fst (step (run_history init h) (EvDecode pick dst src)) =
    fst (step (run_history init h) (EvDecode pick dst' src)) /\
    fst (step (run_history init h) (EvEncode pick dst src)) =
    fst (step (run_history init h) (EvEncode pick dst' src)).
  Proof.
    exact (dst_contents_irrelevant R rd_new rd_reset rd_read W wr_new wr_reset wr_write wr_close fuel
             r_ok w_ok Hr_new_ok Hr_reset_ok Hr_read_ok Hr_reset_fresh
             Hw_new_ok Hw_reset_ok Hw_write_ok Hw_close_ok Hw_reset_fresh).
  Qed.

  Section Roundtrip.
    Variable enc : bytes -> bytes.
    Hypothesis Hw_enc : forall x, snd wr_new = false /\ fst (wrun (fst wr_new) [] x) = (enc x, false).
    Hypothesis Hr_dec : forall x, snd (rd_new (enc x)) = false /\
      yields (S (length x)) (fst (rd_new (enc x))) x.
    Hypothesis enc_nonempty : forall x, enc x <> [].

    (** Decode(Encode(x)) = x after any history before each of the two calls *)
    Theorem C20_roundtrip_after_any_history : forall h1 h2 p1 p2 dst1 dst2 x,
      (length x < fuel)%nat ->
      fst (step (run_history init h1) (EvEncode p1 dst1 x)) = Done (enc x) false /\
      fst (step (run_history init h2) (EvDecode p2 dst2 (enc x))) = Done x false.
    Proof.
      exact (roundtrip_after_any_history R rd_new rd_reset rd_read W wr_new wr_reset wr_write wr_close fuel
               r_ok w_ok Hr_new_ok Hr_reset_ok Hr_read_ok Hr_reset_fresh
               Hw_new_ok Hw_reset_ok Hw_write_ok Hw_close_ok Hw_reset_fresh
               enc Hw_enc Hr_dec enc_nonempty).
    Qed.
  End Roundtrip.
End C20.

Print Assumptions C20_decode_growth_terminates_and_preserves_prefix.
Print Assumptions C20_history_independent.
Print Assumptions C20_pool_invariant.
Print Assumptions C20_dst_contents_irrelevant.
Print Assumptions C20_roundtrip_after_any_history.

Section C20Zstd.
  Variable ZS : Type.
  Variable z_new : ZS.
  Variable z_all : ZS -> bytes -> (bytes * bool) * ZS.
  Variable z_ok : ZS -> Prop.
  Hypothesis Hz_new : z_ok z_new.
  Hypothesis Hz_keep : forall z src, z_ok z -> z_ok (snd (z_all z src)).
  Hypothesis Hz_stateless : forall z src, z_ok z -> fst (z_all z src) = fst (z_all z_new src).

  (** compress/zstd: pooled encoders/decoders are not reset; under the
      statelessness contract of EncodeAll/DecodeAll the answer is the fresh one *)
  Theorem C20_zstd_history_independent : forall h pick dst src,
    fst (zstd_call ZS z_new z_all (zstd_history ZS z_new z_all [] h) pick dst src) =
    fst (zstd_call ZS z_new z_all [] None dst src).
  Proof. exact (zstd_history_independent ZS z_new z_all z_ok Hz_new Hz_keep Hz_stateless). Qed.
End C20Zstd.

Print Assumptions C20_zstd_history_independent.

(** ---- LZ4_RAW wrapper loop (compress/lz4/lz4.go Decode, repaired) -------- *)
Local Open Scope N_scope.

(** the loop ends for every input, every dst capacity and every behaviour of
    UncompressBlock; an error is reported only past the 255x bound; the buffer
    never grows beyond twice that bound (or the caller's own capacity) *)
Theorem C20_lz4_retry_terminates : forall ub src_len dst_len,
  lz4_retry (lz4_fuel src_len) ub src_len dst_len <> LzHang.
Proof. exact lz4_retry_terminates. Qed.

Theorem C20_lz4_retry_error_only_past_255x : forall f ub src_len d d',
  lz4_retry f ub src_len d = LzErr d' -> 255 * src_len + 64 < d'.
Proof. exact lz4_retry_err_bound. Qed.

Theorem C20_lz4_retry_allocation_bounded : forall f ub src_len d,
  match lz4_retry f ub src_len d with
  | LzOk _ d' | LzErr d' => d' <= N.max d (2 * (255 * src_len + 64))
  | LzHang => True
  end.
Proof. exact lz4_retry_alloc_bound. Qed.

(** the loop of the pinned tree (before commit a96dcfb) never stops on a
    block that UncompressBlock rejects, whatever the fuel *)
Theorem C20_lz4_pinned_loop_refuted : forall f src_len d,
  lz4_retry_pinned f (fun _ => None) src_len d = LzHang.
Proof. exact lz4_retry_pinned_hangs. Qed.

Print Assumptions C20_lz4_retry_terminates.
Print Assumptions C20_lz4_retry_error_only_past_255x.
Print Assumptions C20_lz4_retry_allocation_bounded.
Print Assumptions C20_lz4_pinned_loop_refuted.

(** ---- the independent format decoders ----------------------------------- *)

(** total (Coq functions); the output has the declared length or the decoder
    reports corruption *)
Theorem C20_snappy_decode_length : forall s x,
  snappy_decode s = Some x -> snappy_declared_len s = Some (N.of_nat (length x)).
Proof. exact snappy_decode_length. Qed.

(** a stream made only of literal elements (what an encoder emits for
    incompressible data) decodes to the input *)
Theorem C20_snappy_literal_roundtrip : forall chunks,
  Forall lit_chunk_ok chunks ->
  N.of_nat (length (concat chunks)) < 4294967296 ->
  snappy_decode (sn_literal_stream chunks) = Some (concat chunks).
Proof. exact snappy_literal_roundtrip. Qed.

Theorem C20_lz4_decode_bounded : forall max_out s x,
  lz4_decode max_out s = Some x -> N.of_nat (length x) <= max_out.
Proof. exact lz4_decode_bounded. Qed.

Theorem C20_lz4_literal_roundtrip : forall x max_out,
  N.of_nat (length x) <= max_out -> lz4_decode max_out (lz4_literal_block x) = Some x.
Proof. exact lz4_literal_roundtrip. Qed.

Theorem C20_lz4_codec_decode_loop_total : forall dst_cap s,
  let src_len := N.of_nat (length s) in
  lz4_retry (lz4_fuel src_len)
    (fun n => match lz4_decode n s with Some x => Some (N.of_nat (length x)) | None => None end)
    src_len (lz4_reserve dst_cap src_len) <> LzHang.
Proof. exact lz4_codec_decode_loop_total. Qed.

Print Assumptions C20_snappy_decode_length.
Print Assumptions C20_snappy_literal_roundtrip.
Print Assumptions C20_lz4_decode_bounded.
Print Assumptions C20_lz4_literal_roundtrip.
Print Assumptions C20_lz4_codec_decode_loop_total.

(** The full property.  [C20_history_independent] + [C20_roundtrip_after_any_history]
    prove it for the MODEL of the wrappers under the stream contract; that the
    real gzip/brotli/zstd/snappy/lz4 implementations meet the contract, and the
    behaviour under concurrent goroutines (sync.Pool hands an object to one
    goroutine at a time), are explored by harness/c20 only. *)
Definition C20_full_statement : Prop :=
  forall (codec : Type) (Encode Decode : codec -> list event -> bytes -> bytes -> outcome)
         (c : codec) (h1 h2 : list event) (dst1 dst2 x : bytes),
    exists y, Encode c h1 dst1 x = Done y false /\ Decode c h2 dst2 y = Done x false.

(** ---- non-vacuity: the magic-byte codec meets every hypothesis ------------ *)
Example C20_ex_contract_satisfiable : forall fuel h ev,
  fst (mg_step fuel (run_history mg_R mg_new mg_reset mg_read mg_W mg_wnew mg_wreset mg_write mg_close fuel (init mg_R mg_W) h) ev) =
  fresh_result mg_R mg_new mg_reset mg_read mg_W mg_wnew mg_wreset mg_write mg_close fuel (ev_no_pick ev).
Proof. exact mg_history_independent. Qed.

Example C20_ex_roundtrip_instance : forall fuel h1 h2 p1 p2 dst1 dst2 x, (length x < fuel)%nat ->
  let run := run_history mg_R mg_new mg_reset mg_read mg_W mg_wnew mg_wreset mg_write mg_close fuel (init mg_R mg_W) in
  fst (mg_step fuel (run h1) (EvEncode p1 dst1 x)) = Done (mg_enc x) false /\
  fst (mg_step fuel (run h2) (EvDecode p2 dst2 (mg_enc x))) = Done x false.
Proof. exact mg_roundtrip. Qed.

Print Assumptions C20_ex_contract_satisfiable.
Print Assumptions C20_ex_roundtrip_instance.

(** a concrete history: encode, a failing decode (bad magic byte: the reader is
    dropped), a decode into a small dst full of garbage served by the pooled
    reader (three doublings), a stream that ends in a Read error (the reader is
    broken although its Reset returns nil: NOT put back, the run was not clean), a
    valid decode right after it, a clean stream after which Reset(nil) fails (NOT
    put back), a valid decode, a GC, a decode with no dst *)
Example C20_ex_history :
  mg_outcomes 100
    [ EvEncode None [] [1; 2; 3];
      EvDecode None [] [31; 9; 8; 7; 6; 5];
      EvDecode (Some 0%nat) [7; 7] [99; 1];
      EvDecode (Some 0%nat) [7; 7] [31; 1; 2; 3; 4; 5; 6; 7; 8; 9];
      EvDecode (Some 0%nat) [] [30; 5; 6];
      EvDecode (Some 0%nat) [7] [31; 4; 4; 4];
      EvDecode (Some 0%nat) [] [29; 8; 8];
      EvDecode (Some 0%nat) [7] [31; 2; 2];
      EvGc true 0%nat;
      EvDecode (Some 3%nat) [] [31; 1; 2; 3] ]
  = [ Done [31; 1; 2; 3] false;
      Done [9; 8; 7; 6; 5] false;
      Done [] true;
      Done [1; 2; 3; 4; 5; 6; 7; 8; 9] false;
      Done [5; 6] true;
      Done [4; 4; 4] false;
      Done [8; 8] false;
      Done [2; 2] false;
      Done [] false;
      Done [1; 2; 3] false ].
Proof. vm_compute. reflexivity. Qed.

(** decoders on hand-made streams: literal + copy with overlap *)
Example C20_ex_snappy : snappy_decode [12; 8; 97; 98; 99; 34; 3; 0] =
  Some [97; 98; 99; 97; 98; 99; 97; 98; 99; 97; 98; 99].
Proof. vm_compute. reflexivity. Qed.

Example C20_ex_snappy_bad_offset : snappy_decode [12; 8; 97; 98; 99; 34; 4; 0] = None.
Proof. vm_compute. reflexivity. Qed.

Example C20_ex_lz4 : lz4_decode 100 [53; 97; 98; 99; 3; 0; 16; 122] =
  Some [97; 98; 99; 97; 98; 99; 97; 98; 99; 97; 98; 99; 122].
Proof. vm_compute. reflexivity. Qed.

Example C20_ex_lz4_short_dst : lz4_decode 12 [53; 97; 98; 99; 3; 0; 16; 122] = None.
Proof. vm_compute. reflexivity. Qed.

(** the repaired wrapper returns an error on a malformed block *)
Example C20_ex_lz4_garbage : lz4_codec_decode 0 [255; 255] = None.
Proof. vm_compute. reflexivity. Qed.
