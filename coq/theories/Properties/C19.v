(** C19 — variant values survive encoding, and shredding never changes them.
    Statements only; proofs are in Variant/EncProofs.v and Variant/ShredProofs.v.

    Objects are unordered sets of named fields (variant.Value.Equal compares
    them so; the encoder sorts fields by name), so "the same value" is
    [canon a = canon b]: equal after listing every object's fields in name
    order.  [C19_canon_reorders_fields] shows [canon] only reorders fields. *)
From Coq Require Import List NArith ZArith Lia Permutation.
From PQ Require Import Base.Bytes Variant.Model Variant.Shred Variant.BaseLemmas
  Variant.EncProofs Variant.ShredProofs Variant.Header Variant.HeaderProofs
  Variant.Navigate Variant.NavigateProofs.
Import ListNotations.
Open Scope N_scope.

(** Encoding round trip.  For every well-formed value tree (integers in range
    of their kind, float bit patterns of their width, decimal scale a byte,
    uuid of 16 bytes, bytes below 256, distinct field names in every object;
    any nesting depth, any string / container sizes) whose encoding fits the
    format (value bytes, dictionary entries and dictionary bytes below 2^32),
    the specification decoder applied to the metadata and value bytes of the
    Go-mirroring encoder returns the value.  Offset sizes 1..4, is_large,
    field-id sizes, short and long strings are covered by the one proof. *)
Theorem C19_decode_encode : forall v meta val,
  wf v -> encodable v -> encode v = (meta, val) -> decode meta val = Some (canon v).
Proof. exact decode_encode. Qed.

(** ... literally [Some v] when the objects of [v] already list their fields in name order *)
Theorem C19_decode_encode_sorted : forall v meta val,
  wf v -> key_sorted v -> encodable v -> encode v = (meta, val) -> decode meta val = Some v.
Proof. exact decode_encode_sorted. Qed.

(** the encoder's state-passing form: a value encoded against any
    duplicate-free dictionary decodes under every extension of the resulting
    dictionary, whatever bytes follow it *)
Theorem C19_decode_encode_in_context : forall v d d' b d'' rest,
  wf v -> NoDup d -> enc_st d v = (d', b) -> lenN b < 2 ^ 32 -> lenN d' < 2 ^ 32 ->
  (exists e, d'' = d' ++ e) ->
  dec (S (length b)) d'' (b ++ rest) = Some (canon v).
Proof.
  intros v d d' b d'' rest Hw ND E Hb Hd He.
  destruct (enc_st_good v Hw d d' b ND E Hb Hd) as (_ & _ & _ & Hok).
  apply Hok; [exact He|lia].
Qed.

Theorem C19_metadata_roundtrip : forall d,
  lenN d < 2 ^ 32 -> lenN (concat d) < 2 ^ 32 ->
  decode_metadata (encode_metadata d) = Some (d, sortedb d).
Proof. exact decode_encode_metadata. Qed.

Theorem C19_canon_reorders_fields : forall v, veq v (canon v).
Proof. exact veq_canon. Qed.

Theorem C19_canon_idempotent : forall v, canon (canon v) = canon v.
Proof. exact canon_idem. Qed.

(** Shredding.  For EVERY shredding schema (primitive typed_value of every
    supported leaf type, lists, objects, nested arbitrarily; field names of a
    group distinct) and every well-formed value, the reader's reconstruction
    of what the writer shredded is present and is the value: fully shredded,
    partially shredded (residual object), not shredded, mismatching. *)
Theorem C19_reconstruct_shred : forall s v, wf_schema s -> wf v ->
  exists v', reconstruct s (shred s v) = Some (Some v') /\ canon v' = canon v.
Proof. exact reconstruct_shred. Qed.

(** The same with the value columns holding variant binary: the writer encodes
    every residual value against the row dictionary (all field names of the
    value, registered as Encode registers them), the reader decodes the
    metadata column and every value column. *)
Theorem C19_reconstruct_shred_bytes : forall s v, wf_schema s -> wf v ->
  lenN (names_st [] v) < 2 ^ 32 -> lenN (concat (names_st [] v)) < 2 ^ 32 ->
  all_resid (fun x => lenN (snd (enc_st (names_st [] v) x)) < 2 ^ 32) (shred s v) ->
  exists v', reconstruct_bytes s (fst (shred_bytes s v)) (snd (shred_bytes s v)) = Some (Some v') /\
             canon v' = canon v.
Proof. exact reconstruct_shred_bytes. Qed.

(** the row dictionary of a shredded write is the dictionary of the unshredded encoding *)
Theorem C19_row_dictionary : forall v, names_st [] v = dict_of v.
Proof. intros v. unfold dict_of. apply names_st_enc. Qed.

(** typed leaves: a value accepted by a typed column reads back as itself *)
Theorem C19_typed_leaf_roundtrip : forall t v p,
  wf_ptype t -> wf v -> to_parquet t v = Some p -> of_parquet t p = Some v.
Proof. exact of_to_parquet. Qed.

(** Typed navigation (the cursors of variant_column_reader.go: Path / Field /
    Elements).  [navigate] is the specification the cursors are compared with:
    it navigates the LOGICAL value of every row (Variant/Navigate.v).  For
    every shredding schema, every well-formed value and every path -- inside
    the shredding schema, outside it, partly inside, through lists -- the
    entries reached in the value the reader reconstructs from what the writer
    shredded are, one by one, the entries reached in the value that was written
    (object fields in name order): navigation cannot tell a shredded column from
    an unshredded one.  [C19_navigate_canon]: navigation does not see the order
    of object fields (first field with the name, names distinct);
    [C19_offsets_canon]: nor do the list offsets. *)
Theorem C19_navigate_shredded : forall s v p r, wf_schema s -> wf v ->
  exists v', reconstruct s (shred s v) = Some (Some v') /\
             navigate p [(r, Some (canon v'))] = map canon_entry (navigate p [(r, Some v)]).
Proof. intros s v p r. exact (navigate_shredded s v p r). Qed.

Theorem C19_navigate_canon : forall p es, Forall wf_entry es ->
  navigate p (map canon_entry es) = map canon_entry (navigate p es).
Proof. exact navigate_canon. Qed.

Theorem C19_offsets_canon : forall es, offsets (map canon_entry es) = offsets es.
Proof. exact offsets_canon. Qed.

(** typed decimal leaves as other writers store them (the library's own writer
    uses 16 bytes only): a DECIMAL column of n <= 16 big-endian two's
    complement bytes -- FIXED_LEN_BYTE_ARRAY(n), or a BYTE_ARRAY value of any
    length that holds the number -- reads back as the decimal16 of that number,
    negative or not (bigEndianToLittleEndian16 sign-extends to 16 bytes) *)
Theorem C19_narrow_decimal_leaf : forall n precision scale z,
  (1 <= n <= 16)%nat -> in_sint (8 * N.of_nat n) z ->
  of_parquet (PTDec D16 precision scale) (PBytes (rev (to_le n (wrapZ (8 * N.of_nat n) z)))) =
  Some (VDec D16 (Z.to_N scale mod 256) z).
Proof. exact of_parquet_narrow_decimal. Qed.

(** Headers as functions of sizes.  Containers of 16 MiB and dictionaries of
    65 536 names are too large for the line protocol of the oracle; for those
    the harness compares Go's header bytes with [array_header] /
    [object_header] / [metadata_header] evaluated on the sizes of the
    children, and Go's payload with the concatenation of the children.  These
    are the prefixes the model encoder (the one of [C19_decode_encode]) emits. *)
Theorem C19_array_header : forall encs,
  build_array encs = array_header (map lenN encs) ++ concat encs.
Proof. exact build_array_header. Qed.

Theorem C19_object_header : forall es : list entry,
  build_object es =
  object_header (map (fun e : entry => N.of_nat (fst (snd e))) es)
                (map (fun e : entry => lenN (snd (snd e))) es)
  ++ concat (map (fun e : entry => snd (snd e)) es).
Proof. exact build_object_header. Qed.

Theorem C19_metadata_header : forall d,
  encode_metadata d = metadata_header (sortedb d) (map lenN d) ++ concat d.
Proof. exact encode_metadata_header. Qed.

Print Assumptions C19_decode_encode.
Print Assumptions C19_decode_encode_sorted.
Print Assumptions C19_decode_encode_in_context.
Print Assumptions C19_metadata_roundtrip.
Print Assumptions C19_canon_reorders_fields.
Print Assumptions C19_canon_idempotent.
Print Assumptions C19_reconstruct_shred.
Print Assumptions C19_reconstruct_shred_bytes.
Print Assumptions C19_row_dictionary.
Print Assumptions C19_typed_leaf_roundtrip.
Print Assumptions C19_navigate_shredded.
Print Assumptions C19_navigate_canon.
Print Assumptions C19_offsets_canon.
Print Assumptions C19_narrow_decimal_leaf.
Print Assumptions C19_array_header.
Print Assumptions C19_object_header.
Print Assumptions C19_metadata_header.

(** * Non-vacuity *)

(* {"b": [-1 (int8), "hi", null, {"z": 1.5 (double)}], "a": {"b": true}, "c": decimal4(123.45)} *)
Definition ex_v : value :=
  VObject [([98], VArray [VInt I8 (-1); VString [104; 105]; VNull;
                          VObject [([122], VFlt F64 4609434218613702656)]]);
           ([97], VObject [([98], VBool true)]);
           ([99], VDec D4 2 12345)].

Ltac nodup := repeat (constructor; [cbn; intuition discriminate|]); constructor.

Example C19_ex_wf : wf ex_v.
Proof.
  cbn. unfold in_sint, wf_bytes. cbn.
  repeat split; try lia; try nodup; repeat constructor; lia.
Qed.

Example C19_ex_encodable : encodable ex_v.
Proof. vm_compute. repeat split; reflexivity. Qed.

(* the bytes variant.Encode produces for this value (checked against /repo) *)
Example C19_ex_bytes : encode ex_v =
  ([1; 4; 0; 1; 2; 3; 4; 98; 122; 97; 99],
   [2; 3; 2; 0; 3; 0; 6; 33; 39; 2; 1; 0; 0; 1; 4;
    3; 4; 0; 2; 5; 6; 20; 12; 255; 9; 104; 105; 0; 2; 1; 1; 0; 9; 28; 0; 0; 0; 0; 0; 0; 248; 63;
    32; 2; 57; 48; 0; 0]).
Proof. vm_compute. reflexivity. Qed.

Example C19_ex_roundtrip : (let '(m, b) := encode ex_v in decode m b) = Some (canon ex_v).
Proof. vm_compute. reflexivity. Qed.

(* boundary sizes: a payload of exactly 255 / 256 bytes switches to 2-byte
   offsets, 256 elements switch to is_large; both decode back *)
Definition ex_payload (n : nat) : value := VArray [VBinary (repeat 7 (n - 5))].
(* decimal(20,2) -123.45 in FIXED_LEN_BYTE_ARRAY(9), as Spark / parquet-java store it; -1 in one byte *)
Example C19_ex_narrow_decimal :
  of_parquet (PTDec D16 20 2) (PBytes [255; 255; 255; 255; 255; 255; 255; 207; 199]) = Some (VDec D16 2 (-12345)%Z)
  /\ of_parquet (PTDec D16 38 0) (PBytes [255]) = Some (VDec D16 0 (-1)%Z)
  /\ rev (to_le 9 (wrapZ 72 (-12345))) = [255; 255; 255; 255; 255; 255; 255; 207; 199].
Proof. repeat split; vm_compute; reflexivity. Qed.

Example C19_ex_offset_threshold :
  hd 0 (snd (encode (ex_payload 255))) = 3 /\ hd 0 (snd (encode (ex_payload 256))) = 3 + 4 * 1 /\
  (let '(m, b) := encode (ex_payload 256) in decode m b) = Some (ex_payload 256).
Proof. vm_compute. repeat split; reflexivity. Qed.

Definition ex_many (n : nat) : value := VArray (repeat VNull n).
Example C19_ex_is_large :
  hd 0 (snd (encode (ex_many 255))) = 3 /\ hd 0 (snd (encode (ex_many 256))) = 3 + 4 * 1 + 16 /\
  (let '(m, b) := encode (ex_many 256) in decode m b) = Some (ex_many 256).
Proof. vm_compute. repeat split; reflexivity. Qed.

(* the offset width thresholds of offsetSizeCode, below / at / above each, and
   the header of an array whose children total 2^24 bytes (two 8 MiB strings
   and a small tail): 4-byte offsets, the last one 0x01000000 *)
Example C19_ex_offset_size_code :
  map offset_size_code [0; 254; 255; 256; 65534; 65535; 65536; 16777214; 16777215; 16777216; 268435455; 268435456; 4294967295]
  = [0; 0; 0; 1; 1; 1; 2; 2; 2; 3; 3; 3; 3].
Proof. vm_compute. reflexivity. Qed.

Example C19_ex_array_header_2p24 :
  array_header [8388613; 8388598; 5] =
  [3 + 4 * 3; 3; 0; 0; 0; 0; 5; 0; 128; 0; 251; 255; 255; 0; 0; 0; 0; 1] /\
  array_header [8388613; 8388597; 5] =
  [3 + 4 * 2; 3; 0; 0; 0; 5; 0; 128; 250; 255; 255; 255; 255; 255].
Proof. vm_compute. split; reflexivity. Qed.

(* a partially shredded object: "a" is typed as an object with an int8 field
   that mismatches (goes to a.value... here b is a bool), "b" as a list of
   strings (elements -1 and null go to the element value column), "c" is not
   in the schema and stays in the residual object *)
Definition ex_s : schema :=
  SObj [([97], SObj [([98], SPrim (PTInt I8))]); ([98], SList (SPrim PTString))].

Example C19_ex_wf_schema : wf_schema ex_s.
Proof. cbn. repeat split; nodup. Qed.

Example C19_ex_shred :
  shred ex_s ex_v =
  FObj (Some (VObject [([99], VDec D4 2 12345)]))
       [FObj None [FNone (Some (VBool true))];
        FList None [FNone (Some (VInt I8 (-1))); FPrim None (PBytes [104; 105]); FNone (Some VNull);
                    FNone (Some (VObject [([122], VFlt F64 4609434218613702656)]))]].
Proof. vm_compute. reflexivity. Qed.

Example C19_ex_reconstruct :
  option_map (option_map canon) (reconstruct ex_s (shred ex_s ex_v)) = Some (Some (canon ex_v)) /\
  (let '(m, f) := shred_bytes ex_s ex_v in
   option_map (option_map canon) (reconstruct_bytes ex_s m f)) = Some (Some (canon ex_v)).
Proof. vm_compute. split; reflexivity. Qed.

(* navigation of ex_v (a partially shredded object under ex_s): $.c is outside
   the shredding schema, $.a.b inside it, $.b[*].z partly inside (the fourth
   element of the list is an object where a string was shredded), $.b[*] gives
   the four elements, $.x nothing *)
Example C19_ex_navigate :
  navigate [StField [99]] [(0, Some ex_v)] = [(0, Some (VDec D4 2 12345))] /\
  navigate [StField [97]; StField [98]] [(0, Some ex_v)] = [(0, Some (VBool true))] /\
  navigate [StField [98]; StElems; StField [122]] [(0, Some ex_v); (1, None)] =
    [(0, None); (0, None); (0, None); (0, Some (VFlt F64 4609434218613702656))] /\
  offsets (navigate [StField [98]] [(0, Some ex_v); (1, None)]) = [0; 4; 4] /\
  navigate [StField [120]] [(0, Some ex_v)] = [(0, None)] /\
  (exists v', reconstruct ex_s (shred ex_s ex_v) = Some (Some v') /\
     navigate [StField [99]] [(0, Some (canon v'))] = [(0, Some (VDec D4 2 12345))]).
Proof.
  repeat split; try (vm_compute; reflexivity).
  eexists. split; vm_compute; reflexivity.
Qed.
