(** C09 — merging sorted row groups (or row readers) yields a sorted, complete,
    per-input-stable sequence; with duplicate dropping exactly one row per
    distinct key remains.  Statements only; the proofs are in Merge/*Proofs.v.

    A row is (key, input, seq); keys are compared by [cmp : K -> K -> Z], whose
    sign is the order (Go: func(Row, Row) int).  [sorted] is
    [StronglySorted (fun a b => cmp (key a) (key b) <= 0)]. *)
From Coq Require Import List ZArith Bool Arith Lia Sorting.Sorted Sorting.Permutation.
From PQ Require Import Merge.Model Merge.Instance Merge.AbstractProofs Merge.RunLengthProofs
  Merge.Merge2Proofs Merge.DedupeProofs Merge.SegmentsProofs Merge.TreeProofs Merge.InstanceProofs
  Merge.Refine Merge.RefineMergeProofs Merge.RefineCutProofs Merge.RefineProofs Merge.ProgressProofs
  Merge.Nested Merge.NestedProofs.
Import ListNotations.
Open Scope Z_scope.

Section C09.
  (* any key type with any comparison that is a total preorder *)
  Variable K : Type.
  Variable cmp : K -> K -> Z.
  Hypothesis cmp_opp : forall a b, cmp a b < 0 <-> cmp b a > 0.
  Hypothesis cmp_trans : forall a b d, cmp a b <= 0 -> cmp b d <= 0 -> cmp a d <= 0.

  Notation row := (row K).
  Notation sorted := (sorted K cmp).

  (** (1) The abstract scheduler.  [sched cmp st out st']: starting from the
      inputs [st] (any number of them), [out] is emitted by repeatedly taking a
      head that compares <= every head, leaving [st'].  Whatever the choices
      among minimal heads, a complete run is sorted, a permutation of the
      inputs, and the rows of input i appear in it exactly as in input i. *)
  Theorem C09_merge_abstract_correct : forall (st : list (list row)) out st',
    sched cmp st out st' -> all_empty K st' ->
    Forall sorted st -> tagged K st ->
    sorted out /\ Permutation (concat st) out /\ forall i, of_input K i out = nth i st [].
  Proof. exact (sched_complete_correct K cmp cmp_opp cmp_trans). Qed.

  (* every prefix of a run: sorted, below everything not yet emitted, and what
     is left of each input is its suffix *)
  Theorem C09_merge_abstract_prefix : forall (st : list (list row)) out st',
    sched cmp st out st' -> Forall sorted st -> tagged K st ->
    sorted out /\
    (forall a b, In a out -> In b (concat st') -> rle K cmp a b) /\
    Permutation (concat st) (out ++ concat st') /\
    (forall i, nth i st [] = of_input K i out ++ nth i st' []) /\
    Forall sorted st' /\ tagged K st' /\ length st' = length st.
  Proof. exact (sched_correct K cmp cmp_opp cmp_trans). Qed.

  Theorem C09_merge_abstract_Sorted : forall (st : list (list row)) out st',
    sched cmp st out st' -> all_empty K st' -> Forall sorted st -> tagged K st ->
    Sorted (rle K cmp) out.
  Proof.
    intros st out st' H1 H2 H3 H4. apply StronglySorted_Sorted.
    exact (proj1 (sched_complete_correct K cmp cmp_opp cmp_trans st out st' H1 H2 H3 H4)).
  Qed.

  (** (2) runLength: on a sorted window the galloping search returns the length
      of the longest prefix whose rows compare <= max against the bound
      (max = 0 in the k-way run mode, max = -1 in the 2-way emitRun). *)
  Theorem C09_runLength_spec : forall (w : list row) bound mx,
    mx = 0 \/ mx = -1 -> sorted w ->
    run_length cmp w bound mx = length (take_while K (fun r => rcmp cmp r bound <=? mx) w).
  Proof. exact (run_length_spec K cmp cmp_opp cmp_trans). Qed.

  (** (3) mergedRowReader2: for every chunking of the two sources ([ch0],
      [ch1]) and every sequence of ReadRows slice lengths ([batches]) the rows
      emitted so far are a run of the abstract scheduler on the two inputs, and
      nothing is left when io.EOF is reported. *)
  Theorem C09_merge2_refines : forall (in0 in1 : list row) ch0 ch1 batches outs eof m',
    sorted in0 -> sorted in1 ->
    merge2 cmp in0 in1 ch0 ch1 batches = (outs, eof, m') ->
    sched cmp [in0; in1] (concat outs) [remaining_opt (m_r0 m'); remaining_opt (m_r1 m')] /\
    (eof = true -> remaining_opt (m_r0 m') = [] /\ remaining_opt (m_r1 m') = []).
  Proof.
    intros in0 in1 ch0 ch1 batches outs eof m' H0 H1 H.
    destruct (merge2_refines K cmp cmp_opp cmp_trans _ _ _ _ _ _ _ _ H0 H1 H) as [R1 R2].
    split; [exact R1|]. intros E. specialize (R2 E). unfold abs2, st2 in R2. now inversion R2.
  Qed.

  Theorem C09_merge2_correct : forall (in0 in1 : list row) ch0 ch1 batches outs m',
    sorted in0 -> sorted in1 ->
    (forall r, In r in0 -> input r = 0%nat) -> (forall r, In r in1 -> input r = 1%nat) ->
    merge2 cmp in0 in1 ch0 ch1 batches = (outs, true, m') ->
    sorted (concat outs) /\ Permutation (in0 ++ in1) (concat outs) /\
    of_input K 0 (concat outs) = in0 /\ of_input K 1 (concat outs) = in1.
  Proof. exact (merge2_correct K cmp cmp_opp cmp_trans). Qed.

  (* when the two heads compare equal, the row of input 0 is emitted first *)
  Theorem C09_merge2_ties_input0_first : forall f room (b0 b1 : buf K) prev streak h0 t0 h1 t1,
    b_win b0 = h0 :: t0 -> b_win b1 = h1 :: t1 -> rcmp cmp h0 h1 = 0 -> (1 <= room)%nat ->
    exists rest, fst (fst (fst (fst (loop2 K cmp (S f) room b0 b1 prev streak)))) = h0 :: rest.
  Proof. exact (loop2_tie_first K cmp). Qed.

  (** (4) The tournament tree of losers.  [Shape k L w hd W]: for the heads
      [hd] (None = exhausted reader) [W] gives the winner of every subtree, the
      stored losers [L] and the overall winner [w] are consistent with it, and
      every game was won by a head that compares <= the loser's.
      [TreeInv k L w hd] = exists W, Shape k L w hd W. *)

  (* established by the initial tournament *)
  Theorem C09_loser_tree_initial : forall (bufs : list (buf K)) leaves,
    length leaves = length bufs ->
    (forall i, (i < length bufs)%nat -> nth i leaves (-1) = lv K (heads K bufs) i) ->
    let r := play_initial K cmp (S (length bufs)) bufs leaves (repeat 0 (length bufs)) 0 in
    TreeInv K cmp (length bufs) (fst r) (snd r) (heads K bufs).
  Proof. exact (play_initial_inv K cmp cmp_opp). Qed.

  (* restored by replayGames after the head of the winner [wn] changed (or the
     winner was exhausted: the walk then starts with the candidate -1) *)
  Theorem C09_loser_tree_replay : forall k L hd W wn,
    Shape K cmp k L (Z.of_nat wn) hd W ->
    forall bufs : list (buf K), length bufs = k ->
    (forall i, i <> wn -> heads K bufs i = hd i) ->
    let r := replay_walk K cmp k bufs L (lv K (heads K bufs) wn) (parent (k + wn)) in
    TreeInv K cmp k (fst r) (snd r) (heads K bufs).
  Proof. exact (replay_walk_inv K cmp cmp_opp). Qed.

  (* tree[0]: the overall winner is a minimal head *)
  Theorem C09_loser_tree_winner_minimal : forall k L w hd W,
    Shape K cmp k L w hd W -> forall i, (i < k)%nat -> ole K cmp (ph K hd w) (hd i).
  Proof. exact (winner_minimal K cmp cmp_opp cmp_trans). Qed.

  (* the runner-up lies on the winner's path: every other reader is dominated
     by a loser stored at a node between the winner's leaf and the root *)
  Theorem C09_loser_tree_runner_up_on_path : forall k L hd W wn,
    Shape K cmp k L (Z.of_nat wn) hd W -> forall i, (i < k)%nat -> i <> wn ->
    exists a, up (parent (k + wn)) a /\ ole K cmp (ph K hd (loser L a)) (hd i) /\ loser L a <> Z.of_nat wn.
  Proof. exact (path_covers K cmp cmp_opp cmp_trans). Qed.

  (* the four statements together: the invariant "the overall winner is a
     minimal head and the runner-up lies on its path" is established by the
     initial tournament and preserved by replayGames *)
  Theorem C09_loser_tree :
    (forall (bufs : list (buf K)) leaves,
       length leaves = length bufs ->
       (forall i, (i < length bufs)%nat -> nth i leaves (-1) = lv K (heads K bufs) i) ->
       let r := play_initial K cmp (S (length bufs)) bufs leaves (repeat 0 (length bufs)) 0 in
       TreeInv K cmp (length bufs) (fst r) (snd r) (heads K bufs)) /\
    (forall k L hd W wn,
       Shape K cmp k L (Z.of_nat wn) hd W ->
       forall bufs : list (buf K), length bufs = k ->
       (forall i, i <> wn -> heads K bufs i = hd i) ->
       let r := replay_walk K cmp k bufs L (lv K (heads K bufs) wn) (parent (k + wn)) in
       TreeInv K cmp k (fst r) (snd r) (heads K bufs)) /\
    (forall k L w hd W,
       Shape K cmp k L w hd W -> forall i, (i < k)%nat -> ole K cmp (ph K hd w) (hd i)) /\
    (forall k L hd W wn,
       Shape K cmp k L (Z.of_nat wn) hd W -> forall i, (i < k)%nat -> i <> wn ->
       exists a, up (parent (k + wn)) a /\ ole K cmp (ph K hd (loser L a)) (hd i) /\ loser L a <> Z.of_nat wn).
  Proof.
    exact (conj C09_loser_tree_initial (conj C09_loser_tree_replay
            (conj C09_loser_tree_winner_minimal C09_loser_tree_runner_up_on_path))).
  Qed.

  (* hence runBound is <= the head of every other reader *)
  Theorem C09_loser_tree_run_bound : forall (m : mk K) hd wn,
    KPre K cmp m hd -> k_winner m = Z.of_nat wn ->
    forall j y, j <> wn -> hd j = Some y -> ole K cmp (run_bound K cmp m) (Some y).
  Proof. exact (run_bound_spec K cmp cmp_opp cmp_trans). Qed.

  (** (5) mergedRowReader: for any number of inputs, every chunking of the
      sources and every sequence of slice lengths, the rows emitted so far are
      a run of the abstract scheduler; nothing is left at io.EOF. *)
  Theorem C09_mergeK_refines : forall (ins : list (list row)) chunks batches outs eof m',
    Forall sorted ins -> mergek cmp ins chunks batches = (outs, eof, m') ->
    sched cmp ins (concat outs) (map remaining (k_bufs m')) /\
    (eof = true -> all_empty K (map remaining (k_bufs m'))).
  Proof. exact (mergek_refines K cmp cmp_opp cmp_trans). Qed.

  Theorem C09_mergeK_correct : forall (ins : list (list row)) chunks batches outs m',
    Forall sorted ins -> tagged K ins -> mergek cmp ins chunks batches = (outs, true, m') ->
    sorted (concat outs) /\ Permutation (concat ins) (concat outs) /\
    forall i, of_input K i (concat outs) = nth i ins [].
  Proof. exact (mergek_correct K cmp cmp_opp cmp_trans). Qed.

  (** (6) Duplicate dropping: over a sorted sequence, however it is cut into
      batches, the kept rows are the first rows of the runs of equal keys
      ([firsts]); they are strictly increasing (one row per key), every key is
      represented, and they are rows of the input in their order. *)
  Theorem C09_dedupe_one_per_key : forall bs : list (list row),
    sorted (concat bs) ->
    let out := concat (dedupe_batches cmp None bs) in
    out = firsts K cmp (concat bs) /\
    StronglySorted (fun a b => rcmp cmp a b < 0) out /\
    (forall x, In x (concat bs) -> exists y, In y out /\ rcmp cmp x y = 0) /\
    subseq K out (concat bs).
  Proof. exact (dedupe_one_per_key K cmp cmp_opp cmp_trans). Qed.

  Theorem C09_dedupe_batch_independent : forall bs : list (list row),
    concat (dedupe_batches cmp None bs) = dedupe_spec cmp (concat bs).
  Proof. exact (dedupe_batches_spec K cmp). Qed.

  (** (7) Segments.  [content rg] are the rows of the row group with range
      [rg]; [merged seg] is what the merge of a segment delivers.  When the
      ranges are true bounds, the segments formed by the sweep over the ranges
      sorted by min (the contract of slices.SortFunc is the hypothesis
      [Permutation rs sorted_rs /\ by_min sorted_rs]) are pairwise ordered, and
      concatenating the merged segments is sorted and complete. *)
  Theorem C09_segments_pairwise_ordered : forall rs : list (range K),
    by_min K cmp rs ->
    concat (segments_sorted cmp rs) = rs /\
    ForallOrdPairs (fun s s' => forall a b, In a s -> In b s' -> cmp (r_max a) (r_min b) < 0)
                   (segments_sorted cmp rs).
  Proof. exact (segments_sorted_spec K cmp cmp_opp cmp_trans). Qed.

  Theorem C09_segments_concat_sorted :
    forall (content : range K -> list row) (merged : list (range K) -> list row) rs sorted_rs,
    Permutation rs sorted_rs -> by_min K cmp sorted_rs ->
    (forall rg r, In rg rs -> In r (content rg) ->
       cmp (r_min rg) (key r) <= 0 /\ cmp (key r) (r_max rg) <= 0) ->
    (forall seg, In seg (segments_sorted cmp sorted_rs) ->
       sorted (merged seg) /\ Permutation (merged seg) (flat_map content seg)) ->
    sorted (flat_map merged (segments_sorted cmp sorted_rs)) /\
    Permutation (flat_map merged (segments_sorted cmp sorted_rs)) (flat_map content rs).
  Proof. exact (segments_concat_sorted K cmp cmp_opp cmp_trans). Qed.

  (* the insertion sort that slices.SortFunc runs on at most 12 elements meets the contract *)
  Theorem C09_sort_ranges_contract : forall rs : list (range K),
    Permutation rs (sort_ranges cmp rs) /\ by_min K cmp (sort_ranges cmp rs).
  Proof. exact (sort_ranges_spec K cmp cmp_opp cmp_trans). Qed.

  (** (8) Refinement of an overlapping segment (merge_refine.go).  [ts] are the
      row groups of the segment in the order of the segment: the rows of each,
      cut at the page boundaries of its first sorting column ([t_pages], any
      layout), its bounds minRow / maxRow and whether its page index supports
      the cut lookups.  [col0 k] is the value of the first sorting column of
      the key [k], ordered by [cmp0]; a strict inequality on it is a strict
      inequality of the keys.  When refineSegment returns a plan -- lone
      stretches of at least [thr] rows sliced off at page boundaries found by
      cutAbove / cutBelow, the regions in between merged -- reading the plan
      (a single part as it is, several parts through the stable merge)
      delivers exactly the rows of the stable merge of the whole segment, in
      the same order: same sequence, ties included (on equal keys the row of
      the row group that comes first in the segment goes first). *)
  Theorem C09_refine_plan_equiv :
    forall (V : Type) (col0 : K -> V) (cmp0 : V -> V -> Z),
    (forall a b, cmp0 a b < 0 <-> cmp0 b a > 0) ->
    (forall a b d, cmp0 a b <= 0 -> cmp0 b d <= 0 -> cmp0 a d <= 0) ->
    (forall a b, cmp0 (col0 a) (col0 b) < 0 -> cmp a b < 0) ->
    forall (thr : nat) (ts : list (target K)) (dk : K) (plan : list piece),
    (forall j, (j < length ts)%nat ->
       let t := tgt K ts dk j in
       sorted (t_rows t) /\ t_rows t <> [] /\
       (forall r, In r (t_rows t) -> cmp (t_min t) (key r) <= 0 /\ cmp (key r) (t_max t) <= 0) /\
       (t_cuts t = true -> Forall (fun pg => pg <> []) (t_pages t))) ->
    refine_segment K cmp V col0 cmp0 true thr ts dk = Some plan ->
    refined_rows K cmp ts dk plan = segment_rows cmp ts.
  Proof.
    intros V col0 cmp0 H1 H2 H3 thr ts dk plan Hok.
    exact (refine_plan_equiv K cmp V col0 cmp0 cmp_opp cmp_trans H1 H2 H3 thr ts dk Hok plan).
  Qed.

  (* the reference merge of the statement above is a merge: a complete run of
     the abstract scheduler of (1) *)
  Theorem C09_stable_merge_is_a_run : forall st : list (list row),
    Forall sorted st -> exists st', sched cmp st (smerge cmp st) st' /\ all_empty K st'.
  Proof. exact (smerge_sched K cmp cmp_opp cmp_trans). Qed.

  (** ... and whatever merge procedure reads the regions -- each [out] of
      [outs] is a complete run of the abstract scheduler on the parts of its
      piece, which is what mergedRowReader2 and mergedRowReader deliver by (3)
      and (5) -- the concatenation of what the plan delivers is a complete run
      of the abstract scheduler on the whole segment; so by (1) it is sorted,
      a permutation of the rows of the segment, and keeps every row group's
      rows in their order. *)
  Theorem C09_refine_plan_any_merge :
    forall (V : Type) (col0 : K -> V) (cmp0 : V -> V -> Z),
    (forall a b, cmp0 a b < 0 <-> cmp0 b a > 0) ->
    (forall a b d, cmp0 a b <= 0 -> cmp0 b d <= 0 -> cmp0 a d <= 0) ->
    (forall a b, cmp0 (col0 a) (col0 b) < 0 -> cmp a b < 0) ->
    forall (thr : nat) (ts : list (target K)) (dk : K) (plan : list piece) (outs : list (list row)),
    (forall j, (j < length ts)%nat ->
       let t := tgt K ts dk j in
       sorted (t_rows t) /\ t_rows t <> [] /\
       (forall r, In r (t_rows t) -> cmp (t_min t) (key r) <= 0 /\ cmp (key r) (t_max t) <= 0) /\
       (t_cuts t = true -> Forall (fun pg => pg <> []) (t_pages t))) ->
    refine_segment K cmp V col0 cmp0 true thr ts dk = Some plan ->
    Forall2 (fun pc out => exists st', sched cmp (map (part_rows K ts dk) pc) out st' /\ all_empty K st') plan outs ->
    (exists st', sched cmp (map (@t_rows K) ts) (concat outs) st' /\ all_empty K st') /\
    (tagged K (map (@t_rows K) ts) ->
       sorted (concat outs) /\ Permutation (concat (map (@t_rows K) ts)) (concat outs) /\
       forall i, of_input K i (concat outs) = nth i (map (@t_rows K) ts) []).
  Proof.
    intros V col0 cmp0 H1 H2 H3 thr ts dk plan outs Hok Hplan Hruns.
    destruct (refine_plan_sched K cmp V col0 cmp0 cmp_opp cmp_trans H1 H2 H3 thr ts dk Hok plan outs Hplan Hruns)
      as [st' [Hrun He]].
    split; [exists st'; split; assumption|]. intros Ht.
    apply (sched_complete_correct K cmp cmp_opp cmp_trans _ _ _ Hrun He); [|exact Ht].
    rewrite Forall_forall. intros l Hl. apply in_map_iff in Hl. destruct Hl as [t [<- Hin]].
    apply In_nth_error in Hin. destruct Hin as [j Hj].
    assert (Hlt : (j < length ts)%nat) by (apply nth_error_Some; congruence).
    destruct (Hok j Hlt) as [Hs _]. unfold tgt in Hs.
    now rewrite (nth_error_nth' _ _ _ (no_target K dk) Hj) in Hs.
  Qed.


  (* any two complete runs of the scheduler on the same inputs -- for instance
     what Go's readers deliver for the refined and for the unrefined plan of a
     segment -- carry equal keys at equal positions: they differ only by the
     order of rows with equal keys *)
  Theorem C09_runs_same_keys : forall (st : list (list row)) out1 st1 out2 st2 i a b,
    Forall sorted st -> tagged K st ->
    sched cmp st out1 st1 -> all_empty K st1 -> sched cmp st out2 st2 -> all_empty K st2 ->
    nth_error out1 i = Some a -> nth_error out2 i = Some b -> cmp (key a) (key b) = 0.
  Proof.
    intros st out1 st1 out2 st2 i a b Hs Ht R1 E1 R2 E2 Ha Hb.
    destruct (sched_complete_correct K cmp cmp_opp cmp_trans _ _ _ R1 E1 Hs Ht) as [S1 [P1 _]].
    destruct (sched_complete_correct K cmp cmp_opp cmp_trans _ _ _ R2 E2 Hs Ht) as [S2 [P2 _]].
    exact (sorted_perm_same_keys K cmp cmp_opp cmp_trans out1 out2 i a b S1 S2
             (Permutation_trans (Permutation_sym P1) P2) Ha Hb).
  Qed.

  (** the cut lookups are conservative for every page layout and whatever page
      sort.Search lands on: all rows at or after cutAbove(k) are strictly above
      [k], all rows before cutBelow(k) strictly below *)
  Theorem C09_cut_lookups_conservative :
    forall (V : Type) (col0 : K -> V) (cmp0 : V -> V -> Z),
    (forall a b, cmp0 a b < 0 <-> cmp0 b a > 0) ->
    (forall a b d, cmp0 a b <= 0 -> cmp0 b d <= 0 -> cmp0 a d <= 0) ->
    (forall a b, cmp0 (col0 a) (col0 b) < 0 -> cmp a b < 0) ->
    forall (t : target K) (k : K), sorted (t_rows t) -> Forall (fun pg => pg <> []) (t_pages t) ->
    (forall r, In r (skipn (cut_above_gen K V col0 cmp0 true t k) (t_rows t)) -> cmp k (key r) < 0) /\
    (forall r, In r (firstn (cut_below K V col0 cmp0 t k) (t_rows t)) -> cmp (key r) k < 0).
  Proof.
    intros V col0 cmp0 H1 H2 H3 t k Hs Hp. split; intros r.
    - exact (cut_above_safe K cmp V col0 cmp0 cmp_opp cmp_trans H1 H2 H3 t Hs Hp k r).
    - exact (cut_below_safe K cmp V col0 cmp0 cmp_opp cmp_trans H1 H2 H3 t Hs Hp k r).
  Qed.

  (** (9) Progress.  The sources honour the RowReader contract (a call with
      room returns a row or io.EOF: [buf_read]); then every ReadRows call with
      room on a merged reader returns at least one row or io.EOF -- for
      mergedRowReader2 in every state, for mergedRowReader after any history
      of calls on sorted inputs -- and with more calls than rows, each with
      room, io.EOF has been reported: the merge terminates. *)
  Theorem C09_merge2_progress : forall (m : m2 K) n out eof m',
    (1 <= n)%nat -> read_rows2 K cmp m n = (out, eof, m') -> out <> [] \/ eof = true.
  Proof. exact (read_rows2_progress K cmp). Qed.

  Theorem C09_merge2_terminates : forall (in0 in1 : list row) ch0 ch1 batches outs eof m',
    sorted in0 -> sorted in1 -> Forall (fun n => (1 <= n)%nat) batches ->
    (length in0 + length in1 < length batches)%nat ->
    merge2 cmp in0 in1 ch0 ch1 batches = (outs, eof, m') -> eof = true.
  Proof. exact (merge2_terminates K cmp cmp_opp cmp_trans). Qed.

  Theorem C09_mergeK_progress : forall (ins : list (list row)) chunks history outs eof m' n out e m'',
    Forall sorted ins -> mergek cmp ins chunks history = (outs, eof, m') ->
    (1 <= n)%nat -> read_rowsk K cmp m' n = (out, e, m'') -> out <> [] \/ e = true.
  Proof. exact (mergek_progress K cmp cmp_opp cmp_trans). Qed.

  Theorem C09_mergeK_terminates : forall (ins : list (list row)) chunks batches outs eof m',
    Forall sorted ins -> Forall (fun n => (1 <= n)%nat) batches ->
    (length (concat ins) < length batches)%nat ->
    mergek cmp ins chunks batches = (outs, eof, m') -> eof = true.
  Proof. exact (mergek_terminates K cmp cmp_opp cmp_trans). Qed.
End C09.

Print Assumptions C09_merge_abstract_correct.
Print Assumptions C09_merge_abstract_prefix.
Print Assumptions C09_merge_abstract_Sorted.
Print Assumptions C09_runLength_spec.
Print Assumptions C09_merge2_refines.
Print Assumptions C09_merge2_correct.
Print Assumptions C09_merge2_ties_input0_first.
Print Assumptions C09_loser_tree_initial.
Print Assumptions C09_loser_tree_replay.
Print Assumptions C09_loser_tree_winner_minimal.
Print Assumptions C09_loser_tree_runner_up_on_path.
Print Assumptions C09_loser_tree.
Print Assumptions C09_loser_tree_run_bound.
Print Assumptions C09_mergeK_refines.
Print Assumptions C09_mergeK_correct.
Print Assumptions C09_dedupe_one_per_key.
Print Assumptions C09_dedupe_batch_independent.
Print Assumptions C09_segments_pairwise_ordered.
Print Assumptions C09_segments_concat_sorted.
Print Assumptions C09_sort_ranges_contract.
Print Assumptions C09_refine_plan_equiv.
Print Assumptions C09_stable_merge_is_a_run.
Print Assumptions C09_refine_plan_any_merge.
Print Assumptions C09_runs_same_keys.
Print Assumptions C09_cut_lookups_conservative.
Print Assumptions C09_merge2_progress.
Print Assumptions C09_merge2_terminates.
Print Assumptions C09_mergeK_progress.
Print Assumptions C09_mergeK_terminates.

(** The comparator the library builds (compareRowsFuncOfColumnValues): tuples
    of optional integers, each column ascending or descending with nulls first
    or last, is a total preorder; so the theorems apply to it. *)
Theorem C09_comparator_total_preorder : forall cfg,
  (forall a b, cmpL cfg a b < 0 <-> cmpL cfg b a > 0) /\
  (forall a b d, cmpL cfg a b <= 0 -> cmpL cfg b d <= 0 -> cmpL cfg a d <= 0).
Proof. intros cfg. split; [exact (cmpL_opp cfg)|exact (cmpL_trans cfg)]. Qed.

Theorem C09_mergeK_correct_keys : forall cfg (ins : list (list keyL)) chunks batches outs m',
  Forall (sorted keyL (cmpL cfg)) (tag_all ins) ->
  tagged keyL (tag_all ins) ->
  mergek (cmpL cfg) (tag_all ins) chunks batches = (outs, true, m') ->
  sorted keyL (cmpL cfg) (concat outs) /\ Permutation (concat (tag_all ins)) (concat outs) /\
  forall i, of_input keyL i (concat outs) = nth i (tag_all ins) [].
Proof.
  intros cfg ins. exact (mergek_correct keyL (cmpL cfg) (cmpL_opp cfg) (cmpL_trans cfg) (tag_all ins)).
Qed.

Print Assumptions C09_comparator_total_preorder.
Print Assumptions C09_mergeK_correct_keys.

(** Non-vacuity: concrete sorted, tagged inputs with duplicate keys within and
    across inputs and a null key; the readers run to io.EOF on them. *)
Definition ex_cfg1 : list colcfg := [(false, false)].
Definition ex_ins : list (list keyL) :=
  [[[Some 1]; [Some 5]; [Some 5]; [None]]; [[Some 2]; [Some 5]]; [[Some 0]; [Some 5]; [Some 9]]].

Example C09_ex_inputs_sorted : Forall (sorted keyL (cmpL ex_cfg1)) (tag_all ex_ins).
Proof.
  unfold tag_all, ex_ins, tag; cbn [tag_all_from].
  constructor; [|constructor; [|constructor; [|constructor]]];
    apply keys_sorted_sorted; apply sortedb_Sorted; reflexivity.
Qed.

Example C09_ex_inputs_tagged : tagged keyL (tag_all ex_ins).
Proof.
  intros [|[|[|i]]] l r E Hr; cbn in E; try (destruct i; discriminate); inversion E; subst; cbn in Hr;
    repeat (destruct Hr as [<-|Hr]; [reflexivity|]); contradiction.
Qed.

Example C09_ex_mergek_runs_to_eof :
  c09_mergek ex_cfg1 [[2%nat]; []; [1%nat; 1%nat]] [2%nat; 3%nat; 2%nat; 64%nat; 1%nat; 1%nat; 1%nat] ex_ins =
  ([[(2, 0)]; [(0, 0); (1, 0); (1, 1)]; [(0, 1)]; [(0, 2); (2, 1)]; [(2, 2)]; [(0, 3)]], true)%nat.
Proof. vm_compute. reflexivity. Qed.

Example C09_ex_merge2_runs_to_eof :
  c09_merge2 ex_cfg1 [] [1%nat] [3%nat; 3%nat; 3%nat; 3%nat] (nth 0 ex_ins []) (nth 1 ex_ins []) =
  ([[(0, 0); (1, 0)]; [(0, 1); (1, 1)]; [(0, 2); (0, 3)]], true)%nat.
Proof. vm_compute. reflexivity. Qed.

(* a run of the abstract scheduler exists on these inputs (the reference merge) *)
Example C09_ex_scheduler_run :
  exists out st', sched (cmpL ex_cfg1) (tag_all ex_ins) out st' /\ all_empty keyL st' /\ length out = 9%nat.
Proof.
  destruct (ref_merge_sched keyL (cmpL ex_cfg1) (cmpL_opp _) (cmpL_trans _) 9 (tag_all ex_ins)) as [st' [H1 H2]];
    [cbn; lia|].
  exists (ref_merge keyL (cmpL ex_cfg1) 9 (tag_all ex_ins)), st'. repeat split; auto.
Qed.

Example C09_ex_dedupe :
  c09_dedupe ex_cfg1 [[[Some 1]; [Some 1]; [Some 2]]; [[Some 2]; [Some 2]]; [[Some 2]; [Some 3]; [None]; [None]]] =
  [[0; 2]; [6; 7]]%nat.
Proof. vm_compute. reflexivity. Qed.

(* ranges that are true bounds: three row groups, two of them touching *)
Example C09_ex_segments :
  c09_segments ex_cfg1 0 [[[Some 1]; [Some 3]]; [[Some 10]; [Some 12]]; [[Some 3]; [Some 4]]; []] =
  [[0; 2]; [1]]%nat.
Proof. vm_compute. reflexivity. Qed.

(** The bounds of the tree before commit 77fc8c6 (first / last non-null page
    only) refute the segment theorem's conclusion on the faithful model of
    that code: the sorted row groups [1,2,null] and [3,4,null] (ascending,
    nulls last) get the "bounds" [1,2] and [3,4] (the null row is above its
    "max": they are not bounds), fall into two segments, and the plan
    concatenates them: 1,2,null,3,4,null is not sorted.  The current code
    reports the bounds as unavailable and merges. *)
Theorem C09_pinned_segments_refuted :
  exists cfg (ins : list (list keyL)),
    Forall (fun l => Sorted (fun a b => cmpL cfg a b <= 0) l) ins /\
    plan_segments true cfg 0 ins = [[0%nat]; [1%nat]] /\
    ~ Sorted (fun a b => cmpL cfg a b <= 0) (map (@key keyL) (plan_rows true cfg 0 64 false ins)) /\
    (exists lo hi, row_group_bounds true cfg 0 (nth 0 ins []) = Some (lo, hi) /\ cmpL cfg [None] hi > 0) /\
    plan_segments false cfg 0 ins = [[0%nat; 1%nat]] /\
    Sorted (fun a b => cmpL cfg a b <= 0) (map (@key keyL) (plan_rows false cfg 0 64 false ins)).
Proof.
  exists ex_cfg, ex_inputs. split; [exact ex_inputs_sorted|].
  split; [exact (proj1 ex_pinned_plan)|]. split; [exact ex_pinned_not_sorted|].
  split; [exists [Some 1], [Some 2]; exact ex_pinned_bounds_wrong|].
  split; [exact (proj1 (proj2 ex_current_plan))|exact (proj2 (proj2 ex_current_plan))].
Qed.

Print Assumptions C09_pinned_segments_refuted.

(** ** Inputs that are themselves merged row groups (Merge/Nested.v)

    A row group whose rows are computed -- the output of an earlier
    MergeRowGroups, a deduplicated row group, a MultiRowGroup -- exposes as
    ColumnChunks() the column chunks of its own inputs one after the other:
    their first and last pages do not bound its first and last rows.  The
    current code (merge.go rowsFollowColumnChunks) reports the bounds of such
    an input as unavailable: whenever one of the non-empty inputs is of that
    kind the plan is a single segment holding every input in argument order,
    merged whole, to which (3) and (5) apply. *)
Theorem C09_computed_input_single_segment : forall (cfg : list colcfg) (xs : list ninput) (x : ninput),
  In x xs -> n_computed x = true -> n_rows x <> [] ->
  nested_segments false cfg xs = [List.seq 0 (length xs)].
Proof. exact nested_one_segment. Qed.

Theorem C09_computed_input_not_refined : forall cfg ins layouts cuts computed,
  some_computed ins computed = true ->
  (length (c09_refine_nested cfg ins layouts cuts computed) <= 1)%nat.
Proof. exact refine_nested_one_piece. Qed.

(** The tree before commit 4f9d711 read the bounds of such an input off the
    pages of its concatenated column chunks.  On the faithful model of that
    code: A = 0..9 and B = 4..5 are merged (rows 0,1,2,3,4,4,5,5,6,7,8,9, the
    column chunks are those of A then B), the result is merged with C = 7..8.
    The pages give the merged input the "bounds" 0..5, C is taken for disjoint
    and the plan concatenates: ...,9,7,8 is not sorted.  The current code
    builds one segment and merges. *)
Theorem C09_pinned_nested_refuted :
  exists cfg (a b c : list keyL),
    Forall (fun l => Sorted (fun x y => cmpL cfg x y <= 0) l) [a; b; c] /\
    let ab := merged_input cfg 64 [a; b] in
    let xs := [ab; (c, None)] in
    Forall (fun x => Sorted (fun x y => cmpL cfg x y <= 0) (n_rows x)) xs /\
    n_computed ab = true /\
    nested_segments true cfg xs = [[0%nat]; [1%nat]] /\
    ~ Sorted (fun x y => cmpL cfg x y <= 0) (map (@key keyL) (nested_rows true cfg 64 xs)) /\
    nested_segments false cfg xs = [[0%nat; 1%nat]] /\
    Sorted (fun x y => cmpL cfg x y <= 0) (map (@key keyL) (nested_rows false cfg 64 xs)).
Proof.
  exists exn_cfg, exn_A, exn_B, exn_C. split; [exact exn_leaves_sorted|]. cbv zeta.
  split; [exact exn_inputs_sorted|]. split; [exact (proj2 exn_AB_rows)|].
  split; [exact (proj1 exn_pinned_plan)|]. split; [exact exn_pinned_not_sorted|].
  split; [exact (proj1 exn_current_plan)|exact (proj1 (proj2 exn_current_plan))].
Qed.

Print Assumptions C09_computed_input_single_segment.
Print Assumptions C09_computed_input_not_refined.
Print Assumptions C09_pinned_nested_refuted.

(** ** Refinement: non-vacuity and the ">=" variant of cutAbove

    Two row groups sorted on two ascending integer columns, pages of two
    rows, threshold 2.  A covers first-column values 1..5 and ends with
    (5,1), (5,9); B starts with four rows of first-column value 5 (two pages
    whose earliest value is 5 = the first column of A's maxRow) and goes on
    to 9.  The plan: A's rows [0,4) as they are, then the merge of A's rows
    [4,6) with B's rows [0,4), then B's rows [4,8) as they are. *)
Definition ex_rcfg : list colcfg := [(false, false); (false, false)].
Definition ex_rA : list keyL :=
  [[Some 1; Some 0]; [Some 2; Some 0]; [Some 3; Some 0]; [Some 4; Some 0]; [Some 5; Some 1]; [Some 5; Some 9]].
Definition ex_rB : list keyL :=
  [[Some 5; Some 0]; [Some 5; Some 2]; [Some 5; Some 3]; [Some 5; Some 4];
   [Some 6; Some 0]; [Some 7; Some 0]; [Some 8; Some 0]; [Some 9; Some 0]].
Definition ex_rts : list (target keyL) :=
  [mkTarget (split_pages [2; 2; 2]%nat (tag 0 ex_rA)) [Some 1; Some 0] [Some 5; Some 9] true;
   mkTarget (split_pages [2; 2; 2; 2]%nat (tag 1 ex_rB)) [Some 5; Some 0] [Some 9; Some 0] true].

Example C09_ex_refine_plan :
  refine_segment keyL (cmpL ex_rcfg) (option Z) col0L (cmp0L ex_rcfg) true 2 ex_rts [] =
  Some [[mkPart 0 0 4]; [mkPart 0 4 2; mkPart 1 0 4]; [mkPart 1 4 4]]%nat.
Proof. vm_compute. reflexivity. Qed.

(* the hypotheses of C09_refine_plan_equiv hold of this segment *)
Example C09_ex_refine_hyps : forall j, (j < length ex_rts)%nat ->
  let t := tgt keyL ex_rts [] j in
  sorted keyL (cmpL ex_rcfg) (t_rows t) /\ t_rows t <> [] /\
  (forall r, In r (t_rows t) -> cmpL ex_rcfg (t_min t) (key r) <= 0 /\ cmpL ex_rcfg (key r) (t_max t) <= 0) /\
  (t_cuts t = true -> Forall (fun pg => pg <> []) (t_pages t)).
Proof.
  intros [|[|j]] Hj; [| |cbn in Hj; lia]; cbn zeta.
  - change (t_rows (tgt keyL ex_rts [] 0)) with (tag 0 ex_rA). split; [|split; [|split]].
    + apply keys_sorted_sorted. apply sortedb_Sorted. reflexivity.
    + discriminate.
    + intros r Hr. cbn in Hr. repeat (destruct Hr as [<-|Hr]; [vm_compute; split; discriminate|]). contradiction.
    + intros _. cbn. repeat (constructor; [discriminate|]). constructor.
  - change (t_rows (tgt keyL ex_rts [] 1)) with (tag 1 ex_rB). split; [|split; [|split]].
    + apply keys_sorted_sorted. apply sortedb_Sorted. reflexivity.
    + discriminate.
    + intros r Hr. cbn in Hr. repeat (destruct Hr as [<-|Hr]; [vm_compute; split; discriminate|]). contradiction.
    + intros _. cbn. repeat (constructor; [discriminate|]). constructor.
Qed.

(* so the plan and the merge of the whole segment deliver the same rows; they are: *)
Example C09_ex_refine_rows :
  refined_rows keyL (cmpL ex_rcfg) ex_rts []
    [[mkPart 0 0 4]; [mkPart 0 4 2; mkPart 1 0 4]; [mkPart 1 4 4]]%nat = segment_rows (cmpL ex_rcfg) ex_rts /\
  ids (segment_rows (cmpL ex_rcfg) ex_rts) =
    [(0, 0); (0, 1); (0, 2); (0, 3); (1, 0); (0, 4); (1, 1); (1, 2); (1, 3); (0, 5); (1, 4); (1, 5); (1, 6); (1, 7)]%nat.
Proof.
  split; [|vm_compute; reflexivity].
  exact (refine_plan_equiv_keys (false, false) [(false, false)] 2 ex_rts _ C09_ex_refine_hyps C09_ex_refine_plan).
Qed.

(** With "orderCompare(earliest(p), kv) >= 0" in cutAbove (the search then
    stops at the first page whose earliest value is at or above the key: a
    page that starts with the boundary value lands above the cut) the same
    segment, which satisfies every hypothesis of C09_refine_plan_equiv, gets
    a plan that slices B off whole behind A's remainder: (5,9) of A is
    delivered before (5,0) of B.  The rows of that plan are not sorted and
    differ from the merge of the segment. *)
Theorem C09_cutabove_ge_refuted :
  exists (ts : list (target keyL)) (plan : list piece),
    (forall j, (j < length ts)%nat ->
       let t := tgt keyL ts [] j in
       sorted keyL (cmpL ex_rcfg) (t_rows t) /\ t_rows t <> [] /\
       (forall r, In r (t_rows t) -> cmpL ex_rcfg (t_min t) (key r) <= 0 /\ cmpL ex_rcfg (key r) (t_max t) <= 0) /\
       (t_cuts t = true -> Forall (fun pg => pg <> []) (t_pages t))) /\
    refine_segment keyL (cmpL ex_rcfg) (option Z) col0L (cmp0L ex_rcfg) false 2 ts [] = Some plan /\
    refined_rows keyL (cmpL ex_rcfg) ts [] plan <> segment_rows (cmpL ex_rcfg) ts /\
    ~ Sorted (fun a b => cmpL ex_rcfg a b <= 0) (map (@key keyL) (refined_rows keyL (cmpL ex_rcfg) ts [] plan)).
Proof.
  exists ex_rts, [[mkPart 0 0 4]; [mkPart 0 4 2]; [mkPart 1 0 8]]%nat.
  split; [exact C09_ex_refine_hyps|]. split; [vm_compute; reflexivity|]. split.
  - vm_compute. discriminate.
  - rewrite <- sortedb_Sorted. vm_compute. discriminate.
Qed.

Print Assumptions C09_ex_refine_rows.
Print Assumptions C09_cutabove_ge_refuted.
